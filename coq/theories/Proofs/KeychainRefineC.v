(* abs after deletes; then: every operation, run without failure, is one step of the specification. *)
From NDN Require Import Base.Prelude Model.Keychain Spec.KeychainSpec.
From NDN Require Import Proofs.KeychainTables Proofs.KeychainHoare Proofs.KeychainInv Proofs.KeychainOutcome
  Proofs.KeychainOutcomeA Proofs.KeychainOutcomeB Proofs.KeychainInvariant Proofs.KeychainAbs Proofs.KeychainCascade
  Proofs.KeychainRecovery Proofs.KeychainRefineLemmas Proofs.KeychainRefineA Proofs.KeychainRefineB.
Local Open Scope N_scope.

(* a default is a member of its scope *)
Lemma defname_listed p l d : scope_defname p l = Some d -> In d (v_iter p l).
Proof.
  unfold scope_defname. destruct (scope_default p l) as [r|] eqn:E; [|discriminate]. cbn. intros H. inversion H; subst.
  apply scope_default_some in E. apply v_iter_in. exists r. tauto.
Qed.

Lemma clear_default_other d n : d <> Some n -> clear_default d n = d.
Proof.
  unfold clear_default. destruct d as [x|]; [|reflexivity]. destruct (name_eqb x n) eqn:E; [|reflexivity].
  apply name_eqb_eq in E. subst. intros H. exfalso. apply H. reflexivity.
Qed.
Lemma skey_remove_absent K cn :
  nget (sk_certs K) cn = None -> sk_defcert K <> Some cn ->
  mkSK (sk_bits K) (ndel (sk_certs K) cn) (clear_default (sk_defcert K) cn) = K.
Proof. destruct K; cbn. intros H1 H2. rewrite ndel_absent by assumption. rewrite clear_default_other by assumption. reflexivity. Qed.
Lemma sident_remove_absent I kn :
  nget (si_keys I) kn = None -> si_defkey I <> Some kn ->
  mkSI (ndel (si_keys I) kn) (clear_default (si_defkey I) kn) = I.
Proof. destruct I; cbn. intros H1 H2. rewrite ndel_absent by assumption. rewrite clear_default_other by assumption. reflexivity. Qed.

(* ---- DELETE FROM certificates WHERE certificate_name=? ---------------------------------------------------------- *)
Lemma abs_delete_cert t tp cn :
  wf_tables t ->
  abs_tables (mkT (t_ids t) (t_keys t) (r_delete_name cn (t_certs t))) tp = s_remove_cert cn (abs_tables t tp).
Proof.
  intros W. set (t' := mkT (t_ids t) (t_keys t) (r_delete_name cn (t_certs t))).
  assert (Hk : forall k, abs_key t' k =
                        mkSK (sk_bits (abs_key t k)) (ndel (sk_certs (abs_key t k)) cn) (clear_default (sk_defcert (abs_key t k)) cn)).
  { intros k. unfold abs_key. cbn [t_certs t' sk_bits sk_certs sk_defcert]. f_equal.
    - apply scope_map_delete_name. apply W.
    - apply scope_defname_delete_name. apply W. }
  (* a key that does not own the certificate keeps its entry *)
  assert (Hfree : forall k, In k (t_keys t) -> r_name k <> drop2 cn -> abs_key t' k = abs_key t k).
  { intros k Hk' Nk. rewrite Hk.
    assert (Hno : ~ In cn (v_iter (r_id k) (t_certs t))).
    { intros Hin. apply v_iter_in in Hin. destruct Hin as [c [Hc [Nc Pc]]].
      destruct (wf_cname _ W _ _ Hc Hk' (eq_sym Pc)) as [Dn _]. apply Nk. rewrite <- Dn, Nc. reflexivity. }
    apply skey_remove_absent.
    - unfold abs_key. cbn [sk_certs]. apply (al_get_none name_eqb name_eqb_eq). rewrite <- (scope_map_names r_val) in Hno. exact Hno.
    - unfold abs_key. cbn [sk_defcert]. intros D. apply Hno. apply defname_listed. assumption. }
  unfold s_remove_cert. destruct (r_find (drop2 cn) (t_keys t)) as [k0|] eqn:F.
  - pose proof (r_find_some _ _ _ F) as [Hk0 Nk0]. rewrite <- Nk0. apply abs_replace_key; auto.
    intros k Hk' Nk. apply Hfree; [assumption|]. intros E. apply Nk. eapply name_inj; [apply (wf_k _ W) | assumption | assumption | congruence].
  - (* no such key: nothing changes on either side *)
    unfold upd_key, upd_ident. pose proof (find_key_none t tp _ F) as Sk. unfold s_key in Sk.
    assert (Hsame : abs_tables t' tp = abs_tables t tp).
    { unfold abs_tables. cbn [t_ids t_keys t']. f_equal. apply scope_map_ext. intros i Hi _.
      unfold abs_ident. cbn [t_keys t']. f_equal. apply scope_map_ext. intros k Hk' _. apply Hfree; [assumption|].
      intros E. apply r_find_none in F. apply F. rewrite <- E. apply in_map. assumption. }
    rewrite Hsame. destruct (s_ident (abs_tables t tp) (drop2 (drop2 cn))) as [i|] eqn:Si; [|reflexivity].
    cbn [obind] in Sk. rewrite Sk. unfold s_ident in Si. rewrite (nset_same _ _ _ Si). destruct (abs_tables t tp); reflexivity.
Qed.

(* ---- del_key: the key row and the certificates in its scope ------------------------------------------------------- *)
Lemma abs_delete_key t tp k0 kn :
  wf_tables t -> In k0 (t_keys t) -> r_name k0 = kn ->
  abs_tables (del_key_db k0 kn t) (ndel tp kn) =
  let a := abs_tables t tp in
  let a' := upd_ident a (drop2 kn) (fun i => mkSI (ndel (si_keys i) kn) (clear_default (si_defkey i) kn)) in
  mkSKC (s_ids a') (s_defid a') (ndel (s_tpm a') kn).
Proof.
  intros W Hk0 Nk0. cbn zeta. set (t' := del_key_db k0 kn t).
  destruct (wf_kref _ W _ Hk0) as [i0 [Hi0 Ei0]]. destruct (wf_kname _ W _ _ Hk0 Hi0 Ei0) as [Dn _]. rewrite Nk0 in Dn.
  assert (Hkey : forall k, In k (t_keys t) -> k <> k0 -> abs_key t' k = abs_key t k).
  { intros k Hk Nk. pose proof (rows_neq_id _ _ _ (wf_k _ W) Hk Hk0 Nk) as Nid.
    unfold abs_key. cbn [t_certs t' del_key_db]. f_equal.
    - rewrite scope_map_delete_scope. replace (r_id k =? r_id k0) with false by (symmetry; apply N.eqb_neq; assumption). reflexivity.
    - rewrite scope_defname_delete_scope by apply W.
      replace (r_id k =? r_id k0) with false by (symmetry; apply N.eqb_neq; assumption). reflexivity. }
  assert (Hi : forall i, abs_ident t' i =
                        mkSI (ndel (si_keys (abs_ident t i)) kn) (clear_default (si_defkey (abs_ident t i)) kn)).
  { intros i. unfold abs_ident. cbn [t_keys t' del_key_db si_keys si_defkey]. f_equal.
    - rewrite <- (scope_map_delete_name (abs_key t)) by apply W. apply scope_map_ext.
      intros k Hk _. apply r_delete_name_in in Hk. destruct Hk as [Hk Nk]. apply Hkey; [assumption|]. intros ->. contradiction.
    - apply scope_defname_delete_name. apply W. }
  assert (Hfree : forall i, In i (t_ids t) -> i <> i0 -> abs_ident t' i = abs_ident t i).
  { intros i Hi' Ni. pose proof (rows_neq_id _ _ _ (wf_i _ W) Hi' Hi0 Ni) as Nid. rewrite Hi.
    assert (Hno : ~ In kn (v_iter (r_id i) (t_keys t))).
    { intros Hin. apply v_iter_in in Hin. destruct Hin as [k [Hk [Nk Pk]]].
      assert (k = k0) by (eapply name_inj; [apply (wf_k _ W) | assumption | assumption | congruence]). subst k. congruence. }
    apply sident_remove_absent.
    - unfold abs_ident. cbn [si_keys]. apply (al_get_none name_eqb name_eqb_eq). rewrite <- (scope_map_names (abs_key t)) in Hno. exact Hno.
    - unfold abs_ident. cbn [si_defkey]. intros D. apply Hno. apply defname_listed. assumption. }
  unfold upd_ident. rewrite (s_ident_find _ _ _ W), Dn. rewrite (r_find_in _ _ i0 (wf_i _ W) Hi0 eq_refl). cbn [option_map s_ids s_defid s_tpm].
  unfold abs_tables at 1. f_equal.
  change (scope_map (abs_ident t') 0 (t_ids t')) with (s_ids (abs_tables t' tp)).
  rewrite (abs_update_ident t t' tp i0 W eq_refl Hi0 Hfree). rewrite Hi. reflexivity.
Qed.
