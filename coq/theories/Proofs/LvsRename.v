(* Compiler._rename_temp_tags (Model/LvsCompiler.rename_temp_tags): the renamed copy of a chain is the image of
   the chain under an injective map from its temporary tags to fresh ones. *)
From NDN Require Import Base.Prelude Base.Text Model.TlvVar Model.Name Model.LvsAst Model.LvsChecker Model.LvsCompiler
  Proofs.LvsGenTree.
Local Open Scope N_scope.

Definition lk (mp : list (Z * Z)) (t : Z) : Z := match al_get Z.eqb mp t with Some t' => t' | None => t end.

Definition rn_comp (mp : list (Z * Z)) (c : ncomp) : ncomp :=
  match c with NPat t => if (t <? 0)%Z then NPat (lk mp t) else c | _ => c end.

Definition rn_cons (mp : list (Z * Z)) (c : ncons) : ncons :=
  match nc_pat c with
  | t :: _ => if (t <? 0)%Z then {| nc_pat := map (lk mp) (nc_pat c); nc_opts := nc_opts c |} else c
  | [] => c
  end.

(* mp maps into the fresh range [k, kc), injectively; kc is the next free number *)
Record mp_ok (k kc : N) (mp : list (Z * Z)) : Prop := {
  mo_range : forall a b, al_get Z.eqb mp a = Some b -> (Z.of_N k <= - b)%Z /\ (- b < Z.of_N kc)%Z;
  mo_inj : forall a a' b, al_get Z.eqb mp a = Some b -> al_get Z.eqb mp a' = Some b -> a = a'
}.

Definition extends (mp mp' : list (Z * Z)) : Prop := forall a b, al_get Z.eqb mp a = Some b -> al_get Z.eqb mp' a = Some b.

Lemma extends_refl mp : extends mp mp.
Proof. intros a b H; exact H. Qed.
Lemma extends_trans a b c : extends a b -> extends b c -> extends a c.
Proof. intros H1 H2 x y H. apply H2, H1, H. Qed.

Lemma al_get_z_app_none (l : list (Z * Z)) k v k' : al_get Z.eqb l k = None ->
  al_get Z.eqb (l ++ [(k, v)]) k' = if Z.eqb k' k then Some v else al_get Z.eqb l k'.
Proof.
  intros Hn. induction l as [|[a b] l IH]; cbn; [destruct (Z.eqb k' k); reflexivity|].
  cbn in Hn. destruct (Z.eqb_spec k a) as [->|Hne]; [discriminate|]. specialize (IH Hn).
  destruct (Z.eqb_spec k' a) as [->|Hne'].
  - destruct (Z.eqb_spec a k); [congruence | reflexivity].
  - exact IH.
Qed.

Lemma fresh_ok k kc mp t mp' kc' t' : mp_ok k kc mp -> k <= kc -> fresh (mp, kc) t = ((mp', kc'), t') ->
  mp_ok k kc' mp' /\ kc <= kc' /\ al_get Z.eqb mp' t = Some t' /\ extends mp mp'.
Proof.
  intros [Hr Hi] Hk. unfold fresh. cbn [fst snd]. destruct (al_get Z.eqb mp t) as [x|] eqn:E.
  - intros H; inversion H; subst. split; [constructor; assumption|]. split; [lia|]. split; [exact E | apply extends_refl].
  - intros H; inversion H; subst. clear H. split; [|split; [lia|split]].
    + constructor.
      * intros a b. rewrite (al_get_z_app_none _ _ _ _ E). destruct (Z.eqb a t).
        -- intros Hb; inversion Hb; subst. lia.
        -- intros Hb. destruct (Hr a b Hb). lia.
      * intros a a' b. rewrite !(al_get_z_app_none _ _ _ _ E).
        destruct (Z.eqb_spec a t) as [->|Ha], (Z.eqb_spec a' t) as [->|Ha']; try reflexivity.
        -- intros Hb Hb'. inversion Hb; subst. destruct (Hr a' _ Hb'). lia.
        -- intros Hb Hb'. inversion Hb'; subst. destruct (Hr a _ Hb). lia.
        -- apply Hi.
    + rewrite (al_get_z_app_none _ _ _ _ E), Z.eqb_refl. reflexivity.
    + intros a b Hab. rewrite (al_get_z_app_none _ _ _ _ E). destruct (Z.eqb_spec a t) as [->|Hne]; [congruence | exact Hab].
Qed.

Lemma lk_extends mp mp' t b : extends mp mp' -> al_get Z.eqb mp t = Some b -> lk mp' t = b.
Proof. intros He H. unfold lk. rewrite (He t b H). reflexivity. Qed.

(* a sequence of fresh look-ups *)
Lemma map_acc_fresh k : forall l mp kc mp' kc' l',
  mp_ok k kc mp -> k <= kc -> map_acc fresh (mp, kc) l = ((mp', kc'), l') ->
  mp_ok k kc' mp' /\ kc <= kc' /\ extends mp mp' /\
  (forall t, In t l -> exists b, al_get Z.eqb mp' t = Some b) /\
  (forall mp'', extends mp' mp'' -> l' = map (lk mp'') l).
Proof.
  induction l as [|t l IH]; intros mp kc mp' kc' l' Hok Hk H; cbn [map_acc] in H.
  - inversion H; subst. split; [exact Hok|]. split; [lia|]. split; [apply extends_refl|]. split; [intros t [] | intros mp'' _; reflexivity].
  - destruct (fresh (mp, kc) t) as [[mp1 kc1] t1] eqn:Ef. destruct (map_acc fresh (mp1, kc1) l) as [[mp2 kc2] l2] eqn:Em.
    inversion H; subst. clear H.
    destruct (fresh_ok _ _ _ _ _ _ _ Hok Hk Ef) as (Hok1 & Hk1 & Hg1 & He1).
    destruct (IH _ _ _ _ _ Hok1 ltac:(lia) Em) as (Hok2 & Hk2 & He2 & Hall2 & Hmap2).
    split; [exact Hok2|]. split; [lia|]. split; [eapply extends_trans; eauto|]. split.
    + intros t0 [<-|Hin]; [exists t1; apply He2, Hg1 | apply Hall2, Hin].
    + intros mp'' He. cbn [map]. f_equal; [|apply Hmap2, He]. symmetry. eapply lk_extends; [|exact Hg1]. eapply extends_trans; eauto.
Qed.

Lemma map_acc_rename_comp k : forall l mp kc mp' kc' l',
  mp_ok k kc mp -> k <= kc -> map_acc rename_comp (mp, kc) l = ((mp', kc'), l') ->
  mp_ok k kc' mp' /\ kc <= kc' /\ extends mp mp' /\
  (forall t, In (NPat t) l -> (t < 0)%Z -> exists b, al_get Z.eqb mp' t = Some b) /\
  (forall mp'', extends mp' mp'' -> l' = map (rn_comp mp'') l).
Proof.
  induction l as [|c l IH]; intros mp kc mp' kc' l' Hok Hk H; cbn [map_acc] in H.
  - inversion H; subst. split; [exact Hok|]. split; [lia|]. split; [apply extends_refl|]. split; [intros t [] | intros mp'' _; reflexivity].
  - destruct (rename_comp (mp, kc) c) as [[mp1 kc1] c1] eqn:Ec. destruct (map_acc rename_comp (mp1, kc1) l) as [[mp2 kc2] l2] eqn:Em.
    inversion H; subst. clear H.
    assert (Hstep : mp_ok k kc1 mp1 /\ kc <= kc1 /\ extends mp mp1 /\
                    (forall t, c = NPat t -> (t < 0)%Z -> exists b, al_get Z.eqb mp1 t = Some b) /\
                    (forall mp'', extends mp1 mp'' -> c1 = rn_comp mp'' c)).
    { unfold rename_comp in Ec. destruct c as [v|t|r];
        try (inversion Ec; subst; split; [exact Hok|]; split; [lia|]; split; [apply extends_refl|]; split; [intros t0 E; discriminate | intros mp'' _; reflexivity]).
      destruct (Z.ltb_spec t 0).
      - destruct (fresh (mp, kc) t) as [[mpa kca] ta] eqn:Ef. inversion Ec; subst.
        destruct (fresh_ok _ _ _ _ _ _ _ Hok Hk Ef) as (Hok1 & Hk1 & Hg1 & He1).
        split; [exact Hok1|]. split; [exact Hk1|]. split; [exact He1|]. split.
        + intros t0 E _. inversion E; subst. eauto.
        + intros mp'' He. cbn. destruct (Z.ltb_spec t 0); [|lia]. f_equal. symmetry. eapply lk_extends; eauto.
      - inversion Ec; subst. split; [exact Hok|]. split; [lia|]. split; [apply extends_refl|]. split; [intros t0 E Hn; inversion E; lia|].
        intros mp'' _. cbn. destruct (Z.ltb_spec t 0); [lia | reflexivity]. }
    destruct Hstep as (Hok1 & Hk1 & He1 & Hc1 & Hm1).
    destruct (IH _ _ _ _ _ Hok1 ltac:(lia) Em) as (Hok2 & Hk2 & He2 & Hall2 & Hmap2).
    split; [exact Hok2|]. split; [lia|]. split; [eapply extends_trans; eauto|]. split.
    + intros t [E|Hin] Hn; [destruct (Hc1 t E Hn) as (b & Hb); exists b; apply He2, Hb | apply Hall2; auto].
    + intros mp'' He. cbn [map]. f_equal; [apply Hm1; eapply extends_trans; eauto | apply Hmap2, He].
Qed.

Lemma map_acc_rename_cons k : forall l mp kc mp' kc' l',
  mp_ok k kc mp -> k <= kc -> map_acc rename_cons (mp, kc) l = ((mp', kc'), l') ->
  mp_ok k kc' mp' /\ kc <= kc' /\ extends mp mp' /\
  (forall c t0 t, In c l -> nc_pat c = t0 :: t -> (t0 < 0)%Z -> forall x, In x (nc_pat c) -> exists b, al_get Z.eqb mp' x = Some b) /\
  (forall mp'', extends mp' mp'' -> l' = map (rn_cons mp'') l).
Proof.
  induction l as [|c l IH]; intros mp kc mp' kc' l' Hok Hk H; cbn [map_acc] in H.
  - inversion H; subst. split; [exact Hok|]. split; [lia|]. split; [apply extends_refl|]. split; [intros c t0 t [] | intros mp'' _; reflexivity].
  - destruct (rename_cons (mp, kc) c) as [[mp1 kc1] c1] eqn:Ec. destruct (map_acc rename_cons (mp1, kc1) l) as [[mp2 kc2] l2] eqn:Em.
    inversion H; subst. clear H.
    assert (Hstep : mp_ok k kc1 mp1 /\ kc <= kc1 /\ extends mp mp1 /\
                    (forall t0 t, nc_pat c = t0 :: t -> (t0 < 0)%Z -> forall x, In x (nc_pat c) -> exists b, al_get Z.eqb mp1 x = Some b) /\
                    (forall mp'', extends mp1 mp'' -> c1 = rn_cons mp'' c)).
    { unfold rename_cons in Ec. unfold rn_cons. destruct (nc_pat c) as [|t0 t] eqn:Ep.
      - inversion Ec; subst. split; [exact Hok|]. split; [lia|]. split; [apply extends_refl|]. split; [intros ? ? E; discriminate | intros mp'' _; reflexivity].
      - destruct (Z.ltb_spec t0 0).
        + destruct (map_acc fresh (mp, kc) (t0 :: t)) as [[mpa kca] la] eqn:Ef. inversion Ec; subst.
          destruct (map_acc_fresh k _ _ _ _ _ _ Hok Hk Ef) as (Hok1 & Hk1 & He1 & Hall1 & Hmap1).
          split; [exact Hok1|]. split; [exact Hk1|]. split; [exact He1|]. split.
          * intros t0' t' E _ x Hx. apply Hall1. exact Hx.
          * intros mp'' He. f_equal. apply Hmap1, He.
        + inversion Ec; subst. split; [exact Hok|]. split; [lia|]. split; [apply extends_refl|]. split; [intros t0' t' E Hn; inversion E; lia | intros mp'' _; reflexivity]. }
    destruct Hstep as (Hok1 & Hk1 & He1 & Hc1 & Hm1).
    destruct (IH _ _ _ _ _ Hok1 ltac:(lia) Em) as (Hok2 & Hk2 & He2 & Hall2 & Hmap2).
    split; [exact Hok2|]. split; [lia|]. split; [eapply extends_trans; eauto|]. split.
    + intros c0 t0 t [<-|Hin] Ep Hn x Hx; [destruct (Hc1 t0 t Ep Hn x Hx) as (b & Hb); exists b; apply He2, Hb | eapply Hall2; eauto].
    + intros mp'' He. cbn [map]. f_equal; [apply Hm1; eapply extends_trans; eauto | apply Hmap2, He].
Qed.

Lemma mp_ok_nil k : mp_ok k k [].
Proof. constructor; intros; discriminate. Qed.

Theorem rename_temp_tags_spec k rc k' nm cs : rename_temp_tags k rc = (k', (nm, cs)) ->
  exists mp, mp_ok k k' mp /\ k <= k' /\ nm = map (rn_comp mp) (ch_name rc) /\ cs = map (rn_cons mp) (ch_cons rc) /\
    (forall t, In (NPat t) (ch_name rc) -> (t < 0)%Z -> exists b, al_get Z.eqb mp t = Some b) /\
    (forall c t0 t, In c (ch_cons rc) -> nc_pat c = t0 :: t -> (t0 < 0)%Z -> forall x, In x (nc_pat c) -> exists b, al_get Z.eqb mp x = Some b).
Proof.
  unfold rename_temp_tags.
  destruct (map_acc rename_comp ([], k) (ch_name rc)) as [[mp1 k1] nm1] eqn:E1.
  destruct (map_acc rename_cons (mp1, k1) (ch_cons rc)) as [[mp2 k2] cs1] eqn:E2. intros H; inversion H; subst. clear H.
  destruct (map_acc_rename_comp k _ _ _ _ _ _ (mp_ok_nil k) (N.le_refl _) E1) as (Hok1 & Hk1 & _ & Hall1 & Hmap1).
  destruct (map_acc_rename_cons k _ _ _ _ _ _ Hok1 Hk1 E2) as (Hok2 & Hk2 & He2 & Hall2 & Hmap2).
  exists mp2. cbn [snd]. split; [exact Hok2|]. split; [lia|]. split; [apply Hmap1, He2|]. split; [apply Hmap2, extends_refl|]. split.
  - intros t Ht Hn. destruct (Hall1 t Ht Hn) as (b & Hb). exists b. apply He2, Hb.
  - exact Hall2.
Qed.
