(* Well-formedness of the three tables (unique row ids and names, at most one default per scope, valid
   references, NDN naming of keys and certificates) and its preservation by every SQL statement the
   keychain issues; association-list facts for the private-key store and the signer cache. *)
From NDN Require Import Base.Prelude Model.Keychain Proofs.KeychainTables.
Local Open Scope N_scope.

(* ---- association lists ---------------------------------------------------------------------------- *)
Section AL.
  Context {K V : Type} (eqb : K -> K -> bool) (eqb_spec : forall a b, eqb a b = true <-> a = b).
  Lemma eqb_refl' a : eqb a a = true. Proof. apply eqb_spec. reflexivity. Qed.
  Lemma eqb_false' a b : a <> b -> eqb a b = false.
  Proof. intros H. destruct (eqb a b) eqn:E; [apply eqb_spec in E; contradiction | reflexivity]. Qed.
  Lemma al_get_none (l : list (K * V)) k : al_get eqb l k = None <-> ~ In k (map fst l).
  Proof.
    induction l as [|[k' v] l IH]; cbn; [tauto|].
    destruct (eqb k k') eqn:E.
    - apply eqb_spec in E. subst. split; [discriminate | intros H; exfalso; apply H; auto].
    - rewrite IH. split; [intros H [H1 | H1]; [subst; rewrite eqb_refl' in E; discriminate | auto] | tauto].
  Qed.
  Lemma al_get_some_in (l : list (K * V)) k v : al_get eqb l k = Some v -> In (k, v) l.
  Proof.
    induction l as [|[k' v'] l IH]; cbn; [discriminate|].
    destruct (eqb k k') eqn:E; [apply eqb_spec in E; subst; intros H; inversion H; auto | auto].
  Qed.
  Lemma al_get_set_same (l : list (K * V)) k v : al_get eqb (al_set eqb l k v) k = Some v.
  Proof.
    induction l as [|[k' v'] l IH]; cbn; [rewrite eqb_refl'; reflexivity|].
    destruct (eqb k k') eqn:E; cbn; rewrite E; auto.
  Qed.
  Lemma al_get_set_other (l : list (K * V)) k v k' : k' <> k -> al_get eqb (al_set eqb l k v) k' = al_get eqb l k'.
  Proof.
    intros NE. induction l as [|[k0 v0] l IH]; cbn; [rewrite (eqb_false' _ _ NE); reflexivity|].
    destruct (eqb k k0) eqn:E; cbn.
    - apply eqb_spec in E. subst k0. rewrite (eqb_false' _ _ NE). reflexivity.
    - destruct (eqb k' k0); auto.
  Qed.
  Lemma al_get_del_other (l : list (K * V)) k k' : k' <> k -> al_get eqb (al_del eqb l k) k' = al_get eqb l k'.
  Proof.
    intros NE. induction l as [|[k0 v0] l IH]; cbn; [reflexivity|].
    destruct (eqb k k0) eqn:E; cbn.
    - apply eqb_spec in E. subst k0. rewrite (eqb_false' _ _ NE). reflexivity.
    - destruct (eqb k' k0); auto.
  Qed.
  Lemma al_set_keys (l : list (K * V)) k v x : In x (map fst (al_set eqb l k v)) <-> In x (map fst l) \/ x = k.
  Proof.
    induction l as [|[k0 v0] l IH]; cbn; [intuition|].
    destruct (eqb k k0) eqn:E; cbn.
    - apply eqb_spec in E. subst. intuition.
    - rewrite IH. intuition.
  Qed.
  Lemma al_del_keys_incl (l : list (K * V)) k x : In x (map fst (al_del eqb l k)) -> In x (map fst l).
  Proof.
    induction l as [|[k0 v0] l IH]; cbn; [tauto|].
    destruct (eqb k k0); cbn; intuition.
  Qed.
  Lemma al_set_nodup (l : list (K * V)) k v : NoDup (map fst l) -> NoDup (map fst (al_set eqb l k v)).
  Proof.
    induction l as [|[k0 v0] l IH]; cbn; intros ND; [constructor; [tauto | constructor]|].
    inversion ND; subst. destruct (eqb k k0) eqn:E; cbn; constructor; auto.
    rewrite al_set_keys. intros [H | H]; [contradiction|]. subst. rewrite eqb_refl' in E. discriminate.
  Qed.
  Lemma al_del_nodup (l : list (K * V)) k : NoDup (map fst l) -> NoDup (map fst (al_del eqb l k)).
  Proof.
    induction l as [|[k0 v0] l IH]; cbn; intros ND; [constructor|].
    inversion ND; subst. destruct (eqb k k0); cbn; [assumption|]. constructor; auto.
    intros H. apply al_del_keys_incl in H. contradiction.
  Qed.
  Lemma al_get_del_same (l : list (K * V)) k : NoDup (map fst l) -> al_get eqb (al_del eqb l k) k = None.
  Proof.
    induction l as [|[k0 v0] l IH]; cbn; intros ND; [reflexivity|]. inversion ND; subst.
    destruct (eqb k k0) eqn:E; cbn.
    - apply eqb_spec in E. subst. apply al_get_none. assumption.
    - rewrite E. auto.
  Qed.
  Lemma al_del_set_fresh (l : list (K * V)) k v : al_get eqb l k = None -> al_del eqb (al_set eqb l k v) k = l.
  Proof.
    induction l as [|[k0 v0] l IH]; cbn; [rewrite eqb_refl'; reflexivity|].
    destruct (eqb k k0) eqn:E; [discriminate|]. cbn. rewrite E. intros H. f_equal. auto.
  Qed.
  Lemma al_del_absent (l : list (K * V)) k : al_get eqb l k = None -> al_del eqb l k = l.
  Proof.
    induction l as [|[k0 v0] l IH]; cbn; [reflexivity|].
    destruct (eqb k k0) eqn:E; [discriminate|]. intros H. f_equal. auto.
  Qed.
  Lemma al_mem_get (l : list (K * V)) k : al_mem eqb l k = false <-> al_get eqb l k = None.
  Proof. unfold al_mem. destruct (al_get eqb l k); split; congruence. Qed.
End AL.

Lemma ckey_eqb_eq a b : ckey_eqb a b = true <-> a = b.
Proof.
  destruct a as [a1 a2], b as [b1 b2]. unfold ckey_eqb. cbn. rewrite andb_true_iff, !name_eqb_eq.
  split; [intros [-> ->]; reflexivity | intros H; inversion H; auto].
Qed.

(* ---- the three tables together --------------------------------------------------------------------- *)
Definition refs_ok (ps cs : rows) : Prop := forall c, In c cs -> exists p, In p ps /\ r_id p = r_par c.
Definition named_under (ps cs : rows) : Prop :=
  forall c p, In c cs -> In p ps -> r_id p = r_par c -> drop2 (r_name c) = r_name p /\ (2 <= length (r_name c))%nat.

Record wf_tables (t : tables) : Prop := mkWfT {
  wf_i : wf_rows (t_ids t);
  wf_k : wf_rows (t_keys t);
  wf_c : wf_rows (t_certs t);
  wf_ipar : forall i, In i (t_ids t) -> r_par i = 0;
  wf_kref : refs_ok (t_ids t) (t_keys t);
  wf_cref : refs_ok (t_keys t) (t_certs t);
  wf_kname : named_under (t_ids t) (t_keys t);
  wf_cname : named_under (t_keys t) (t_certs t)
}.

Lemma wf_empty : wf_tables empty_tables.
Proof.
  constructor; cbn; try apply wf_rows_nil.
  - intros i [].
  - intros c [].
  - intros c [].
  - intros c p [].
  - intros c p [].
Qed.

(* same rows up to the default flags *)
Definition row_sim (x y : row) : Prop := r_id x = r_id y /\ r_par x = r_par y /\ r_name x = r_name y /\ r_val x = r_val y.
Definition rows_sim (l l' : rows) : Prop :=
  (forall y, In y l' -> exists x, In x l /\ row_sim x y) /\ (forall x, In x l -> exists y, In y l' /\ row_sim x y).
Lemma r_set_default_sim n l : rows_sim l (r_set_default n l).
Proof. split; [apply r_set_default_in | apply r_set_default_in_rev]. Qed.
Lemma rows_sim_refl l : rows_sim l l.
Proof. split; intros x H; exists x; unfold row_sim; auto. Qed.

Lemma refs_ok_sim ps ps' cs cs' : rows_sim ps ps' -> rows_sim cs cs' -> refs_ok ps cs -> refs_ok ps' cs'.
Proof.
  intros [_ P] [C _] R c' Hc'. destruct (C _ Hc') as [c [Hc [_ [Ec _]]]].
  destruct (R _ Hc) as [p [Hp Ep]]. destruct (P _ Hp) as [p' [Hp' [Ei _]]]. exists p'. split; [assumption|]. congruence.
Qed.
Lemma named_under_sim ps ps' cs cs' : rows_sim ps ps' -> rows_sim cs cs' -> named_under ps cs -> named_under ps' cs'.
Proof.
  intros [P _] [C _] R c' p' Hc' Hp' E.
  destruct (C _ Hc') as [c [Hc [_ [Ec [Nc _]]]]]. destruct (P _ Hp') as [p [Hp [Ei [_ [Np _]]]]].
  rewrite <- Nc, <- Np. apply R; auto. congruence.
Qed.

Lemma kc_get_ok t n i : kc_get n t = Ok i -> In i (t_ids t) /\ r_name i = n.
Proof. unfold kc_get. intros H. apply v_get_ok in H. tauto. Qed.
Lemma kc_get_in t n i : wf_tables t -> In i (t_ids t) -> r_name i = n -> kc_get n t = Ok i.
Proof. intros W Hi E. unfold kc_get. apply v_get_in; auto. apply W. apply (wf_ipar _ W). assumption. Qed.
Lemma kc_contains_spec t n : wf_tables t -> kc_contains n t = true <-> In n (map r_name (t_ids t)).
Proof.
  intros W. unfold kc_contains. rewrite v_contains_iter, v_iter_in. split.
  - intros [r [H1 [H2 _]]]. subst. apply in_map. assumption.
  - intros H. apply in_map_iff in H. destruct H as [r [E Hr]]. exists r. repeat split; auto. apply (wf_ipar _ W). assumption.
Qed.

(* ---- statements ---------------------------------------------------------------------------------- *)
Lemma wf_insert_identity n t t' : wf_tables t -> sql_insert_identity n t = Ok t' -> wf_tables t'.
Proof.
  intros W H. unfold sql_insert_identity in H. destruct (r_insert 0 n 0 (t_ids t)) as [l|] eqn:E; [|discriminate].
  cbn in H. inversion H; subst; clear H. pose proof (r_insert_new _ _ _ _ _ E) as [x [Hx [Nx [Px [_ [Ix Hall]]]]]].
  constructor; cbn; try apply W.
  - eapply r_insert_wf; [|eassumption]; apply W.
  - intros i Hi. destruct (Hall _ Hi) as [Hi' | ->]; [apply (wf_ipar _ W); assumption | assumption].
  - intros c Hc. destruct (wf_kref _ W _ Hc) as [p [Hp Ep]]. exists p. split; [eapply r_insert_in; eassumption | assumption].
  - intros c p Hc Hp Ep. destruct (Hall _ Hp) as [Hp' | ->]; [apply (wf_kname _ W); assumption|].
    exfalso. destruct (wf_kref _ W _ Hc) as [p0 [Hp0 Ep0]]. apply (next_id_fresh_row _ _ Hp0). congruence.
Qed.

Lemma wf_default_identity n t t' : wf_tables t -> sql_default_identity n t = Ok t' -> wf_tables t'.
Proof.
  intros W H. inversion H; subst; clear H. pose proof (r_set_default_sim n (t_ids t)) as S.
  constructor; cbn; try apply W.
  - apply r_set_default_wf. apply W.
  - intros i Hi. destruct (proj1 S _ Hi) as [x [Hx [_ [Ep _]]]]. rewrite <- Ep. apply (wf_ipar _ W). assumption.
  - eapply refs_ok_sim; [exact S | apply rows_sim_refl | apply W].
  - eapply named_under_sim; [exact S | apply rows_sim_refl | apply W].
Qed.
Lemma wf_default_key n t t' : wf_tables t -> sql_default_key n t = Ok t' -> wf_tables t'.
Proof.
  intros W H. inversion H; subst; clear H. pose proof (r_set_default_sim n (t_keys t)) as S.
  constructor; cbn; try apply W.
  - apply r_set_default_wf. apply W.
  - eapply refs_ok_sim; [apply rows_sim_refl | exact S | apply W].
  - eapply refs_ok_sim; [exact S | apply rows_sim_refl | apply W].
  - eapply named_under_sim; [apply rows_sim_refl | exact S | apply W].
  - eapply named_under_sim; [exact S | apply rows_sim_refl | apply W].
Qed.
Lemma wf_default_cert n t t' : wf_tables t -> sql_default_cert n t = Ok t' -> wf_tables t'.
Proof.
  intros W H. inversion H; subst; clear H. pose proof (r_set_default_sim n (t_certs t)) as S.
  constructor; cbn; try apply W.
  - apply r_set_default_wf. apply W.
  - eapply refs_ok_sim; [apply rows_sim_refl | exact S | apply W].
  - eapply named_under_sim; [apply rows_sim_refl | exact S | apply W].
Qed.

Lemma wf_insert_key i kn bits t t' :
  wf_tables t -> In i (t_ids t) -> drop2 kn = r_name i -> (2 <= length kn)%nat ->
  sql_insert_key (r_id i) kn bits t = Ok t' -> wf_tables t'.
Proof.
  intros W Hi Dn Ln H. unfold sql_insert_key in H. destruct (r_insert (r_id i) kn bits (t_keys t)) as [l|] eqn:E; [|discriminate].
  cbn in H. inversion H; subst; clear H. pose proof (r_insert_new _ _ _ _ _ E) as [x [Hx [Nx [Px [_ [Ix Hall]]]]]].
  constructor; cbn; try apply W.
  - eapply r_insert_wf; [|eassumption]; apply W.
  - intros c Hc. destruct (Hall _ Hc) as [Hc' | ->]; [apply (wf_kref _ W); assumption|]. exists i. auto.
  - intros c Hc. destruct (wf_cref _ W _ Hc) as [p [Hp Ep]]. exists p. split; [eapply r_insert_in; eassumption | assumption].
  - intros c p Hc Hp Ep. destruct (Hall _ Hc) as [Hc' | ->]; [apply (wf_kname _ W); assumption|].
    assert (p = i) by (eapply id_inj; [apply W | assumption | assumption | congruence]). subst p.
    rewrite Nx. auto.
  - intros c p Hc Hp Ep. destruct (Hall _ Hp) as [Hp' | ->]; [apply (wf_cname _ W); assumption|].
    exfalso. destruct (wf_cref _ W _ Hc) as [p0 [Hp0 Ep0]]. apply (next_id_fresh_row _ _ Hp0). congruence.
Qed.

Lemma sql_insert_cert_ok kn cn d t t' :
  sql_insert_cert kn cn d t = Ok t' ->
  exists k l, r_find kn (t_keys t) = Some k /\ r_insert (r_id k) cn d (t_certs t) = Ok l /\ t' = mkT (t_ids t) (t_keys t) l.
Proof.
  unfold sql_insert_cert. destruct (r_find kn (t_keys t)) as [k|]; [|discriminate].
  destruct (r_insert (r_id k) cn d (t_certs t)) as [l|] eqn:E; [|discriminate]. cbn. intros H. inversion H. eauto.
Qed.
Lemma wf_insert_cert kn cn d t t' :
  wf_tables t -> drop2 cn = kn -> (2 <= length cn)%nat -> sql_insert_cert kn cn d t = Ok t' -> wf_tables t'.
Proof.
  intros W Dn Ln H. apply sql_insert_cert_ok in H. destruct H as [k [l [F [E ->]]]].
  apply r_find_some in F. destruct F as [Hk Nk].
  pose proof (r_insert_new _ _ _ _ _ E) as [x [Hx [Nx [Px [_ [Ix Hall]]]]]].
  constructor; cbn; try apply W.
  - eapply r_insert_wf; [|eassumption]; apply W.
  - intros c Hc. destruct (Hall _ Hc) as [Hc' | ->]; [apply (wf_cref _ W); assumption|]. exists k. auto.
  - intros c p Hc Hp Ep. destruct (Hall _ Hc) as [Hc' | ->]; [apply (wf_cname _ W); assumption|].
    assert (p = k) by (apply (id_inj (t_keys t)); [apply (wf_k _ W) | assumption | assumption | congruence]). subst p.
    rewrite Nx. split; [congruence | assumption].
Qed.

Lemma wf_delete_certs (f : row -> bool) t : wf_tables t -> wf_tables (mkT (t_ids t) (t_keys t) (filter f (t_certs t))).
Proof.
  intros W. constructor; cbn; try apply W.
  - apply filter_wf. apply W.
  - intros c Hc. apply filter_In in Hc. apply (wf_cref _ W). tauto.
  - intros c p Hc. apply filter_In in Hc. apply (wf_cname _ W). tauto.
Qed.
Lemma wf_delete_cert n t t' : wf_tables t -> sql_delete_cert n t = Ok t' -> wf_tables t'.
Proof. intros W H. inversion H. apply wf_delete_certs. assumption. Qed.
Lemma wf_delete_certs_of kid t t' : wf_tables t -> sql_delete_certs_of kid t = Ok t' -> wf_tables t'.
Proof. intros W H. inversion H. apply wf_delete_certs. assumption. Qed.

Lemma wf_delete_key kn t t' :
  wf_tables t ->
  (forall k c, In k (t_keys t) -> r_name k = kn -> In c (t_certs t) -> r_par c <> r_id k) ->
  sql_delete_key kn t = Ok t' -> wf_tables t'.
Proof.
  intros W NC H. inversion H; subst; clear H. constructor; cbn; try apply W.
  - apply filter_wf. apply W.
  - intros c Hc. apply r_delete_name_in in Hc. apply (wf_kref _ W). tauto.
  - intros c Hc. destruct (wf_cref _ W _ Hc) as [p [Hp Ep]]. exists p. split; [|assumption].
    apply r_delete_name_in. split; [assumption|]. intros En. apply (NC p c); auto.
  - intros c p Hc. apply r_delete_name_in in Hc. apply (wf_kname _ W). tauto.
  - intros c p Hc Hp. apply r_delete_name_in in Hp. apply (wf_cname _ W); tauto.
Qed.
Lemma wf_delete_identity n t t' :
  wf_tables t ->
  (forall i k, In i (t_ids t) -> r_name i = n -> In k (t_keys t) -> r_par k <> r_id i) ->
  sql_delete_identity n t = Ok t' -> wf_tables t'.
Proof.
  intros W NC H. inversion H; subst; clear H. constructor; cbn; try apply W.
  - apply filter_wf. apply W.
  - intros i Hi. apply r_delete_name_in in Hi. apply (wf_ipar _ W). tauto.
  - intros c Hc. destruct (wf_kref _ W _ Hc) as [p [Hp Ep]]. exists p. split; [|assumption].
    apply r_delete_name_in. split; [assumption|]. intros En. apply (NC p c); auto.
  - intros c p Hc Hp. apply r_delete_name_in in Hp. apply (wf_kname _ W); tauto.
Qed.
