(* C17 — what [percall_ok] says in plain terms: no call sends two commands, every command names the verb and
   prefix of a call that was entered, and a call returns only after its command went out. *)
From NDN Require Import Base.Prelude Model.TlvVar Model.Name Model.Tlv Model.NfdMgmt Model.Registerer
  Spec.Registration Proofs.RegistererBase Proofs.RegSpecMeaning.
Local Open Scope N_scope.

Lemma list_eqb_eq {A} (eqb : A -> A -> bool) (H : forall x y, eqb x y = true -> x = y) :
  forall a b, list_eqb eqb a b = true -> a = b.
Proof.
  induction a as [|x a IH]; intros [|y b]; cbn [list_eqb]; try discriminate; [reflexivity|].
  intros E. apply andb_true_iff in E. destruct E as [E1 E2]. f_equal; [apply H; exact E1|apply IH; exact E2].
Qed.
Lemma name_eqb_eq a b : name_eqb a b = true -> a = b.
Proof.
  apply list_eqb_eq. intros x y. apply list_eqb_eq. intros u v E. now apply N.eqb_eq.
Qed.
Lemma kind_eqb_eq a b : kind_eqb a b = true -> a = b.
Proof. destruct a, b; cbn; congruence. Qed.

Lemma percall_fold_none l : fold_left percall_step l None = None.
Proof. induction l as [|o r IH]; [reflexivity|exact IH]. Qed.

Definition tbl := list (kind * name * bool).

Lemma nth_error_upd_tbl (t : tbl) i j v :
  nth_error (upd t i (fun _ => v)) j = if Nat.eqb i j then option_map (fun _ => v) (nth_error t j) else nth_error t j.
Proof.
  destruct (Nat.eqb i j) eqn:E.
  - apply Nat.eqb_eq in E. subst j. destruct (nth_error t i) as [x|] eqn:En.
    + now rewrite (nth_error_upd_eq _ _ _ _ En).
    + cbn. apply nth_error_None. rewrite upd_length. now apply nth_error_None.
  - apply Nat.eqb_neq in E. now apply nth_error_upd_neq.
Qed.

(* one step of the automaton, inverted *)
Lemma percall_step_inv (t t1 : tbl) o : percall_step (Some t) o = Some t1 ->
  match o with
  | OCall id k nm _ => id = length t /\ t1 = t ++ [(k, nm, false)]
  | OSend c => nth_error t (m_call c) = Some (m_kind c, m_prefix c, false) /\
               t1 = upd t (m_call c) (fun _ => (m_kind c, m_prefix c, true))
  | ODone id _ _ => (exists k nm, nth_error t id = Some (k, nm, true)) /\ t1 = t
  | _ => t1 = t
  end.
Proof.
  destruct o as [id k nm au|c|id rp oc|nm| |cl|]; cbn [percall_step]; try (intros H; now injection H as <-).
  - destruct (Nat.eqb id (length t)) eqn:E; [|discriminate]. apply Nat.eqb_eq in E. intros H. injection H as <-.
    now split.
  - destruct (nth_error t (m_call c)) as [[[k nm] [|]]|] eqn:En; try discriminate.
    destruct (kind_eqb k (m_kind c) && name_eqb nm (m_prefix c)) eqn:E; [|discriminate].
    apply andb_true_iff in E. destruct E as [E1 E2]. apply kind_eqb_eq in E1. apply name_eqb_eq in E2. subst k nm.
    intros H. injection H as <-. now split.
  - destruct (nth_error t id) as [[[k nm] [|]]|] eqn:En; try discriminate. intros H. injection H as <-.
    split; [now exists k, nm|reflexivity].
Qed.

Lemma fold_cons_some (t : tbl) o l t' :
  fold_left percall_step (o :: l) (Some t) = Some t' ->
  exists t1, percall_step (Some t) o = Some t1 /\ fold_left percall_step l (Some t1) = Some t'.
Proof.
  cbn [fold_left]. destruct (percall_step (Some t) o) as [t1|] eqn:E.
  - intros H. now exists t1.
  - rewrite percall_fold_none. discriminate.
Qed.

(* every command names the verb and prefix of a call that was entered *)
Lemma sends_have_calls l : forall (t t' : tbl),
  fold_left percall_step l (Some t) = Some t' ->
  forall c, In c (sends l) ->
    (exists a, In (OCall (m_call c) (m_kind c) (m_prefix c) a) l) \/
    (exists b, nth_error t (m_call c) = Some (m_kind c, m_prefix c, b)).
Proof.
  induction l as [|o l IH]; intros t t' H c Hc; [destruct Hc|].
  destruct (fold_cons_some _ _ _ _ H) as (t1 & S1 & S2). apply percall_step_inv in S1.
  destruct o as [id k nm au|c0|id rp oc|nm| |cl|]; cbn [sends flat_map app] in Hc; fold (sends l) in Hc;
    try (subst t1; destruct (IH _ _ S2 c Hc) as [(a & Ha)|R]; [left; exists a; right; exact Ha|right; exact R]).
  - destruct S1 as [-> ->]. destruct (IH _ _ S2 c Hc) as [(a & Ha)|(b & R)]; [left; exists a; right; exact Ha|].
    destruct (Nat.lt_ge_cases (m_call c) (length t)) as [Hl|Hl].
    + right. exists b. now rewrite nth_error_app1 in R.
    + rewrite nth_error_app2 in R by exact Hl. destruct (m_call c - length t)%nat as [|n] eqn:Ed.
      * cbn in R. injection R as <- <- <-. left. exists au. left. f_equal. lia.
      * destruct n; discriminate.
  - destruct S1 as [E0 ->]. destruct Hc as [<-|Hc]; [right; now exists false|].
    destruct (IH _ _ S2 c Hc) as [(a & Ha)|(b & R)]; [left; exists a; right; exact Ha|]. right.
    rewrite nth_error_upd_tbl in R. destruct (Nat.eqb (m_call c0) (m_call c)) eqn:E.
    + apply Nat.eqb_eq in E. rewrite <- E in *. rewrite E0 in R. cbn in R. injection R as <- <- <-. now exists false.
    + now exists b.
  - destruct S1 as [_ ->]. destruct (IH _ _ S2 c Hc) as [(a & Ha)|R]; [left; exists a; right; exact Ha|right; exact R].
Qed.

(* no call sends two commands *)
Lemma sends_nodup l : forall (t t' : tbl),
  fold_left percall_step l (Some t) = Some t' ->
  NoDup (map m_call (sends l)) /\
  (forall c k nm, In c (sends l) -> nth_error t (m_call c) <> Some (k, nm, true)).
Proof.
  induction l as [|o l IH]; intros t t' H; [split; [constructor|intros c k nm []]|].
  destruct (fold_cons_some _ _ _ _ H) as (t1 & S1 & S2). apply percall_step_inv in S1.
  destruct (IH _ _ S2) as [ND NT].
  destruct o as [id k0 nm0 au|c0|id rp oc|nm0| |cl|]; cbn [sends flat_map app map]; fold (sends l);
    try (subst t1; split; [exact ND|exact NT]).
  - destruct S1 as [-> ->]. split; [exact ND|]. intros c k nm Hc Hn. apply (NT c k nm Hc).
    rewrite nth_error_app1; [exact Hn|]. apply nth_error_Some. congruence.
  - destruct S1 as [E0 ->].
    assert (Hne : forall c, In c (sends l) -> m_call c <> m_call c0).
    { intros c Hc Heq. apply (NT c (m_kind c0) (m_prefix c0) Hc). rewrite nth_error_upd_tbl, Heq, Nat.eqb_refl, E0.
      reflexivity. }
    split.
    + constructor; [|exact ND]. intros Hin. apply in_map_iff in Hin. destruct Hin as (c & Hc1 & Hc2).
      exact (Hne c Hc2 Hc1).
    + intros c k nm [<-|Hc] Hn; [rewrite E0 in Hn; discriminate|].
      apply (NT c k nm Hc). rewrite nth_error_upd_tbl.
      replace (Nat.eqb (m_call c0) (m_call c)) with false; [exact Hn|].
      symmetry. apply Nat.eqb_neq. intros Heq. exact (Hne c Hc (eq_sym Heq)).
  - destruct S1 as [_ ->]. split; [exact ND|exact NT].
Qed.

(* a call returns only after its command went out *)
Lemma done_after_send l : forall (t t' : tbl),
  fold_left percall_step l (Some t) = Some t' ->
  forall l1 id r o l2, l = l1 ++ ODone id r o :: l2 ->
    (exists c, In c (sends l1) /\ m_call c = id) \/ (exists k nm, nth_error t id = Some (k, nm, true)).
Proof.
  induction l as [|o0 l IH]; intros t t' H l1 id r o l2 E; [destruct l1; discriminate|].
  destruct (fold_cons_some _ _ _ _ H) as (t1 & S1 & S2). apply percall_step_inv in S1.
  destruct l1 as [|o1 l1]; cbn [app] in E; injection E as -> El.
  - right. exact (proj1 S1).
  - destruct (IH _ _ S2 l1 id r o l2 El) as [(c & Hc & Hid)|(k & nm & R)].
    + left. exists c. split; [|exact Hid]. cbn [sends flat_map]. apply in_or_app. right. exact Hc.
    + destruct o1 as [id1 k1 nm1 au|c0|id1 rp oc|nm1| |cl|]; try (subst t1; right; now exists k, nm).
      * destruct S1 as [-> ->]. right. exists k, nm.
        destruct (Nat.lt_ge_cases id (length t)) as [Hl|Hl]; [now rewrite nth_error_app1 in R|].
        rewrite nth_error_app2 in R by exact Hl. destruct (id - length t)%nat as [|[|n]]; discriminate.
      * destruct S1 as [E0 ->]. rewrite nth_error_upd_tbl in R. destruct (Nat.eqb (m_call c0) id) eqn:Eq.
        -- apply Nat.eqb_eq in Eq. left. exists c0. split; [left; reflexivity|exact Eq].
        -- right. now exists k, nm.
      * destruct S1 as [_ ->]. right. now exists k, nm.
Qed.

Theorem percall_ok_meaning l :
  percall_ok l = true ->
  NoDup (map m_call (sends l)) /\
  (forall c, In c (sends l) -> exists a, In (OCall (m_call c) (m_kind c) (m_prefix c) a) l) /\
  (forall l1 id r o l2, l = l1 ++ ODone id r o :: l2 -> exists c, In c (sends l1) /\ m_call c = id).
Proof.
  unfold percall_ok, check. destruct (fold_left percall_step l (Some [])) as [t'|] eqn:E; [|discriminate].
  intros _. split; [exact (proj1 (sends_nodup l [] t' E))|]. split.
  - intros c Hc. destruct (sends_have_calls l [] t' E c Hc) as [Hl|(b & R)]; [exact Hl|].
    destruct (m_call c); discriminate.
  - intros l1 id r o l2 El. destruct (done_after_send l [] t' E l1 id r o l2 El) as [Hl|(k & nm & R)]; [exact Hl|].
    destruct id; discriminate.
Qed.
