(* T2 tie for C04: the deadline computation and the reply closure translated from the source of
   appv2.NDNApp._on_interest on this run (Generated/ReplyGen.v) are the functions of Model/Dispatch.v.
   The proof script does not depend on how the comparison is written, only on what it computes. *)
From NDN Require Import Base.Prelude Model.Dispatch.
From NDN Require Generated.ReplyGen.
Local Open Scope N_scope.

Theorem reply_gen_eq d t r : Generated.ReplyGen.reply_gen d t r = reply_closure d t r.
Proof.
  unfold Generated.ReplyGen.reply_gen, reply_closure.
  repeat match goal with |- context [if ?c then _ else _] => destruct c eqn:? end; try reflexivity; lia.
Qed.

Theorem deadline_gen_eq life now : Generated.ReplyGen.deadline_gen life now = deadline_of FE_V2 life now.
Proof. destruct life; reflexivity. Qed.
