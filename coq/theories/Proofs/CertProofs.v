(* C16: what new_cert produces is one well-formed Data element whose value is the generic encoding of the
   certificate fields under the reflected descriptor CertificateV2Value; the decoder returns those fields; the
   signer is handed Name..SignatureInfo.  Same architecture as Proofs/PacketRoundtrip.v / SignedPortionProofs.v,
   plus the hand-written outer TLV of new_cert. *)
From NDN Require Import Base.Prelude Base.Text Model.TlvVar Model.Name Model.Tlv Model.Packet Model.PacketEnc Model.Cert
  Spec.TlvWf Spec.StrictTlv Spec.SignedPortion Generated.Schemas Generated.ConstsCert
  Proofs.BytesLemmas Proofs.TlvVarProofs Proofs.NameWire Proofs.TlvSplit Proofs.TlvAssign Proofs.TlvRoundtrip
  Proofs.TlvRoundtrip2 Proofs.TlvMore Proofs.PacketRoundtrip Proofs.SignedPortionProofs.
Local Open Scope N_scope.
Set Default Timeout 900.

Arguments N.of_nat : simpl never.
Arguments N.to_nat : simpl never.

Notation cfs := security_v2_CertificateV2Value.

Lemma Ok_inj {A} (x y : A) : Ok x = Ok y -> x = y.
Proof. intros H. inversion H. reflexivity. Qed.

(* ---- the hand-written outer TLV ----------------------------------------------------------------------------- *)
(* cutting the unused tail and writing Type and Length by hand gives the canonical element around the rest *)
Lemma assemble_outer_tlv v pad k w :
  length pad = k ->
  assemble_outer (v ++ pad) k = Ok w -> w = tlv TYPE_DATA v /\ N.of_nat (length v) < two64.
Proof.
  intros <-. unfold assemble_outer. rewrite app_length.
  replace (length v + length pad - length pad)%nat with (length v) by lia.
  rewrite firstn_app_exact. unfold tl_enc_r.
  destruct (N.of_nat (length v) <? two64) eqn:E; [|discriminate]. cbn [bind]. intros H. inversion H.
  split; [reflexivity|lia].
Qed.

Lemma assemble_outer_ok v pad :
  N.of_nat (length v) < two64 -> assemble_outer (v ++ pad) (length pad) = Ok (tlv TYPE_DATA v).
Proof.
  intros Hl. unfold assemble_outer. rewrite app_length.
  replace (length v + length pad - length pad)%nat with (length v) by lia.
  rewrite firstn_app_exact, tl_enc_r_ok by exact Hl. reflexivity.
Qed.

(* the SignatureValue element left in the buffer = the canonical element of the real signature + unused tail *)
Lemma sigvalue_buffer_split reserved sv :
  check_sig_len reserved sv = Ok tt ->
  sigvalue_buffer reserved sv =
    (tl_enc T_SIG_VALUE ++ tl_enc (N.of_nat (length sv)) ++ sv) ++ repeat 0 (N.to_nat (reserved - N.of_nat (length sv))).
Proof.
  unfold check_sig_len, sigvalue_buffer. intros H.
  destruct (N.of_nat (length sv) =? reserved) eqn:E.
  - apply N.eqb_eq in E. rewrite E. rewrite <- !app_assoc. reflexivity.
  - destruct (253 <=? reserved) eqn:E1; [discriminate|].
    destruct (reserved <? N.of_nat (length sv)) eqn:E2; [discriminate|].
    rewrite (tl_enc_small (N.of_nat (length sv))) by lia. rewrite <- !app_assoc. reflexivity.
Qed.

Lemma unused_length reserved (sv : bytes) :
  length (repeat 0 (N.to_nat (reserved - N.of_nat (length sv)))) = N.to_nat (reserved - N.of_nat (length sv)).
Proof. apply repeat_length. Qed.

(* ---- new_cert: the wire ---------------------------------------------------------------------------------------- *)
(* the generic encoding of the five certificate fields, from the encodings of the fields taken one by one *)
Lemma cert_encode_fields name meta pub info (sv : option bytes) s_meta s_content s_info s_sig :
  enc_by cfs T_META_INFO meta = Ok s_meta ->
  enc_by cfs T_CONTENT (VBytes pub) = Ok s_content ->
  enc_by cfs T_SIG_INFO info = Ok s_info ->
  enc_by cfs T_SIG_VALUE (vbytes sv) = Ok s_sig ->
  encode_model (depth_of cfs) cfs [VName name; meta; VBytes pub; info; vbytes sv]
  = Ok (name_encode name ++ s_meta ++ s_content ++ s_info ++ s_sig).
Proof.
  unfold enc_by, T_META_INFO, T_CONTENT, T_SIG_INFO, T_SIG_VALUE.
  cbn [kind_of security_v2_CertificateV2Value N.eqb Pos.eqb].
  intros F1 F2 F3 F4.
  unfold encode_model. cbn [enc_fields_with security_v2_CertificateV2Value].
  change (enc_val (depth_of cfs) 7 KName (VName name)) with (@Ok bytes (name_encode name)).
  cbn [bind]. rewrite F1. cbn [bind]. rewrite F2. cbn [bind]. rewrite F3. cbn [bind]. rewrite F4. cbn [bind].
  rewrite app_nil_r. reflexivity.
Qed.

Lemma enc_sigvalue_some sv :
  enc_by cfs T_SIG_VALUE (VBytes sv) = Ok (tl_enc T_SIG_VALUE ++ tl_enc (N.of_nat (length sv)) ++ sv).
Proof. reflexivity. Qed.

Lemma enc_sigvalue_none : enc_by cfs T_SIG_VALUE VNone = Ok [].
Proof. reflexivity. Qed.

Lemma kind_sigvalue : kind_of cfs T_SIG_VALUE = Some (KBytes false).
Proof. reflexivity. Qed.

Section Cert.
Variable sign : bytes -> bytes.

Definition written_of (a : cert_in) : list value :=
  match c_signer a with Some s => sg_written s | None => unwritten end.

(* the value buffer after signing = covered bytes, the canonical SignatureValue element of the signature that was
   written (nothing without a signer), and exactly shrink_len unused octets *)
Lemma signed_value_spec sg covered v k :
  signed_value sign cfs sg covered = Ok (v, k) ->
  exists sv sigel pad,
    v = (covered ++ sigel) ++ pad /\ length pad = k /\ enc_by cfs T_SIG_VALUE (vbytes sv) = Ok sigel /\
    match sg with Some _ => sv = Some (sign covered) | None => sv = None end.
Proof.
  unfold signed_value. destruct sg as [s|].
  - rewrite kind_sigvalue.
    destruct (check_sig_len (sg_reserved s) (sign covered)) as [[]|] eqn:Ec; [|discriminate]. cbn [bind].
    rewrite (sigvalue_buffer_split _ _ Ec). intros H. injection H as <- <-.
    exists (Some (sign covered)), (tl_enc T_SIG_VALUE ++ tl_enc (N.of_nat (length (sign covered))) ++ sign covered),
           (repeat 0 (N.to_nat (sg_reserved s - N.of_nat (length (sign covered))))).
    split; [rewrite <- !app_assoc; reflexivity|]. split; [apply repeat_length|]. split; [apply enc_sigvalue_some|reflexivity].
  - intros H. injection H as <- <-. exists None, [], [].
    split; [rewrite !app_nil_r; reflexivity|]. split; [reflexivity|]. split; [apply enc_sigvalue_none|reflexivity].
Qed.

(* everything new_cert computes on the way *)
Record cert_parts := {
  p_name : list bytes; p_t0 : bdt; p_t1 : bdt; p_nb : bytes; p_na : bytes;
  p_meta : bytes; p_content : bytes; p_info : bytes; p_sigel : bytes; p_sv : option bytes }.

Definition parts_of (a : cert_in) (m : made) (p : cert_parts) : Prop :=
  cert_name a = Ok (p_name p) /\ to_utc (c_start a) = Ok (p_t0 p) /\ to_utc (c_end a) = Ok (p_t1 p) /\
  strftime not_before_format (p_t0 p) = Ok (p_nb p) /\ strftime not_after_format (p_t1 p) = Ok (p_na p) /\
  enc_by cfs T_META_INFO cert_meta = Ok (p_meta p) /\
  enc_by cfs T_CONTENT (VBytes (c_pub a)) = Ok (p_content p) /\
  enc_by cfs T_SIG_INFO (cert_siginfo (written_of a) (p_nb p) (p_na p)) = Ok (p_info p) /\
  enc_by cfs T_SIG_VALUE (vbytes (p_sv p)) = Ok (p_sigel p) /\
  m_final_name m = p_name p /\
  m_sig_covered m = name_encode (p_name p) ++ p_meta p ++ p_content p ++ p_info p /\
  m_wire m = tlv TYPE_DATA (m_sig_covered m ++ p_sigel p) /\
  N.of_nat (length (m_sig_covered m ++ p_sigel p)) < two64 /\
  (match c_signer a with Some _ => p_sv p = Some (sign (m_sig_covered m)) | None => p_sv p = None end).

Lemma new_cert_parts a m : new_cert sign a = Ok m -> exists p, parts_of a m p.
Proof.
  unfold new_cert. intros H.
  destruct (cert_name a) as [name|] eqn:En; [|discriminate]. cbn [bind] in H.
  destruct (to_utc (c_start a)) as [t0|] eqn:E0; [|discriminate]. cbn [bind] in H.
  destruct (to_utc (c_end a)) as [t1|] eqn:E1; [|discriminate]. cbn [bind] in H.
  destruct (strftime not_before_format t0) as [nb|] eqn:Eb; [|discriminate]. cbn [bind] in H.
  destruct (strftime not_after_format t1) as [na|] eqn:Ea; [|discriminate]. cbn [bind] in H.
  fold (written_of a) in H.
  destruct (enc_by _ T_META_INFO cert_meta) as [s_meta|] eqn:F1; [|discriminate]. cbn [bind] in H.
  destruct (enc_by _ T_CONTENT _) as [s_content|] eqn:F2; [|discriminate]. cbn [bind] in H.
  destruct (enc_by _ T_SIG_INFO _) as [s_info|] eqn:F3; [|discriminate]. cbn [bind] in H.
  destruct (signed_value _ _ _ _) as [[v k]|] eqn:Ev; [|discriminate]. cbn [bind fst snd] in H.
  destruct (assemble_outer v k) as [w|] eqn:Ew; [|discriminate]. cbn [bind] in H.
  destruct (signed_value_spec _ _ _ _ Ev) as (sv & sigel & pad & -> & Hk & F4 & Hsv).
  apply assemble_outer_tlv in Ew; [|exact Hk]. destruct Ew as [-> Hl].
  apply Ok_inj in H. subst m.
  exists {| p_name := name; p_t0 := t0; p_t1 := t1; p_nb := nb; p_na := na; p_meta := s_meta; p_content := s_content;
            p_info := s_info; p_sigel := sigel; p_sv := sv |}.
  unfold parts_of.
  cbv [m_wire m_sig_covered m_final_name p_name p_t0 p_t1 p_nb p_na p_meta p_content p_info p_sigel p_sv].
  repeat (split; [first [reflexivity|assumption]|]). exact Hsv.
Qed.

(* the wire is one Data element around the generic encoding of the five fields *)
Lemma new_cert_body a m p :
  parts_of a m p ->
  m_wire m = tlv TYPE_DATA (m_sig_covered m ++ p_sigel p) /\
  encode_model (depth_of cfs) cfs (cert_values (p_name p) (c_pub a) (written_of a) (p_nb p) (p_na p) (p_sv p))
  = Ok (m_sig_covered m ++ p_sigel p).
Proof.
  intros (_ & _ & _ & _ & _ & F1 & F2 & F3 & F4 & _ & Hc & Hw & _ & _). split; [exact Hw|].
  unfold cert_values. rewrite (cert_encode_fields (p_name p) _ _ _ (p_sv p) _ _ _ _ F1 F2 F3 F4). rewrite Hc.
  generalize (name_encode (p_name p)). intros sn. rewrite <- !app_assoc. reflexivity.
Qed.

(* ---- legality of the values new_cert encodes ------------------------------------------------------------------------ *)
(* T1 layout obligation: CertificateV2SignatureInfo = the SignatureInfo fields (IncludeBase), then ValidityPeriod,
   then the extension *)
Lemma siginfo_layout :
  security_v2_CertificateV2SignatureInfo =
  ndn_format_0_3_SignatureInfo ++ [(TN_VALIDITY_PERIOD, KModel security_v2_ValidityPeriod false);
                                   (TN_ADDITIONAL_DESCRIPTION, KModel security_v2_AdditionalDescription false)].
Proof. reflexivity. Qed.

Lemma validity_layout : security_v2_ValidityPeriod = [(TN_NOT_BEFORE, KBytes false); (TN_NOT_AFTER, KBytes false)].
Proof. reflexivity. Qed.

(* the certificate descriptor is the Data descriptor with the richer SignatureInfo; markers in the same places *)
Lemma cert_layout :
  cfs = [(TYPE_NAME, KName); (T_META_INFO, KModel ndn_format_0_3_MetaInfo false); (T_CONTENT, KBytes false);
         (T_SIG_INFO, KModel security_v2_CertificateV2SignatureInfo true); (T_SIG_VALUE, KBytes false)]
  /\ security_v2_CertificateV2Value_layout = ndn_format_0_3_DataPacketValue_layout.
Proof. split; reflexivity. Qed.

Lemma fits_cert_siginfo written nb na :
  fits (KModel ndn_format_0_3_SignatureInfo true) (VModel written) ->
  fits (KModel security_v2_CertificateV2SignatureInfo true) (cert_siginfo written nb na).
Proof.
  intros H. inversion H as [| | | | |fs ic vs HF| |]; subst. unfold cert_siginfo. rewrite siginfo_layout.
  constructor. apply Forall2_app; [exact HF|].
  constructor; [|constructor; [constructor|constructor]].
  cbn [snd]. constructor. rewrite validity_layout.
  constructor; [constructor; discriminate|constructor; [constructor; discriminate|constructor]].
Qed.

Lemma fits_vuint (o : option N) : match o with Some n => n < two64 | None => True end -> fits (KUint None) (vuint o).
Proof.
  destruct o as [n|]; intros H; [|constructor]. cbn [vuint].
  apply (fits_uint None n (nni_width n)); [reflexivity|apply nni_width_bound; exact H].
Qed.

Lemma fits_cert_meta : fits (KModel ndn_format_0_3_MetaInfo false) cert_meta.
Proof.
  unfold cert_meta. constructor.
  constructor; [|constructor; [|constructor; [constructor|constructor]]]; cbn [snd]; apply fits_vuint.
  - unfold cert_content_type, two64. lia.
  - unfold cert_freshness, two64. lia.
Qed.

Lemma cert_fits name pub written nb na sv :
  Forall wf_comp64 name -> fits (KModel ndn_format_0_3_SignatureInfo true) (VModel written) ->
  Forall2 (fun f v => fits (snd f) v) cfs (cert_values name pub written nb na sv).
Proof.
  intros Hn Hw. destruct cert_layout as [-> _]. unfold cert_values.
  constructor; [constructor; exact Hn|].
  constructor; [exact fits_cert_meta|].
  constructor; [constructor; discriminate|].
  constructor; [apply fits_cert_siginfo; exact Hw|].
  constructor; [destruct sv; constructor; discriminate|constructor].
Qed.

(* ---- the name ---------------------------------------------------------------------------------------------------------- *)
Lemma cert_name_shape a name :
  cert_name a = Ok name ->
  exists kn n, name_normalize (c_key_name a) = Ok kn /\ c_now a = Z.of_N n /\ n < two64 /\
               name = kn ++ [c_issuer a; comp_enc TYPE_VERSION (nni_enc n)].
Proof.
  unfold cert_name. destruct (name_normalize (c_key_name a)) as [kn|]; [|discriminate]. cbn [bind].
  unfold comp_from_number. destruct (c_now a <? 0)%Z eqn:Ez; [discriminate|].
  unfold nni_enc_r. destruct (Z.to_N (c_now a) <? two64) eqn:El; [|discriminate]. cbn [bind].
  unfold comp_from_bytes. cbn [bind]. intros H. apply Ok_inj in H. subst name.
  exists kn, (Z.to_N (c_now a)). split; [reflexivity|]. split; [lia|]. split; [lia|]. reflexivity.
Qed.

Lemma version_wf n : wf_comp64 (comp_enc TYPE_VERSION (nni_enc n)).
Proof.
  exists TYPE_VERSION, (nni_enc n). split; [reflexivity|]. split; [reflexivity|].
  rewrite nni_enc_length. destruct (nni_width_cases n) as [E|[E|[E|E]]]; rewrite E; reflexivity.
Qed.

Lemma cert_name_wf a name kn :
  cert_name a = Ok name -> name_normalize (c_key_name a) = Ok kn ->
  Forall wf_comp64 kn -> wf_comp64 (c_issuer a) -> Forall wf_comp64 name.
Proof.
  intros H Hk Hw Hi. destruct (cert_name_shape a name H) as (kn' & n & E1 & _ & _ & ->).
  rewrite Hk in E1. apply Ok_inj in E1. subst kn'.
  apply Forall_app. split; [exact Hw|]. constructor; [exact Hi|]. constructor; [apply version_wf|constructor].
Qed.

(* ---- decoding gives the fields back ------------------------------------------------------------------------------------- *)
Theorem new_cert_roundtrip a m p :
  parts_of a m p ->
  N.of_nat (length (m_wire m)) < two64 ->
  Forall wf_comp64 (p_name p) ->
  fits (KModel ndn_format_0_3_SignatureInfo true) (VModel (written_of a)) ->
  dec_cert (m_wire m) = Ok (cert_values (p_name p) (c_pub a) (written_of a) (p_nb p) (p_na p) (p_sv p)).
Proof.
  intros Hp Hl Hn Hw. destruct (new_cert_body a m p Hp) as [Ew Eb].
  rewrite Ew in *. rewrite tlv_length in Hl.
  unfold dec_cert, gen_decode. rewrite pact_tlv; [|unfold TYPE_DATA, two64; lia|lia].
  cbn [bind].
  rewrite (parse_encode_roundtrip _ _ false _ _ (wf_fieldsb_spec _ wf_security_v2_CertificateV2Value)
             (cert_fits _ _ _ _ _ _ Hn Hw) Eb) by lia.
  unfold require_name. cbn [bind]. reflexivity.
Qed.

(* ---- what the signer is given ------------------------------------------------------------------------------------------- *)
Theorem new_cert_signed_portion a m p s :
  parts_of a m p -> c_signer a = Some s ->
  N.of_nat (length (m_wire m)) < two64 ->
  fits (KModel ndn_format_0_3_SignatureInfo true) (VModel (written_of a)) ->
  signed_portion_data (m_sig_covered m ++ p_sigel p) = Some (m_sig_covered m).
Proof.
  intros (_ & _ & _ & _ & _ & F1 & F2 & F3 & F4 & _ & Hc & Hw & _ & Hsv) Es Hl Hfs.
  rewrite Es in Hsv. rewrite Hsv in F4. cbn [vbytes] in F4.
  rewrite Hw, tlv_length in Hl. rewrite Hc in *. clear Hc Hw Hsv.
  set (sv := sign _) in *. clearbody sv.
  remember (name_encode (p_name p)) as s_name eqn:En.
  destruct p as [name t0 t1 nb na s_meta s_content s_info sigel psv].
  cbn [p_name p_meta p_content p_info p_sigel p_nb p_na] in *.
  rewrite !app_length in Hl.
  pose proof (wf_fieldsb_spec _ wf_security_v2_CertificateV2Value) as Hwf.
  destruct (enc_by_els cfs T_META_INFO cert_meta s_meta Hwf
              ltac:(intros k Hk; vm_compute in Hk; inversion Hk; subst; split; [exact fits_cert_meta|discriminate]) F1 ltac:(lia))
    as (els1 & -> & G1).
  destruct (enc_by_els cfs T_CONTENT (VBytes (c_pub a)) s_content Hwf
              ltac:(intros k Hk; vm_compute in Hk; inversion Hk; subst; split; [constructor; discriminate|discriminate]) F2 ltac:(lia))
    as (els2 & -> & G2).
  destruct (enc_by_els cfs T_SIG_INFO (cert_siginfo (written_of a) nb na) s_info Hwf
              ltac:(intros k Hk; vm_compute in Hk; inversion Hk; subst; split; [exact (fits_cert_siginfo _ _ _ Hfs)|discriminate]) F3 ltac:(lia))
    as (els3 & -> & G3).
  apply enc_bytes_ser in F4; [|reflexivity|unfold T_SIG_VALUE, two64; lia]. subst sigel.
  rewrite name_encode_ser in En. subst s_name.
  set (en := Elem TYPE_NAME _ _) in *. set (es := Elem T_SIG_VALUE _ _) in *.
  assert (Hen : el_ok en).
  { unfold en, el_ok. cbn [e_type e_dlen e_payload]. unfold ser_elem, en in Hl.
    cbn [e_type e_payload] in Hl. rewrite tlv_length in Hl. unfold TYPE_NAME, two64 in *. repeat split; lia. }
  assert (Hes : el_ok es).
  { unfold es, el_ok. cbn [e_type e_dlen e_payload]. unfold ser_elem, es in Hl. cbn [e_type e_payload] in Hl.
    rewrite (tlv_length T_SIG_VALUE) in Hl. unfold T_SIG_VALUE, two64 in *. repeat split; lia. }
  unfold signed_portion_data.
  replace ((ser_elem en ++ ser_els els1 ++ ser_els els2 ++ ser_els els3) ++ ser_elem es)
    with (ser_els ([en] ++ els1 ++ els2 ++ els3) ++ ser_elem es ++ [])
    by (rewrite !ser_els_app, app_nil_r; unfold ser_els at 1; cbn [map concat]; rewrite app_nil_r; reflexivity).
  replace (ser_elem en ++ ser_els els1 ++ ser_els els2 ++ ser_els els3)
    with (ser_els ([en] ++ els1 ++ els2 ++ els3))
    by (rewrite !ser_els_app; unfold ser_els at 1; cbn [map concat]; rewrite app_nil_r; reflexivity).
  assert (Hall : Forall (fun e => e_type e <> T_SIG_VALUE /\ el_ok e) ([en] ++ els1 ++ els2 ++ els3)).
  { apply Forall_app; split; [|apply Forall_app; split; [|apply Forall_app; split]].
    + constructor; [|constructor]. split; [unfold en; cbn; discriminate|exact Hen].
    + eapply Forall_types_ne; [|exact G1]. discriminate.
    + eapply Forall_types_ne; [|exact G2]. discriminate.
    + eapply Forall_types_ne; [|exact G3]. discriminate. }
  rewrite (before_type_ser T_SIG_VALUE); [|exact Hall|exact Hes|reflexivity|].
  - cbn [app]. unfold ser_els. cbn [map concat]. fold (ser_els (els1 ++ els2 ++ els3)).
    cbn [from_type]. rewrite next_element_ser by exact Hen. reflexivity.
  - pose proof (ser_els_length_ge ([en] ++ els1 ++ els2 ++ els3)) as G.
    assert (Forall el_ok ([en] ++ els1 ++ els2 ++ els3))
      by (eapply Forall_impl; [|exact Hall]; intros e (_ & Hok); exact Hok).
    specialize (G H). rewrite !app_length in *. lia.
Qed.

End Cert.
