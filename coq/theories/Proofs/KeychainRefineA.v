(* abs (tables after one statement) in terms of the specification's update functions on abs (tables before). *)
From NDN Require Import Base.Prelude Model.Keychain Spec.KeychainSpec.
From NDN Require Import Proofs.KeychainTables Proofs.KeychainInv Proofs.KeychainInvariant Proofs.KeychainAbs
  Proofs.KeychainRefineLemmas.
Local Open Scope N_scope.

(* ---- what abs_key / abs_ident depend on -------------------------------------------------------------------- *)
Lemma abs_key_certs t t' k : t_certs t' = t_certs t -> abs_key t' k = abs_key t k.
Proof. intros E. unfold abs_key. rewrite E. reflexivity. Qed.
Lemma abs_ident_same t t' i : t_keys t' = t_keys t -> t_certs t' = t_certs t -> abs_ident t' i = abs_ident t i.
Proof.
  intros Ek Ec. unfold abs_ident. rewrite Ek. f_equal. apply scope_map_ext. intros. apply abs_key_certs. assumption.
Qed.
Lemma abs_key_sim t x y : row_sim x y -> abs_key t x = abs_key t y.
Proof. intros [Ei [_ [_ Ev]]]. unfold abs_key. rewrite Ei, Ev. reflexivity. Qed.
Lemma abs_ident_sim t x y : row_sim x y -> abs_ident t x = abs_ident t y.
Proof. intros [Ei _]. unfold abs_ident. rewrite Ei. reflexivity. Qed.

Lemma upd_default_sim r x : row_sim (upd_default r x) x.
Proof. unfold row_sim. rewrite upd_default_id, upd_default_par, upd_default_name, upd_default_val. auto. Qed.
Lemma scope_map_set_default {V} (g : row -> V) p n l :
  (forall x y, row_sim x y -> g x = g y) -> scope_map g p (r_set_default n l) = scope_map g p l.
Proof.
  intros Hg. destruct (r_set_default_cases n l) as [-> | [r [_ [_ ->]]]]; [reflexivity|].
  apply scope_map_map.
  - intros x. rewrite upd_default_name, upd_default_par. auto.
  - intros x _. apply Hg. apply upd_default_sim.
Qed.

(* ---- owners ----------------------------------------------------------------------------------------------------- *)
Lemma find_key_owner t kn kr :
  wf_tables t -> r_find kn (t_keys t) = Some kr ->
  exists i0, In i0 (t_ids t) /\ r_id i0 = r_par kr /\ r_name i0 = drop2 kn /\
             kc_get (drop2 kn) t = Ok i0 /\ id_get i0 kn t = Ok kr.
Proof.
  intros W F. apply r_find_some in F. destruct F as [Hk Nk].
  destruct (wf_kref _ W _ Hk) as [i0 [Hi0 Ei0]]. destruct (wf_kname _ W _ _ Hk Hi0 Ei0) as [Dn _].
  exists i0. rewrite Nk in Dn. repeat split; auto.
  - rewrite Dn. apply kc_get_in; auto.
  - unfold id_get. apply v_get_in; auto. apply W.
Qed.
Lemma find_key_none t tp kn : r_find kn (t_keys t) = None -> s_key (abs_tables t tp) kn = None.
Proof.
  intros F. rewrite abs_s_key. destruct (kc_get (drop2 kn) t) as [i|]; [|reflexivity].
  destruct (id_get i kn t) as [k|] eqn:G; [|reflexivity]. unfold id_get in G. apply v_get_ok in G.
  apply r_find_none in F. exfalso. apply F. destruct G as [Hk [<- _]]. apply in_map. assumption.
Qed.
Lemma find_key_some t tp kn kr : wf_tables t -> r_find kn (t_keys t) = Some kr -> s_key (abs_tables t tp) kn = Some (abs_key t kr).
Proof.
  intros W F. destruct (find_key_owner _ _ _ W F) as [i0 [_ [_ [_ [G1 G2]]]]]. rewrite abs_s_key, G1, G2. reflexivity.
Qed.
Lemma s_ident_find t tp n :
  wf_tables t -> s_ident (abs_tables t tp) n = option_map (abs_ident t) (r_find n (t_ids t)).
Proof.
  intros W. rewrite abs_ident_get. destruct (r_find n (t_ids t)) as [i|] eqn:F; cbn.
  - apply r_find_some in F. destruct F as [Hi Ni]. rewrite (kc_get_in _ _ _ W Hi Ni). reflexivity.
  - destruct (kc_get n t) as [i|] eqn:G; [|reflexivity]. apply kc_get_ok in G. apply r_find_none in F.
    exfalso. apply F. destruct G as [Hi <-]. apply in_map. assumption.
Qed.

(* ---- replacing the entry of one identity / one key -------------------------------------------------------------- *)
Lemma abs_update_ident t t' tp i0 :
  wf_tables t -> t_ids t' = t_ids t -> In i0 (t_ids t) ->
  (forall i, In i (t_ids t) -> i <> i0 -> abs_ident t' i = abs_ident t i) ->
  s_ids (abs_tables t' tp) = nset (s_ids (abs_tables t tp)) (r_name i0) (abs_ident t' i0).
Proof.
  intros W Ei Hi0 Hsame. unfold abs_tables. cbn [s_ids]. rewrite Ei.
  apply scope_map_update.
  - apply W.
  - assumption.
  - apply (wf_ipar _ W); assumption.
  - intros x Hx _ Nx. apply Hsame; assumption.
Qed.
Lemma abs_update_key t t' i0 k0 :
  wf_tables t -> t_keys t' = t_keys t -> In k0 (t_keys t) -> r_par k0 = r_id i0 ->
  (forall k, In k (t_keys t) -> k <> k0 -> abs_key t' k = abs_key t k) ->
  si_keys (abs_ident t' i0) = nset (si_keys (abs_ident t i0)) (r_name k0) (abs_key t' k0) /\
  si_defkey (abs_ident t' i0) = si_defkey (abs_ident t i0) /\
  (forall i, r_id i <> r_id i0 -> abs_ident t' i = abs_ident t i).
Proof.
  intros W Ek Hk0 Pk0 Hsame. unfold abs_ident. cbn [si_keys si_defkey]. rewrite Ek. repeat split.
  - apply scope_map_update; [apply W | assumption | assumption|]. intros x Hx _ Nx. apply Hsame; assumption.
  - intros i Ni. f_equal. apply scope_map_ext. intros x Hx Px. apply Hsame; [assumption|]. intros ->. congruence.
Qed.

Lemma nset_same {V} (m : list (name * V)) n v : nget m n = Some v -> nset m n v = m.
Proof.
  induction m as [|[k w] m IH]; cbn; [discriminate|].
  destruct (name_eqb n k) eqn:E; [intros H; inversion H; subst; apply name_eqb_eq in E; subst; reflexivity|].
  intros H. f_equal. auto.
Qed.

(* ---- statements ----------------------------------------------------------------------------------------------------- *)
Lemma abs_insert_identity t t1 tp n :
  wf_tables t -> kc_contains n t = false -> sql_insert_identity n t = Ok t1 ->
  abs_tables t1 tp = s_add_identity n (abs_tables t tp).
Proof.
  intros W C E. unfold sql_insert_identity in E. destruct (r_insert 0 n 0 (t_ids t)) as [l|] eqn:R; [|discriminate].
  cbn in E. inversion E; subst t1. clear E. apply r_insert_ok in R. destruct R as [-> NI].
  unfold s_add_identity, abs_tables. cbn [s_ids s_defid s_tpm t_ids t_keys t_certs].
  assert (Hfresh : forall k, In k (t_keys t) -> r_par k <> next_id (t_ids t)).
  { intros k Hk E. destruct (wf_kref _ W _ Hk) as [i [Hi Ei]]. apply (next_id_fresh_row _ _ Hi). congruence. }
  f_equal.
  - rewrite scope_map_app. unfold in_scope at 1. cbn [r_par r_name]. rewrite N.eqb_refl.
    assert (Hnew : abs_ident (mkT (t_ids t ++ [mkRow (next_id (t_ids t)) 0 n 0 (negb (scope_has_def 0 (t_ids t)))]) (t_keys t) (t_certs t))
                     (mkRow (next_id (t_ids t)) 0 n 0 (negb (scope_has_def 0 (t_ids t)))) = mkSI [] None).
    { unfold abs_ident. cbn [r_id t_keys]. f_equal.
      - apply scope_map_empty. assumption.
      - apply scope_defname_none. destruct (scope_has_def (next_id (t_ids t)) (t_keys t)) eqn:H; [|reflexivity].
        apply scope_has_def_true in H. destruct H as [k [Hk [_ Pk]]]. exfalso. apply (Hfresh k Hk Pk). }
    rewrite Hnew. rewrite nset_fresh.
    + reflexivity.
    + rewrite scope_map_nget. destruct (v_get 0 n (t_ids t)) as [r|] eqn:G; [|reflexivity].
      unfold kc_contains, v_contains in C. rewrite G in C. discriminate.
  - rewrite scope_defname_app. unfold first_default. destruct (scope_defname 0 (t_ids t)) eqn:D; [reflexivity|].
    apply scope_defname_none in D. unfold is_def_in, in_scope. cbn. rewrite D. reflexivity.
Qed.

Lemma abs_default_identity t tp n :
  wf_tables t ->
  abs_tables (mkT (r_set_default n (t_ids t)) (t_keys t) (t_certs t)) tp =
  match s_ident (abs_tables t tp) n with
  | Some _ => mkSKC (s_ids (abs_tables t tp)) (Some n) tp
  | None => abs_tables t tp
  end.
Proof.
  intros W. rewrite (s_ident_find _ _ _ W). unfold abs_tables at 1. cbn [t_ids t_keys t_certs].
  assert (Em : scope_map (abs_ident (mkT (r_set_default n (t_ids t)) (t_keys t) (t_certs t))) 0 (r_set_default n (t_ids t))
               = scope_map (abs_ident t) 0 (t_ids t)).
  { rewrite scope_map_set_default.
    - apply scope_map_ext. intros. apply abs_ident_same; reflexivity.
    - intros x y S. unfold abs_ident. cbn [t_keys t_certs]. destruct S as [-> _]. reflexivity. }
  rewrite Em. destruct (r_find n (t_ids t)) as [r|] eqn:F; cbn [option_map].
  - rewrite (scope_defname_set_default 0 n _ r (wf_i _ W) F).
    apply r_find_some in F. rewrite (wf_ipar _ W _ (proj1 F)). cbn. reflexivity.
  - rewrite (scope_defname_set_default_none 0 n _ F). reflexivity.
Qed.
