(* C19 lemmas, part 1: segment components, name surgery, request equality, the retry loop. *)
From NDN Require Import Base.Prelude Model.TlvVar Model.Name Model.SegFetch Spec.SegFetchSpec.
From NDN Require Import Proofs.BytesLemmas Proofs.TlvVarProofs Proofs.NameWire.
Local Open Scope nat_scope.

(* ---- segment components ------------------------------------------------------------------- *)

Lemma nni_enc_len_small v : (N.of_nat (length (nni_enc v)) < two64)%N.
Proof.
  rewrite nni_enc_length. destruct (nni_width_cases v) as [W|[W|[W|W]]]; rewrite W; reflexivity.
Qed.

Lemma comp_from_segment_ok i :
  (N.of_nat i < two64)%N -> comp_from_segment (N.of_nat i) = Ok (seg_comp i).
Proof.
  intros H. unfold comp_from_segment, comp_from_number.
  replace (Z.of_N (N.of_nat i) <? 0)%Z with false by lia.
  rewrite N2Z.id. unfold nni_enc_r.
  replace (N.of_nat i <? two64)%N with true by lia.
  reflexivity.
Qed.

Lemma comp_from_segment_big n : (two64 <= n)%N -> comp_from_segment n = Err EStruct.
Proof.
  intros H. unfold comp_from_segment, comp_from_number.
  replace (Z.of_N n <? 0)%Z with false by lia.
  rewrite N2Z.id. unfold nni_enc_r. replace (n <? two64)%N with false by lia. reflexivity.
Qed.

Lemma comp_enc_type t v : (t < two64)%N -> comp_get_type (comp_enc t v) = Ok t.
Proof.
  intros H. unfold comp_get_type, comp_enc. rewrite tl_dec_enc by exact H. reflexivity.
Qed.

Lemma comp_enc_number t v :
  (t < two64)%N -> (N.of_nat (length v) < two64)%N -> comp_to_number (comp_enc t v) = Ok (be_to_N v).
Proof.
  intros Ht Hv. unfold comp_to_number, comp_get_value, comp_enc.
  rewrite tl_dec_enc by exact Ht. cbn [bind snd].
  rewrite <- tl_enc_length at 1. rewrite skipn_app_exact.
  rewrite tl_dec_enc by exact Hv. cbn [bind snd].
  rewrite app_assoc.
  rewrite (skipn_app_exact' (tl_size t + tl_size (N.of_nat (length v))))
    by (rewrite app_length, !tl_enc_length; reflexivity).
  reflexivity.
Qed.

Lemma seg_comp_type i : comp_get_type (seg_comp i) = Ok TYPE_SEGMENT.
Proof. apply comp_enc_type. reflexivity. Qed.

Lemma seg_comp_number i : (N.of_nat i < two64)%N -> comp_to_number (seg_comp i) = Ok (N.of_nat i).
Proof.
  intros H. unfold seg_comp. rewrite comp_enc_number; [|reflexivity|apply nni_enc_len_small].
  unfold nni_enc. rewrite be_to_N_to_be_small by (apply nni_width_bound; exact H). reflexivity.
Qed.

Lemma seg_comp_inj i j :
  (N.of_nat i < two64)%N -> (N.of_nat j < two64)%N -> seg_comp i = seg_comp j -> i = j.
Proof.
  intros Hi Hj E. pose proof (seg_comp_number i Hi) as A. rewrite E, (seg_comp_number j Hj) in A.
  inversion A. lia.
Qed.

(* ---- names --------------------------------------------------------------------------------- *)

Lemma last_comp_snoc (b : name) c : last_comp (b ++ [c]) = Ok c.
Proof. unfold last_comp. rewrite rev_unit. reflexivity. Qed.

Lemma set_last_snoc (b : name) c c' : set_last (b ++ [c]) c' = Ok (b ++ [c']).
Proof.
  unfold set_last. destruct (b ++ [c]) eqn:E; [destruct b; discriminate|].
  rewrite <- E, removelast_last. reflexivity.
Qed.

Lemma name_eqb_refl (a : name) : name_eqb a a = true.
Proof. apply name_eqb_spec. reflexivity. Qed.

Lemma seg_name_inj ob i j :
  (N.of_nat i < two64)%N -> (N.of_nat j < two64)%N -> seg_name ob i = seg_name ob j -> i = j.
Proof.
  intros Hi Hj E. unfold seg_name in E. apply app_inj_tail in E. destruct E as [_ E].
  apply seg_comp_inj; assumption.
Qed.

(* ---- requests ------------------------------------------------------------------------------ *)

Lemma req_eqb_spec a b : req_eqb a b = true <-> a = b.
Proof.
  destruct a as [n1 c1 m1 l1], b as [n2 c2 m2 l2]. unfold req_eqb. cbn [rq_name rq_cbp rq_mbf rq_lifetime].
  rewrite !andb_true_iff, name_eqb_spec, !Bool.eqb_true_iff, N.eqb_eq.
  split; [intros [[[-> ->] ->] ->]; reflexivity | intros E; inversion E; auto].
Qed.

Lemma req_eqb_refl a : req_eqb a a = true.
Proof. apply req_eqb_spec. reflexivity. Qed.

Lemma req_eqb_neq a b : a <> b -> req_eqb a b = false.
Proof. intros H. destruct (req_eqb a b) eqn:E; [|reflexivity]. apply req_eqb_spec in E. contradiction. Qed.

(* ---- observations ---------------------------------------------------------------------------- *)

Lemma yields_app a b : yields (a ++ b) = yields a ++ yields b.
Proof. induction a as [|[q r|c] a IH]; cbn; [reflexivity|exact IH|rewrite IH; reflexivity]. Qed.

Lemma asked_app a b : asked (a ++ b) = asked a ++ asked b.
Proof. induction a as [|[q r|c] a IH]; cbn; [reflexivity|rewrite IH; reflexivity|exact IH]. Qed.

Lemma observe_after ev r : observe (after ev r) = (yields ev ++ fst (observe r), snd (observe r)).
Proof. unfold observe, after. cbn [fst snd]. rewrite yields_app. reflexivity. Qed.

(* ---- the retry loop -------------------------------------------------------------------------- *)

(* the first of at most [att] answers that is not a timeout decides *)
Fixpoint scan (f : nat -> response) (att : nat) : exc + data :=
  match att with
  | O => inl XTimeout
  | S a =>
      match f O with
      | RData nm c fb => inr (nm, c, fb)
      | RExc XTimeout => scan (fun n => f (S n)) a
      | RExc x => inl x
      end
  end.

Lemma scan_ext att : forall f g, (forall n, f n = g n) -> scan f att = scan g att.
Proof.
  induction att as [|a IH]; intros f g E; cbn; [reflexivity|].
  rewrite (E O). destruct (g O) as [nm c fb|[| | | |]]; try reflexivity.
  apply IH. intros n. apply E.
Qed.

(* number of Interests sent by one retry loop *)
Fixpoint sent (f : nat -> response) (att : nat) : nat :=
  match att with
  | O => O
  | S a => match f O with RExc XTimeout => S (sent (fun n => f (S n)) a) | _ => 1 end
  end.

Lemma sent_ext att : forall f g, (forall n, f n = g n) -> sent f att = sent g att.
Proof.
  induction att as [|a IH]; intros f g E; cbn; [reflexivity|].
  rewrite (E O). destruct (g O) as [nm c fb|[| | | |]]; try reflexivity.
  f_equal. apply IH. intros n. apply E.
Qed.

Definition is_timeout (r : response) : bool := match r with RExc XTimeout => true | _ => false end.

Lemma retry_SS b o rq :
  retry (S (S b)) o rq =
  match o rq O with
  | RData nm c fb => (shift o rq, [EvAsk rq (o rq O)], inr (nm, c, fb))
  | RExc XTimeout =>
      let '(o2, ev, res) := retry (S b) (shift o rq) rq in (o2, EvAsk rq (o rq O) :: ev, res)
  | RExc x => (shift o rq, [EvAsk rq (o rq O)], inl x)
  end.
Proof. cbn [retry]. destruct (o rq O) as [nm c fb|[| | | |]]; reflexivity. Qed.

Lemma scan_S f a :
  scan f (S a) = match f O with
                 | RData nm c fb => inr (nm, c, fb)
                 | RExc XTimeout => scan (fun n => f (S n)) a
                 | RExc x => inl x
                 end.
Proof. reflexivity. Qed.

Lemma sent_S f a :
  sent f (S a) = match f O with RExc XTimeout => S (sent (fun n => f (S n)) a) | _ => 1 end.
Proof. reflexivity. Qed.

Lemma retry_spec b : forall o rq,
  let att := attempts_of b in
  snd (retry b o rq) = scan (o rq) att /\
  yields (snd (fst (retry b o rq))) = [] /\
  asked (snd (fst (retry b o rq))) = repeat rq (sent (o rq) att) /\
  (forall r' n, req_eqb r' rq = false -> fst (fst (retry b o rq)) r' n = o r' n) /\
  (forall n, fst (fst (retry b o rq)) rq n = o rq (sent (o rq) att + n)).
Proof.
  assert (Sh : forall o rq n, shift o rq rq n = o rq (S n))
    by (intros; unfold shift; rewrite req_eqb_refl; reflexivity).
  assert (Sh' : forall o rq r' n, req_eqb r' rq = false -> shift o rq r' n = o r' n)
    by (intros o rq r' n H; unfold shift; rewrite H; reflexivity).
  induction b as [|b IH]; intros o rq att.
  - subst att. cbn. destruct (o rq O) as [nm c fb|[| | | |]]; cbn; repeat split; auto.
  - destruct b as [|b'].
    + subst att. cbn. destruct (o rq O) as [nm c fb|[| | | |]]; cbn; repeat split; auto.
    + specialize (IH (shift o rq) rq). cbn zeta in IH.
      replace (attempts_of (S b')) with (S b') in IH by reflexivity.
      subst att. replace (attempts_of (S (S b'))) with (S (S b')) by reflexivity.
      rewrite retry_SS, scan_S, sent_S.
      destruct (o rq O) as [nm c fb|[| | | |]] eqn:E0; try (cbn; repeat split; auto; fail).
      destruct (retry (S b') (shift o rq) rq) as [[o2 ev] res] eqn:ER.
      cbn [fst snd] in *. destruct IH as (I1 & I2 & I3 & I4 & I5).
      rewrite (scan_ext _ _ _ (Sh o rq)) in I1.
      rewrite (sent_ext _ _ _ (Sh o rq)) in I3, I5.
      repeat split.
      * exact I1.
      * cbn. exact I2.
      * cbn. rewrite I3. reflexivity.
      * intros r' n H. rewrite I4 by exact H. apply Sh'. exact H.
      * intros n. rewrite I5, Sh. reflexivity.
Qed.
