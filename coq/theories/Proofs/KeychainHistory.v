(* Corollaries over whole histories, in the form the property file states them. *)
From NDN Require Import Base.Prelude Model.Keychain Spec.KeychainSpec.
From NDN Require Import Proofs.KeychainTables Proofs.KeychainInv Proofs.KeychainOutcome Proofs.KeychainOutcomeB
  Proofs.KeychainInvariant Proofs.KeychainAbs Proofs.KeychainDefaults Proofs.KeychainCascade.
Local Open Scope N_scope.

Lemma sel_wf (sel : tables -> rows) t : (sel = t_ids \/ sel = t_keys \/ sel = t_certs) -> wf_tables t -> wf_rows (sel t).
Proof. intros [-> | [-> | ->]] W; apply W. Qed.

Lemma one_default_run h (sel : tables -> rows) :
  Forall (fun fo => wf_op (snd fo)) h -> (sel = t_ids \/ sel = t_keys \/ sel = t_certs) ->
  forall a b, In a (sel (db (run h))) -> In b (sel (db (run h))) ->
              r_def a = true -> r_def b = true -> r_par a = r_par b -> a = b.
Proof.
  intros W S a b Ha Hb Da Db P. pose proof (sel_wf sel _ S (inv_wf _ (inv_run h W))) as Wr.
  eapply id_inj; eauto. apply (wr_onedef _ Wr); assumption.
Qed.

Lemma views_consistent_run h :
  Forall (fun fo => wf_op (snd fo)) h ->
  let t := db (run h) in
  view_consistent 0 (t_ids t) /\
  (forall i, In i (t_ids t) -> view_consistent (r_id i) (t_keys t)) /\
  (forall k, In k (t_keys t) -> view_consistent (r_id k) (t_certs t)) /\
  (forall n p q, In n (v_iter p (t_keys t)) -> In n (v_iter q (t_keys t)) -> p = q) /\
  (forall n p q, In n (v_iter p (t_certs t)) -> In n (v_iter q (t_certs t)) -> p = q).
Proof.
  intros W. cbn zeta. pose proof (inv_wf _ (inv_run h W)) as Wt.
  split; [apply view_consistent_wf; apply Wt|].
  split; [intros; apply view_consistent_wf; apply Wt|].
  split; [intros; apply view_consistent_wf; apply Wt|].
  split; intros n p q; apply v_iter_scoped; apply Wt.
Qed.

Lemma defaults_history_all (sel : tables -> rows) h p :
  (sel = t_ids \/ sel = t_keys \/ sel = t_certs) -> Forall (fun fo => wf_op (snd fo)) h ->
  populated p (sel (db (run h))) -> scope_has_def p (sel (db (run h))) = false ->
  exists h1 fo h2, h = h1 ++ fo :: h2 /\ lost_default (sel (db (run h1))) (sel (db (run (h1 ++ [fo])))) p.
Proof.
  intros S. apply defaults_history.
  - intros f o c I. pose proof (defaults_step f o c I) as [H1 [H2 H3]]. destruct S as [-> | [-> | ->]]; assumption.
  - destruct S as [-> | [-> | ->]]; reflexivity.
Qed.

Lemma no_signer_after_delete f kn c r c' f' a m loc c'' :
  inv c -> run_op f (ODelKey kn) c = (Ok r, c') ->
  run_op f' (OGetSigner a) c' = (Ok (RSigner (SgKey m loc)), c'') ->
  forall cn, s_select a (abs c') <> Some (kn, cn).
Proof.
  intros I R1 R2 cn Sel.
  assert (I' : inv c').
  { pose proof (inv_step f (ODelKey kn) c I Logic.I) as X. unfold step in X. cbn [fst snd] in X. rewrite R1 in X. exact X. }
  destruct (del_key_cascade _ _ _ _ _ I R1) as [k [_ [Nk [[Gone _] _]]]].
  rewrite Nk in Gone. pose proof (s_key_none_of_unlisted _ _ Gone) as Hnone.
  pose proof (get_signer_refines _ _ _ _ _ I' R2) as S.
  destruct (signer_key_listed _ _ _ _ I' S) as [kn0 [cn0 [k0 [Sel0 [Hk0 _]]]]].
  rewrite Sel in Sel0. inversion Sel0; subst. congruence.
Qed.

(* ---- histories without injected failures are runs of the specification ------------------------------------------ *)
From NDN Require Import Proofs.KeychainRefine.

Definition spec_apply (a : skc) (o : op) : skc := match spec_step o a with Some a' => a' | None => a end.
Definition spec_run (ops : list op) : skc := fold_left spec_apply ops s_empty.

Lemma step_abs o c : inv c -> wf_op o -> abs (step c (None, o)) = spec_apply (abs c) o.
Proof.
  intros I Wo. pose proof (step_refines o c I Wo) as R. unfold step, spec_apply. cbn [fst snd].
  unfold refines in R. destruct o; try (destruct (spec_step _ (abs c)); destruct R as [_ R]; exact R).
  exact R.
Qed.

Lemma run_refines_spec ops :
  Forall wf_op ops -> abs (run (map (fun o => (None, o)) ops)) = spec_run ops.
Proof.
  intros W. unfold run, spec_run.
  assert (G : forall c a, inv c -> abs c = a ->
                          abs (run_from c (map (fun o => (None, o)) ops)) = fold_left spec_apply ops a).
  { induction W as [|o ops Wo _ IH]; intros c a I E; cbn; [assumption|].
    apply IH; [apply inv_step; assumption|]. rewrite step_abs by assumption. rewrite E. reflexivity. }
  apply G; [apply inv_init | reflexivity].
Qed.
