(* C14 — the caller's memory (Model/ValidatorMem.v): a validator judges against what it was GIVEN when it was
   built; what the caller does to its buffers afterwards, and which other validators it builds from them, cannot
   matter. *)
From NDN Require Import Base.Prelude Model.Validator Model.ValidatorMem Spec.ChainSpec.
From NDN Require Import Proofs.ValidatorProofs Proofs.ValidatorHistory.
Local Open Scope nat_scope.
Set Default Timeout 60.

(* a history with memory operations IS the history of the calls *)
Theorem mrun_is_run_of_given lg w fuel : forall ops ms,
  m_st (fst (mrun lg w fuel ms ops)) = fst (run_history lg w fuel (m_st ms) (given_ops (m_mem ms) ops)) /\
  somes (snd (mrun lg w fuel ms ops)) = snd (run_history lg w fuel (m_st ms) (given_ops (m_mem ms) ops)).
Proof.
  induction ops as [|o ops IH]; intros ms; [split; reflexivity|].
  cbn [mrun given_ops]. unfold mstep.
  destruct (given (m_mem ms) o) as [o'|] eqn:G.
  - cbn [run_history]. destruct (step lg w fuel (m_st ms) o') as [st' b] eqn:S.
    specialize (IH {| m_mem := mem_step (m_mem ms) o; m_st := st' |}). cbn [m_mem m_st] in IH.
    destruct (mrun lg w fuel {| m_mem := mem_step (m_mem ms) o; m_st := st' |} ops) as [ms2 bs].
    destruct (run_history lg w fuel st' (given_ops (mem_step (m_mem ms) o) ops)) as [st2 bs2].
    cbn [fst snd somes] in *. destruct IH as [IH1 IH2]. split; [exact IH1 | rewrite IH2; reflexivity].
  - specialize (IH {| m_mem := mem_step (m_mem ms) o; m_st := m_st ms |}). cbn [m_mem m_st] in IH.
    destruct (mrun lg w fuel {| m_mem := mem_step (m_mem ms) o; m_st := m_st ms |} ops) as [ms2 bs].
    cbn [fst snd somes] in *. exact IH.
Qed.

(* memory operations do not touch the validators *)
Lemma mstep_memory_only lg w fuel ms o :
  given (m_mem ms) o = None -> m_st (fst (mstep lg w fuel ms o)) = m_st ms /\ snd (mstep lg w fuel ms o) = None.
Proof. intros G. unfold mstep. rewrite G. split; reflexivity. Qed.

(* an instance, once built, keeps its configuration through every later operation *)
Lemma step_keeps_insts lg w fuel st o i ins :
  nth_error (s_insts st) i = Some ins -> nth_error (s_insts (fst (step lg w fuel st o))) i = Some ins.
Proof.
  intros H. destruct o as [|sc a s|a s|j p]; cbn [step].
  - exact H.
  - unfold add_inst. destruct (lvs_init w sc a); [|exact H].
    destruct (resolve lg 0 (s_heap st) s) as [[sid h]|]; [|exact H]. cbn. apply nth_error_snoc_old; exact H.
  - unfold add_inst. destruct (cascade_init w a None); [|exact H].
    destruct (resolve lg 1 (s_heap st) s) as [[sid h]|]; [|exact H]. cbn. apply nth_error_snoc_old; exact H.
  - destruct (nth_error (s_insts st) j) as [x|]; [|exact H].
    destruct (nth_error (s_heap st) (i_sid x)) as [ch|]; [|exact H].
    destruct (validate w (i_cfg x) fuel ch p) as [[r ch'] tr]. exact H.
Qed.

Theorem built_config_is_kept lg w fuel ms o i ins :
  nth_error (s_insts (m_st ms)) i = Some ins ->
  nth_error (s_insts (m_st (fst (mstep lg w fuel ms o)))) i = Some ins.
Proof.
  intros H. unfold mstep. destruct (given (m_mem ms) o) as [o'|]; [|exact H].
  pose proof (step_keeps_insts lg w fuel (m_st ms) o' i ins H) as K.
  destruct (step lg w fuel (m_st ms) o') as [st' b]. exact K.
Qed.

Theorem built_config_is_kept_run lg w fuel : forall ops ms i ins,
  nth_error (s_insts (m_st ms)) i = Some ins ->
  nth_error (s_insts (m_st (fst (mrun lg w fuel ms ops)))) i = Some ins.
Proof.
  induction ops as [|o ops IH]; intros ms i ins H; [exact H|].
  cbn [mrun]. pose proof (built_config_is_kept lg w fuel ms o i ins H) as K.
  destruct (mstep lg w fuel ms o) as [ms1 b]. cbn [fst] in K.
  specialize (IH ms1 i ins K). destruct (mrun lg w fuel ms1 ops) as [ms2 bs]. exact IH.
Qed.

(* the configuration of a new validator is computed from the schema and from what the buffer holds at the call *)
Theorem built_from_what_the_buffer_holds w fuel ms sc b s ms' n :
  mstep false w fuel ms (MNewLvs sc b s) = (ms', Some (BNew (Ok n))) ->
  exists a c sid, mem_get (m_mem ms) b = Some a /\ lvs_init w sc a = Ok c /\
                  nth_error (s_insts (m_st ms')) n = Some {| i_cfg := c; i_sid := sid |}.
Proof.
  unfold mstep. cbn [given]. destruct (mem_get (m_mem ms) b) as [a|] eqn:G; cbn [option_map]; [|intros H; inversion H].
  destruct (step false w fuel (m_st ms) (ONewLvs sc a s)) as [st' ob] eqn:S. intros H. inversion H; subst.
  destruct (new_lvs_cfg w fuel (m_st ms) sc a s st' n S) as (c & sid & Hc & Hn).
  exists a, c, sid. auto.
Qed.

(* ---------------------------------------------------------------- reachable states ------------- *)
Definition mop_allowed (ms : mstate) (o : mop) : Prop :=
  match given (m_mem ms) o with Some o' => op_allowed (m_st ms) o' | None => True end.

Inductive mreachable (w : world) : mstate -> Prop :=
| MR0 m : mreachable w {| m_mem := m; m_st := init_state |}
| MRS ms o fuel : mreachable w ms -> mop_allowed ms o -> mreachable w (fst (mstep false w fuel ms o)).

Lemma mreachable_reachable w ms : mreachable w ms -> reachable w (m_st ms).
Proof.
  induction 1 as [m|ms o fuel R IH Al]; [apply R0|].
  unfold mstep, mop_allowed in *. destruct (given (m_mem ms) o) as [o'|]; [|exact IH].
  pose proof (RS w (m_st ms) o' fuel IH Al) as K.
  destruct (step false w fuel (m_st ms) o') as [st' b]. exact K.
Qed.

(* In any state reached by any history of loads, overwrites, constructions (default storages, or explicit ones
   not shared between validators) and validations, the verdict of instance i on the packet in buffer b is
   accept <-> Chain under the configuration instance i was built with. *)
Theorem memory_independent w ms fuel i ins b p ms' r tr :
  mreachable w ms ->
  nth_error (s_insts (m_st ms)) i = Some ins ->
  mem_get (m_mem ms) b = Some (Ok p) ->
  mstep false w fuel ms (MValidate i b) = (ms', Some (BVal r tr)) ->
  r <> Err EFuel ->
  (r = Ok true <-> Chain w (trust_of (i_cfg ins)) p).
Proof.
  intros R Hi Hb S NF. apply mreachable_reachable in R.
  unfold mstep in S. cbn [given] in S. rewrite Hb in S.
  destruct (step false w fuel (m_st ms) (OValidate i p)) as [st' ob] eqn:St. inversion S; subst.
  eapply history_independent; eauto.
Qed.

Lemma mrun_reachable w fuel : forall ops ms,
  mreachable w ms ->
  (forall o, In o ops -> match o with
                         | MNewLvs _ _ (SGiven _) | MNewCascade _ (SGiven _) => False
                         | _ => True end) ->
  mreachable w (fst (mrun false w fuel ms ops)).
Proof.
  induction ops as [|o ops IH]; intros ms R H; cbn [mrun]; [exact R|].
  assert (R1 : mreachable w (fst (mstep false w fuel ms o))).
  { apply MRS; auto. specialize (H o (or_introl eq_refl)). unfold mop_allowed.
    destruct o as [b a|b| |sc b s|b s|i b]; cbn [given]; auto.
    - destruct (mem_get (m_mem ms) b); cbn [option_map]; auto. destruct s; [exact I | contradiction].
    - destruct (mem_get (m_mem ms) b); cbn [option_map]; auto. destruct s; [exact I | contradiction].
    - destruct (mem_get (m_mem ms) b) as [[p|e]|]; cbn; auto. }
  destruct (mstep false w fuel ms o) as [ms1 b]. cbn [fst] in R1.
  specialize (IH ms1 R1 (fun o' Ho => H o' (or_intror Ho))).
  destruct (mrun false w fuel ms1 ops) as [ms2 bs]. exact IH.
Qed.

(* ---------------------------------------------------------------- example ---------------------- *)
From NDN Require Import Proofs.ValidatorExamples.

(* validator 0 is built from buffer 0 while it holds anchor 1; the application then loads anchor 2 into the SAME
   buffer and builds validator 1 from it; later it wipes the buffer.  Validator 0 keeps accepting P (chain to
   anchor 1, second time from its key storage), validator 1 refuses it; nothing can be built from a wiped buffer. *)
Definition ex_mops : list mop :=
  [ MLoad 0 (Ok A1); MNewLvs ex_schema 0 SDefault; MLoad 1 (Ok P); MValidate 0 1;
    MLoad 0 (Ok A2); MNewLvs ex_schema 0 SDefault; MValidate 0 1; MValidate 1 1;
    MScribble 0; MValidate 0 1; MNewLvs ex_schema 0 SDefault ].

Example ex_mrun :
  snd (mrun false ex_world 5 {| m_mem := []; m_st := init_state |} ex_mops) =
  [ None; Some (BNew (Ok 0)); None; Some (BVal (Ok true) [nC]);
    None; Some (BNew (Ok 1)); Some (BVal (Ok true) []); Some (BVal (Ok false) [nC; nA]);
    None; Some (BVal (Ok true) []); None ].
Proof. vm_compute. reflexivity. Qed.

Example ex_given_ops :
  given_ops [] ex_mops =
  [ ONewLvs ex_schema (Ok A1) SDefault; OValidate 0 P; ONewLvs ex_schema (Ok A2) SDefault;
    OValidate 0 P; OValidate 1 P; OValidate 0 P ].
Proof. reflexivity. Qed.

Example ex_mreachable :
  mreachable ex_world (fst (mrun false ex_world 5 {| m_mem := []; m_st := init_state |} ex_mops)).
Proof.
  apply mrun_reachable; [apply MR0|]. intros o Ho. cbn in Ho.
  repeat (destruct Ho as [<-|Ho]; [exact I|]). contradiction.
Qed.
