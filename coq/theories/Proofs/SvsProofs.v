(* Model/Svs.v refines Spec/SvsSpec.v: lemmas and the theorems quoted by Properties/C18.v. *)
From NDN Require Import Base.Prelude Model.Svs Spec.SvsSpec Proofs.SvsSpecFacts.
Local Open Scope N_scope.

(* ---- the model's dict primitives are the spec's map primitives ------------------------------ *)
Lemma sv_get_vget v k : sv_get v k = vget v k.
Proof.
  unfold sv_get, sv_find. induction v as [|[k' x] r IH]; cbn; [reflexivity|].
  destruct (bytes_eqb k k'); auto.
Qed.

Lemma sv_set_assign v k x : sv_set v k x = assign v k x.
Proof.
  unfold sv_set. induction v as [|[k' y] r IH]; cbn; [reflexivity|].
  destruct (bytes_eqb k k'); [reflexivity|rewrite IH; reflexivity].
Qed.

(* ---- first loop ------------------------------------------------------------------------------ *)
Lemma build_rsv_spec self q es : forall acc,
  build_rsv self q es acc = if acceptedb self q es then Some (denote_from acc es) else None.
Proof.
  induction es as [|e es IH]; intros acc; [reflexivity|].
  rewrite acceptedb_cons, denote_from_cons. destruct e as [[k|] [x|]]; cbn [build_rsv elem_ok].
  - destruct (bytes_eqb k self && (q <? x)); cbn [negb andb]; [reflexivity|].
    rewrite IH, sv_set_assign. reflexivity.
  - reflexivity.
  - rewrite IH. reflexivity.
  - rewrite IH. reflexivity.
Qed.

(* ---- second loop ----------------------------------------------------------------------------- *)
Lemma merge_loop_spec rsv : NoDup (keys rsv) -> forall loc n f loc' n' f',
  merge_loop rsv loc n f = (loc', n', f') ->
  (forall k, vget loc' k = N.max (vget loc k) (vget rsv k)) /\
  (f' = true <-> f = true \/ exists k, vget loc k < vget rsv k) /\
  (NoDup (keys loc) -> NoDup (keys loc')).
Proof.
  induction rsv as [|[i q] r IH]; intros ND loc n f loc' n' f' H.
  - cbn in H. inversion H; subst. split; [|split].
    + intros k. cbn. lia.
    + split; [auto|]. intros [F|(k & Hk)]; [assumption|]. cbn in Hk. lia.
    + auto.
  - cbn [keys map fst] in ND. inversion ND as [|? ? NI ND']; subst.
    cbn [merge_loop] in H. rewrite sv_get_vget in H.
    destruct (vget loc i <? q) eqn:L.
    + apply IH in H; [|assumption]. destruct H as (A & B & C). split; [|split].
      * intros k. rewrite A, sv_set_assign, vget_assign. cbn [vget].
        destruct (bytes_eqb k i) eqn:E; [|reflexivity].
        apply bytes_eqb_spec in E. subst k. rewrite (vget_notin r i) by assumption. lia.
      * split; intros _.
        -- right. exists i. cbn [vget]. rewrite beq_refl. lia.
        -- apply B. left. reflexivity.
      * intros NDl. apply C. rewrite sv_set_assign. apply nodup_assign. assumption.
    + assert (H' : exists n2, merge_loop r loc n2 f = (loc', n', f')).
      { destruct (q <? vget loc i); eauto. }
      clear H. destruct H' as (n2 & H).
      apply IH in H; [|assumption]. destruct H as (A & B & C). split; [|split].
      * intros k. rewrite A. cbn [vget].
        destruct (bytes_eqb k i) eqn:E; [|reflexivity].
        apply bytes_eqb_spec in E. subst k. rewrite (vget_notin r i) by assumption. lia.
      * rewrite B. split; (intros [F|(k & Hk)]; [left; assumption|right]).
        -- exists k. cbn [vget]. destruct (bytes_eqb k i) eqn:E; [|assumption].
           apply bytes_eqb_spec in E. subst k. rewrite (vget_notin r i) in Hk by assumption. lia.
        -- cbn [vget] in Hk. destruct (bytes_eqb k i) eqn:E.
           ++ apply bytes_eqb_spec in E. subst k. lia.
           ++ exists k. assumption.
      * exact C.
Qed.

Lemma aggregate_get rsv : NoDup (keys rsv) -> forall ag k,
  vget (aggregate rsv ag) k = N.max (vget ag k) (vget rsv k).
Proof.
  induction rsv as [|[i q] r IH]; intros ND ag k.
  - cbn. lia.
  - cbn [keys map fst] in ND. inversion ND as [|? ? NI ND']; subst.
    cbn [aggregate]. rewrite IH by assumption. rewrite sv_set_assign, vget_assign, sv_get_vget. cbn [vget].
    destruct (bytes_eqb k i) eqn:E; [|reflexivity].
    apply bytes_eqb_spec in E. subst k. rewrite (vget_notin r i) by assumption. lia.
Qed.

Lemma needs_sync_spec loc ag : NoDup (keys loc) -> (needs_sync loc ag = true <-> newer loc ag).
Proof.
  intros ND. unfold needs_sync, newer. rewrite existsb_exists. split.
  - intros ([k x] & HI & L). cbn [fst snd] in L. exists k.
    rewrite (vget_in_nodup loc k x ND HI), <- sv_get_vget. lia.
  - intros (k & L). exists (k, vget loc k). split.
    + apply vget_in_pair. lia.
    + cbn [fst snd]. rewrite sv_get_vget. lia.
Qed.

(* ---- one received vector ------------------------------------------------------------------------ *)
Definition silent (o : out) : Prop := o_cb o = false /\ o_emit o = None /\ o_raise o = false.

Lemma handle_vector_inv c s now r es s' o :
  handle_vector c s now r es = (s', o) ->
  ((es = [] \/ acceptedb (c_self c) (self_seq s) es = false) /\ s' = s /\ silent o)
  \/
  (es <> [] /\ acceptedb (c_self c) (self_seq s) es = true /\
   exists loc notif fetch,
     merge_loop (denote es) (local s) (has_new_key (denote es) (local s)) false = (loc, notif, fetch) /\
     local s' = loc /\ self_seq s' = self_seq s /\
     o_cb o = fetch /\ o_emit o = None /\ o_raise o = false /\
     ((mode s = Suppression /\ mode s' = Suppression /\ agg s' = aggregate (denote es) (agg s) /\
       next_timing s' = next_timing s)
      \/ (mode s = Steady /\ notif = true /\ mode s' = Suppression /\ agg s' = denote es /\
          next_timing s' = now + sample_sup_timer c r)
      \/ (mode s = Steady /\ notif = false /\ mode s' = Steady /\ agg s' = agg s /\
          next_timing s' = now + sample_sync_timer c r))).
Proof.
  unfold handle_vector. destruct es as [|e es'].
  - intros H. inversion H; subst. left. unfold silent. cbn. auto.
  - set (es := e :: es'). rewrite build_rsv_spec. change (denote_from [] es) with (denote es).
    destruct (acceptedb (c_self c) (self_seq s) es) eqn:A.
    + destruct (merge_loop (denote es) (local s) (has_new_key (denote es) (local s)) false)
        as [[loc notif] fetch] eqn:M.
      intros H. right. split; [discriminate|]. split; [reflexivity|].
      exists loc, notif, fetch. split; [reflexivity|].
      destruct notif, (mode s) eqn:Md; inversion H; subst; cbn; intuition.
    + intros H. inversion H; subst. left. unfold silent. cbn. auto.
Qed.

Lemma sync_handler_other c s now r x :
  (forall es, x <> RVec es) -> fst (sync_handler c s now r x) = s /\
  o_cb (snd (sync_handler c s now r x)) = false /\ o_emit (snd (sync_handler c s now r x)) = None.
Proof. intros H. destruct x; cbn; auto. exfalso. eapply H. reflexivity. Qed.

(* ---- well-formed instance states ------------------------------------------------------------------
   the local vector has one entry per node and lists no more own data than has been produced *)
Definition wf (c : cfg) (s : st) : Prop :=
  NoDup (keys (local s)) /\ vget (local s) (c_self c) <= self_seq s.

Lemma wf_new_data c s : wf c s -> wf c (new_data c s).
Proof.
  intros [ND LE]. split; cbn; rewrite sv_set_assign.
  - apply nodup_assign. assumption.
  - rewrite vget_assign_same. lia.
Qed.

Lemma wf_init c last k : wf c (init c last k).
Proof.
  unfold init.
  assert (W : wf c (Nat.iter k (new_data c) (construct last))).
  { induction k; cbn [Nat.iter].
    - split; cbn; [constructor|lia].
    - apply wf_new_data. assumption. }
  destruct W as [ND LE]. split; cbn; rewrite sv_set_assign.
  - apply nodup_assign. assumption.
  - rewrite vget_assign_same. lia.
Qed.

(* start() -- also a re-start after stop() -- of any well-formed (constructed / stopped) state: the own entry becomes the own
   sequence number, nothing else moves, the state stays well-formed.  Publications made while the instance is not running
   are [new_data] steps of that state ([publish] below holds for every state). *)
Lemma wf_construct c last : wf c (construct last).
Proof. split; cbn; [constructor|lia]. Qed.

Lemma wf_start c s : wf c s -> wf c (start c s).
Proof.
  intros [ND LE]. split; cbn; rewrite sv_set_assign.
  - apply nodup_assign. assumption.
  - rewrite vget_assign_same. lia.
Qed.

Lemma start_spec c s :
  self_seq (start c s) = self_seq s /\
  vget (local (start c s)) (c_self c) = self_seq s /\
  (forall k, k <> c_self c -> vget (local (start c s)) k = vget (local s) k) /\
  next_timing (start c s) = next_timing s /\ mode (start c s) = mode s.
Proof.
  cbn. rewrite sv_set_assign. repeat split.
  - apply vget_assign_same.
  - intros k H. apply vget_assign_other. assumption.
Qed.

Lemma handle_vector_wf c s now r es : wf c s -> wf c (fst (handle_vector c s now r es)).
Proof.
  intros [ND LE]. destruct (handle_vector c s now r es) as [s' o] eqn:H. cbn [fst].
  apply handle_vector_inv in H. destruct H as [(_ & -> & _)|(_ & A & loc & notif & fetch & M & L & Q & _)].
  - split; assumption.
  - apply merge_loop_spec in M; [|apply denote_nodup]. destruct M as (G & _ & C).
    split; rewrite L.
    + apply C. assumption.
    + rewrite G, Q. pose proof (accepted_self_le _ _ _ A). lia.
Qed.

Lemma wf_step c s e : wf c s -> wf c (fst (step c s e)).
Proof.
  intros W. destruct e as [now r x| |now r]; cbn [step].
  - destruct x; cbn; try assumption. apply handle_vector_wf. assumption.
  - cbn. apply wf_new_data. assumption.
  - destruct (next_timing s <=? now); cbn; assumption.
Qed.

Lemma run_cons c s e h : run c s (e :: h) = run c (fst (step c s e)) h.
Proof. reflexivity. Qed.

Lemma wf_run c h : forall s, wf c s -> wf c (run c s h).
Proof. induction h as [|e h IH]; intros s W; [exact W|]. rewrite run_cons. apply IH, wf_step, W. Qed.

(* ================================================================================================
   Theorems
   ================================================================================================ *)

(* merge = entry-wise maximum for an accepted vector *)
Theorem merge_accepted c s now r es :
  accepted (c_self c) (self_seq s) es ->
  forall k, vget (local (fst (step c s (ERecv now r (RVec es))))) k
            = N.max (vget (local s) k) (vget (denote es) k).
Proof.
  intros A k. apply acceptedb_spec in A. cbn [step sync_handler].
  destruct (handle_vector c s now r es) as [s' o] eqn:H. cbn [fst].
  apply handle_vector_inv in H. destruct H as [([->|F] & -> & _)|(_ & _ & loc & notif & fetch & M & L & _)].
  - cbn. lia.
  - congruence.
  - apply merge_loop_spec in M; [|apply denote_nodup]. destruct M as (G & _). rewrite L. apply G.
Qed.

(* anything that is not an accepted vector leaves the whole instance as it was, silently *)
Definition not_accepted (c : cfg) (s : st) (x : recv_class) : Prop :=
  match x with RVec es => ~ accepted (c_self c) (self_seq s) es | _ => True end.

Theorem not_accepted_ignored c s now r x :
  not_accepted c s x ->
  fst (step c s (ERecv now r x)) = s /\
  o_cb (snd (step c s (ERecv now r x))) = false /\ o_emit (snd (step c s (ERecv now r x))) = None.
Proof.
  intros NA. destruct x as [| | | |es]; cbn; auto.
  cbn in NA. destruct (handle_vector c s now r es) as [s' o] eqn:H. cbn [fst snd].
  apply handle_vector_inv in H. destruct H as [(_ & -> & S1 & S2 & _)|(_ & A & _)]; [auto|].
  apply acceptedb_spec in A. contradiction.
Qed.

Theorem overclaim_ignored c s now r es :
  overclaims (c_self c) (self_seq s) es ->
  fst (step c s (ERecv now r (RVec es))) = s /\
  o_cb (snd (step c s (ERecv now r (RVec es)))) = false /\
  o_emit (snd (step c s (ERecv now r (RVec es)))) = None.
Proof. intros O. apply not_accepted_ignored. cbn. intros [_ N]. contradiction. Qed.

(* the callback fires iff some entry was raised *)
Theorem missing_iff_raised c s now r x :
  o_cb (snd (step c s (ERecv now r x))) = true <->
  exists k, vget (local s) k < vget (local (fst (step c s (ERecv now r x)))) k.
Proof.
  destruct x as [| | | |es]; cbn [step sync_handler fst snd quiet o_cb];
    try (split; [discriminate|intros (k & Hk); lia]).
  destruct (handle_vector c s now r es) as [s' o] eqn:H. cbn [fst snd].
  apply handle_vector_inv in H.
  destruct H as [(_ & -> & S1 & _)|(_ & _ & loc & notif & fetch & M & L & _ & CB & _)].
  - rewrite S1. split; [discriminate|intros (k & Hk); lia].
  - apply merge_loop_spec in M; [|apply denote_nodup]. destruct M as (G & F & _).
    rewrite CB, L, F. split.
    + intros [?|(k & Hk)]; [discriminate|]. exists k. rewrite G. lia.
    + intros (k & Hk). right. exists k. rewrite G in Hk. lia.
Qed.

Theorem missing_iff_raises_accepted c s now r es :
  accepted (c_self c) (self_seq s) es ->
  (o_cb (snd (step c s (ERecv now r (RVec es)))) = true <-> raises (local s) es).
Proof.
  intros A. rewrite missing_iff_raised. unfold raises.
  split; intros (k & Hk); exists k; rewrite (merge_accepted c s now r es A k) in *; lia.
Qed.

(* monotonicity over any event sequence *)
Lemma step_monotone c s e : wf c s -> forall k, vget (local s) k <= vget (local (fst (step c s e))) k.
Proof.
  intros [ND LE] k. destruct e as [now r x| |now r]; cbn [step].
  - destruct x as [| | | |es]; cbn [sync_handler fst]; try lia.
    destruct (handle_vector c s now r es) as [s' o] eqn:H. cbn [fst].
    apply handle_vector_inv in H. destruct H as [(_ & -> & _)|(_ & _ & loc & notif & fetch & M & L & _)]; [lia|].
    apply merge_loop_spec in M; [|apply denote_nodup]. destruct M as (G & _). rewrite L, G. lia.
  - cbn. rewrite sv_set_assign, vget_assign. destruct (bytes_eqb k (c_self c)) eqn:E; [|lia].
    apply bytes_eqb_spec in E. subst k. lia.
  - destruct (next_timing s <=? now); cbn; lia.
Qed.

Theorem monotone c h : forall s, wf c s -> forall k, vget (local s) k <= vget (local (run c s h)) k.
Proof.
  induction h as [|e h IH]; intros s W k; [cbn; lia|].
  rewrite run_cons. pose proof (step_monotone c s e W k). pose proof (IH _ (wf_step c s e W) k). lia.
Qed.

(* the local vector after any history is what the specification computes from the accepted vectors
   and the publications *)
Definition habs (e : event) : hev :=
  match e with ERecv _ _ (RVec es) => HRecv es | EPublish => HPublish | _ => HOther end.

Lemma local_step_refines c s e ls :
  veq (local s) (fst ls) -> self_seq s = snd ls ->
  veq (local (fst (step c s e))) (fst (spec_step (c_self c) ls (habs e))) /\
  self_seq (fst (step c s e)) = snd (spec_step (c_self c) ls (habs e)).
Proof.
  intros V Q. destruct e as [now r x| |now r]; cbn [step habs].
  - destruct x as [| | | |es]; cbn [sync_handler fst spec_step]; auto.
    rewrite <- Q. destruct (handle_vector c s now r es) as [s' o] eqn:H. cbn [fst].
    apply handle_vector_inv in H.
    destruct H as [([->|F] & -> & _)|(_ & A & loc & notif & fetch & M & L & Q' & _)].
    + rewrite acceptedb_nil. cbn [fst snd]. split; [|auto].
      intros k. rewrite pmax_get. cbn. rewrite V. lia.
    + rewrite F. auto.
    + rewrite A. cbn [fst snd]. split; [|congruence].
      apply merge_loop_spec in M; [|apply denote_nodup]. destruct M as (G & _).
      intros k. rewrite L, G, pmax_get, V. reflexivity.
  - cbn. split; [|lia]. rewrite sv_set_assign, Q. apply assign_veq. assumption.
  - cbn [spec_step]. destruct (next_timing s <=? now); cbn; auto.
Qed.

Theorem local_history c h : forall s ls,
  veq (local s) (fst ls) -> self_seq s = snd ls ->
  veq (local (run c s h)) (fst (spec_run (c_self c) ls (map habs h))) /\
  self_seq (run c s h) = snd (spec_run (c_self c) ls (map habs h)).
Proof.
  induction h as [|e h IH]; intros s ls V Q; [cbn; auto|].
  rewrite run_cons. cbn [map]. unfold spec_run. cbn [fold_left]. fold (spec_run (c_self c)).
  destruct (local_step_refines c s e ls V Q) as [V' Q']. apply IH; assumption.
Qed.

(* publication *)
Theorem publish c s :
  let s' := fst (step c s EPublish) in
  self_seq s' = self_seq s + 1 /\
  vget (local s') (c_self c) = self_seq s + 1 /\
  (forall k, k <> c_self c -> vget (local s') k = vget (local s) k) /\
  next_timing s' = 0 /\
  forall now r, o_emit (snd (step c s' (EClock now r))) = Some (local s') /\
                local (fst (step c s' (EClock now r))) = local s'.
Proof.
  cbn. rewrite sv_set_assign. repeat split.
  - apply vget_assign_same.
  - intros k N. apply vget_assign_other. assumption.
  - replace (0 <=? now) with true by lia. cbn. rewrite sv_set_assign. reflexivity.
  - replace (0 <=? now) with true by lia. cbn. rewrite sv_set_assign. reflexivity.
Qed.

(* ---- suppression windows ---------------------------------------------------------------------------- *)
Definition in_suppression (s : st) : bool := match mode s with Suppression => true | Steady => false end.

Definition observe (c : cfg) (s : st) (e : event) : obs :=
  (match e with
   | ERecv _ _ (RVec es) => if acceptedb (c_self c) (self_seq s) es then Some (denote es) else None
   | _ => None
   end,
   in_suppression (fst (step c s e))).

Fixpoint trace (c : cfg) (s : st) (h : list event) : list obs :=
  match h with
  | [] => []
  | e :: h' => observe c s e :: trace c (fst (step c s e)) h'
  end.

(* the aggregate is the spec's [heard] exactly while the instance is in suppression *)
Definition window_inv (s : st) (cur : option vec) : Prop :=
  match mode s with
  | Steady => cur = None
  | Suppression => exists hd, cur = Some hd /\ veq (agg s) hd
  end.

Lemma window_step c s e cur :
  window_inv s cur -> window_inv (fst (step c s e)) (heard_step cur (observe c s e)).
Proof.
  intros J. unfold observe, heard_step, in_suppression. cbn [fst snd].
  destruct e as [now r x| |now r]; cbn [step].
  - assert (Same : forall s', s' = s ->
       window_inv s' (if match mode s' with Suppression => true | Steady => false end then cur else None)).
    { intros s' ->. unfold window_inv in *. destruct (mode s); auto. }
    destruct x as [| | | |es]; cbn [sync_handler fst]; try (apply Same; reflexivity).
    destruct (handle_vector c s now r es) as [s' o] eqn:H. cbn [fst].
    apply handle_vector_inv in H.
    destruct H as [([->|F] & -> & _)|(_ & A & loc & notif & fetch & M & L & Q & _ & _ & _ & Cases)].
    + rewrite acceptedb_nil. unfold window_inv in *. destruct (mode s); [reflexivity|].
      destruct J as (hd & -> & V). eexists. split; [reflexivity|].
      intros k. rewrite pmax_get, V. cbn. lia.
    + rewrite F. apply Same. reflexivity.
    + rewrite A. unfold window_inv in *.
      destruct Cases as [(M1 & M2 & AG & _)|[(M1 & _ & M2 & AG & _)|(M1 & _ & M2 & _)]]; rewrite M2; rewrite M1 in J.
      * destruct J as (hd & -> & V). eexists. split; [reflexivity|].
        intros k. rewrite AG, aggregate_get, pmax_get, V by apply denote_nodup. reflexivity.
      * subst cur. eexists. split; [reflexivity|]. rewrite AG. intros k. reflexivity.
      * reflexivity.
  - cbn. reflexivity.
  - destruct (next_timing s <=? now); cbn [fst timer_fire].
    + unfold window_inv. cbn. reflexivity.
    + unfold window_inv in *. destruct (mode s); auto.
Qed.

Lemma window_run c h : forall s cur,
  window_inv s cur -> window_inv (run c s h) (fold_left heard_step (trace c s h) cur).
Proof.
  induction h as [|e h IH]; intros s cur J; [exact J|].
  rewrite run_cons. cbn [trace fold_left]. apply IH. apply window_step. exact J.
Qed.

(* at the expiry of a suppression period a sync Interest (with the full vector) is emitted iff the
   local vector is newer in some entry than the merge of the vectors heard in the period *)
Theorem suppression_expiry c s0 h :
  wf c s0 -> mode s0 = Steady ->
  let s := run c s0 h in
  mode s = Suppression ->
  exists hd, heard (trace c s0 h) = Some hd /\
    forall now r,
      (next_timing s <= now ->
         (newer (local s) hd -> o_emit (snd (step c s (EClock now r))) = Some (local s)) /\
         (~ newer (local s) hd -> o_emit (snd (step c s (EClock now r))) = None) /\
         mode (fst (step c s (EClock now r))) = Steady) /\
      (now < next_timing s -> step c s (EClock now r) = (s, quiet 13)).
Proof.
  intros W St s Sup.
  assert (J : window_inv s (heard (trace c s0 h))).
  { apply window_run. unfold window_inv. rewrite St. reflexivity. }
  unfold window_inv in J. rewrite Sup in J. destruct J as (hd & Hh & V).
  exists hd. split; [assumption|]. intros now r.
  pose proof (wf_run c h s0 W) as [ND _]. fold s in ND.
  split.
  - intros Due. cbn [step]. replace (next_timing s <=? now) with true by lia.
    unfold timer_fire. rewrite Sup. cbn [fst snd o_emit mode].
    pose proof (needs_sync_spec (local s) (agg s) ND) as NS.
    split; [|split].
    + intros N. replace (needs_sync (local s) (agg s)) with true; [reflexivity|].
      symmetry. apply NS. eapply newer_veq; [intros k; reflexivity| |exact N]. intros k. symmetry. apply V.
    + intros N. destruct (needs_sync (local s) (agg s)) eqn:E; [|reflexivity].
      exfalso. apply N. eapply newer_veq; [intros k; reflexivity|exact V|]. apply NS. reflexivity.
    + reflexivity.
  - intros Early. cbn [step]. replace (next_timing s <=? now) with false by lia. reflexivity.
Qed.

(* outside suppression an expiring timer always announces the full vector (periodic sync Interest) *)
Theorem steady_expiry c s now r :
  mode s = Steady -> next_timing s <= now ->
  o_emit (snd (step c s (EClock now r))) = Some (local s).
Proof.
  intros St Due. cbn [step]. replace (next_timing s <=? now) with true by lia.
  unfold timer_fire. rewrite St. reflexivity.
Qed.

(* whatever is emitted, by any event, is the full local vector of the moment *)
Theorem emit_full_vector c s e v :
  o_emit (snd (step c s e)) = Some v -> v = local s /\ local (fst (step c s e)) = local s.
Proof.
  destruct e as [now r x| |now r]; cbn [step].
  - destruct x as [| | | |es]; cbn; try discriminate.
    destruct (handle_vector c s now r es) as [s' o] eqn:H. cbn [fst snd].
    apply handle_vector_inv in H. destruct H as [(_ & _ & _ & E & _)|(_ & _ & ? & ? & ? & _ & _ & _ & _ & E & _)];
      rewrite E; discriminate.
  - cbn. discriminate.
  - destruct (next_timing s <=? now); cbn; [|discriminate].
    destruct (match mode s with Steady => true | Suppression => needs_sync (local s) (agg s) end);
      [|discriminate].
    intros E. inversion E. auto.
Qed.

