(* An executable check of [chains_ok] (the hypothesis of the chain-level theorems): run by the harness on the
   chains of every generated schema, and proved here to imply the declarative condition. *)
From NDN Require Import Base.Prelude Base.Text Model.TlvVar Model.Name Model.LvsAst Model.LvsChecker Model.LvsCompiler
  Spec.LvsSem Spec.LvsChains Proofs.LvsFlatten Proofs.LvsGenTree Proofs.LvsCompileTree Proofs.LvsKeys.
Local Open Scope N_scope.

Theorem chains_okb_spec npc chains : chains_okb npc chains = true -> chains_ok npc chains.
Proof.
  unfold chains_okb. intros H. apply andb_true_iff in H. destruct H as [Hkeys Hcomps].
  rewrite forallb_forall in Hkeys, Hcomps.
  constructor.
  - apply keys_faithful_of. exact Hkeys.
  - intros rc v Hin Hl. specialize (Hcomps rc Hin). rewrite forallb_forall in Hcomps. specialize (Hcomps _ Hl).
    cbn in Hcomps. destruct v; [discriminate | discriminate].
  - intros rc c f args Hin Hc Ho. specialize (Hkeys rc Hin). unfold chain_keys_ok in Hkeys. rewrite forallb_forall in Hkeys.
    specialize (Hkeys c Hc). unfold cons_ok in Hkeys. rewrite forallb_forall in Hkeys. specialize (Hkeys _ Ho).
    cbn in Hkeys. apply andb_true_iff in Hkeys. destruct Hkeys as [Hf _]. destruct (fid_ok_spec f Hf) as (r & -> & _). discriminate.
  - intros rc t Hin Hp Hpos. specialize (Hcomps rc Hin). rewrite forallb_forall in Hcomps. specialize (Hcomps _ Hp).
    cbn in Hcomps. destruct (Z.ltb_spec t 0); [lia|]. cbn in Hcomps. apply N.leb_le. exact Hcomps.
Qed.
