(* Compiler._gen_pattern_numbers (Model/LvsCompiler.gen_pattern_numbers):
   - its only failure is SemanticError;
   - pass 1 numbers the named patterns of all rule names 1..n (first occurrence order) and gives every
     occurrence of a temporary pattern a fresh negative number;
   - pass 2 fails exactly when a constraint mentions a pattern that cannot be resolved: a temporary one not in the
     rule's own name, a named one in no rule name, or a temporary one on the right hand side. *)
From NDN Require Import Base.Prelude Base.Text Model.TlvVar Model.Name Model.LvsAst Model.LvsChecker Model.LvsCompiler
  Spec.LvsSem Proofs.LvsSanity Proofs.LvsGenTree Proofs.LvsCompileTree.
Local Open Scope N_scope.

(* ---- rmap ---------------------------------------------------------------------------------------------- *)
Lemma rmap_err {A B} (f : A -> res B) l e : rmap f l = Err e -> exists x, In x l /\ f x = Err e.
Proof.
  induction l as [|x l IH]; cbn; [discriminate|]. destruct (f x) as [y|e'] eqn:E; cbn.
  - destruct (rmap f l) as [t|e'']; cbn; [discriminate|]. intros H; inversion H; subst.
    destruct (IH eq_refl) as (x' & Hx' & Hf). exists x'. auto.
  - intros H; inversion H; subst. exists x. auto.
Qed.
Lemma rmap_ok {A B} (f : A -> res B) l : (forall x, In x l -> exists y, f x = Ok y) -> exists ys, rmap f l = Ok ys.
Proof.
  induction l as [|x l IH]; intros H; cbn; [eauto|]. destruct (H x (or_introl eq_refl)) as (y & ->). cbn.
  destruct IH as (ys & ->); [intros; apply H; right; assumption|]. cbn. eauto.
Qed.
Lemma rmap_ok_inv {A B} (f : A -> res B) l ys : rmap f l = Ok ys -> forall x, In x l -> exists y, f x = Ok y.
Proof.
  intros H x Hx. apply rmap_forall2 in H. destruct (forall2_in_l _ _ _ _ H Hx) as (y & _ & Hy). eauto.
Qed.

Lemma map_acc_length {S A B} (f : S -> A -> S * B) s l : length (snd (map_acc f s l)) = length l.
Proof.
  revert s; induction l as [|x l IH]; intros s; cbn; [reflexivity|].
  destruct (f s x) as [s1 y]. specialize (IH s1). destruct (map_acc f s1 l) as [s2 ys]. cbn in *. lia.
Qed.

(* ---- resolution of one constraint ---------------------------------------------------------------------------- *)
Definition named_has (named : list (ident * N)) (p : ident) : Prop := exists n, al_get ident_eqb named p = Some n.

Lemma resolve_named_spec named p : match resolve_named named p with Ok _ => named_has named p | Err e => e = ESemantic /\ ~ named_has named p end.
Proof.
  unfold resolve_named, named_has. destruct (al_get ident_eqb named p) as [n|]; [eauto|]. split; [reflexivity|]. intros (n & H); discriminate.
Qed.

Definition rhs_ok (named : list (ident * N)) (p : ident) : Prop := is_temp_pat p = false /\ named_has named p.

Lemma resolve_arg_spec named a :
  match resolve_arg named a with
  | Ok _ => forall p, a = APat p -> rhs_ok named p
  | Err e => e = ESemantic /\ exists p, a = APat p /\ ~ rhs_ok named p
  end.
Proof.
  destruct a as [c|p]; cbn; [intros p H; discriminate|].
  destruct (is_temp_pat p) eqn:Et.
  - split; [reflexivity|]. exists p. split; [reflexivity|]. intros [H _]. congruence.
  - pose proof (resolve_named_spec named p) as Hs. destruct (resolve_named named p); cbn.
    + intros p' E; inversion E; subst. split; auto.
    + destruct Hs as [-> Hn]. split; [reflexivity|]. exists p. split; [reflexivity|]. intros [_ H]. contradiction.
Qed.

Lemma resolve_opt_spec named o :
  match resolve_opt named o with
  | Ok _ => forall p, In p (rhs_pats o) -> rhs_ok named p
  | Err e => e = ESemantic /\ exists p, In p (rhs_pats o) /\ ~ rhs_ok named p
  end.
Proof.
  destruct o as [c|p|f args]; cbn [resolve_opt rhs_pats].
  - intros p [].
  - destruct (is_temp_pat p) eqn:Et.
    + split; [reflexivity|]. exists p. split; [left; reflexivity|]. intros [H _]. congruence.
    + pose proof (resolve_named_spec named p) as Hs. destruct (resolve_named named p); cbn.
      * intros p' [<-|[]]. split; auto.
      * destruct Hs as [-> Hn]. split; [reflexivity|]. exists p. split; [left; reflexivity|]. intros [_ H]. contradiction.
  - destruct (rmap (resolve_arg named) args) as [l|e] eqn:E; cbn.
    + intros p Hp. apply in_flat_map in Hp. destruct Hp as (a & Ha & Hp). destruct a as [c|q]; [destruct Hp|]. destruct Hp as [<-|[]].
      destruct (rmap_ok_inv _ _ _ E _ Ha) as (y & Hy). pose proof (resolve_arg_spec named (APat q)) as Hs. rewrite Hy in Hs. apply Hs. reflexivity.
    + apply rmap_err in E. destruct E as (a & Ha & He). pose proof (resolve_arg_spec named a) as Hs. rewrite He in Hs.
      destruct Hs as [-> (p & -> & Hn)]. split; [reflexivity|]. exists p. split; [|exact Hn]. apply in_flat_map. exists (APat p). split; [exact Ha | left; reflexivity].
Qed.

Definition lhs_ok (named : list (ident * N)) (tp : temp_pats) (p : ident) : Prop :=
  if is_temp_pat p then exists l, al_get ident_eqb tp p = Some l else named_has named p.

Definition tagcons_ok (named : list (ident * N)) (tp : temp_pats) (tc : tagcons) : Prop :=
  lhs_ok named tp (tc_pat tc) /\ forall p, In p (flat_map rhs_pats (tc_opts tc)) -> rhs_ok named p.

Lemma resolve_cons_spec named tp tc :
  match resolve_cons named tp tc with
  | Ok _ => tagcons_ok named tp tc
  | Err e => e = ESemantic /\ ~ tagcons_ok named tp tc
  end.
Proof.
  unfold resolve_cons, tagcons_ok, lhs_ok.
  destruct (is_temp_pat (tc_pat tc)) eqn:Et.
  - destruct (al_get ident_eqb tp (tc_pat tc)) as [l|] eqn:El; cbn [bind].
    + destruct (rmap (resolve_opt named) (tc_opts tc)) as [opts|e] eqn:E; cbn [bind].
      * split; [eauto|]. intros p Hp. apply in_flat_map in Hp. destruct Hp as (o & Ho & Hp).
        destruct (rmap_ok_inv _ _ _ E _ Ho) as (y & Hy). pose proof (resolve_opt_spec named o) as Hs. rewrite Hy in Hs. apply Hs, Hp.
      * apply rmap_err in E. destruct E as (o & Ho & He). pose proof (resolve_opt_spec named o) as Hs. rewrite He in Hs.
        destruct Hs as [-> (p & Hp & Hn)]. split; [reflexivity|]. intros [_ H]. apply Hn, H. apply in_flat_map. eauto.
    + split; [reflexivity|]. intros [(l & H) _]. discriminate.
  - pose proof (resolve_named_spec named (tc_pat tc)) as Hl. destruct (resolve_named named (tc_pat tc)) as [n|e]; cbn [bind].
    + destruct (rmap (resolve_opt named) (tc_opts tc)) as [opts|e] eqn:E; cbn [bind].
      * split; [exact Hl|]. intros p Hp. apply in_flat_map in Hp. destruct Hp as (o & Ho & Hp).
        destruct (rmap_ok_inv _ _ _ E _ Ho) as (y & Hy). pose proof (resolve_opt_spec named o) as Hs. rewrite Hy in Hs. apply Hs, Hp.
      * apply rmap_err in E. destruct E as (o & Ho & He). pose proof (resolve_opt_spec named o) as Hs. rewrite He in Hs.
        destruct Hs as [-> (p & Hp & Hn)]. split; [reflexivity|]. intros [_ H]. apply Hn, H. apply in_flat_map. eauto.
    + destruct Hl as [-> Hn]. split; [reflexivity|]. intros [H _]. contradiction.
Qed.

(* ---- pass 1 -------------------------------------------------------------------------------------------------------- *)
Record num_inv (st : numst) : Prop := {
  ni_next : ns_next_named st = 1 + N.of_nat (length (ns_named st));
  ni_range : forall p n, al_get ident_eqb (ns_named st) p = Some n -> 1 <= n /\ n <= N.of_nat (length (ns_named st));
  ni_temp : 1 <= ns_next_temp st
}.

Definition comp_tag_ok (named : list (ident * N)) (c : ncomp) : Prop :=
  match c with
  | NPat t => (t < 0)%Z \/ exists p, al_get ident_eqb named p = Some (Z.to_N t) /\ (0 < t)%Z
  | _ => True
  end.

Lemma al_get_app_some {V} (l : list (ident * V)) k v l' : al_get ident_eqb l k = Some v -> al_get ident_eqb (l ++ l') k = Some v.
Proof.
  induction l as [|[k0 v0] l IH]; cbn; [discriminate|]. destruct (ident_eqb k k0); [auto | exact IH].
Qed.

Lemma number_comp_spec st tp c st' tp' nc : number_comp (st, tp) c = ((st', tp'), nc) -> num_inv st ->
  num_inv st' /\
  (forall p n, al_get ident_eqb (ns_named st) p = Some n -> al_get ident_eqb (ns_named st') p = Some n) /\
  (forall p, named_has (ns_named st') p <-> named_has (ns_named st) p \/ (c = CPat p /\ is_temp_pat p = false)) /\
  (forall p, (exists l, al_get ident_eqb tp' p = Some l) <-> (exists l, al_get ident_eqb tp p = Some l) \/ (c = CPat p /\ is_temp_pat p = true)) /\
  comp_tag_ok (ns_named st') nc /\
  match c, nc with CLit v, NLit w => v = w | CRef r, NRef r' => r = r' | CPat _, NPat _ => True | _, _ => False end.
Proof.
  intros H HI. unfold number_comp in H. destruct c as [v|pid|r].
  - inversion H; subst. split; [exact HI|]. split; [auto|]. split; [|split; [|split; [exact I | reflexivity]]].
    + intros p. split; [auto|]. intros [H1|[H1 _]]; [exact H1 | discriminate].
    + intros p. split; [auto|]. intros [H1|[H1 _]]; [exact H1 | discriminate].
  - destruct (is_temp_pat pid) eqn:Et.
    + inversion H; subst. clear H. cbn [ns_named]. split; [|split; [auto|split; [|split; [|split]]]].
      * destruct HI as [H1 H2 H3]. constructor; cbn; auto. lia.
      * intros p. split; [auto|]. intros [H1|[H1 H2]]; [exact H1|]. inversion H1; subst. congruence.
      * intros p. destruct (list_eq_dec N.eq_dec p pid) as [->|Hne].
        -- split; [intros _; right; auto|]. intros _.
           destruct (al_get ident_eqb tp pid) as [l|] eqn:El.
           ++ exists (l ++ [(- Z.of_N (ns_next_temp st))%Z]). apply (al_get_set_same tp pid). unfold al_mem. rewrite El. reflexivity.
           ++ exists [(- Z.of_N (ns_next_temp st))%Z]. rewrite (al_get_app_none _ _ _ _ El), (proj2 (ident_eqb_eq pid pid) eq_refl), El. reflexivity.
        -- assert (Hg : al_get ident_eqb (match al_get ident_eqb tp pid with
                        | Some l => al_set ident_eqb tp pid (l ++ [(- Z.of_N (ns_next_temp st))%Z])
                        | None => tp ++ [(pid, [(- Z.of_N (ns_next_temp st))%Z])] end) p = al_get ident_eqb tp p).
           { destruct (al_get ident_eqb tp pid) as [l|] eqn:El.
             - apply al_get_set_other. congruence.
             - rewrite (al_get_app_none _ _ _ _ El). destruct (ident_eqb p pid) eqn:E; [apply ident_eqb_eq in E; congruence | reflexivity]. }
           rewrite Hg. split; [auto|]. intros [H1|[H1 _]]; [exact H1 | inversion H1; congruence].
      * cbn. left. destruct HI as [_ _ H3]. lia.
      * exact I.
    + destruct (al_get ident_eqb (ns_named st) pid) as [n|] eqn:En.
      * inversion H; subst. clear H. split; [exact HI|]. split; [auto|]. split; [|split; [|split]].
        -- intros p. split; [auto|]. intros [H1|[H1 _]]; [exact H1|]. inversion H1; subst. exists n. exact En.
        -- intros p. split; [auto|]. intros [H1|[H1 H2]]; [exact H1|]. inversion H1; subst. congruence.
        -- cbn. right. exists pid. rewrite N2Z.id. split; [exact En|]. destruct (ni_range _ HI _ _ En). lia.
        -- exact I.
      * inversion H; subst. clear H. cbn [ns_named]. destruct HI as [H1 H2 H3].
        split; [|split; [|split; [|split; [|split]]]].
        -- constructor; cbn [ns_named ns_next_named ns_next_temp]; auto.
           ++ rewrite app_length. cbn [length]. lia.
           ++ intros p n. rewrite (al_get_app_none _ _ _ _ En). destruct (ident_eqb p pid) eqn:E.
              ** destruct (al_get ident_eqb (ns_named st) p) as [n'|] eqn:Ep.
                 --- intros Hn; inversion Hn; subst. destruct (H2 _ _ Ep). rewrite app_length. cbn [length]. lia.
                 --- intros Hn; inversion Hn; subst. rewrite app_length. cbn [length]. lia.
              ** intros Hn. destruct (H2 _ _ Hn). rewrite app_length. cbn [length]. lia.
        -- intros p n Hp. apply al_get_app_some. exact Hp.
        -- intros p. unfold named_has. rewrite (al_get_app_none _ _ _ _ En). destruct (ident_eqb p pid) eqn:E.
           ++ apply ident_eqb_eq in E. subst p. rewrite En. split; [intros _; right; auto | intros _; eauto].
           ++ split; [auto|]. intros [Hh|[Hh _]]; [exact Hh|]. inversion Hh as [Hpp]. rewrite Hpp, (proj2 (ident_eqb_eq p p) eq_refl) in E. discriminate.
        -- intros p. split; [auto|]. intros [Hh|[Hh Ht]]; [exact Hh|]. inversion Hh; subst. congruence.
        -- cbn. right. exists pid. rewrite N2Z.id. split.
           ++ rewrite (al_get_app_none _ _ _ _ En), (proj2 (ident_eqb_eq pid pid) eq_refl), En. reflexivity.
           ++ lia.
        -- exact I.
  - inversion H; subst. split; [exact HI|]. split; [auto|]. split; [|split; [|split; [exact I | reflexivity]]].
    + intros p. split; [auto|]. intros [H1|[H1 _]]; [exact H1 | discriminate].
    + intros p. split; [auto|]. intros [H1|[H1 _]]; [exact H1 | discriminate].
Qed.

(* ---- a rule name ----------------------------------------------------------------------------------------------------- *)
Definition comp_shape (c : comp) (nc : ncomp) : Prop :=
  match c, nc with CLit v, NLit w => v = w | CRef r, NRef r' => r = r' | CPat _, NPat _ => True | _, _ => False end.

Definition named_mono (a b : list (ident * N)) : Prop :=
  forall p n, al_get ident_eqb a p = Some n -> al_get ident_eqb b p = Some n.

Lemma comp_tag_ok_mono a b c : named_mono a b -> comp_tag_ok a c -> comp_tag_ok b c.
Proof.
  intros Hm. destruct c as [v|t|r]; cbn; auto. intros [H|(p & Hp & Ht)]; [left; exact H | right; exists p; split; [apply Hm, Hp | exact Ht]].
Qed.

Definition tp_has (tp : temp_pats) (p : ident) : Prop := exists l, al_get ident_eqb tp p = Some l.

Lemma number_name_spec : forall comps st tp st' tp' ncs,
  map_acc number_comp (st, tp) comps = ((st', tp'), ncs) -> num_inv st ->
  num_inv st' /\ named_mono (ns_named st) (ns_named st') /\
  (forall p, named_has (ns_named st') p <-> named_has (ns_named st) p \/ (In (CPat p) comps /\ is_temp_pat p = false)) /\
  (forall p, tp_has tp' p <-> tp_has tp p \/ (In (CPat p) comps /\ is_temp_pat p = true)) /\
  Forall2 comp_shape comps ncs /\ Forall (comp_tag_ok (ns_named st')) ncs.
Proof.
  induction comps as [|c comps IH]; intros st tp st' tp' ncs H HI; cbn [map_acc] in H.
  - inversion H; subst. split; [exact HI|]. split; [intros p n Hp; exact Hp|]. split; [|split; [|split; constructor]].
    + intros p. split; [auto|]. intros [H1|[[] _]]; exact H1.
    + intros p. split; [auto|]. intros [H1|[[] _]]; exact H1.
  - destruct (number_comp (st, tp) c) as [[st1 tp1] nc] eqn:Ec.
    destruct (map_acc number_comp (st1, tp1) comps) as [[st2 tp2] ncs'] eqn:Em. inversion H; subst. clear H.
    destruct (number_comp_spec _ _ _ _ _ _ Ec HI) as (HI1 & Hm1 & Hn1 & Ht1 & Hk1 & Hs1).
    destruct (IH _ _ _ _ _ Em HI1) as (HI2 & Hm2 & Hn2 & Ht2 & Hs2 & Hk2).
    split; [exact HI2|]. split; [intros p n Hp; apply Hm2, Hm1, Hp|]. split; [|split; [|split]].
    + intros p. rewrite Hn2, Hn1. cbn [In]. split.
      * intros [[H|[-> H]]|[H1 H2]]; auto.
      * intros [H|[[H|H] H2]]; [auto | inversion H; subst; auto | auto].
    + intros p. unfold tp_has in *. rewrite Ht2, Ht1. cbn [In]. split.
      * intros [[H|[-> H]]|[H1 H2]]; auto.
      * intros [H|[[H|H] H2]]; [auto | inversion H; subst; auto | auto].
    + constructor; [exact Hs1 | exact Hs2].
    + constructor; [eapply comp_tag_ok_mono; eauto | exact Hk2].
Qed.

(* ---- pass 1 over all rules -------------------------------------------------------------------------------------------- *)
Definition src_named (rules : list rule) (p : ident) : Prop :=
  exists r, In r rules /\ In (CPat p) (r_name r) /\ is_temp_pat p = false.

Definition name_ok (named : list (ident * N)) (r : rule) (x : list ncomp * temp_pats) : Prop :=
  Forall2 comp_shape (r_name r) (fst x) /\ Forall (comp_tag_ok named) (fst x) /\
  forall p, tp_has (snd x) p <-> (In (CPat p) (r_name r) /\ is_temp_pat p = true).

Lemma number_rules_spec : forall rules st st' names,
  map_acc number_rule_name st rules = (st', names) -> num_inv st ->
  num_inv st' /\ named_mono (ns_named st) (ns_named st') /\
  (forall p, named_has (ns_named st') p <-> named_has (ns_named st) p \/ src_named rules p) /\
  Forall2 (name_ok (ns_named st')) rules names.
Proof.
  induction rules as [|r rules IH]; intros st st' names H HI; cbn [map_acc] in H.
  - inversion H; subst. split; [exact HI|]. split; [intros p n Hp; exact Hp|]. split; [|constructor].
    intros p. split; [auto|]. intros [H1|(r & [] & _)]. exact H1.
  - unfold number_rule_name at 1 in H.
    destruct (map_acc number_comp (st, []) (r_name r)) as [[st1 tp1] nm] eqn:En.
    destruct (map_acc number_rule_name st1 rules) as [st2 names'] eqn:Em. inversion H; subst. clear H.
    destruct (number_name_spec _ _ _ _ _ _ En HI) as (HI1 & Hm1 & Hn1 & Ht1 & Hs1 & Hk1).
    destruct (IH _ _ _ Em HI1) as (HI2 & Hm2 & Hn2 & Hall).
    split; [exact HI2|]. split; [intros p n Hp; apply Hm2, Hm1, Hp|]. split.
    + intros p. rewrite Hn2, Hn1. unfold src_named. cbn [In]. split.
      * intros [[H|[H1 H2]]|(r' & Hr' & H1 & H2)]; [auto | right; exists r; auto | right; exists r'; auto].
      * intros [H|(r' & [<-|Hr'] & H1 & H2)]; [auto | auto | right; exists r'; auto].
    + constructor; [|exact Hall]. split; [exact Hs1|]. split.
      * cbn [fst]. eapply Forall_impl; [|exact Hk1]. intros c. apply comp_tag_ok_mono. exact Hm2.
      * cbn [snd]. intros p. rewrite Ht1. split; [intros [(l & Hl)|H]; [cbn in Hl; discriminate | exact H] | auto].
Qed.

Definition st0 : numst := {| ns_named := []; ns_next_named := 1; ns_next_temp := 1 |}.
Lemma num_inv0 : num_inv st0.
Proof. constructor; cbn; [reflexivity | intros p n H; discriminate | lia]. Qed.

(* ---- the whole pass ------------------------------------------------------------------------------------------------------- *)
(* what pass 2 needs of a constraint, in source terms *)
Definition src_cons_ok (rules : list rule) (r : rule) (tc : tagcons) : Prop :=
  (if is_temp_pat (tc_pat tc) then In (CPat (tc_pat tc)) (r_name r) else src_named rules (tc_pat tc)) /\
  forall p, In p (flat_map rhs_pats (tc_opts tc)) -> is_temp_pat p = false /\ src_named rules p.

Lemma forall2_length {A B} (R : A -> B -> Prop) l l' : Forall2 R l l' -> length l = length l'.
Proof. induction 1; cbn; auto. Qed.

Theorem gen_pattern_numbers_spec rules :
  match gen_pattern_numbers rules with
  | Ok (nrules, st) =>
      num_inv st /\ (forall p, named_has (ns_named st) p <-> src_named rules p) /\
      (forall r cs tc, In r rules -> In cs (r_cons r) -> In tc cs -> src_cons_ok rules r tc) /\
      length nrules = length rules
  | Err e => e = ESemantic /\ exists r cs tc, In r rules /\ In cs (r_cons r) /\ In tc cs /\ ~ src_cons_ok rules r tc
  end.
Proof.
  unfold gen_pattern_numbers.
  destruct (map_acc number_rule_name {| ns_named := []; ns_next_named := 1; ns_next_temp := 1 |} rules) as [st names] eqn:Em.
  destruct (number_rules_spec _ _ _ _ Em num_inv0) as (HI & _ & Hn & Hall).
  assert (Hnamed : forall p, named_has (ns_named st) p <-> src_named rules p).
  { intros p. rewrite Hn. split; [intros [(n & H)|H]; [discriminate | exact H] | auto]. }
  (* per rule: resolution succeeds iff all its constraints are fine *)
  assert (Hrule : forall r x, name_ok (ns_named st) r x -> forall tc,
            tagcons_ok (ns_named st) (snd x) tc <-> src_cons_ok rules r tc).
  { intros r [nm tp] (_ & _ & Htp) tc. unfold tagcons_ok, src_cons_ok, lhs_ok, rhs_ok. cbn [snd] in *.
    destruct (is_temp_pat (tc_pat tc)) eqn:Et.
    - fold (tp_has tp (tc_pat tc)). rewrite Htp. split.
      + intros [[H1 _] H2]. split; [exact H1|]. intros p Hp. destruct (H2 p Hp) as [Ha Hb]. split; [exact Ha | apply Hnamed, Hb].
      + intros [H1 H2]. split; [auto|]. intros p Hp. destruct (H2 p Hp) as [Ha Hb]. split; [exact Ha | apply Hnamed, Hb].
    - rewrite Hnamed. split.
      + intros [H1 H2]. split; [exact H1|]. intros p Hp. destruct (H2 p Hp) as [Ha Hb]. split; [exact Ha | apply Hnamed, Hb].
      + intros [H1 H2]. split; [exact H1|]. intros p Hp. destruct (H2 p Hp) as [Ha Hb]. split; [exact Ha | apply Hnamed, Hb]. }
  destruct (rmap _ (combine rules names)) as [nrules|e] eqn:Er; cbn [bind].
  - split; [exact HI|]. split; [exact Hnamed|]. split.
    + intros r cs tc Hr Hcs Htc.
      (* r is paired with its name in the combine *)
      assert (Hpair : exists x, In (r, x) (combine rules names) /\ name_ok (ns_named st) r x).
      { clear - Hall Hr. induction Hall as [|r0 x0 rs xs H0 _ IH]; [destruct Hr|]. destruct Hr as [<-|Hr].
        - exists x0. split; [left; reflexivity | exact H0].
        - destruct (IH Hr) as (x & Hx & Hok). exists x. split; [right; exact Hx | exact Hok]. }
      destruct Hpair as ([nm tp] & Hin & Hok).
      destruct (rmap_ok_inv _ _ _ Er _ Hin) as (y & Hy). cbn beta iota in Hy.
      destruct (rmap (rmap (resolve_cons (ns_named st) tp)) (r_cons r)) as [rc|] eqn:Ec; [|discriminate].
      destruct (rmap_ok_inv _ _ _ Ec _ Hcs) as (y1 & Hy1). destruct (rmap_ok_inv _ _ _ Hy1 _ Htc) as (y2 & Hy2).
      pose proof (resolve_cons_spec (ns_named st) tp tc) as Hs. rewrite Hy2 in Hs.
      apply (Hrule r (nm, tp) Hok tc). exact Hs.
    + apply rmap_forall2 in Er. apply forall2_length in Er. rewrite <- Er, combine_length.
      apply forall2_length in Hall. lia.
  - apply rmap_err in Er. destruct Er as ([r [nm tp]] & Hin & He). cbn beta iota in He.
    assert (Hr : In r rules) by (apply in_combine_l in Hin; exact Hin).
    assert (Hok : name_ok (ns_named st) r (nm, tp)).
    { clear - Hall Hin. induction Hall as [|r0 x0 rs xs H0 _ IH]; [destruct Hin|]. destruct Hin as [E|Hin]; [inversion E; subst; exact H0 | apply IH, Hin]. }
    destruct (rmap (rmap (resolve_cons (ns_named st) tp)) (r_cons r)) as [rc|e'] eqn:Ec; cbn [bind] in He; [discriminate|].
    inversion He; subst e'. apply rmap_err in Ec. destruct Ec as (cs & Hcs & Ec). apply rmap_err in Ec. destruct Ec as (tc & Htc & Ec).
    pose proof (resolve_cons_spec (ns_named st) tp tc) as Hs. rewrite Ec in Hs. destruct Hs as [-> Hn'].
    split; [reflexivity|]. exists r, cs, tc. repeat split; auto. intros Hsrc. apply Hn'. apply (Hrule r (nm, tp) Hok tc). exact Hsrc.
Qed.

(* ---- the numbered rules, rule by rule ------------------------------------------------------------------------------------ *)
Definition nrule_rel (named : list (ident * N)) (r : rule) (nr : nrule) : Prop :=
  nr_id nr = r_id r /\ nr_sign nr = r_sign r /\ Forall2 comp_shape (r_name r) (nr_name nr) /\
  Forall (comp_tag_ok named) (nr_name nr) /\
  Forall2 (Forall2 (fun tc nc => exists tp, resolve_cons named tp tc = Ok nc)) (r_cons r) (nr_cons nr).

Lemma rmap_forall2_ex {A B} (f : A -> res B) l ys : rmap f l = Ok ys -> Forall2 (fun x y => f x = Ok y) l ys.
Proof. apply rmap_forall2. Qed.

Theorem gen_pattern_numbers_rel rules nrules st :
  gen_pattern_numbers rules = Ok (nrules, st) -> Forall2 (nrule_rel (ns_named st)) rules nrules.
Proof.
  unfold gen_pattern_numbers.
  destruct (map_acc number_rule_name {| ns_named := []; ns_next_named := 1; ns_next_temp := 1 |} rules) as [st1 names] eqn:Em.
  destruct (number_rules_spec _ _ _ _ Em num_inv0) as (_ & _ & _ & Hall).
  destruct (rmap _ (combine rules names)) as [nrs|e] eqn:Er; cbn [bind]; [|discriminate].
  intros H; inversion H; subst nrs st1. clear H. apply rmap_forall2 in Er.
  clear Em. revert nrules Er. induction Hall as [|r x rs xs H0 _ IH]; intros nrules Er; cbn [combine] in Er.
  - inversion Er. constructor.
  - inversion Er as [|? nr ? nrs' Hf Hrest]; subst. constructor; [|apply IH; exact Hrest].
    destruct x as [nm tp]. cbn beta iota in Hf.
    destruct (rmap (rmap (resolve_cons (ns_named st) tp)) (r_cons r)) as [rc|] eqn:Ec; [|discriminate].
    cbn [bind] in Hf. inversion Hf; subst nr. clear Hf. destruct H0 as (Hs & Hk & _). cbn [fst] in *.
    unfold nrule_rel. cbn. repeat split; auto.
    apply rmap_forall2 in Ec. clear - Ec. induction Ec as [|cs ncs l l' Hc _ IHc]; constructor; [|exact IHc].
    apply rmap_forall2 in Hc. clear - Hc. induction Hc as [|tc nc l l' H _ IHc]; constructor; [eauto | exact IHc].
Qed.

(* ---- where the temporary tags go --------------------------------------------------------------------------------------- *)
(* all tags handed out so far are -1 .. -(next_temp - 1); [tp] lists, per temporary identifier, the tags of its occurrences *)
Definition temp_range (k : N) (t : Z) : Prop := (t < 0)%Z /\ (- t < Z.of_N k)%Z.

Record tp_inv (k0 k : N) (comps : list comp) (ncs : list ncomp) (tp : temp_pats) : Prop := {
  ti_fwd : forall i p t, nth_error comps i = Some (CPat p) -> is_temp_pat p = true -> nth_error ncs i = Some (NPat t) ->
           exists l, al_get ident_eqb tp p = Some l /\ In t l;
  ti_bwd : forall p l t, al_get ident_eqb tp p = Some l -> In t l ->
           exists i, nth_error comps i = Some (CPat p) /\ nth_error ncs i = Some (NPat t) /\ is_temp_pat p = true;
  ti_fresh : forall i t, nth_error ncs i = Some (NPat t) -> (t < 0)%Z -> (Z.of_N k0 <= - t)%Z /\ (- t < Z.of_N k)%Z;
  ti_nodup : forall i j t, nth_error ncs i = Some (NPat t) -> nth_error ncs j = Some (NPat t) -> (t < 0)%Z -> i = j
}.

Lemma nth_error_snoc {A} (l : list A) x i y : nth_error (l ++ [x]) i = Some y ->
  (nth_error l i = Some y /\ (i < length l)%nat) \/ (i = length l /\ y = x).
Proof.
  intros H. destruct (Nat.lt_ge_cases i (length l)) as [Hlt|Hge].
  - left. rewrite nth_error_app1 in H by exact Hlt. auto.
  - right. rewrite nth_error_app2 in H by exact Hge. destruct (i - length l)%nat as [|n] eqn:E; cbn in H; [inversion H; split; [lia | reflexivity]|].
    destruct n; discriminate.
Qed.

Lemma number_name_tags : forall comps done ndone st tp st' tp' ncs k0,
  map_acc number_comp (st, tp) comps = ((st', tp'), ncs) -> length done = length ndone ->
  tp_inv k0 (ns_next_temp st) done ndone tp -> (1 <= k0) -> (k0 <= ns_next_temp st) ->
  tp_inv k0 (ns_next_temp st') (done ++ comps) (ndone ++ ncs) tp' /\ ns_next_temp st <= ns_next_temp st'.
Proof.
  induction comps as [|c comps IH]; intros done ndone st tp st' tp' ncs k0 H Hlen HI Hk1 Hk; cbn [map_acc] in H.
  - inversion H; subst. rewrite !app_nil_r. split; [exact HI | lia].
  - destruct (number_comp (st, tp) c) as [[st1 tp1] nc] eqn:Ec.
    destruct (map_acc number_comp (st1, tp1) comps) as [[st2 tp2] ncs'] eqn:Em. inversion H; subst. clear H.
    assert (Hstep : tp_inv k0 (ns_next_temp st1) (done ++ [c]) (ndone ++ [nc]) tp1 /\ ns_next_temp st <= ns_next_temp st1).
    { unfold number_comp in Ec. destruct c as [v|pid|r].
      - inversion Ec; subst. split; [|lia]. destruct HI as [F B Fr Nd]. constructor.
        + intros i p t Hc Ht Hn. apply nth_error_snoc in Hc. destruct Hc as [[Hc Hi]|[_ Hc]]; [|discriminate].
          rewrite nth_error_app1 in Hn by lia. eauto.
        + intros p l t Hl Ht. destruct (B p l t Hl Ht) as (i & H1 & H2 & H3). exists i.
          assert (i < length done)%nat by (apply nth_error_Some; congruence).
          rewrite !nth_error_app1 by lia. auto.
        + intros i t Hn Ht. apply nth_error_snoc in Hn. destruct Hn as [[Hn _]|[_ Hn]]; [eauto | discriminate].
        + intros i j t Hi Hj Ht. apply nth_error_snoc in Hi, Hj. destruct Hi as [[Hi _]|[_ Hi]], Hj as [[Hj _]|[_ Hj]]; try discriminate. eauto.
      - destruct (is_temp_pat pid) eqn:Etp.
        + inversion Ec; subst. clear Ec. cbn [ns_next_temp]. split; [|lia]. destruct HI as [F B Fr Nd].
          set (t0 := (- Z.of_N (ns_next_temp st))%Z) in *.
          assert (Hnew : forall i, nth_error ndone i <> Some (NPat t0)).
          { intros i Hi. assert (Hneg : (t0 < 0)%Z) by (unfold t0; lia). destruct (Fr i t0 Hi Hneg) as [_ H2]. unfold t0 in H2. lia. }
          constructor.
          * intros i p t Hc Ht Hn. apply nth_error_snoc in Hc. destruct Hc as [[Hc Hi]|[Hi Hc]].
            -- rewrite nth_error_app1 in Hn by lia. destruct (F i p t Hc Ht Hn) as (l & Hl & Hin).
               destruct (list_eq_dec N.eq_dec p pid) as [->|Hne].
               ++ rewrite Hl. exists (l ++ [t0]). split; [apply al_get_set_same; unfold al_mem; rewrite Hl; reflexivity | apply in_or_app; auto].
               ++ exists l. split; [|exact Hin]. destruct (al_get ident_eqb tp pid) as [l0|] eqn:E0.
                  ** rewrite al_get_set_other by congruence. exact Hl.
                  ** apply al_get_app_some. exact Hl.
            -- inversion Hc; subst p. rewrite Hi, Hlen, nth_error_app2, Nat.sub_diag in Hn by lia. cbn in Hn. inversion Hn; subst t.
               destruct (al_get ident_eqb tp pid) as [l0|] eqn:E0.
               ++ exists (l0 ++ [t0]). split; [apply al_get_set_same; unfold al_mem; rewrite E0; reflexivity | apply in_or_app; right; left; reflexivity].
               ++ exists [t0]. split; [|left; reflexivity]. rewrite (al_get_app_none _ _ _ _ E0), (proj2 (ident_eqb_eq pid pid) eq_refl), E0. reflexivity.
          * intros p l t Hl Ht.
            assert (Hcase : (exists l', al_get ident_eqb tp p = Some l' /\ In t l') \/ (p = pid /\ t = t0)).
            { destruct (al_get ident_eqb tp pid) as [l0|] eqn:E0.
              - destruct (list_eq_dec N.eq_dec p pid) as [->|Hne].
                + rewrite al_get_set_same in Hl by (unfold al_mem; rewrite E0; reflexivity). inversion Hl; subst l.
                  apply in_app_or in Ht. destruct Ht as [Ht|[Ht|[]]]; [left; eauto | right; auto].
                + rewrite al_get_set_other in Hl by congruence. left; eauto.
              - rewrite (al_get_app_none _ _ _ _ E0) in Hl. destruct (ident_eqb p pid) eqn:E.
                + apply ident_eqb_eq in E. subst p. rewrite E0 in Hl. inversion Hl; subst l. destruct Ht as [<-|[]]. right; auto.
                + left; eauto. }
            destruct Hcase as [(l' & Hl' & Ht')|[-> ->]].
            -- destruct (B p l' t Hl' Ht') as (i & H1 & H2 & H3). exists i.
               assert (i < length done)%nat by (apply nth_error_Some; congruence).
               rewrite !nth_error_app1 by lia. auto.
            -- exists (length done). split; [rewrite nth_error_app2, Nat.sub_diag by lia; reflexivity|]. split; [|exact Etp].
               rewrite Hlen, nth_error_app2, Nat.sub_diag by lia. reflexivity.
          * intros i t Hn Ht. apply nth_error_snoc in Hn. destruct Hn as [[Hn _]|[_ Hn]].
            -- destruct (Fr i t Hn Ht). lia.
            -- inversion Hn; subst t. unfold t0. lia.
          * intros i j t Hi Hj Ht. apply nth_error_snoc in Hi, Hj. destruct Hi as [[Hi Li]|[Li Hi]], Hj as [[Hj Lj]|[Lj Hj]].
            -- eauto.
            -- inversion Hj; subst t. exfalso. eapply Hnew; eauto.
            -- inversion Hi; subst t. exfalso. eapply Hnew; eauto.
            -- lia.
        + assert (E1 : st1 = st \/ ns_next_temp st1 = ns_next_temp st).
          { destruct (al_get ident_eqb (ns_named st) pid); inversion Ec; subst; cbn; auto. }
          assert (Etp1 : tp1 = tp) by (destruct (al_get ident_eqb (ns_named st) pid); inversion Ec; reflexivity).
          assert (Enc : exists n, nc = NPat (Z.of_N n)) by (destruct (al_get ident_eqb (ns_named st) pid); inversion Ec; eauto).
          assert (Ek : ns_next_temp st1 = ns_next_temp st) by (destruct E1 as [->|E1]; auto).
          subst tp1. destruct Enc as (n & ->). rewrite Ek. split; [|lia]. destruct HI as [F B Fr Nd]. constructor.
          * intros i p t Hc Ht Hn. apply nth_error_snoc in Hc. destruct Hc as [[Hc Hi]|[_ Hc]]; [|inversion Hc; subst; congruence].
            rewrite nth_error_app1 in Hn by lia. eauto.
          * intros p l t Hl Ht. destruct (B p l t Hl Ht) as (i & H1 & H2 & H3). exists i.
            assert (i < length done)%nat by (apply nth_error_Some; congruence).
            rewrite !nth_error_app1 by lia. auto.
          * intros i t Hn Ht. apply nth_error_snoc in Hn. destruct Hn as [[Hn _]|[_ Hn]]; [eauto | inversion Hn; lia].
          * intros i j t Hi Hj Ht. apply nth_error_snoc in Hi, Hj. destruct Hi as [[Hi _]|[_ Hi]], Hj as [[Hj _]|[_ Hj]]; try (inversion Hi; lia); try (inversion Hj; lia). eauto.
      - inversion Ec; subst. split; [|lia]. destruct HI as [F B Fr Nd]. constructor.
        + intros i p t Hc Ht Hn. apply nth_error_snoc in Hc. destruct Hc as [[Hc Hi]|[_ Hc]]; [|discriminate].
          rewrite nth_error_app1 in Hn by lia. eauto.
        + intros p l t Hl Ht. destruct (B p l t Hl Ht) as (i & H1 & H2 & H3). exists i.
          assert (i < length done)%nat by (apply nth_error_Some; congruence).
          rewrite !nth_error_app1 by lia. auto.
        + intros i t Hn Ht. apply nth_error_snoc in Hn. destruct Hn as [[Hn _]|[_ Hn]]; [eauto | discriminate].
        + intros i j t Hi Hj Ht. apply nth_error_snoc in Hi, Hj. destruct Hi as [[Hi _]|[_ Hi]], Hj as [[Hj _]|[_ Hj]]; try discriminate. eauto. }
    destruct Hstep as [HI1 Hk1'].
    destruct (IH (done ++ [c]) (ndone ++ [nc]) _ _ _ _ _ k0 Em) as [HI2 Hk2]; [rewrite !app_length; cbn; lia | exact HI1 | exact Hk1 | lia |].
    rewrite <- !app_assoc in HI2. cbn [app] in HI2. split; [exact HI2 | lia].
Qed.

Lemma tp_inv_nil k : tp_inv k k [] [] [].
Proof.
  constructor.
  - intros i p t H. destruct i; discriminate.
  - intros p l t H. discriminate.
  - intros i t H. destruct i; discriminate.
  - intros i j t H. destruct i; discriminate.
Qed.

Lemma tp_inv_weaken k0 k k' comps ncs tp : tp_inv k0 k comps ncs tp -> k <= k' -> tp_inv k0 k' comps ncs tp.
Proof.
  intros [F B Fr Nd] Hle. constructor; auto. intros i t Hn Ht. destruct (Fr i t Hn Ht). lia.
Qed.

Lemma number_rules_tags : forall rules st st' names,
  map_acc number_rule_name st rules = (st', names) -> 1 <= ns_next_temp st ->
  Forall2 (fun r x => exists k0 k1, 1 <= k0 /\ k1 <= ns_next_temp st' /\ tp_inv k0 k1 (r_name r) (fst x) (snd x)) rules names /\
  ns_next_temp st <= ns_next_temp st'.
Proof.
  induction rules as [|r rules IH]; intros st st' names H Hk; cbn [map_acc] in H.
  - inversion H; subst. split; [constructor | lia].
  - unfold number_rule_name at 1 in H.
    destruct (map_acc number_comp (st, []) (r_name r)) as [[st1 tp1] nm] eqn:En.
    destruct (map_acc number_rule_name st1 rules) as [st2 names'] eqn:Em. inversion H; subst. clear H.
    destruct (number_name_tags (r_name r) [] [] st [] st1 tp1 nm (ns_next_temp st) En eq_refl (tp_inv_nil _) Hk (N.le_refl _)) as [HI Hle].
    cbn [app] in HI. destruct (IH _ _ _ Em) as [Hall Hle2]; [lia|].
    split; [|lia]. constructor; [|exact Hall].
    exists (ns_next_temp st), (ns_next_temp st1). cbn [fst snd]. split; [exact Hk|]. split; [exact Hle2 | exact HI].
Qed.

(* everything that is known of one numbered rule *)
Definition nrule_full (named : list (ident * N)) (kfinal : N) (r : rule) (nr : nrule) : Prop :=
  nr_id nr = r_id r /\ nr_sign nr = r_sign r /\ Forall2 comp_shape (r_name r) (nr_name nr) /\
  Forall (comp_tag_ok named) (nr_name nr) /\
  exists tp k0 k1, 1 <= k0 /\ k1 <= kfinal /\ tp_inv k0 k1 (r_name r) (nr_name nr) tp /\
    Forall2 (Forall2 (fun tc nc => resolve_cons named tp tc = Ok nc)) (r_cons r) (nr_cons nr).

Theorem gen_pattern_numbers_full rules nrules st :
  gen_pattern_numbers rules = Ok (nrules, st) -> Forall2 (nrule_full (ns_named st) (ns_next_temp st)) rules nrules.
Proof.
  unfold gen_pattern_numbers.
  destruct (map_acc number_rule_name {| ns_named := []; ns_next_named := 1; ns_next_temp := 1 |} rules) as [st1 names] eqn:Em.
  destruct (number_rules_spec _ _ _ _ Em num_inv0) as (_ & _ & _ & Hall).
  destruct (number_rules_tags _ _ _ _ Em) as [Htags _]; [cbn; lia|].
  destruct (rmap _ (combine rules names)) as [nrs|e] eqn:Er; cbn [bind]; [|discriminate].
  intros H; inversion H; subst nrs st1. clear H. apply rmap_forall2 in Er.
  clear Em. revert nrules Er Htags. induction Hall as [|r x rs xs H0 _ IH]; intros nrules Er Htags; cbn [combine] in Er.
  - inversion Er. constructor.
  - inversion Er as [|? nr ? nrs' Hf Hrest]; subst. inversion Htags as [|? ? ? ? (k0 & k1 & Hk0 & Hk1 & Htp) Htags']; subst.
    constructor; [|apply IH; assumption].
    destruct x as [nm tp]. cbn beta iota in Hf.
    destruct (rmap (rmap (resolve_cons (ns_named st) tp)) (r_cons r)) as [rc|] eqn:Ec; [|discriminate].
    cbn [bind] in Hf. inversion Hf; subst nr. clear Hf. destruct H0 as (Hs & Hk & _). cbn [fst snd] in *.
    unfold nrule_full. cbn. split; [reflexivity|]. split; [reflexivity|]. split; [exact Hs|]. split; [exact Hk|].
    exists tp, k0, k1. split; [exact Hk0|]. split; [exact Hk1|]. split; [exact Htp|].
    apply rmap_forall2 in Ec. clear - Ec. induction Ec as [|cs ncs l l' Hc _ IHc]; constructor; [|exact IHc].
    apply rmap_forall2 in Hc. exact Hc.
Qed.

(* ---- components, with the identifier behind a named tag ---------------------------------------------------------------- *)
Definition comp_num (named : list (ident * N)) (c : comp) (nc : ncomp) : Prop :=
  match c, nc with
  | CLit v, NLit w => v = w
  | CRef r, NRef r' => r = r'
  | CPat p, NPat t => if is_temp_pat p then (t < 0)%Z else (0 < t)%Z /\ al_get ident_eqb named p = Some (Z.to_N t)
  | _, _ => False
  end.

Lemma comp_num_mono a b c nc : named_mono a b -> comp_num a c nc -> comp_num b c nc.
Proof.
  intros Hm. destruct c as [v|p|r], nc as [w|t|r']; cbn; auto. destruct (is_temp_pat p); [auto|]. intros [H1 H2]. split; [exact H1 | apply Hm, H2].
Qed.

Lemma number_comp_num st tp c st' tp' nc : number_comp (st, tp) c = ((st', tp'), nc) -> num_inv st -> comp_num (ns_named st') c nc.
Proof.
  intros H HI. unfold number_comp in H. destruct c as [v|pid|r]; [inversion H; subst; reflexivity | | inversion H; subst; reflexivity].
  destruct (is_temp_pat pid) eqn:Et.
  - inversion H; subst. cbn. rewrite Et. destruct HI as [_ _ H3]. lia.
  - destruct (al_get ident_eqb (ns_named st) pid) as [n|] eqn:En.
    + inversion H; subst. cbn. rewrite Et, N2Z.id. split; [destruct (ni_range _ HI _ _ En); lia | exact En].
    + inversion H; subst. cbn. rewrite Et, N2Z.id. split; [destruct HI as [H1 _ _]; lia|].
      rewrite (al_get_app_none _ _ _ _ En), (proj2 (ident_eqb_eq pid pid) eq_refl), En. reflexivity.
Qed.

Lemma number_name_num : forall comps st tp st' tp' ncs,
  map_acc number_comp (st, tp) comps = ((st', tp'), ncs) -> num_inv st -> Forall2 (comp_num (ns_named st')) comps ncs.
Proof.
  induction comps as [|c comps IH]; intros st tp st' tp' ncs H HI; cbn [map_acc] in H.
  - inversion H; subst. constructor.
  - destruct (number_comp (st, tp) c) as [[st1 tp1] nc] eqn:Ec.
    destruct (map_acc number_comp (st1, tp1) comps) as [[st2 tp2] ncs'] eqn:Em. inversion H; subst. clear H.
    destruct (number_comp_spec _ _ _ _ _ _ Ec HI) as (HI1 & _).
    destruct (number_name_spec _ _ _ _ _ _ Em HI1) as (_ & Hm2 & _).
    constructor; [eapply comp_num_mono; [exact Hm2 | eapply number_comp_num; eauto] | eapply IH; eauto].
Qed.

Theorem gen_pattern_numbers_num rules nrules st :
  gen_pattern_numbers rules = Ok (nrules, st) -> Forall2 (fun r nr => Forall2 (comp_num (ns_named st)) (r_name r) (nr_name nr)) rules nrules.
Proof.
  unfold gen_pattern_numbers.
  destruct (map_acc number_rule_name {| ns_named := []; ns_next_named := 1; ns_next_temp := 1 |} rules) as [st1 names] eqn:Em.
  destruct (rmap _ (combine rules names)) as [nrs|e] eqn:Er; cbn [bind]; [|discriminate].
  intros H; inversion H; subst nrs st1. clear H. apply rmap_forall2 in Er.
  assert (G : forall rules0 s0 s1 names0, map_acc number_rule_name s0 rules0 = (s1, names0) -> num_inv s0 ->
            named_mono (ns_named s0) (ns_named s1) /\ num_inv s1 /\
            Forall2 (fun r x => forall nm', named_mono (ns_named s1) nm' -> Forall2 (comp_num nm') (r_name r) (fst x)) rules0 names0).
  { induction rules0 as [|r rules0 IH]; intros s0 s1 names0 H0 HI0; cbn [map_acc] in H0.
    - inversion H0; subst. split; [intros p n Hp; exact Hp|]. split; [exact HI0 | constructor].
    - unfold number_rule_name at 1 in H0. destruct (map_acc number_comp (s0, []) (r_name r)) as [[sa tpa] nm] eqn:En.
      destruct (map_acc number_rule_name sa rules0) as [sb namesb] eqn:Emb. inversion H0; subst. clear H0.
      destruct (number_name_spec _ _ _ _ _ _ En HI0) as (HIa & Hma & _).
      destruct (IH _ _ _ Emb HIa) as (Hmb & HIb & Hall).
      split; [intros p n Hp; apply Hmb, Hma, Hp|]. split; [exact HIb|]. constructor; [|exact Hall].
      intros nm' Hm'. cbn [fst]. pose proof (number_name_num _ _ _ _ _ _ En HI0) as Hnum.
      clear - Hnum Hm' Hmb. induction Hnum as [|c nc l l' Hc _ IHn]; constructor; [|exact IHn].
      eapply comp_num_mono; [|exact Hc]. intros p n Hp. apply Hm', Hmb, Hp. }
  destruct (G _ _ _ _ Em num_inv0) as (_ & _ & Hall).
  clear Em G. revert nrules Er. induction Hall as [|r x rs xs H0 _ IH]; intros nrules Er; cbn [combine] in Er.
  - inversion Er. constructor.
  - inversion Er as [|? nr ? nrs' Hf Hrest]; subst. constructor; [|apply IH; exact Hrest].
    destruct x as [nm tp]. cbn beta iota in Hf.
    destruct (rmap (rmap (resolve_cons (ns_named st) tp)) (r_cons r)) as [rc|] eqn:Ec; [|discriminate].
    cbn [bind] in Hf. inversion Hf; subst nr. cbn. apply (H0 (ns_named st)). intros p n Hp; exact Hp.
Qed.
