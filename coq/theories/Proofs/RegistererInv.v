(* C17, protocol part — the invariant of the registration machine for any front-end whose protocol records
   pass [proto_ok], any clock stream and any event history:
   the semaphore discipline (only its holder sleeps or has a command outstanding), and the state of four of the
   specification automata (one at a time, increasing timestamps, one command per call, outcomes) as a function
   of the machine state. *)
From NDN Require Import Base.Prelude Model.TlvVar Model.Name Model.Tlv Model.NfdMgmt Model.Registerer
  Spec.Registration Proofs.RegistererBase.
Local Open Scope N_scope.

Ltac simp :=
  unfold status in *;
  cbn [log calls holder queue outst last_ts clk connected routes st_pos st_cur set_calls set_holder set_queue
       set_outst set_last tick_clk set_conn set_routes set_starter emit set_status] in *.

Definition sent_flag (c : cstatus) : bool := match c with COut | CDone _ => true | _ => false end.
Definition summary (c : call) : kind * name * bool := (c_kind c, c_prefix c, sent_flag (c_st c)).
Definition active (c : cstatus) : bool := match c with CSleep _ | COut => true | _ => false end.
Definition out_l (h : option nat) (l : list call) : list nat :=
  match h with
  | Some h => match stat l h with Some COut => [h] | _ => [] end
  | None => []
  end.

Lemma stat_nth l id c0 : stat l id = Some c0 -> exists c, nth_error l id = Some c /\ c_st c = c0.
Proof.
  unfold stat. destruct (nth_error l id) as [c|]; [|discriminate]. cbn [option_map]. intros H.
  injection H as <-. now exists c.
Qed.
Lemma stat_upd_eq l id x c : stat l id = Some c -> stat (upd l id (with_status x)) id = Some x.
Proof.
  intros H. destruct (stat_nth _ _ _ H) as (c1 & E & _). unfold stat. now rewrite (nth_error_upd_eq _ _ _ _ E).
Qed.
Lemma stat_upd_neq l id x j : id <> j -> stat (upd l id (with_status x)) j = stat l j.
Proof. intros H. unfold stat. now rewrite nth_error_upd_neq. Qed.
Lemma stat_lt l id c : stat l id = Some c -> (id < length l)%nat.
Proof. intros H. destruct (stat_nth _ _ _ H) as (c1 & E & _). apply nth_error_Some. congruence. Qed.
Lemma stat_app_old l c j : (j < length l)%nat -> stat (l ++ [c]) j = stat l j.
Proof. intros H. unfold stat. now rewrite nth_error_app1. Qed.
Lemma stat_app_new l c : stat (l ++ [c]) (length l) = Some (c_st c).
Proof. unfold stat. rewrite nth_error_app2 by lia. now rewrite Nat.sub_diag. Qed.

Lemma NoDup_snoc {A} (l : list A) x : NoDup l -> ~ In x l -> NoDup (l ++ [x]).
Proof.
  induction l as [|y r IH]; intros H Hn; cbn [app].
  - constructor; [intros []|constructor].
  - inversion H as [|? ? Hy Hr]; subst. constructor.
    + rewrite in_app_iff. intros [Hi|[->|[]]]; [exact (Hy Hi)|]. apply Hn. now left.
    + apply IH; [exact Hr|]. intros Hi. apply Hn. now right.
Qed.

Lemma upd_same_val {A} (l : list A) i y : nth_error l i = Some y -> upd l i (fun _ => y) = l.
Proof.
  revert i. induction l as [|z r IH]; intros [|i]; cbn [upd nth_error]; try discriminate.
  - intros H. now injection H as ->.
  - intros H. now rewrite (IH i H).
Qed.

(* changing the status of a call without changing whether its command went out *)
Lemma summary_upd_same l id x c :
  nth_error l id = Some c -> sent_flag x = sent_flag (c_st c) -> map summary (upd l id (with_status x)) = map summary l.
Proof.
  intros E Hf. erewrite map_upd_at; [|exact E|reflexivity].
  apply upd_same_val. rewrite (map_nth_error summary _ _ E). unfold summary, with_status. cbn [c_kind c_prefix c_st].
  now rewrite Hf.
Qed.

Section Inv.
  Variable fe : kind -> proto.
  Variable clock : nat -> N.
  Variable va : bool.
  Hypothesis Hok : forall k, proto_ok (fe k) = true.
  Hypothesis Hva : forall k, p_validates (fe k) = va.

  Record Inv (s : state) : Prop := {
    I_outst : outst s = out_l (holder s) (calls s);
    I_active : forall id c, status s id = Some c -> active c = true -> holder s = Some id;
    I_queue : forall id, In id (queue s) -> status s id = Some CWait /\ holder s <> Some id;
    I_qnodup : NoDup (queue s);
    I_hlt : forall h, holder s = Some h -> (h < length (calls s))%nat;
    I_serial : check serial_step None (log s) = Some (hd_error (outst s));
    I_percall : check percall_step [] (log s) = Some (map summary (calls s));
    I_ts : exists m, check ts_step None (log s) = Some m /\ forall t, m = Some t -> t <= last_ts s;
    I_outcomes : outcomes_ok va (log s) = true
  }.

  (* fields the invariant does not mention *)
  Lemma Inv_ext s s' :
    calls s' = calls s -> holder s' = holder s -> queue s' = queue s -> outst s' = outst s ->
    last_ts s' = last_ts s -> log s' = log s -> Inv s -> Inv s'.
  Proof.
    intros E1 E2 E3 E4 E5 E6 [A B C D E F G H I]. unfold status in *.
    constructor; unfold status; rewrite ?E1, ?E2, ?E3, ?E4, ?E5, ?E6; assumption.
  Qed.

  Definition neutral (o : obs) : Prop :=
    match o with OCall _ _ _ _ | OSend _ | ODone _ _ _ => False | _ => True end.

  Lemma Inv_emit s o : neutral o -> Inv s -> Inv (emit s o).
  Proof.
    intros N [A B C D E F G H I]. constructor; simp; try assumption.
    - rewrite check_snoc, F. destruct (hd_error (outst s)); destruct o; try contradiction; reflexivity.
    - rewrite check_snoc, G. destruct o; try contradiction; reflexivity.
    - destruct H as (m & H1 & H2). exists m. split; [|exact H2]. rewrite check_snoc, H1.
      destruct m; destruct o; try contradiction; reflexivity.
    - unfold outcomes_ok in *. rewrite forallb_app, I. destruct o; try contradiction; reflexivity.
  Qed.

  Lemma Inv_set_last s v : last_ts s <= v -> Inv s -> Inv (set_last s v).
  Proof.
    intros L [A B C D E F G H I]. constructor; simp; try assumption.
    destruct H as (m & H1 & H2). exists m. split; [exact H1|]. intros t Ht. specialize (H2 t Ht). lia.
  Qed.

  Lemma Inv_tick s : Inv s -> Inv (tick_clk s).
  Proof. apply Inv_ext; reflexivity. Qed.

  Lemma out_l_nil h l c : stat l h = Some c -> sent_flag c = false -> out_l (Some h) l = [].
  Proof. intros H2 H3. unfold out_l. rewrite H2. destruct c; try discriminate; reflexivity. Qed.

  (* ---- send ------------------------------------------------------------------------------------------- *)
  Lemma send_eq s id c :
    nth_error (calls s) id = Some c ->
    send fe clock s id =
      emit (set_outst (set_status s id COut) (outst s ++ [id]))
           (OSend {| m_call := id; m_kind := c_kind c; m_prefix := c_prefix c; m_ts := last_ts s |}).
  Proof.
    intros E. unfold send. rewrite E.
    destruct (proto_ok_inv _ (Hok (c_kind c))) as (_ & Hts & Hrec & _).
    rewrite Hrec. destruct (p_ts (fe (c_kind c))); [discriminate| |]; reflexivity.
  Qed.

  Lemma send_inv s id c0 :
    Inv s -> holder s = Some id -> status s id = Some c0 -> sent_flag c0 = false ->
    (forall m, check ts_step None (log s) = Some (Some m) -> m < last_ts s) ->
    Inv (send fe clock s id).
  Proof.
    intros [A B C D E F G H I] Hh Hs Hf Hstrict. simp.
    assert (Hout : outst s = []) by (rewrite A, Hh; exact (out_l_nil id _ c0 Hs Hf)).
    destruct (stat_nth _ _ _ Hs) as (c & En & Hc).
    rewrite (send_eq s id c En). rewrite Hout. cbn [app].
    constructor; simp.
    - rewrite Hh. unfold out_l. rewrite (stat_upd_eq _ _ COut _ Hs). reflexivity.
    - intros j c1 Hj Ha. destruct (Nat.eq_dec id j) as [<-|Hne]; [exact Hh|].
      rewrite stat_upd_neq in Hj by exact Hne. exact (B j c1 Hj Ha).
    - intros j Hj. destruct (C j Hj) as [C1 C2]. split; [|exact C2].
      rewrite stat_upd_neq; [exact C1|]. intros ->. apply C2. exact Hh.
    - exact D.
    - intros h Hh'. rewrite upd_length. exact (E h Hh').
    - rewrite check_snoc, F, Hout. reflexivity.
    - rewrite check_snoc, G. cbn [percall_step m_call m_kind m_prefix].
      rewrite (map_nth_error summary _ _ En). unfold summary at 1. rewrite Hc, Hf.
      replace (kind_eqb (c_kind c) (c_kind c)) with true by (destruct (c_kind c); reflexivity).
      rewrite name_eqb_refl. cbn [andb]. f_equal. symmetry.
      eapply map_upd_at; [exact En|]. reflexivity.
    - destruct H as (m & H1 & H2). rewrite check_snoc, H1. destruct m as [t|]; cbn [ts_step m_ts].
      + specialize (Hstrict t H1). replace (t <? last_ts s) with true by (symmetry; apply N.ltb_lt; exact Hstrict).
        eexists. split; [reflexivity|]. intros t' Ht'. injection Ht' as <-. lia.
      + eexists. split; [reflexivity|]. intros t' Ht'. injection Ht' as <-. lia.
    - unfold outcomes_ok in *. rewrite forallb_app, I. reflexivity.
  Qed.

  (* ---- the timestamp loop ---------------------------------------------------------------------------------- *)
  Lemma strict_after s v :
    Inv s -> last_ts s < v ->
    forall m, check ts_step None (log (set_last s v)) = Some (Some m) -> m < last_ts (set_last s v).
  Proof.
    intros [_ _ _ _ _ _ _ (m0 & H1 & H2) _] L m Hm. simp. rewrite H1 in Hm. injection Hm as ->.
    specialize (H2 m eq_refl). lia.
  Qed.

  Lemma ts_try_inv s id c0 left :
    Inv s -> holder s = Some id -> status s id = Some c0 -> sent_flag c0 = false ->
    Inv (ts_try fe clock s id left true).
  Proof.
    intros HI Hh Hs Hf. destruct left as [|l]; cbn [ts_try].
    - apply (send_inv _ id c0); [apply Inv_set_last; [lia|exact HI]|exact Hh|exact Hs|exact Hf|].
      apply strict_after; [exact HI|lia].
    - destruct (last_ts s <? clock (clk s)) eqn:El.
      + apply N.ltb_lt in El.
        apply (send_inv _ id c0); [apply Inv_set_last; [simp; lia|apply Inv_tick; exact HI]|exact Hh|exact Hs|exact Hf|].
        apply strict_after; [apply Inv_tick; exact HI|exact El].
      + (* asleep *)
        destruct HI as [A B C D E F G H I]. simp.
        assert (Hout : outst s = []) by (rewrite A, Hh; exact (out_l_nil id _ c0 Hs Hf)).
        destruct (stat_nth _ _ _ Hs) as (c & En & Hc).
        constructor; simp.
        * rewrite Hh. unfold out_l. rewrite (stat_upd_eq _ _ (CSleep l) _ Hs). exact Hout.
        * intros j c1 Hj Ha. destruct (Nat.eq_dec id j) as [<-|Hne]; [exact Hh|].
          rewrite stat_upd_neq in Hj by exact Hne. exact (B j c1 Hj Ha).
        * intros j Hj. destruct (C j Hj) as [C1 C2]. split; [|exact C2].
          rewrite stat_upd_neq; [exact C1|]. intros ->. apply C2. exact Hh.
        * exact D.
        * intros h Hh'. rewrite upd_length. exact (E h Hh').
        * exact F.
        * rewrite G. f_equal. symmetry. apply (summary_upd_same _ _ _ c En). rewrite Hc, Hf. reflexivity.
        * exact H.
        * exact I.
  Qed.

  Lemma proceed_inv s id :
    Inv s -> holder s = Some id -> status s id = Some CWait -> Inv (proceed fe clock s id).
  Proof.
    intros HI Hh Hs. unfold proceed, proto_of. destruct (stat_nth _ _ _ Hs) as (c & En & Hc). rewrite En.
    cbn [option_map].
    destruct (proto_ok_inv _ (Hok (c_kind c))) as (_ & Hts & _).
    destruct (p_ts (fe (c_kind c))) as [|k b|]; [discriminate| |].
    - cbn [ts_mode_ok] in Hts. subst b. apply (ts_try_inv s id CWait); [exact HI|exact Hh|exact Hs|reflexivity].
    - apply (send_inv _ id CWait); [apply Inv_set_last; [simp; lia|apply Inv_tick; exact HI]|exact Hh|exact Hs|reflexivity|].
      apply strict_after; [apply Inv_tick; exact HI|simp; lia].
  Qed.

  Lemma acquire_inv s id :
    Inv s -> status s id = Some CWait -> ~ In id (queue s) -> holder s <> Some id ->
    Inv (acquire fe clock s id).
  Proof.
    intros HI Hs Hq Hh. unfold acquire, proto_of. destruct (stat_nth _ _ _ Hs) as (c & En & Hc). rewrite En.
    cbn [option_map].
    destruct (proto_ok_inv _ (Hok (c_kind c))) as (Hsem & _). rewrite Hsem.
    destruct (holder s) as [h|] eqn:Eh.
    - (* queue up *)
      destruct HI as [A B C D E F G H I]. simp. rewrite Eh in A, B, C, E.
      constructor; simp; rewrite ?Eh; try assumption.
      + intros j Hj. apply in_app_iff in Hj. destruct Hj as [Hj|[<-|[]]]; [apply C; exact Hj|].
        split; [exact Hs|exact Hh].
      + apply NoDup_snoc; assumption.
    - apply proceed_inv; [|reflexivity|exact Hs].
      destruct HI as [A B C D E F G H I]. simp.
      constructor; simp; try assumption.
      + unfold out_l. rewrite Hs. rewrite A, Eh. reflexivity.
      + intros j c1 Hj Ha. specialize (B j c1 Hj Ha). rewrite Eh in B. discriminate.
      + intros j Hj. destruct (C j Hj) as [C1 _]. split; [exact C1|]. intros Heq. injection Heq as <-. exact (Hq Hj).
      + intros h Hh'. injection Hh' as <-. exact (stat_lt _ _ _ Hs).
  Qed.

  Lemma spawn_inv s k nm a : Inv s -> Inv (spawn fe clock s k nm a).
  Proof.
    intros [A B C D E F G H I]. unfold spawn. simp.
    set (c := {| c_kind := k; c_prefix := nm; c_auto := a; c_st := CWait |}).
    apply acquire_inv.
    - constructor; simp.
      + rewrite A. unfold out_l. destruct (holder s) as [h|] eqn:Eh; [|reflexivity].
        rewrite stat_app_old by (apply E; reflexivity). reflexivity.
      + intros j c1 Hj Ha. destruct (Nat.eq_dec j (length (calls s))) as [->|Hne].
        * rewrite stat_app_new in Hj. injection Hj as <-. discriminate.
        * pose proof (stat_lt _ _ _ Hj) as Hl. rewrite app_length in Hl. cbn [length] in Hl.
          rewrite stat_app_old in Hj by lia. exact (B j c1 Hj Ha).
      + intros j Hj. destruct (C j Hj) as [C1 C2]. split; [|exact C2].
        rewrite stat_app_old; [exact C1|exact (stat_lt _ _ _ C1)].
      + exact D.
      + intros h Hh. rewrite app_length. specialize (E h Hh). lia.
      + rewrite check_snoc, F. destruct (hd_error (outst s)); reflexivity.
      + rewrite check_snoc, G. cbn [percall_step]. rewrite map_length, Nat.eqb_refl, map_app. reflexivity.
      + destruct H as (m & H1 & H2). exists m. split; [|exact H2]. rewrite check_snoc, H1. destruct m; reflexivity.
      + unfold outcomes_ok in *. rewrite forallb_app, I. reflexivity.
    - simp. apply stat_app_new.
    - simp. intros Hq. destruct (C _ Hq) as [C1 _]. apply stat_lt in C1. lia.
    - simp. intros Hh. specialize (E _ Hh). lia.
  Qed.

  (* spawn leaves a current holder and its status alone *)
  Lemma spawn_frame s k nm a h c :
    holder s = Some h -> status s h = Some c ->
    holder (spawn fe clock s k nm a) = Some h /\ status (spawn fe clock s k nm a) h = Some c.
  Proof.
    intros Hh Hs. unfold spawn, acquire, proto_of. simp.
    rewrite nth_error_app2 by lia. rewrite Nat.sub_diag. cbn [nth_error option_map c_kind].
    destruct (proto_ok_inv _ (Hok k)) as (Hsem & _). rewrite Hsem. simp. rewrite Hh. simp. split; [exact Hh|].
    rewrite stat_app_old by (exact (stat_lt _ h c Hs)). exact Hs.
  Qed.

  Lemma starter_next_inv s : Inv s -> Inv (starter_next fe clock s).
  Proof.
    intros HI. unfold starter_next. destruct (st_pos s) as [i|]; [|exact HI].
    destruct (nth_error (routes s) i) as [nm|].
    - apply spawn_inv. revert HI. apply Inv_ext; reflexivity.
    - apply Inv_emit; [exact I|]. revert HI. apply Inv_ext; reflexivity.
  Qed.

  Lemma starter_next_frame s h c :
    holder s = Some h -> status s h = Some c ->
    holder (starter_next fe clock s) = Some h /\ status (starter_next fe clock s) h = Some c.
  Proof.
    intros Hh Hs. unfold starter_next. destruct (st_pos s) as [i|]; [|split; assumption].
    destruct (nth_error (routes s) i) as [nm|].
    - apply spawn_frame; [exact Hh|exact Hs].
    - split; assumption.
  Qed.

  (* ---- completion of a call --------------------------------------------------------------------------------- *)
  Lemma remove_id_single id : remove_id id [id] = [].
  Proof. cbn. now rewrite Nat.eqb_refl. Qed.

  Lemma complete_inv s id r :
    Inv s -> In id (outst s) ->
    Inv (complete fe clock s id r (Ret (answers_200 va r))).
  Proof.
    intros HI Hin. pose proof HI as [A B C D E F G H I]. simp.
    (* the outstanding command is the holder's *)
    assert (Hh : holder s = Some id /\ stat (calls s) id = Some COut /\ outst s = [id]).
    { rewrite A in Hin. unfold out_l in Hin, A. destruct (holder s) as [h|]; [|destruct Hin].
      destruct (stat (calls s) h) as [[| | |]|] eqn:Es; try (now destruct Hin). destruct Hin as [<-|[]].
      split; [reflexivity|]. split; [exact Es|exact A]. }
    destruct Hh as (Hh & Hs & Ho).
    destruct (stat_nth _ _ _ Hs) as (c & En & Hc).
    unfold complete.
    set (o := Ret (answers_200 va r)).
    set (s1 := emit (set_outst (set_status s id (CDone o)) (remove_id id (outst s))) (ODone id r o)).
    assert (Cs1 : calls s1 = upd (calls s) id (with_status (CDone o))) by reflexivity.
    assert (Hh1 : holder s1 = Some id) by exact Hh.
    assert (Q1 : queue s1 = queue s) by reflexivity.
    assert (S1id : stat (calls s1) id = Some (CDone o)) by (rewrite Cs1; exact (stat_upd_eq _ _ _ _ Hs)).
    assert (S1o : forall j, id <> j -> stat (calls s1) j = stat (calls s) j)
      by (intros j Hj; rewrite Cs1; exact (stat_upd_neq _ _ _ _ Hj)).
    assert (I1 : Inv s1).
    { constructor; unfold status; rewrite ?Cs1, ?Hh1, ?Q1; unfold s1; simp.
      - rewrite Ho, remove_id_single. unfold out_l. rewrite (stat_upd_eq _ _ _ _ Hs). reflexivity.
      - intros j c1 Hj Ha. destruct (Nat.eq_dec id j) as [<-|Hne].
        + rewrite (stat_upd_eq _ _ _ _ Hs) in Hj. injection Hj as <-. discriminate.
        + rewrite stat_upd_neq in Hj by exact Hne. rewrite <- Hh. exact (B j c1 Hj Ha).
      - intros j Hj. destruct (C j Hj) as [C1 C2]. split; [|rewrite <- Hh; exact C2].
        rewrite stat_upd_neq; [exact C1|]. intros ->. exact (C2 Hh).
      - exact D.
      - intros h Hh'. rewrite upd_length. apply E. rewrite Hh. exact Hh'.
      - rewrite check_snoc, F, Ho, remove_id_single. cbn [hd_error serial_step]. now rewrite Nat.eqb_refl.
      - rewrite check_snoc, G. cbn [percall_step]. rewrite (map_nth_error summary _ _ En). unfold summary at 1.
        rewrite Hc. cbn [sent_flag]. f_equal. symmetry. apply (summary_upd_same _ _ _ c En). now rewrite Hc.
      - destruct H as (m & H1 & H2). exists m. split; [|exact H2]. rewrite check_snoc, H1. destruct m; reflexivity.
      - unfold outcomes_ok in *. rewrite forallb_app, I. cbn [forallb outcome_ok o]. now rewrite Bool.eqb_reflx. }
    rewrite Hh1. rewrite Nat.eqb_refl.
    (* nobody is active in s1 *)
    assert (Nact : forall j c1, stat (calls s1) j = Some c1 -> active c1 = true -> False).
    { intros j c1 Hj Ha. pose proof (I_active s1 I1 j c1 Hj Ha) as Hj'. rewrite Hh1 in Hj'. injection Hj' as <-.
      rewrite S1id in Hj. injection Hj as <-. discriminate. }
    destruct (queue s1) as [|h q] eqn:Eq.
    - (* nobody waits *)
      set (s2 := set_holder s1 None).
      assert (I2 : Inv s2).
      { destruct I1 as [A1 B1 C1 D1 E1 F1 G1 H1 J1]. constructor; unfold s2, status in *; simp; try assumption.
        - rewrite A1, Hh1. unfold out_l. rewrite S1id. reflexivity.
        - intros j c1 Hj Ha. exfalso. exact (Nact j c1 Hj Ha).
        - rewrite Eq. intros j [].
        - intros h0 Hh0. discriminate. }
      assert (S3 : Inv (match st_cur s2 with
                        | Some c0 => if Nat.eqb c0 id then starter_next fe clock (set_starter s2 (st_pos s2) None) else s2
                        | None => s2 end)).
      { destruct (st_cur s2) as [c0|]; [|exact I2]. destruct (Nat.eqb c0 id); [|exact I2].
        apply starter_next_inv. revert I2. apply Inv_ext; reflexivity. }
      exact S3.
    - (* hand over to the head waiter *)
      set (s2 := set_queue (set_holder s1 (Some h)) q).
      pose proof (I_queue s1 I1 h) as Qh. rewrite Eq in Qh. destruct (Qh (or_introl eq_refl)) as [Sh _].
      unfold status in Sh.
      pose proof (I_qnodup s1 I1) as ND. rewrite Eq in ND. inversion ND as [|? ? Hnq NDq]; subst.
      assert (I2 : Inv s2).
      { destruct I1 as [A1 B1 C1 D1 E1 F1 G1 H1 J1]. constructor; unfold s2, status in *; simp; try assumption.
        - rewrite A1, Hh1. unfold out_l. rewrite S1id, Sh. reflexivity.
        - intros j c1 Hj Ha. exfalso. exact (Nact j c1 Hj Ha).
        - intros j Hj. destruct (C1 j) as [C1a _]; [rewrite Eq; right; exact Hj|]. split; [exact C1a|].
          intros Heq. injection Heq as <-. exact (Hnq Hj).
        - intros h0 Hh0. injection Hh0 as <-. exact (stat_lt _ h _ Sh). }
      assert (Hh2 : holder s2 = Some h) by reflexivity.
      assert (Sh2 : status s2 h = Some CWait) by exact Sh.
      set (s3 := match st_cur s2 with
                 | Some c0 => if Nat.eqb c0 id then starter_next fe clock (set_starter s2 (st_pos s2) None) else s2
                 | None => s2 end).
      assert (S3 : Inv s3 /\ holder s3 = Some h /\ status s3 h = Some CWait).
      { unfold s3. destruct (st_cur s2) as [c0|]; [|split; [exact I2|split; [exact Hh2|exact Sh2]]].
        destruct (Nat.eqb c0 id); [|split; [exact I2|split; [exact Hh2|exact Sh2]]].
        assert (I2' : Inv (set_starter s2 (st_pos s2) None)) by (revert I2; apply Inv_ext; reflexivity).
        split; [apply starter_next_inv; exact I2'|].
        apply starter_next_frame; [exact Hh2|exact Sh2]. }
      destruct S3 as (I3 & Hh3 & Sh3). apply proceed_inv; assumption.
  Qed.

  (* ---- wake-ups ------------------------------------------------------------------------------------------------ *)
  Lemma wake_inv ids : forall s, Inv s -> Inv (wake fe clock s ids).
  Proof.
    induction ids as [|id r IH]; intros s HI; cbn [wake]; [exact HI|]. apply IH.
    destruct (status s id) as [[|l| |]|] eqn:Es; try exact HI.
    unfold proto_of. destruct (stat_nth _ _ _ Es) as (c & En & Hc). rewrite En. cbn [option_map].
    destruct (proto_ok_inv _ (Hok (c_kind c))) as (_ & Hts & _).
    destruct (p_ts (fe (c_kind c))) as [|k b|]; try exact HI.
    cbn [ts_mode_ok] in Hts. subst b.
    apply (ts_try_inv s id (CSleep l)); [exact HI| |exact Es|reflexivity].
    exact (I_active s HI id (CSleep l) Es eq_refl).
  Qed.

  Lemma init_inv : Inv init.
  Proof.
    constructor; cbn; try reflexivity.
    - intros id c H. destruct id; discriminate.
    - intros id [].
    - constructor.
    - intros h H. discriminate.
    - exists None. split; [reflexivity|]. intros t H. discriminate.
  Qed.

  Lemma step_inv s e : Inv s -> Inv (step fe clock s e).
  Proof.
    intros HI. destruct e as [k nm|i r| | |nm| |]; cbn [step].
    - destruct (connected s); [apply spawn_inv|]; exact HI.
    - destruct (nth_error (outst s) i) as [id|] eqn:Ei; [|exact HI].
      unfold proto_of. destruct (nth_error (calls s) id) as [c|]; cbn [option_map]; [|exact HI].
      rewrite (finish_ok _ r (Hok (c_kind c))), Hva.
      apply complete_inv; [exact HI|]. eapply nth_error_In. exact Ei.
    - apply wake_inv. exact HI.
    - exact HI.
    - destruct (st_pos s); [exact HI|].
      assert (I1 : Inv (emit (set_routes s (routes s ++ [nm])) (ORoute nm))).
      { apply Inv_emit; [exact I|]. revert HI. apply Inv_ext; reflexivity. }
      destruct (connected s); [apply spawn_inv|]; exact I1.
    - destruct (connected s); [exact HI|]. apply starter_next_inv.
      assert (I1 : Inv (emit (set_conn s true) OConnect)).
      { apply Inv_emit; [exact I|]. revert HI. apply Inv_ext; reflexivity. }
      revert I1. apply Inv_ext; reflexivity.
    - destruct (connected s && idle s); [|exact HI]. apply Inv_emit; [exact I|]. revert HI. apply Inv_ext; reflexivity.
  Qed.

  Theorem run_inv evs : Inv (run_events fe clock evs).
  Proof.
    unfold run_events. generalize init_inv. generalize init.
    induction evs as [|e r IH]; intros s HI; cbn [fold_left]; [exact HI|]. apply IH. apply step_inv. exact HI.
  Qed.

  (* ---- the four clauses ------------------------------------------------------------------------------------------ *)
  Theorem run_serial evs : serial_ok (log (run_events fe clock evs)) = true.
  Proof. unfold serial_ok. now rewrite (I_serial _ (run_inv evs)). Qed.

  Theorem run_one_outstanding evs : (length (outst (run_events fe clock evs)) <= 1)%nat.
  Proof.
    rewrite (I_outst _ (run_inv evs)). unfold out_l. destruct (holder _); [|cbn; lia].
    destruct (stat _ _) as [[| | |]|]; cbn; lia.
  Qed.

  Theorem run_timestamps evs : timestamps_ok (log (run_events fe clock evs)) = true.
  Proof. unfold timestamps_ok. destruct (I_ts _ (run_inv evs)) as (m & -> & _). reflexivity. Qed.

  Theorem run_percall evs : percall_ok (log (run_events fe clock evs)) = true.
  Proof. unfold percall_ok. now rewrite (I_percall _ (run_inv evs)). Qed.

  Theorem run_outcomes evs : outcomes_ok va (log (run_events fe clock evs)) = true.
  Proof. exact (I_outcomes _ (run_inv evs)). Qed.
End Inv.
