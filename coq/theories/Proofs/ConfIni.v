(* C20 — the configparser model reads a well-formed client.conf (Spec.wf_conf) to exactly the
   entries its author wrote: parse (render lines) = entries, whatever comments, blank lines and
   padding surround them and whatever characters the values contain. *)
From NDN Require Import Base.Prelude Base.Text Model.ConfBase Model.ClientConf Spec.ClientConfSpec
  Proofs.ConfBaseLemmas Proofs.TextProofs.
From Coq Require Strings.String Strings.Ascii.
Import Coq.Strings.String.StringSyntax Coq.Strings.Ascii.AsciiSyntax.
Local Open Scope N_scope.

Fixpoint entries_of (ls : list conf_line) : list (str * str) :=
  match ls with
  | [] => []
  | Entry k _ _ _ v _ :: r => (lower k, v) :: entries_of r
  | _ :: r => entries_of r
  end.

Lemma file_lookup_entries key ls : file_lookup key ls = al_get str_eqb (entries_of ls) (lower key).
Proof.
  induction ls as [|[k w1 d w2 v w3|w m t|w] r IH]; cbn [file_lookup entries_of al_get]; auto.
  destruct (str_eqb (lower key) (lower k)); auto.
Qed.

Lemma keys_of_entries ls : keys_of ls = map fst (entries_of ls).
Proof. induction ls as [|[k w1 d w2 v w3|w m t|w] r IH]; cbn; congruence. Qed.

(* ---- character facts -------------------------------------------------------------------------------- *)
Lemma space_not_delim c : is_space c = true -> is_delim c = false.
Proof. unfold is_space, is_delim, ch_eq, ch_colon. lia. Qed.
Lemma delim_not_space c : is_delim c = true -> is_space c = false.
Proof. unfold is_space, is_delim, ch_eq, ch_colon. lia. Qed.
Lemma delim_not_nl c : is_delim c = true -> (c =? ch_nl) = false.
Proof. unfold is_delim, ch_eq, ch_colon, ch_nl. lia. Qed.
Lemma nonspace_not_nl c : is_space c = false -> (c =? ch_nl) = false.
Proof. unfold is_space, ch_nl. lia. Qed.

Lemma lstrip_by_id p s :
  match s with [] => true | c :: _ => negb (p c) end = true -> lstrip_by p s = s.
Proof. destruct s as [|c r]; [reflexivity|]. cbn. destruct (p c); [discriminate|reflexivity]. Qed.

Lemma rstrip_by_none p k : forallb (fun c => negb (p c)) k = true -> rstrip_by p k = k.
Proof.
  intros H. unfold rstrip_by. rewrite lstrip_by_id; [apply rev_involutive|].
  destruct (rev k) as [|c r] eqn:E; [reflexivity|].
  rewrite forallb_forall in H. apply H. apply in_rev. rewrite E. left. reflexivity.
Qed.

Lemma strip_all_space ws : forallb is_space ws = true -> strip ws = [].
Proof. intros H. unfold strip. rewrite lstrip_by_all by exact H. reflexivity. Qed.

Lemma blank_ws_space ws : blank_ws ws = true -> forallb is_space ws = true.
Proof. unfold blank_ws. intros H. apply andb_true_iff in H. tauto. Qed.
Lemma blank_ws_no_nl ws : blank_ws ws = true -> no_nl ws = true.
Proof. unfold blank_ws. intros H. apply andb_true_iff in H. tauto. Qed.

(* a value without leading/trailing white space *)
Definition clear_edges (v : str) : Prop :=
  v = [] \/ (exists c r, v = c :: r /\ is_space c = false) /\ (exists m z, v = m ++ [z] /\ is_space z = false).

Lemma value_ok_edges v : value_ok v = true -> clear_edges v.
Proof.
  unfold value_ok, edge_ok. intros H. apply andb_true_iff in H. destruct H as [_ H].
  apply andb_true_iff in H. destruct H as [H1 H2]. apply edges_of_bool; assumption.
Qed.

Lemma rstrip_clear v : clear_edges v -> forall ws, forallb is_space ws = true -> rstrip (v ++ ws) = v.
Proof.
  intros [->|[_ (m & z & -> & Hz)]] ws Hw; unfold rstrip.
  - cbn [app]. apply rstrip_by_all. exact Hw.
  - rewrite rstrip_by_app_all by exact Hw. apply rstrip_by_last. exact Hz.
Qed.

(* ---- the invariant ----------------------------------------------------------------------------------- *)
Definition stored (e : str * str) (s : skey * list str) : Prop :=
  fst s = (default_sect, fst e) /\ clear_edges (snd e) /\ exists n, snd s = snd e :: repeat [] n.

Definition inv (st : ini_st) (es : list (str * str)) : Prop :=
  i_sect st = Some default_sect /\ i_indent st = O /\ i_sects st = [] /\ Forall2 stored es (i_store st).

Lemma skey_eqb_eq a b : skey_eqb a b = true <-> a = b.
Proof.
  destruct a as [a1 a2], b as [b1 b2]. unfold skey_eqb. cbn [fst snd]. rewrite andb_true_iff, !str_eqb_eq.
  split; [intros [-> ->]; reflexivity|intros H; inversion H; auto].
Qed.

Lemma forall2_al_set es store k vs :
  Forall2 stored es store -> al_get skey_eqb store k = Some vs ->
  Forall2 stored es (al_set skey_eqb store k (vs ++ [[]])).
Proof.
  induction 1 as [|e [k' vals] es store He Hr IH]; cbn [al_get al_set]; [discriminate|].
  destruct (skey_eqb k k') eqn:E.
  - intros H. inversion H; subst vals. constructor; [|exact Hr].
    destruct He as (H1 & H2 & n & H3). cbn [fst snd] in *. repeat split; try assumption.
    exists (S n). rewrite H3. cbn [app]. rewrite repeat_snoc. reflexivity.
  - intros H. constructor; [exact He|auto].
Qed.

Lemma store_append_inv st es k : inv st es -> inv (store_append st k []) es.
Proof.
  intros (H1 & H2 & H3 & H4). unfold store_append.
  destruct (al_get skey_eqb (i_store st) k) as [vs|] eqn:E; [|repeat split; assumption].
  repeat split; cbn; try assumption. apply forall2_al_set; assumption.
Qed.

Lemma not_in_store es store key :
  Forall2 stored es store -> ~ In key (map fst es) -> al_get skey_eqb store (default_sect, key) = None.
Proof.
  induction 1 as [|e [k' vals] es store He Hr IH]; cbn [al_get map In]; [reflexivity|].
  intros Hn. destruct (skey_eqb (default_sect, key) k') eqn:E.
  - apply skey_eqb_eq in E. destruct He as (H1 & _). cbn [fst] in H1. rewrite H1 in E. inversion E.
    exfalso. apply Hn. left. symmetry. assumption.
  - apply IH. intros Hi. apply Hn. right. exact Hi.
Qed.

Lemma al_set_absent store (k : skey) (x : list str) :
  al_get skey_eqb store k = None -> al_set skey_eqb store k x = store ++ [(k, x)].
Proof.
  induction store as [|[k' v'] r IH]; cbn [al_get al_set app]; [reflexivity|].
  destruct (skey_eqb k k'); [discriminate|]. intros H. rewrite IH by exact H. reflexivity.
Qed.

(* ---- one line at a time --------------------------------------------------------------------------------- *)
Lemma step_blank st es ws :
  inv st es -> blank_ws ws = true -> exists st', ini_step st ws = Ok st' /\ inv st' es.
Proof.
  intros Hi Hw. unfold ini_step. rewrite strip_all_space by (apply blank_ws_space; exact Hw).
  change (is_comment_line []) with false. cbv iota.
  destruct (open_opt st) as [k|]; eexists; (split; [reflexivity|]); [apply store_append_inv|]; exact Hi.
Qed.

Lemma step_comment st es ws mark text :
  inv st es -> blank_ws ws = true -> (mark =? ch_hash) || (mark =? ch_semi) = true ->
  ini_step st (ws ++ mark :: text) = Ok st.
Proof.
  intros Hi Hw Hm. unfold ini_step.
  assert (Hs : is_space mark = false).
  { apply orb_true_iff in Hm. destruct Hm as [Hm|Hm]; apply N.eqb_eq in Hm; subst mark; reflexivity. }
  assert (E : strip (ws ++ mark :: text) = mark :: rstrip_by is_space text).
  { unfold strip. rewrite lstrip_by_app_all by (apply blank_ws_space; exact Hw). rewrite lstrip_by_head by exact Hs.
    apply (rstrip_by_stop is_space [] mark text Hs). }
  rewrite E.
  assert (Hc : is_comment_line (mark :: rstrip_by is_space text) = true).
  { apply orb_true_iff in Hm. destruct Hm as [Hm|Hm]; apply N.eqb_eq in Hm; subst mark; reflexivity. }
  rewrite Hc. reflexivity.
Qed.

Lemma step_entry st es k ws1 d ws2 v ws3 :
  inv st es -> line_ok (Entry k ws1 d ws2 v ws3) = true -> ~ In (lower k) (map fst es) ->
  exists st', ini_step st (line_text (Entry k ws1 d ws2 v ws3)) = Ok st' /\ inv st' (es ++ [(lower k, v)]).
Proof.
  intros (I1 & I2 & I3 & I4) Hok Hnin. cbn [line_ok line_text] in *.
  do 5 (apply andb_true_iff in Hok; destruct Hok as [Hok ?]).
  rename Hok into Hk, H3 into Hw1, H2 into Hd, H1 into Hw2, H0 into Hv, H into Hw3.
  unfold key_ok in Hk. apply andb_true_iff in Hk. destruct Hk as [Hk1 Hk2].
  destruct k as [|c0 k']; [discriminate|]. cbv iota beta in Hk2.
  assert (Hfirst : (c0 =? ch_lbr) = false /\ (c0 =? ch_hash) = false /\ (c0 =? ch_semi) = false).
  { revert Hk2. destruct (c0 =? ch_lbr), (c0 =? ch_hash), (c0 =? ch_semi); cbn; intros; try discriminate; auto. }
  destruct Hfirst as (Hf1 & Hf2 & Hf3).
  assert (Hc0 : is_space c0 = false /\ is_delim c0 = false).
  { cbn [forallb] in Hk1. apply andb_true_iff in Hk1. destruct Hk1 as [Hk1 _].
    destruct (is_space c0), (is_delim c0); try discriminate; auto. }
  destruct Hc0 as [Hsp0 Hdl0].
  assert (Hknsp : forallb (fun c => negb (is_space c)) (c0 :: k') = true).
  { eapply forallb_impl; [|exact Hk1]. intros x Hx. apply andb_true_iff in Hx. tauto. }
  assert (Hkndl : forallb (fun c => negb (is_delim c)) (c0 :: k') = true).
  { eapply forallb_impl; [|exact Hk1]. intros x Hx. apply andb_true_iff in Hx. tauto. }
  pose proof (value_ok_edges v Hv) as Hedge.
  pose proof (blank_ws_space _ Hw1) as Sw1. pose proof (blank_ws_space _ Hw2) as Sw2. pose proof (blank_ws_space _ Hw3) as Sw3.
  set (X := rstrip_by is_space (ws2 ++ v ++ ws3)).
  assert (Estrip : strip ((c0 :: k') ++ ws1 ++ d :: ws2 ++ v ++ ws3) = (c0 :: k') ++ ws1 ++ d :: X).
  { unfold strip. change ((c0 :: k') ++ ws1 ++ d :: ws2 ++ v ++ ws3) with (c0 :: (k' ++ ws1 ++ d :: ws2 ++ v ++ ws3)).
    rewrite lstrip_by_head by exact Hsp0.
    change (c0 :: k' ++ ws1 ++ d :: ws2 ++ v ++ ws3) with ((c0 :: k') ++ ws1 ++ d :: ws2 ++ v ++ ws3).
    rewrite app_assoc. rewrite rstrip_by_stop by (apply delim_not_space; exact Hd). rewrite <- app_assoc. reflexivity. }
  assert (EX : strip X = v).
  { unfold X. rewrite app_assoc. rewrite rstrip_by_app_all by exact Sw3.
    destruct Hedge as [->|Hedge].
    - rewrite app_nil_r. rewrite rstrip_by_all by exact Sw2. reflexivity.
    - destruct Hedge as [Hhd (m & z & Ev & Hz)].
      assert (Er : rstrip_by is_space (ws2 ++ v) = ws2 ++ v).
      { rewrite Ev, app_assoc. apply rstrip_by_last. exact Hz. }
      rewrite Er. replace (ws2 ++ v) with (ws2 ++ v ++ []) by (rewrite app_nil_r; reflexivity).
      apply strip_clear; [right; split; [exact Hhd|eauto]|exact Sw2|reflexivity]. }
  unfold ini_step. rewrite Estrip.
  assert (Hcm : is_comment_line ((c0 :: k') ++ ws1 ++ d :: X) = false).
  { unfold is_comment_line, starts_with. cbn [app is_prefixb]. rewrite !andb_true_r.
    rewrite !(N.eqb_sym _ c0), Hf2, Hf3. reflexivity. }
  rewrite Hcm. cbn [app]. cbv iota.
  assert (Hcur : count_while is_space (c0 :: k' ++ ws1 ++ d :: ws2 ++ v ++ ws3) = O).
  { cbn [count_while]. rewrite Hsp0. reflexivity. }
  rewrite Hcur.
  assert (Hitem : exists st', ini_item st 0 (c0 :: k' ++ ws1 ++ d :: X) = Ok st' /\ inv st' (es ++ [(lower (c0 :: k'), v)])).
  { unfold ini_item.
    assert (Hsh : sect_header (c0 :: k' ++ ws1 ++ d :: X) = None).
    { unfold sect_header. rewrite Hf1. reflexivity. }
    rewrite Hsh, I1.
    assert (Hom : opt_match (c0 :: k' ++ ws1 ++ d :: X) = Some (c0 :: k', v)).
    { unfold opt_match. change (c0 :: k' ++ ws1 ++ d :: X) with ((c0 :: k') ++ ws1 ++ d :: X). rewrite app_assoc.
      rewrite break_on_app.
      - rewrite EX. unfold rstrip. rewrite rstrip_by_app_all by exact Sw1. rewrite rstrip_by_none by exact Hknsp. reflexivity.
      - rewrite forallb_app, Hkndl. cbn [andb]. eapply forallb_impl; [|exact Sw1]. intros x Hx.
        rewrite (space_not_delim x Hx). reflexivity.
      - exact Hd. }
    rewrite Hom. cbn [nonempty negb].
    pose proof (not_in_store _ _ _ I4 Hnin) as Hget.
    unfold al_mem. rewrite Hget.
    eexists. split; [reflexivity|]. repeat split; cbn; try assumption; try reflexivity.
    rewrite al_set_absent by exact Hget. apply Forall2_app; [exact I4|].
    constructor; [|constructor]. repeat split; cbn [fst snd]; [exact Hedge|exists O; reflexivity]. }
  destruct (open_opt st) as [ko|]; [rewrite I2; change (Nat.ltb 0 0) with false; cbv iota|]; exact Hitem.
Qed.

(* ---- all lines ------------------------------------------------------------------------------------------- *)
Lemma existsb_str_false x l : existsb (str_eqb x) l = false -> ~ In x l.
Proof.
  intros H Hi. assert (existsb (str_eqb x) l = true); [|congruence].
  apply existsb_exists. exists x. split; [exact Hi|apply str_eqb_refl].
Qed.

Lemma ini_lines_render ls : forall st es,
  inv st es -> forallb line_ok ls = true -> nodupb (keys_of ls) = true ->
  (forall x, In x (keys_of ls) -> ~ In x (map fst es)) ->
  exists st', ini_lines st (map line_text ls) = Ok st' /\ inv st' (es ++ entries_of ls).
Proof.
  induction ls as [|l r IH]; intros st es Hi Hok Hnd Hfresh.
  - exists st. cbn. rewrite app_nil_r. auto.
  - cbn [forallb] in Hok. apply andb_true_iff in Hok. destruct Hok as [Hl Hr].
    destruct l as [k w1 d w2 v w3|w m t|w].
    + cbn [keys_of nodupb] in Hnd. apply andb_true_iff in Hnd. destruct Hnd as [Hn1 Hn2].
      apply negb_true_iff in Hn1. apply existsb_str_false in Hn1.
      destruct (step_entry st es k w1 d w2 v w3 Hi Hl) as (st1 & E1 & Hi1).
      { apply Hfresh. cbn [keys_of]. left. reflexivity. }
      destruct (IH st1 (es ++ [(lower k, v)]) Hi1 Hr Hn2) as (st2 & E2 & Hi2).
      { intros x Hx Hin. rewrite map_app in Hin. apply in_app_or in Hin. destruct Hin as [Hin|Hin].
        - apply (Hfresh x); [cbn [keys_of]; right; exact Hx|exact Hin].
        - cbn in Hin. destruct Hin as [<-|[]]. contradiction. }
      exists st2. cbn [map ini_lines]. rewrite E1. cbn [bind]. rewrite E2. split; [reflexivity|].
      cbn [entries_of]. rewrite <- app_assoc in Hi2. exact Hi2.
    + cbn [line_ok] in Hl. apply andb_true_iff in Hl. destruct Hl as [Hl Ht]. apply andb_true_iff in Hl. destruct Hl as [Hw Hm].
      destruct (IH st es Hi Hr Hnd Hfresh) as (st2 & E2 & Hi2).
      exists st2. cbn [map ini_lines line_text]. rewrite (step_comment st es w m t Hi Hw Hm). cbn [bind]. auto.
    + cbn [line_ok] in Hl.
      destruct (step_blank st es w Hi Hl) as (st1 & E1 & Hi1).
      destruct (IH st1 es Hi1 Hr Hnd Hfresh) as (st2 & E2 & Hi2).
      exists st2. cbn [map ini_lines line_text]. rewrite E1. cbn [bind]. auto.
Qed.

(* ---- text -> lines ------------------------------------------------------------------------------------------ *)
Lemma no_nl_app a b : no_nl (a ++ b) = no_nl a && no_nl b.
Proof. unfold no_nl. apply forallb_app. Qed.

Lemma line_ok_no_nl l : line_ok l = true -> no_nl (line_text l) = true.
Proof.
  destruct l as [k w1 d w2 v w3|w m t|w]; cbn [line_ok line_text]; intros H.
  - do 5 (apply andb_true_iff in H; destruct H as [H ?]).
    rewrite !no_nl_app. change (no_nl (d :: w2 ++ v ++ w3)) with (negb (d =? ch_nl) && no_nl (w2 ++ v ++ w3)).
    rewrite !no_nl_app, (delim_not_nl d) by assumption.
    rewrite (blank_ws_no_nl w1), (blank_ws_no_nl w2), (blank_ws_no_nl w3) by assumption.
    unfold value_ok in H1. apply andb_true_iff in H1. destruct H1 as [Hvn _]. rewrite Hvn.
    unfold key_ok in H. apply andb_true_iff in H. destruct H as [H _].
    replace (no_nl k) with true; [reflexivity|]. symmetry. unfold no_nl.
    eapply forallb_impl; [|exact H]. intros x Hx. apply andb_true_iff in Hx. destruct Hx as [Hx _].
    apply negb_true_iff in Hx. rewrite (nonspace_not_nl x Hx). reflexivity.
  - apply andb_true_iff in H. destruct H as [H Ht]. apply andb_true_iff in H. destruct H as [Hw Hm].
    rewrite no_nl_app. change (no_nl (m :: t)) with (negb (m =? ch_nl) && no_nl t).
    rewrite (blank_ws_no_nl w Hw), Ht.
    apply orb_true_iff in Hm. destruct Hm as [Hm|Hm]; apply N.eqb_eq in Hm; subst m; reflexivity.
  - apply blank_ws_no_nl. exact H.
Qed.

Lemma py_lines_render ls : forallb line_ok ls = true -> py_lines (render ls) = map line_text ls.
Proof.
  induction ls as [|l r IH]; intros H; [reflexivity|].
  cbn [forallb] in H. apply andb_true_iff in H. destruct H as [Hl Hr].
  unfold render. cbn [flat_map map]. rewrite <- app_assoc. cbn [app].
  rewrite py_lines_cons by (apply line_ok_no_nl; exact Hl). fold (render r). rewrite IH by exact Hr. reflexivity.
Qed.

(* ---- the result ------------------------------------------------------------------------------------------------ *)
Lemma defaults_of_stored es store : Forall2 stored es store -> defaults_of store = es.
Proof.
  induction 1 as [|[k v] [[sn o] vals] es store He Hr IH]; [reflexivity|].
  destruct He as (H1 & H2 & n & H3). cbn [fst snd] in *. inversion H1; subst sn o. subst vals.
  cbn [defaults_of]. rewrite str_eqb_refl. rewrite IH. f_equal. f_equal.
  unfold join_value. rewrite join_with_repeat. apply rstrip_clear; [exact H2|].
  apply forallb_repeat. reflexivity.
Qed.

(* reading "[DEFAULT]\n" + text of a well-formed client.conf yields exactly its entries, in order *)
Theorem ini_read_render ls :
  wf_conf ls = true ->
  ini_read (slit "[DEFAULT]" ++ ch_nl :: render ls) = Ok (entries_of ls).
Proof.
  intros H. unfold wf_conf in H. apply andb_true_iff in H. destruct H as [Hok Hnd].
  unfold ini_read. rewrite py_lines_cons by reflexivity. rewrite py_lines_render by exact Hok.
  cbn [ini_lines].
  change (ini_step ini_init (slit "[DEFAULT]")) with (Ok (mk_ini (Some default_sect) None O [] [])).
  cbn [bind].
  destruct (ini_lines_render ls (mk_ini (Some default_sect) None O [] []) []) as (st' & E & (_ & _ & _ & Hst)); try assumption.
  - repeat split; constructor.
  - intros x _ [].
  - rewrite E. cbn [bind app] in *. rewrite (defaults_of_stored _ _ Hst). reflexivity.
Qed.

Theorem ini_get_render ls key :
  wf_conf ls = true ->
  exists d, ini_read (slit "[DEFAULT]" ++ ch_nl :: render ls) = Ok d /\ ini_get d key = file_lookup key ls.
Proof.
  intros H. exists (entries_of ls). split; [apply ini_read_render; exact H|].
  unfold ini_get. symmetry. apply file_lookup_entries.
Qed.
