(* Checker._sanity_check (Model/LvsChecker.sanity_check) against the documented loader rules
   (Spec/LvsSem.sane):
   - the dfs part succeeds iff [sane]; its only failure is LvsModelError; the recursion depth
     never exceeds the number of nodes (so [sanity_fuel] is enough: no RecursionError);
   - [saneb m = true -> sane m] for the executable form used by the harness oracle. *)
From NDN Require Import Base.Prelude Base.Text Model.TlvVar Model.Name Model.LvsAst Model.LvsChecker Spec.LvsSem.
From Coq Require FinFun.
Local Open Scope N_scope.

(* ---- rfold ------------------------------------------------------------------------------------- *)
Lemma rfold_app {A B} (f : A -> B -> res A) l1 l2 a :
  rfold f (l1 ++ l2) a = do a' <- rfold f l1 a ;; rfold f l2 a'.
Proof.
  revert a; induction l1 as [|x l1 IH]; intros a; cbn; [reflexivity|].
  destruct (f a x); cbn; auto.
Qed.

Lemma rfold_ok_each {A B} (f : A -> B -> res A) l a a' :
  rfold f l a = Ok a' -> forall x, In x l -> exists a1 a2, f a1 x = Ok a2.
Proof.
  revert a; induction l as [|y l IH]; intros a H x Hin; [destruct Hin|]. cbn in H.
  destruct (f a y) as [a1|] eqn:E; [|discriminate]. cbn in H.
  destruct Hin as [->|Hin]; [eauto | eapply IH; eauto].
Qed.

Lemma rfold_err {A B} (f : A -> B -> res A) (P : err -> Prop) l a e :
  (forall a x e, In x l -> f a x = Err e -> P e) -> rfold f l a = Err e -> P e.
Proof.
  revert a; induction l as [|y l IH]; intros a Hf H; cbn in H; [discriminate|].
  destruct (f a y) as [a1|e1] eqn:E; cbn in H.
  - eapply IH; eauto. intros; eapply Hf; eauto. right; assumption.
  - inversion H; subst. eapply Hf; eauto. left; reflexivity.
Qed.

Lemma rfold_all_ok {A B} (f : A -> B -> res A) l a :
  (forall a x, In x l -> exists a', f a x = Ok a') -> exists a', rfold f l a = Ok a'.
Proof.
  revert a; induction l as [|y l IH]; intros a Hf; cbn; [eauto|].
  destruct (Hf a y (or_introl eq_refl)) as (a1 & ->). cbn. apply IH. intros; apply Hf; right; assumption.
Qed.

(* ---- small facts -------------------------------------------------------------------------------- *)
Lemma get_node_lt m i nd : get_node m i = Some nd -> i < N.of_nat (length (m_nodes m)).
Proof. unfold get_node. destruct (N.ltb_spec i (N.of_nat (length (m_nodes m)))); [auto|discriminate]. Qed.

Lemma optN_eqb_eq a b : optN_eqb a b = true <-> a = b.
Proof.
  destruct a, b; cbn; try (split; congruence). rewrite N.eqb_eq. split; congruence.
Qed.

Lemma version_ok_supported m : version_ok (m_version m) = version_supported m.
Proof. reflexivity. Qed.

Lemma check_option_ok a op a' : check_option a op = Ok a' -> option_ok op = true.
Proof.
  unfold check_option, opt_shape_ok, option_ok.
  destruct (co_value op), (co_tag op), (co_fn op) as [fn|]; cbn; try discriminate; try reflexivity.
  destruct (uf_id fn) as [[|c s]|]; try discriminate. reflexivity.
Qed.

Lemma option_ok_check a op : option_ok op = true -> exists a', check_option a op = Ok a'.
Proof.
  unfold check_option, opt_shape_ok, option_ok.
  destruct (co_value op), (co_tag op), (co_fn op) as [fn|]; cbn; try discriminate; eauto.
  destruct (uf_id fn) as [[|c s]|]; try discriminate. eauto.
Qed.

Lemma check_option_err a op e : check_option a op = Err e -> e = ELvsModel.
Proof.
  unfold check_option. destruct (negb (opt_shape_ok op)); [intros H; inversion H; reflexivity|].
  destruct (co_fn op) as [fn|]; [|discriminate].
  destruct (uf_id fn) as [[|c s]|]; try discriminate; intros H; inversion H; reflexivity.
Qed.

Lemma check_signer_ok nn cur a k a' : check_signer nn cur a k = Ok a' -> k < nn.
Proof. unfold check_signer. destruct (N.leb_spec nn k); [discriminate|auto]. Qed.
Lemma check_signer_err nn cur a k e : check_signer nn cur a k = Err e -> e = ELvsModel.
Proof. unfold check_signer. destruct (nn <=? k); [intros H; inversion H; reflexivity|discriminate]. Qed.
Lemma signer_check nn cur a k : k < nn -> exists a', check_signer nn cur a k = Ok a'.
Proof. unfold check_signer. intros H. destruct (N.leb_spec nn k); [lia|eauto]. Qed.

(* ---- reachability below a node --------------------------------------------------------------------- *)
Inductive reach_from (m : lvsmodel) (r : N) : N -> Prop :=
| rf_refl : reach_from m r r
| rf_edge a nd d : reach_from m r a -> get_node m a = Some nd -> In (Some d) (dests nd) -> reach_from m r d.

Lemma reach_from_trans m r a b : reach_from m r a -> reach_from m a b -> reach_from m r b.
Proof. intros H1 H2. induction H2; [assumption | eapply rf_edge; eauto]. Qed.

Lemma reach_from_step m cur nd d i :
  get_node m cur = Some nd -> In (Some d) (dests nd) -> reach_from m d i -> reach_from m cur i.
Proof. intros Hn Hd H. eapply reach_from_trans; [eapply rf_edge; [apply rf_refl| |]; eauto | exact H]. Qed.

Lemma reach_from_inv m cur i :
  reach_from m cur i -> i = cur \/ exists nd d, get_node m cur = Some nd /\ In (Some d) (dests nd) /\ reach_from m d i.
Proof.
  induction 1 as [|a nd d Hr IH Hn Hd]; [left; reflexivity|].
  right. destruct IH as [->|(nd0 & d0 & Hn0 & Hd0 & Hr0)].
  - exists nd, d. repeat split; auto. apply rf_refl.
  - exists nd0, d0. repeat split; auto. eapply rf_edge; eauto.
Qed.

Lemma reach_iff_from m i : reach m i <-> exists s, m_start m = Some s /\ reach_from m s i.
Proof.
  split.
  - induction 1 as [s Hs|a nd d Hr IH Hn Hd].
    + exists s. split; [assumption | apply rf_refl].
    + destruct IH as (s & Hs & Hf). exists s. split; [assumption | eapply rf_edge; eauto].
  - intros (s & Hs & Hf). induction Hf; [apply reach_start; assumption | eapply reach_edge; eauto].
Qed.

(* ---- dfs: what success means ---------------------------------------------------------------------- *)
Lemma dfs_sound m : forall fuel cur par a a',
  dfs fuel m cur par a = Ok a' ->
  (exists nd, get_node m cur = Some nd /\ n_parent nd = par) /\ forall i, reach_from m cur i -> node_ok m i = true.
Proof.
  induction fuel as [|f IH]; intros cur par a a' H; [discriminate|]. cbn [dfs] in H.
  destruct (get_node m cur) as [nd|] eqn:En; [|discriminate].
  destruct (optN_eqb (n_id nd) (Some cur)) eqn:Eid; cbn [negb] in H; [|discriminate].
  destruct (optN_eqb (n_parent nd) par) eqn:Epar; cbn [negb] in H; [|discriminate].
  apply optN_eqb_eq in Eid, Epar.
  destruct (rfold _ (n_vedges nd) a) as [a1|] eqn:Ev; [|discriminate]. cbn [bind] in H.
  destruct (rfold _ (n_pedges nd) a1) as [a2|] eqn:Ep; [|discriminate]. cbn [bind] in H.
  (* per-edge facts *)
  assert (Hve : forall ve, In ve (n_vedges nd) ->
            child_ok m cur (ve_dest ve) = true /\ nonempty (ve_value ve) = true /\
            forall d i, ve_dest ve = Some d -> reach_from m d i -> node_ok m i = true).
  { intros ve Hin. destruct (rfold_ok_each _ _ _ _ Ev ve Hin) as (x1 & x2 & Hx). cbn beta in Hx.
    destruct (ve_dest ve) as [d|]; [|discriminate].
    destruct (nonempty (ve_value ve)) eqn:Ene; [|discriminate].
    apply IH in Hx. destruct Hx as ((cnd & Hc & Hp) & Hall).
    split; [|split; [reflexivity|]].
    - unfold child_ok. rewrite Hc, Hp. apply N.eqb_refl.
    - intros d0 i E; inversion E; subst. apply Hall. }
  assert (Hpe : forall pe, In pe (n_pedges nd) ->
            child_ok m cur (pe_dest pe) = true /\ is_some (pe_tag pe) = true /\
            forallb (forallb option_ok) (pe_cons pe) = true /\
            forall d i, pe_dest pe = Some d -> reach_from m d i -> node_ok m i = true).
  { intros pe Hin. destruct (rfold_ok_each _ _ _ _ Ep pe Hin) as (x1 & x2 & Hx). cbn beta in Hx.
    destruct (pe_dest pe) as [d|]; [|discriminate].
    destruct (pe_tag pe) as [t|]; [|discriminate].
    destruct (dfs f m d (Some cur) x1) as [x3|] eqn:Ed; [|discriminate]. cbn [bind] in Hx.
    apply IH in Ed. destruct Ed as ((cnd & Hc & Hp) & Hall).
    split; [|split; [reflexivity|split]].
    - unfold child_ok. rewrite Hc, Hp. apply N.eqb_refl.
    - apply forallb_forall. intros cons Hcin.
      destruct (rfold_ok_each _ _ _ _ Hx cons Hcin) as (y1 & y2 & Hy). cbn beta in Hy.
      apply forallb_forall. intros op Hoin.
      destruct (rfold_ok_each _ _ _ _ Hy op Hoin) as (z1 & z2 & Hz). eapply check_option_ok; eauto.
    - intros d0 i E; inversion E; subst. apply Hall. }
  assert (Hsg : forall k, In k (n_sign nd) -> k < N.of_nat (length (m_nodes m))).
  { intros k Hin. destruct (rfold_ok_each _ _ _ _ H k Hin) as (x1 & x2 & Hx). eapply check_signer_ok; eauto. }
  split; [exists nd; auto|].
  intros i Hr. apply reach_from_inv in Hr. destruct Hr as [->|(nd0 & d & Hn0 & Hd & Hr)].
  - unfold node_ok. rewrite En, Eid, N.eqb_refl. cbn [andb].
    apply andb_true_iff; split; [apply andb_true_iff; split|].
    + apply forallb_forall. intros ve Hin. destruct (Hve ve Hin) as (H1 & H2 & _). rewrite H1. cbn.
      unfold nonempty in H2. destruct (ve_value ve) as [[|]|]; auto.
    + apply forallb_forall. intros pe Hin. destruct (Hpe pe Hin) as (H1 & H2 & H3 & _). rewrite H1, H3.
      destruct (pe_tag pe); [reflexivity|discriminate].
    + apply forallb_forall. intros k Hin. apply N.ltb_lt. apply Hsg, Hin.
  - rewrite En in Hn0. inversion Hn0; subst nd0. unfold dests in Hd. apply in_app_or in Hd.
    destruct Hd as [Hd|Hd]; apply in_map_iff in Hd; destruct Hd as (e & He & Hin).
    + destruct (Hve e Hin) as (_ & _ & Hall). eapply Hall; eauto.
    + destruct (Hpe e Hin) as (_ & _ & _ & Hall). eapply Hall; eauto.
Qed.

(* the only failures are LvsModelError and an exhausted recursion budget *)
Lemma dfs_err m : forall fuel cur par a e, dfs fuel m cur par a = Err e -> e = ELvsModel \/ e = EFuel.
Proof.
  induction fuel as [|f IH]; intros cur par a e H; [inversion H; auto|]. cbn [dfs] in H.
  destruct (get_node m cur) as [nd|]; [|inversion H; auto].
  destruct (negb (optN_eqb (n_id nd) (Some cur))); [inversion H; auto|].
  destruct (negb (optN_eqb (n_parent nd) par)); [inversion H; auto|].
  destruct (rfold _ (n_vedges nd) a) as [a1|e1] eqn:Ev; cbn [bind] in H.
  2:{ inversion H; subst. eapply (rfold_err _ (fun e => e = ELvsModel \/ e = EFuel)); [|exact Ev].
      intros x ve e0 _ Hx. cbn beta in Hx. destruct (ve_dest ve); [|inversion Hx; auto].
      destruct (nonempty (ve_value ve)); [eapply IH; eauto | inversion Hx; auto]. }
  destruct (rfold _ (n_pedges nd) a1) as [a2|e2] eqn:Ep; cbn [bind] in H.
  2:{ inversion H; subst. eapply (rfold_err _ (fun e => e = ELvsModel \/ e = EFuel)); [|exact Ep].
      intros x pe e0 _ Hx. cbn beta in Hx. destruct (pe_dest pe); [|inversion Hx; auto].
      destruct (pe_tag pe); [|inversion Hx; auto].
      destruct (dfs f m n (Some cur) x) as [x3|e3] eqn:Ed; cbn [bind] in Hx; [|inversion Hx; subst; eapply IH; eauto].
      left. eapply (rfold_err _ (fun e => e = ELvsModel)); [|exact Hx].
      intros y cons e4 _ Hy. cbn beta in Hy. eapply (rfold_err _ (fun e => e = ELvsModel)); [|exact Hy].
      intros z op e5 _ Hz. eapply check_option_err; eauto. }
  left. eapply (rfold_err _ (fun e => e = ELvsModel)); [|exact H].
  intros x k e0 _ Hx. eapply check_signer_err; eauto.
Qed.

(* ---- the recursion depth is bounded by the number of nodes -------------------------------------------- *)
(* [achain m l]: l = x1 :: x2 :: ... :: xn with parent(xi) = x(i+1), parent(xn) = None *)
Fixpoint achain (m : lvsmodel) (l : list N) : Prop :=
  match l with
  | [] => True
  | x :: r => (exists nd, get_node m x = Some nd /\ n_parent nd = hd_error r) /\ achain m r
  end.

Lemma achain_det m : forall r r' x, achain m (x :: r) -> achain m (x :: r') -> r = r'.
Proof.
  induction r as [|y r IH]; intros r' x [(nd & Hn & Hp) Hr] [(nd' & Hn' & Hp') Hr'].
  - rewrite Hn in Hn'. inversion Hn'; subst nd'. rewrite Hp in Hp'. destruct r'; [reflexivity|discriminate].
  - rewrite Hn in Hn'. inversion Hn'; subst nd'. rewrite Hp in Hp'. destruct r' as [|y' r']; [discriminate|].
    cbn in Hp'. inversion Hp'; subst y'. f_equal. eapply IH; eauto.
Qed.

Lemma achain_suffix m l1 l2 : achain m (l1 ++ l2) -> achain m l2.
Proof. induction l1 as [|x l1 IH]; cbn; [auto|]. intros [_ H]. auto. Qed.

Lemma achain_nodup m l : achain m l -> NoDup l.
Proof.
  induction l as [|x r IH]; intros H; [constructor|].
  constructor; [|apply IH; apply H].
  intros Hin. apply in_split in Hin. destruct Hin as (l1 & l2 & E).
  assert (H2 : achain m (x :: l2)). { apply (achain_suffix m l1). rewrite <- E. apply H. }
  pose proof (achain_det m _ _ _ H H2) as Er. rewrite E in Er at 1.
  apply (f_equal (@length N)) in Er. rewrite app_length in Er. cbn in Er. lia.
Qed.

Lemma achain_bound m l : achain m l -> (length l <= length (m_nodes m))%nat.
Proof.
  intros H. pose proof (achain_nodup m l H) as Hnd.
  assert (Hlt : forall x, In x l -> x < N.of_nat (length (m_nodes m))).
  { clear Hnd. induction l as [|y r IH]; intros x Hin; [destruct Hin|].
    destruct H as [(nd & Hn & _) Hr]. destruct Hin as [->|Hin]; [eapply get_node_lt; eauto | apply IH; auto]. }
  assert (Hnd' : NoDup (map N.to_nat l)).
  { apply FinFun.Injective_map_NoDup; [|exact Hnd]. intros a b E. apply N2Nat.inj. exact E. }
  pose proof (NoDup_incl_length Hnd' (l' := seq 0 (length (m_nodes m)))) as Hl.
  rewrite map_length, seq_length in Hl. apply Hl.
  intros k Hk. apply in_map_iff in Hk. destruct Hk as (x & <- & Hx). apply Hlt in Hx.
  apply in_seq. lia.
Qed.

Lemma dfs_no_fuel m : forall fuel cur par anc a,
  achain m anc -> par = hd_error anc -> (length (m_nodes m) < length anc + fuel)%nat ->
  dfs fuel m cur par a <> Err EFuel.
Proof.
  induction fuel as [|f IH]; intros cur par anc a Hch Hpar Hlen.
  - apply achain_bound in Hch. lia.
  - cbn [dfs]. destruct (get_node m cur) as [nd|] eqn:En; [|discriminate].
    destruct (optN_eqb (n_id nd) (Some cur)) eqn:Eid; cbn [negb]; [|discriminate].
    destruct (optN_eqb (n_parent nd) par) eqn:Epar; cbn [negb]; [|discriminate].
    apply optN_eqb_eq in Epar.
    assert (Hch' : achain m (cur :: anc)).
    { split; [|exact Hch]. exists nd. split; [exact En | congruence]. }
    assert (Hrec : forall d a0, dfs f m d (Some cur) a0 <> Err EFuel).
    { intros d a0. apply (IH d (Some cur) (cur :: anc)); auto. cbn. lia. }
    destruct (rfold _ (n_vedges nd) a) as [a1|e1] eqn:Ev; cbn [bind].
    2:{ assert (Hne : e1 <> EFuel).
        { eapply (rfold_err _ (fun e => e <> EFuel)); [|exact Ev].
          intros x ve e0 _ Hx. cbn beta in Hx. destruct (ve_dest ve); [|inversion Hx; discriminate].
          destruct (nonempty (ve_value ve)); [|inversion Hx; discriminate].
          intros ->. eapply Hrec; eauto. }
        intros E; inversion E; contradiction. }
    destruct (rfold _ (n_pedges nd) a1) as [a2|e2] eqn:Ep; cbn [bind].
    2:{ assert (Hne : e2 <> EFuel).
        { eapply (rfold_err _ (fun e => e <> EFuel)); [|exact Ep].
          intros x pe e0 _ Hx. cbn beta in Hx. destruct (pe_dest pe); [|inversion Hx; discriminate].
          destruct (pe_tag pe); [|inversion Hx; discriminate].
          destruct (dfs f m n (Some cur) x) as [x3|e3] eqn:Ed; cbn [bind] in Hx.
          - intros ->. assert (EFuel = ELvsModel); [|discriminate].
            eapply (rfold_err _ (fun e => e = ELvsModel)); [|exact Hx].
            intros y cons e4 _ Hy. cbn beta in Hy. eapply (rfold_err _ (fun e => e = ELvsModel)); [|exact Hy].
            intros z op e5 _ Hz. eapply check_option_err; eauto.
          - inversion Hx; subst. intros ->. eapply Hrec; eauto. }
        intros E; inversion E; contradiction. }
    intros E. assert (EFuel = ELvsModel); [|discriminate].
    eapply (rfold_err _ (fun e => e = ELvsModel)); [|exact E].
    intros x k e0 _ Hx. eapply check_signer_err; eauto.
Qed.

(* ---- dfs: success on sane models ---------------------------------------------------------------------- *)
Lemma child_ok_inv m src d : child_ok m src d = true ->
  exists c nd, d = Some c /\ get_node m c = Some nd /\ n_parent nd = Some src.
Proof.
  unfold child_ok. destruct d as [c|]; [|discriminate].
  destruct (get_node m c) as [nd|] eqn:Eg; [|discriminate].
  destruct (n_parent nd) as [p|] eqn:Ep; [|discriminate].
  intros H. apply N.eqb_eq in H. subst. exists c, nd. auto.
Qed.

Lemma dfs_complete m : forall fuel cur par anc a nd,
  (forall i, reach_from m cur i -> node_ok m i = true) ->
  get_node m cur = Some nd -> n_parent nd = par ->
  achain m anc -> par = hd_error anc -> (length (m_nodes m) < length anc + fuel)%nat ->
  exists a', dfs fuel m cur par a = Ok a'.
Proof.
  induction fuel as [|f IH]; intros cur par anc a nd Hall Hn Hp Hch Hpar Hlen.
  - apply achain_bound in Hch. lia.
  - pose proof (Hall cur (rf_refl m cur)) as Hok. unfold node_ok in Hok. rewrite Hn in Hok.
    apply andb_true_iff in Hok. destruct Hok as [Hok Hsg].
    apply andb_true_iff in Hok. destruct Hok as [Hok Hpe].
    apply andb_true_iff in Hok. destruct Hok as [Hid Hve].
    rewrite forallb_forall in Hve, Hpe, Hsg.
    assert (Hch' : achain m (cur :: anc)).
    { split; [|exact Hch]. exists nd. split; [exact Hn | congruence]. }
    cbn [dfs]. rewrite Hn.
    assert (Eid : optN_eqb (n_id nd) (Some cur) = true).
    { destruct (n_id nd) as [j|]; [|discriminate]. cbn. exact Hid. }
    rewrite Eid. cbn [negb].
    assert (Epar : optN_eqb (n_parent nd) par = true) by (apply optN_eqb_eq; exact Hp).
    rewrite Epar. cbn [negb].
    assert (Hrec : forall d a0, In (Some d) (dests nd) -> child_ok m cur (Some d) = true -> exists a', dfs f m d (Some cur) a0 = Ok a').
    { intros d a0 Hd Hc. apply child_ok_inv in Hc. destruct Hc as (c & cnd & E & Hg & Hpc). inversion E; subst c.
      apply (IH d (Some cur) (cur :: anc) a0 cnd); auto.
      - intros i Hr. apply Hall. eapply reach_from_step; eauto.
      - cbn. lia. }
    destruct (rfold_all_ok (fun a ve => match ve_dest ve with
                                        | Some d => if nonempty (ve_value ve) then dfs f m d (Some cur) a else Err ELvsModel
                                        | None => Err ELvsModel end) (n_vedges nd) a) as (a1 & Ev).
    { intros a0 ve Hin. specialize (Hve ve Hin). apply andb_true_iff in Hve. destruct Hve as [Hc Hval].
      destruct (ve_dest ve) as [d|] eqn:Ed; [|discriminate].
      assert (nonempty (ve_value ve) = true) as -> by (unfold nonempty; destruct (ve_value ve) as [[|]|]; auto; discriminate).
      apply Hrec; auto. unfold dests. apply in_or_app. left. rewrite <- Ed. apply in_map, Hin. }
    rewrite Ev. cbn [bind].
    destruct (rfold_all_ok (fun a pe => match pe_dest pe, pe_tag pe with
                                        | Some d, Some _ => do a' <- dfs f m d (Some cur) a ;;
                                                            rfold (fun a cons => rfold check_option cons a) (pe_cons pe) a'
                                        | _, _ => Err ELvsModel end) (n_pedges nd) a1) as (a2 & Ep).
    { intros a0 pe Hin. specialize (Hpe pe Hin).
      apply andb_true_iff in Hpe. destruct Hpe as [Hpe Hopts]. apply andb_true_iff in Hpe. destruct Hpe as [Hc Htag].
      destruct (pe_dest pe) as [d|] eqn:Ed; [|discriminate].
      destruct (pe_tag pe) as [t|]; [|discriminate].
      destruct (Hrec d a0) as (a3 & Ha3); auto.
      { unfold dests. apply in_or_app. right. rewrite <- Ed. apply in_map, Hin. }
      rewrite Ha3. cbn [bind]. apply rfold_all_ok. intros a4 cons Hcin.
      apply rfold_all_ok. intros a5 op Hoin. apply option_ok_check.
      rewrite forallb_forall in Hopts. specialize (Hopts cons Hcin). rewrite forallb_forall in Hopts. apply Hopts, Hoin. }
    rewrite Ep. cbn [bind].
    apply rfold_all_ok. intros a0 k Hin. apply signer_check. apply N.ltb_lt. apply Hsg, Hin.
Qed.

(* ---- the loader as a whole --------------------------------------------------------------------------------- *)
Definition sign_graph_passes (m : lvsmodel) (a : sacc) : Prop :=
  exists o, top_order optN_eqb optN_leb ids_sortable (dedup optN_eqb (map n_id (m_nodes m)))
              (map (fun e => (fst e, map Some (snd e))) (sa_adj a)) = Ok o.

Theorem sanity_check_sound m r : sanity_check (sanity_fuel m) m = Ok r -> sane m.
Proof.
  unfold sanity_check. destruct (version_ok (m_version m)) eqn:Ev; cbn [negb]; [|discriminate].
  destruct (m_start m) as [s|] eqn:Es; [|discriminate].
  destruct (dfs _ m s None _) as [a|] eqn:Ed; [|discriminate]. intros _.
  apply dfs_sound in Ed. destruct Ed as ((nd & Hn & Hp) & Hall).
  split; [exact Ev|]. split.
  - unfold root_ok. rewrite Es, Hn, Hp. reflexivity.
  - intros i Hr. apply reach_iff_from in Hr. destruct Hr as (s' & Es' & Hf). rewrite Es in Es'. inversion Es'; subst s'.
    apply Hall, Hf.
Qed.

(* a model that breaks a sanity rule is rejected, and with the documented exception *)
Theorem sanity_check_rejects m : ~ sane m -> sanity_check (sanity_fuel m) m = Err ELvsModel.
Proof.
  intros Hns. destruct (sanity_check (sanity_fuel m) m) as [r|e] eqn:E.
  - exfalso. apply Hns. eapply sanity_check_sound; eauto.
  - f_equal. unfold sanity_check in E.
    destruct (version_ok (m_version m)) eqn:Ev; cbn [negb] in E; [|inversion E; reflexivity].
    destruct (m_start m) as [s|] eqn:Es; [|inversion E; reflexivity].
    destruct (dfs (sanity_fuel m) m s None _) as [a|e1] eqn:Ed; cbn [bind] in E.
    + exfalso. apply Hns. apply dfs_sound in Ed. destruct Ed as ((nd & Hn & Hp) & Hall).
      split; [exact Ev|]. split.
      * unfold root_ok. rewrite Es, Hn, Hp. reflexivity.
      * intros i Hr. apply reach_iff_from in Hr. destruct Hr as (s' & Es' & Hf). rewrite Es in Es'. inversion Es'; subst s'.
        apply Hall, Hf.
    + inversion E; subst e1. destruct (dfs_err _ _ _ _ _ _ Ed) as [-> | ->]; [reflexivity|].
      exfalso. revert Ed. apply (dfs_no_fuel m _ s None []); [exact I | reflexivity | unfold sanity_fuel; cbn; lia].
Qed.

(* a sane model passes the dfs part; what remains is compiler.top_order on the signing graph *)
Theorem sanity_check_sane m : sane m ->
  exists s a, m_start m = Some s /\
    dfs (sanity_fuel m) m s None {| sa_fns := []; sa_indeg := [];
                                    sa_adj := map (fun i => (i, [])) (dedup optN_eqb (map n_id (m_nodes m))) |} = Ok a /\
    (sign_graph_passes m a -> exists r, sanity_check (sanity_fuel m) m = Ok r) /\
    (forall e, sanity_check (sanity_fuel m) m = Err e -> ~ sign_graph_passes m a).
Proof.
  intros (Hv & Hroot & Hall). unfold root_ok in Hroot.
  destruct (m_start m) as [s|] eqn:Es; [|discriminate].
  destruct (get_node m s) as [nd|] eqn:En; [|discriminate].
  destruct (n_parent nd) eqn:Ep; [discriminate|].
  destruct (dfs_complete m (sanity_fuel m) s None [] {| sa_fns := []; sa_indeg := [];
              sa_adj := map (fun i => (i, [])) (dedup optN_eqb (map n_id (m_nodes m))) |} nd) as (a & Ha).
  { intros i Hr. apply Hall. apply reach_iff_from. exists s. auto. }
  { exact En. } { exact Ep. } { exact I. } { reflexivity. } { unfold sanity_fuel. cbn [length Nat.add]. lia. }
  exists s, a. split; [reflexivity|]. split; [exact Ha|].
  unfold sanity_check, sign_graph_passes. rewrite version_ok_supported, Hv, Es. cbn [negb]. rewrite Ha. cbn [bind].
  split.
  - intros (o & Ho). rewrite Ho. cbn [bind]. eauto.
  - intros e He (o & Ho). rewrite Ho in He. discriminate.
Qed.

(* ---- the executable form ------------------------------------------------------------------------------------ *)
Lemma closed_contains m r : closedb m r = true -> forall s, nmem s r = true -> forall i, reach_from m s i -> nmem i r = true.
Proof.
  intros Hc s Hs i Hr. induction Hr as [|a nd d Hr IH Hn Hd]; [exact Hs|].
  unfold closedb in Hc. rewrite forallb_forall in Hc.
  unfold nmem in IH. apply existsb_exists in IH. destruct IH as (x & Hx & E). apply N.eqb_eq in E. subst x.
  specialize (Hc a Hx). rewrite forallb_forall in Hc. apply Hc.
  unfold valid_dests. rewrite Hn. apply in_flat_map. exists (Some d). split; [exact Hd | left; reflexivity].
Qed.

Theorem saneb_sane m : saneb m = true -> sane m.
Proof.
  unfold saneb. intros H.
  repeat (apply andb_true_iff in H; destruct H as [H ?]).
  split; [exact H|]. split; [assumption|].
  intros i Hr. apply reach_iff_from in Hr. destruct Hr as (s & Es & Hf). rewrite Es in *.
  rewrite forallb_forall in H0. apply H0.
  pose proof (closed_contains m _ H1 s H2 i Hf) as Hm.
  unfold nmem in Hm. apply existsb_exists in Hm. destruct Hm as (x & Hx & E). apply N.eqb_eq in E. subst x. exact Hx.
Qed.
