(* Pointwise characterisation of the executable definitions of Spec/SvsSpec.v. *)
From NDN Require Import Base.Prelude Spec.SvsSpec.
Local Open Scope N_scope.

Lemma beq_refl k : bytes_eqb k k = true.
Proof. apply bytes_eqb_spec; reflexivity. Qed.

Lemma beq_false k k' : k <> k' -> bytes_eqb k k' = false.
Proof. intros H. destruct (bytes_eqb k k') eqn:E; auto. apply bytes_eqb_spec in E. contradiction. Qed.

Lemma beq_sym k k' : bytes_eqb k k' = bytes_eqb k' k.
Proof.
  destruct (bytes_eqb k k') eqn:E.
  - apply bytes_eqb_spec in E. subst. symmetry. apply beq_refl.
  - destruct (bytes_eqb k' k) eqn:E'; auto. apply bytes_eqb_spec in E'. subst. rewrite beq_refl in E. discriminate.
Qed.

Lemma id_dec (a b : id) : {a = b} + {a <> b}.
Proof. destruct (bytes_eqb a b) eqn:E; [left; apply bytes_eqb_spec; auto | right; intros ->; rewrite beq_refl in E; discriminate]. Qed.

(* ---- vget --------------------------------------------------------------------------------- *)
Lemma vget_notin v k : ~ In k (keys v) -> vget v k = 0.
Proof.
  induction v as [|[k' x] r IH]; cbn; intros H; auto.
  destruct (bytes_eqb k k') eqn:E.
  - apply bytes_eqb_spec in E. subst. tauto.
  - apply IH. tauto.
Qed.

Lemma vget_pos_in v k : vget v k <> 0 -> In k (keys v).
Proof. intros H. destruct (in_dec id_dec k (keys v)); auto. apply vget_notin in n. contradiction. Qed.

Lemma vget_in_pair v k : vget v k <> 0 -> In (k, vget v k) v.
Proof.
  induction v as [|[k' x] r IH]; cbn; intros H; [congruence|].
  destruct (bytes_eqb k k') eqn:E.
  - apply bytes_eqb_spec in E. subst. auto.
  - auto.
Qed.

Lemma vget_in_nodup v k x : NoDup (keys v) -> In (k, x) v -> vget v k = x.
Proof.
  induction v as [|[k' y] r IH]; cbn; intros ND HI; [tauto|].
  inversion ND; subst. destruct HI as [E|HI].
  - inversion E; subst. rewrite beq_refl. reflexivity.
  - destruct (bytes_eqb k k') eqn:E.
    + apply bytes_eqb_spec in E. subst. exfalso. apply H1. change k' with (fst (k', x)). apply in_map. exact HI.
    + auto.
Qed.

(* ---- assign ------------------------------------------------------------------------------- *)
Lemma vget_assign v k x k' : vget (assign v k x) k' = if bytes_eqb k' k then x else vget v k'.
Proof.
  induction v as [|[k0 y] r IH]; cbn.
  - destruct (bytes_eqb k' k); reflexivity.
  - destruct (bytes_eqb k k0) eqn:E; cbn.
    + apply bytes_eqb_spec in E. subst k0. destruct (bytes_eqb k' k); reflexivity.
    + destruct (bytes_eqb k' k0) eqn:E2.
      * apply bytes_eqb_spec in E2. subst k0. rewrite (beq_sym k' k), E. reflexivity.
      * exact IH.
Qed.

Lemma vget_assign_same v k x : vget (assign v k x) k = x.
Proof. rewrite vget_assign, beq_refl. reflexivity. Qed.

Lemma vget_assign_other v k x k' : k' <> k -> vget (assign v k x) k' = vget v k'.
Proof. intros H. rewrite vget_assign, beq_false; auto. Qed.

Lemma in_keys_assign v k x k' : In k' (keys (assign v k x)) <-> k' = k \/ In k' (keys v).
Proof.
  induction v as [|[k0 y] r IH]; cbn.
  - intuition.
  - destruct (bytes_eqb k k0) eqn:E; cbn.
    + apply bytes_eqb_spec in E. subst k0. intuition.
    + unfold keys in IH. rewrite IH. intuition.
Qed.

Lemma nodup_assign v k x : NoDup (keys v) -> NoDup (keys (assign v k x)).
Proof.
  induction v as [|[k0 y] r IH]; cbn; intros ND.
  - constructor; auto.
  - inversion ND; subst. destruct (bytes_eqb k k0) eqn:E; cbn.
    + exact ND.
    + constructor; [|apply IH; auto].
      intros HI. apply (in_keys_assign r k x k0) in HI. destruct HI as [->|HI]; [|contradiction].
      rewrite beq_refl in E. discriminate.
Qed.

(* ---- pmax --------------------------------------------------------------------------------- *)
Definition memb (k : id) (l : list id) : bool := existsb (bytes_eqb k) l.
Lemma memb_in k l : memb k l = true <-> In k l.
Proof.
  unfold memb. rewrite existsb_exists. split.
  - intros (x & HI & E). apply bytes_eqb_spec in E. subst. assumption.
  - intros HI. exists k. split; [assumption|apply beq_refl].
Qed.
Lemma memb_notin k l : memb k l = false -> ~ In k l.
Proof. intros H HI. apply memb_in in HI. congruence. Qed.

Lemma vget_tabulate (g : id -> N) (l : list id) k :
  vget (map (fun k => (k, g k)) l) k = if memb k l then g k else 0.
Proof.
  induction l as [|k0 l IH]; [reflexivity|].
  cbn [map vget memb existsb]. destruct (bytes_eqb k k0) eqn:E.
  - apply bytes_eqb_spec in E. subst k0. reflexivity.
  - rewrite IH. reflexivity.
Qed.

Theorem pmax_get a b k : vget (pmax a b) k = N.max (vget a k) (vget b k).
Proof.
  unfold pmax. rewrite (vget_tabulate (fun k => N.max (vget a k) (vget b k))).
  destruct (memb k (keys a ++ keys b)) eqn:M; [reflexivity|].
  apply memb_notin in M. rewrite in_app_iff in M.
  rewrite (vget_notin a k), (vget_notin b k) by tauto. reflexivity.
Qed.

Lemma pmax_veq a a' b b' : veq a a' -> veq b b' -> veq (pmax a b) (pmax a' b').
Proof. intros H1 H2 k. rewrite !pmax_get, H1, H2. reflexivity. Qed.

Lemma pmax_nil_r a : veq (pmax a []) a.
Proof. intros k. rewrite pmax_get. cbn. lia. Qed.

Lemma assign_veq a a' k x : veq a a' -> veq (assign a k x) (assign a' k x).
Proof. intros H k'. rewrite !vget_assign, H. reflexivity. Qed.

(* ---- newer -------------------------------------------------------------------------------- *)
Theorem newerb_spec a b : newerb a b = true <-> newer a b.
Proof.
  unfold newerb, newer. rewrite existsb_exists. split.
  - intros (k & _ & H). exists k. lia.
  - intros (k & H). exists k. split; [|lia]. apply vget_pos_in. lia.
Qed.

Lemma newer_veq a a' b b' : veq a a' -> veq b b' -> newer a b -> newer a' b'.
Proof. intros H1 H2 (k & H). exists k. rewrite <- H1, <- H2. exact H. Qed.

(* ---- wire vectors --------------------------------------------------------------------------- *)
Definition denote_from (acc : vec) (w : wire) : vec :=
  fold_left (fun acc e => match e with (Some k, Some x) => assign acc k x | _ => acc end) w acc.

Lemma denote_from_cons acc e w :
  denote_from acc (e :: w) = denote_from (match e with (Some k, Some x) => assign acc k x | _ => acc end) w.
Proof. reflexivity. Qed.

Lemma denote_from_nodup w : forall acc, NoDup (keys acc) -> NoDup (keys (denote_from acc w)).
Proof.
  induction w as [|[[k|] [x|]] w IH]; intros acc ND; try rewrite denote_from_cons; auto.
  apply IH. apply nodup_assign. exact ND.
Qed.

Lemma denote_nodup w : NoDup (keys (denote w)).
Proof. apply denote_from_nodup. constructor. Qed.

Lemma denote_snoc w k x : denote (w ++ [(Some k, Some x)]) = assign (denote w) k x.
Proof. unfold denote. rewrite fold_left_app. reflexivity. Qed.

(* for a vector with distinct node ids the denotation is the obvious one *)
Fixpoint wentries (w : wire) : list (id * N) :=
  match w with
  | [] => []
  | (Some k, Some x) :: r => (k, x) :: wentries r
  | _ :: r => wentries r
  end.

Lemma denote_from_get w : forall acc k,
  NoDup (keys (wentries w)) ->
  vget (denote_from acc w) k =
    if memb k (keys (wentries w)) then vget (wentries w) k else vget acc k.
Proof.
  induction w as [|[[k0|] [x|]] w IH]; intros acc k ND; [reflexivity| |
    rewrite denote_from_cons; exact (IH acc k ND) ..].
  cbn [wentries keys map fst] in ND. inversion ND; subst.
  rewrite denote_from_cons. rewrite IH by assumption.
  cbn [wentries keys map fst memb existsb vget].
  fold (keys (wentries w)). fold (memb k (keys (wentries w))).
  destruct (bytes_eqb k k0) eqn:E.
  - apply bytes_eqb_spec in E. subst k0. cbn [orb].
    destruct (memb k (keys (wentries w))) eqn:M; [apply memb_in in M; contradiction|].
    apply vget_assign_same.
  - cbn [orb]. destruct (memb k (keys (wentries w))); [reflexivity|].
    apply vget_assign_other. intros ->. rewrite beq_refl in E. discriminate.
Qed.

Theorem denote_get_distinct w k :
  NoDup (keys (wentries w)) -> vget (denote w) k = vget (wentries w) k.
Proof.
  intros ND. unfold denote. fold (denote_from [] w). rewrite denote_from_get by assumption.
  destruct (memb k (keys (wentries w))) eqn:M; [reflexivity|].
  cbn. symmetry. apply vget_notin. apply memb_notin. assumption.
Qed.

Lemma well_formedb_spec w : well_formedb w = true <-> well_formed w.
Proof.
  unfold well_formedb, well_formed. rewrite forallb_forall. split.
  - intros H k HI. specialize (H _ HI). discriminate.
  - intros H [[k|] [x|]] HI; auto. exfalso. exact (H k HI).
Qed.

Lemma overclaimsb_spec self q w : overclaimsb self q w = true <-> overclaims self q w.
Proof.
  unfold overclaimsb, overclaims. rewrite existsb_exists. split.
  - intros ([[k|] [x|]] & HI & H); try discriminate.
    apply andb_true_iff in H. destruct H as [E L]. apply bytes_eqb_spec in E. subst k.
    exists x. split; [assumption|lia].
  - intros (x & HI & L). exists (Some self, Some x). split; [assumption|].
    rewrite beq_refl. cbn. lia.
Qed.

Theorem acceptedb_spec self q w : acceptedb self q w = true <-> accepted self q w.
Proof.
  unfold acceptedb, accepted. rewrite andb_true_iff, negb_true_iff, well_formedb_spec.
  rewrite <- (overclaimsb_spec self q w). destruct (overclaimsb self q w); intuition congruence.
Qed.

(* an accepted vector does not claim more own data than produced, whatever entry is read *)
Definition elem_ok (self : id) (q : N) (e : wentry) : bool :=
  match e with
  | (Some k, None) => false
  | (Some k, Some x) => negb (bytes_eqb k self && (q <? x))
  | _ => true
  end.

Lemma acceptedb_cons self q e w : acceptedb self q (e :: w) = elem_ok self q e && acceptedb self q w.
Proof.
  unfold acceptedb, well_formedb, overclaimsb. cbn [forallb existsb].
  destruct e as [[k|] [x|]]; cbn [elem_ok];
    repeat match goal with |- context [forallb ?f w] => destruct (forallb f w) end;
    repeat match goal with |- context [existsb ?f w] => destruct (existsb f w) end;
    try destruct (bytes_eqb k self); try destruct (q <? x); reflexivity.
Qed.

Lemma acceptedb_nil self q : acceptedb self q [] = true.
Proof. reflexivity. Qed.

Lemma accepted_self_le_from self q w : acceptedb self q w = true ->
  forall acc, vget acc self <= q -> vget (denote_from acc w) self <= q.
Proof.
  induction w as [|e w IH]; intros A acc H; [exact H|].
  rewrite acceptedb_cons in A. apply andb_true_iff in A. destruct A as [E A].
  rewrite denote_from_cons. apply IH; [assumption|].
  destruct e as [[k|] [x|]]; cbn [elem_ok] in E; try assumption; try discriminate.
  rewrite vget_assign. rewrite (beq_sym self k). destruct (bytes_eqb k self) eqn:E2; [|assumption].
  cbn in E. lia.
Qed.

Lemma accepted_self_le self q w : acceptedb self q w = true -> vget (denote w) self <= q.
Proof. intros A. apply (accepted_self_le_from self q w A []). cbn. lia. Qed.
