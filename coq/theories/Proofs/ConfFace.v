(* C20 — default_face: a well-formed URI yields the face it denotes; a face is only ever produced for
   a scheme of the table (unknown scheme = error). *)
From NDN Require Import Base.Prelude Base.Text Model.ConfBase Model.ClientConf Spec.ClientConfSpec
  Proofs.ConfBaseLemmas.
From Coq Require Strings.String Strings.Ascii.
Import Coq.Strings.String.StringSyntax Coq.Strings.Ascii.AsciiSyntax.
Local Open Scope N_scope.

Definition scheme_ok (s : str) : bool :=
  match s with c :: _ => is_alpha c | [] => false end && forallb is_scheme_char s.

Definition port_text (port : option str) : str :=
  match port with Some p => ch_colon :: p | None => [] end.

(* ---- character-class facts ----------------------------------------------------------------------- *)
Ltac charc := unfold name_char, v6_char, uri_plain, is_scheme_char, is_alpha, is_upper, is_lower, is_digit,
  is_netloc_end, is_unsafe, is_c0_or_space, ch_slash, ch_q, ch_hash, ch_at, ch_colon, ch_lbr, ch_rbr, ch_pct, ch_nl in *;
  cbn [existsb negb orb andb] in *.

Lemma scheme_char_facts c : is_scheme_char c = true ->
  (c =? ch_colon) = false /\ is_unsafe c = false /\ (c <? 128) = true.
Proof. charc. lia. Qed.

Lemma alpha_not_c0 c : is_alpha c = true -> is_c0_or_space c = false.
Proof. charc. lia. Qed.

Lemma name_char_facts c : name_char c = true ->
  is_netloc_end c = false /\ (c =? ch_at) = false /\ (c =? ch_colon) = false /\ (c =? ch_lbr) = false /\
  (c =? ch_rbr) = false /\ (c =? ch_pct) = false /\ is_unsafe c = false /\ (c <? 128) = true.
Proof. charc. lia. Qed.

Lemma v6_char_facts c : v6_char c = true ->
  is_netloc_end c = false /\ (c =? ch_at) = false /\ (c =? ch_lbr) = false /\
  (c =? ch_rbr) = false /\ is_unsafe c = false /\ (c <? 128) = true.
Proof. charc. lia. Qed.

Lemma digit_facts c : is_digit c = true ->
  is_netloc_end c = false /\ (c =? ch_at) = false /\ (c =? ch_colon) = false /\ (c =? ch_lbr) = false /\
  (c =? ch_rbr) = false /\ is_unsafe c = false /\ (c <? 128) = true.
Proof. charc. lia. Qed.

Lemma lower_scheme_char c : is_scheme_char (lower_c c) = true -> is_scheme_char c = true.
Proof. unfold lower_c. charc. destruct ((65 <=? c) && (c <=? 90)) eqn:E; lia. Qed.
Lemma lower_alpha c : is_alpha (lower_c c) = true -> is_alpha c = true.
Proof. unfold lower_c. charc. destruct ((65 <=? c) && (c <=? 90)) eqn:E; lia. Qed.

Lemma scheme_ok_lower s : scheme_ok (lower s) = true -> scheme_ok s = true.
Proof.
  unfold scheme_ok. intros H. apply andb_true_iff in H. destruct H as [H1 H2]. apply andb_true_iff. split.
  - destruct s as [|c r]; [discriminate|]. cbn in H1. apply lower_alpha. exact H1.
  - unfold lower in H2. rewrite forallb_forall in *. intros x Hx. apply lower_scheme_char. apply H2.
    apply in_map. exact Hx.
Qed.

(* every scheme of the table is a valid URI scheme *)
Lemma scheme_kind_ok s k : scheme_kind s = Some k -> scheme_ok s = true.
Proof.
  unfold scheme_kind, scheme_table. cbn [al_get].
  repeat (match goal with |- context [if str_eqb s ?l then _ else _] =>
            let E := fresh "E" in destruct (str_eqb s l) eqn:E;
            [apply str_eqb_eq in E; subst s; intros _; reflexivity|] end).
  discriminate.
Qed.

(* ---- urlsplit on scheme://netloc tail ------------------------------------------------------------ *)
Definition netloc_plain (c : N) : bool := negb (is_netloc_end c) && negb (is_unsafe c) && (c <? 128).

Lemma tail_filter tail :
  tail_ok tail = true ->
  let t' := filter (fun c => negb (is_unsafe c)) tail in
  t' = [] \/ exists x r, t' = x :: r /\ is_netloc_end x = true.
Proof.
  destruct tail as [|c t]; cbn; [left; reflexivity|]. intros H. right.
  assert (is_unsafe c = false) by (charc; lia). rewrite H0. cbn. eauto.
Qed.

Lemma urlsplit_authority nf scheme netloc tail :
  scheme_ok scheme = true -> forallb netloc_plain netloc = true -> netloc_brackets_ok netloc = true ->
  tail_ok tail = true ->
  urlsplit nf (scheme ++ slit "://" ++ netloc ++ tail) =
  Ok (mk_url (lower scheme) netloc
        (fst (partition_on ch_q (fst (partition_on ch_hash (filter (fun c => negb (is_unsafe c)) tail)))))).
Proof.
  intros Hs Hn Hb Ht. unfold urlsplit.
  unfold scheme_ok in Hs. apply andb_true_iff in Hs. destruct Hs as [Hs1 Hs2].
  destruct scheme as [|c s]; [discriminate|].
  (* lstrip *)
  change ((c :: s) ++ slit "://" ++ netloc ++ tail) with (c :: (s ++ slit "://" ++ netloc ++ tail)).
  rewrite lstrip_by_head by (apply alpha_not_c0; exact Hs1).
  change (c :: (s ++ slit "://" ++ netloc ++ tail)) with ((c :: s) ++ [ch_colon; ch_slash; ch_slash] ++ netloc ++ tail).
  (* filter *)
  rewrite !filter_app.
  rewrite (filter_id _ (c :: s)) by (eapply forallb_impl; [|exact Hs2]; intros x Hx; apply scheme_char_facts in Hx; destruct Hx as (_ & -> & _); reflexivity).
  rewrite (filter_id _ netloc) by (eapply forallb_impl; [|exact Hn]; intros x Hx; unfold netloc_plain in Hx; destruct (is_unsafe x); [rewrite andb_false_r in Hx; discriminate|reflexivity]).
  change (filter (fun c0 : N => negb (is_unsafe c0)) [ch_colon; ch_slash; ch_slash]) with [ch_colon; ch_slash; ch_slash].
  set (t' := filter (fun c0 => negb (is_unsafe c0)) tail).
  (* scheme *)
  change ((c :: s) ++ [ch_colon; ch_slash; ch_slash] ++ netloc ++ t') with ((c :: s) ++ ch_colon :: (ch_slash :: ch_slash :: netloc ++ t')).
  rewrite partition_on_app by (eapply forallb_impl; [|exact Hs2]; intros x Hx; apply scheme_char_facts in Hx; destruct Hx as (-> & _); reflexivity).
  rewrite Hs1, Hs2. cbn [andb].
  unfold ch_slash. cbv iota beta.
  (* netloc *)
  assert (Hne : forallb (fun y => negb (is_netloc_end y)) netloc = true).
  { eapply forallb_impl; [|exact Hn]. intros x Hx. unfold netloc_plain in Hx. destruct (is_netloc_end x); [discriminate|reflexivity]. }
  assert (Hasc : is_ascii netloc = true).
  { unfold is_ascii. eapply forallb_impl; [|exact Hn]. intros x Hx. unfold netloc_plain in Hx.
    apply andb_true_iff in Hx. tauto. }
  destruct (tail_filter tail Ht) as [E|(x & r & E & Hx)]; fold t' in E; rewrite E.
  - rewrite app_nil_r. rewrite break_on_none by exact Hne. rewrite Hb. cbn [bind]. rewrite Hasc. reflexivity.
  - rewrite break_on_app by assumption. rewrite Hb. cbn [bind]. rewrite Hasc. reflexivity.
Qed.

(* ---- host / port extraction -------------------------------------------------------------------------- *)
Lemma port_text_facts port : port_ok port = true ->
  forallb (fun c => negb (c =? ch_at)) (port_text port) = true /\
  forallb (fun c => negb (c =? ch_lbr)) (port_text port) = true /\
  forallb (fun c => negb (c =? ch_rbr)) (port_text port) = true /\
  forallb netloc_plain (port_text port) = true.
Proof.
  destruct port as [p|]; cbn [port_ok port_text]; [|repeat split; reflexivity].
  intros H. apply andb_true_iff in H. destruct H as [H Hhi]. apply andb_true_iff in H. destruct H as [H Hlo].
  apply andb_true_iff in H. destruct H as [Hne Hdig].
  repeat split; cbn [forallb]; (apply andb_true_iff; split; [reflexivity|]);
    (eapply forallb_impl; [|exact Hdig]); intros x Hx; apply digit_facts in Hx;
    unfold netloc_plain; destruct Hx as (A1 & A2 & A3 & A4 & A5 & A6 & A7);
    rewrite ?A1, ?A2, ?A3, ?A4, ?A5, ?A6, ?A7; reflexivity.
Qed.

Lemma hostinfo_name n port :
  forallb name_char n = true -> port_ok port = true -> hostinfo (n ++ port_text port) = (n, port).
Proof.
  intros Hn Hp. destruct (port_text_facts port Hp) as (P1 & P2 & P3 & _). unfold hostinfo.
  rewrite rpartition_on_none.
  2:{ rewrite forallb_app, P1, andb_true_r. eapply forallb_impl; [|exact Hn]. intros x Hx.
      apply name_char_facts in Hx. destruct Hx as (_ & -> & _). reflexivity. }
  cbn [snd].
  rewrite (partition_on_none ch_lbr).
  2:{ rewrite forallb_app, P2, andb_true_r. eapply forallb_impl; [|exact Hn]. intros x Hx.
      apply name_char_facts in Hx. destruct Hx as (_ & _ & _ & -> & _). reflexivity. }
  assert (Hc : forallb (fun x => negb (x =? ch_colon)) n = true).
  { eapply forallb_impl; [|exact Hn]. intros x Hx. apply name_char_facts in Hx. destruct Hx as (_ & _ & -> & _). reflexivity. }
  destruct port as [p|]; cbn [port_text].
  - rewrite partition_on_app by exact Hc. cbn [port_ok] in Hp.
    destruct p; [discriminate|]. reflexivity.
  - rewrite app_nil_r, partition_on_none by exact Hc. reflexivity.
Qed.

Lemma hostinfo_v6 a port :
  forallb v6_char a = true -> port_ok port = true ->
  hostinfo (ch_lbr :: a ++ ch_rbr :: port_text port) = (a, port).
Proof.
  intros Ha Hp. destruct (port_text_facts port Hp) as (P1 & P2 & P3 & _). unfold hostinfo.
  rewrite rpartition_on_none.
  2:{ cbn [forallb]. rewrite forallb_app. cbn [forallb]. rewrite P1.
      replace (forallb (fun x => negb (x =? ch_at)) a) with true; [reflexivity|]. symmetry.
      eapply forallb_impl; [|exact Ha]. intros x Hx. apply v6_char_facts in Hx. destruct Hx as (_ & -> & _). reflexivity. }
  cbn [snd].
  change (partition_on ch_lbr (ch_lbr :: a ++ ch_rbr :: port_text port)) with ([] : str, Some (a ++ ch_rbr :: port_text port)).
  cbv iota beta. rewrite partition_on_app.
  2:{ eapply forallb_impl; [|exact Ha]. intros x Hx. apply v6_char_facts in Hx. destruct Hx as (_ & _ & _ & -> & _). reflexivity. }
  destruct port as [p|]; cbn [port_text].
  - change (partition_on ch_colon (ch_colon :: p)) with ([] : str, Some p). cbn [port_ok] in Hp.
    destruct p; [discriminate|]. reflexivity.
  - reflexivity.
Qed.

Lemma url_port_ok netloc h port :
  hostinfo netloc = (h, port) -> port_ok port = true ->
  url_port netloc = Ok (match port with Some p => Some (dec_of p) | None => None end) /\
  match port with Some p => 1 <= dec_of p | None => True end.
Proof.
  intros E Hp. unfold url_port. rewrite E. cbn [snd]. destruct port as [p|]; [|split; [reflexivity|exact I]].
  cbn [port_ok] in Hp. apply andb_true_iff in Hp. destruct Hp as [Hp Hhi]. apply andb_true_iff in Hp. destruct Hp as [Hp Hlo].
  apply andb_true_iff in Hp. destruct Hp as [Hne Hdig].
  rewrite Hdig, Hhi. split; [reflexivity|lia].
Qed.

(* ---- brackets ------------------------------------------------------------------------------------------- *)
Lemma brackets_name n port :
  forallb name_char n = true -> port_ok port = true -> netloc_brackets_ok (n ++ port_text port) = true.
Proof.
  intros Hn Hp. destruct (port_text_facts port Hp) as (_ & P2 & P3 & _). unfold netloc_brackets_ok.
  rewrite !contains_app, (contains_false ch_lbr (port_text port)), (contains_false ch_rbr (port_text port)) by assumption.
  rewrite (contains_false ch_lbr n), (contains_false ch_rbr n); [reflexivity| |];
    (eapply forallb_impl; [|exact Hn]); intros x Hx; apply name_char_facts in Hx;
    destruct Hx as (_ & _ & _ & H1 & H2 & _); rewrite ?H1, ?H2; reflexivity.
Qed.

Lemma contains_head c s : contains c (c :: s) = true.
Proof. unfold contains. cbn. rewrite N.eqb_refl. reflexivity. Qed.

Lemma brackets_v6 a port :
  forallb v6_char a = true -> bracketed_host_ok a = true -> port_ok port = true ->
  netloc_brackets_ok (ch_lbr :: a ++ ch_rbr :: port_text port) = true.
Proof.
  intros Ha Hb Hp. unfold netloc_brackets_ok.
  rewrite contains_head.
  assert (Hr : contains ch_rbr (ch_lbr :: a ++ ch_rbr :: port_text port) = true).
  { change (ch_lbr :: a ++ ch_rbr :: port_text port) with ((ch_lbr :: a) ++ ch_rbr :: port_text port).
    rewrite contains_app, contains_head, orb_true_r. reflexivity. }
  rewrite Hr. cbn [negb andb orb].
  change (partition_on ch_lbr (ch_lbr :: a ++ ch_rbr :: port_text port)) with ([] : str, Some (a ++ ch_rbr :: port_text port)).
  cbv iota beta. rewrite partition_on_app.
  - exact Hb.
  - eapply forallb_impl; [|exact Ha]. intros x Hx. apply v6_char_facts in Hx. destruct Hx as (_ & _ & _ & -> & _). reflexivity.
Qed.

Lemma netloc_plain_host h port :
  host_ok h = true -> port_ok port = true -> forallb netloc_plain (host_text h ++ port_text port) = true.
Proof.
  intros Hh Hp. destruct (port_text_facts port Hp) as (_ & _ & _ & P4). rewrite forallb_app, P4, andb_true_r.
  destruct h as [n|a]; cbn [host_ok host_text] in *; apply andb_true_iff in Hh; destruct Hh as [H1 H2].
  - eapply forallb_impl; [|exact H2]. intros x Hx. apply name_char_facts in Hx. unfold netloc_plain.
    destruct Hx as (-> & _ & _ & _ & _ & _ & -> & ->). reflexivity.
  - cbn [forallb]. rewrite forallb_app. cbn [forallb]. rewrite andb_true_r.
    replace (forallb netloc_plain a) with true; [reflexivity|]. symmetry.
    eapply forallb_impl; [|exact H1]. intros x Hx. apply v6_char_facts in Hx. unfold netloc_plain.
    destruct Hx as (-> & _ & _ & _ & -> & ->). reflexivity.
Qed.

(* ---- the main theorems --------------------------------------------------------------------------------- *)
Lemma host_parts h port :
  host_ok h = true -> port_ok port = true ->
  let netloc := host_text h ++ port_text port in
  netloc_brackets_ok netloc = true /\ url_hostname netloc = Some (host_addr h) /\
  (exists c r, host_addr h = c :: r) /\
  url_port netloc = Ok (match port with Some p => Some (dec_of p) | None => None end) /\
  match port with Some p => 1 <= dec_of p | None => True end.
Proof.
  intros Hh Hp netloc. subst netloc.
  destruct h as [n|a]; cbn [host_ok host_text host_addr] in *; apply andb_true_iff in Hh; destruct Hh as [H1 H2].
  - pose proof (hostinfo_name n port H2 Hp) as Hi.
    destruct (url_port_ok _ _ _ Hi Hp) as [Pp Pr].
    split; [apply brackets_name; assumption|]. split; [|split; [|split; assumption]].
    + unfold url_hostname. rewrite Hi. cbn [fst]. destruct n as [|c r]; [discriminate|].
      rewrite partition_on_none; [reflexivity|].
      eapply forallb_impl; [|exact H2]. intros x Hx. apply name_char_facts in Hx.
      destruct Hx as (_ & _ & _ & _ & _ & -> & _). reflexivity.
    + destruct n as [|c r]; [discriminate|]. cbn. eauto.
  - change (ch_lbr :: a ++ [ch_rbr]) with (ch_lbr :: a ++ ch_rbr :: []).
    replace ((ch_lbr :: a ++ [ch_rbr]) ++ port_text port) with (ch_lbr :: a ++ ch_rbr :: port_text port)
      by (cbn; rewrite <- app_assoc; reflexivity).
    pose proof (hostinfo_v6 a port H1 Hp) as Hi.
    destruct (url_port_ok _ _ _ Hi Hp) as [Pp Pr].
    split; [apply brackets_v6; assumption|]. split; [|split; [|split; assumption]].
    + unfold url_hostname. rewrite Hi. cbn [fst]. destruct a as [|c r]; [discriminate|].
      destruct (partition_on ch_pct (c :: r)) as [x [z|]]; reflexivity.
    + destruct a as [|c r]; [discriminate|]. cbn [partition_on].
      destruct (c =? ch_pct); [cbn; eauto|]. destruct (partition_on ch_pct r) as [x [z|]]; cbn; eauto.
Qed.

Lemma kind_dispatch s k :
  scheme_kind s = Some k ->
  match k with
  | KUnix => str_eqb s (slit "unix") = true
  | KTcp => str_eqb s (slit "unix") = false /\ scheme_in s [slit "tcp"; slit "tcp4"; slit "tcp6"] = true
  | KUdp => str_eqb s (slit "unix") = false /\ scheme_in s [slit "tcp"; slit "tcp4"; slit "tcp6"] = false /\
            scheme_in s [slit "udp"; slit "udp4"; slit "udp6"] = true
  end.
Proof.
  unfold scheme_kind, scheme_table, scheme_in. cbn [al_get existsb].
  repeat (match goal with |- context [if str_eqb s ?l then _ else _] =>
            let E := fresh "E" in destruct (str_eqb s l) eqn:E;
            [apply str_eqb_eq in E; subst s; intros H; inversion H; subst k; cbn; auto|] end).
  discriminate.
Qed.

Lemma kind_none s :
  scheme_kind s = None ->
  str_eqb s (slit "unix") = false /\ scheme_in s [slit "tcp"; slit "tcp4"; slit "tcp6"] = false /\
  scheme_in s [slit "udp"; slit "udp4"; slit "udp6"] = false.
Proof.
  unfold scheme_kind, scheme_table, scheme_in. cbn [al_get existsb].
  repeat (match goal with |- context [if str_eqb s ?l then _ else _] =>
            let E := fresh "E" in destruct (str_eqb s l) eqn:E; [discriminate|] end).
  intros _. cbn. auto.
Qed.

(* scheme://host[:port][tail] with a tcp*/udp* scheme gives the face the URI denotes *)
Theorem default_face_denoted nf scheme k h port tail :
  scheme_kind (lower scheme) = Some k -> k <> KUnix ->
  host_ok h = true -> port_ok port = true -> tail_ok tail = true ->
  default_face nf (uri_text scheme h port tail) = Ok (denoted_face k h port tail).
Proof.
  intros Hk Hnu Hh Hp Ht. unfold default_face, uri_text.
  destruct (host_parts h port Hh Hp) as (Hb & Hhost & (c & r & Hc) & Hport & Hrange).
  change (match port with Some p => ch_colon :: p | None => [] end) with (port_text port).
  replace (scheme ++ slit "://" ++ host_text h ++ port_text port ++ tail)
    with (scheme ++ slit "://" ++ (host_text h ++ port_text port) ++ tail) by (rewrite <- app_assoc; reflexivity).
  rewrite (urlsplit_authority nf scheme (host_text h ++ port_text port) tail); try assumption.
  2:{ apply scheme_ok_lower. eapply scheme_kind_ok. exact Hk. }
  2:{ apply netloc_plain_host; assumption. }
  cbn [bind u_scheme u_netloc u_path].
  pose proof (kind_dispatch _ _ Hk) as Hd.
  rewrite Hhost, Hport. cbn [bind].
  assert (Hport' : match (match port with Some p => Some (dec_of p) | None => None end) with
                   | Some 0 => default_port | Some p => p | None => default_port end = denoted_port port).
  { destruct port as [p|]; [|reflexivity]. cbn [denoted_port]. destruct (dec_of p) eqn:E; [lia|reflexivity]. }
  destruct k; [congruence| |].
  - destruct Hd as [-> ->]. rewrite Hport'. cbn [denoted_face]. rewrite Hc. reflexivity.
  - destruct Hd as (-> & -> & ->). rewrite Hport'. reflexivity.
Qed.

Lemma unix_char_facts x : negb ((x =? ch_q) || (x =? ch_hash) || is_unsafe x) = true ->
  (x =? ch_q) = false /\ (x =? ch_hash) = false /\ is_unsafe x = false.
Proof. destruct (x =? ch_q), (x =? ch_hash), (is_unsafe x); cbn; intros; try discriminate; auto. Qed.

(* unix://<absolute path> *)
Theorem default_face_unix nf scheme path :
  scheme_kind (lower scheme) = Some KUnix -> unix_path_ok path = true ->
  default_face nf (scheme ++ slit "://" ++ path) = Ok (FUnix path).
Proof.
  intros Hk Hp. unfold default_face.
  replace (scheme ++ slit "://" ++ path) with (scheme ++ slit "://" ++ [] ++ path) by reflexivity.
  unfold unix_path_ok in Hp. apply andb_true_iff in Hp. destruct Hp as [Hs Hc].
  rewrite urlsplit_authority.
  - cbn [bind u_scheme u_path]. rewrite (kind_dispatch _ _ Hk).
    assert (Hf : filter (fun c => negb (is_unsafe c)) path = path).
    { apply filter_id. eapply forallb_impl; [|exact Hc]. intros x Hx. apply unix_char_facts in Hx. destruct Hx as (_ & _ & ->). reflexivity. }
    rewrite Hf.
    rewrite (partition_on_none ch_hash).
    2:{ eapply forallb_impl; [|exact Hc]. intros x Hx. apply unix_char_facts in Hx. destruct Hx as (_ & -> & _). reflexivity. }
    cbn [fst]. rewrite (partition_on_none ch_q).
    2:{ eapply forallb_impl; [|exact Hc]. intros x Hx. apply unix_char_facts in Hx. destruct Hx as (-> & _ & _). reflexivity. }
    cbn [fst]. destruct path; [discriminate|]. reflexivity.
  - apply scheme_ok_lower. eapply scheme_kind_ok. exact Hk.
  - reflexivity.
  - reflexivity.
  - destruct path as [|c r]; [reflexivity|]. unfold starts_with in Hs. cbn [is_prefixb] in Hs.
    apply andb_true_iff in Hs. destruct Hs as [Hs _]. apply N.eqb_eq in Hs. subst c. reflexivity.
Qed.

(* a face is only ever produced for a scheme of the table, and it is of that scheme's kind *)
Theorem default_face_known_only nf uri f :
  default_face nf uri = Ok f ->
  exists u, urlsplit nf uri = Ok u /\ scheme_kind (u_scheme u) = Some (face_kind_of f).
Proof.
  unfold default_face. destruct (urlsplit nf uri) as [u|e]; [|discriminate]. cbn [bind].
  intros H. exists u. split; [reflexivity|].
  destruct (scheme_kind (u_scheme u)) as [k|] eqn:Ek.
  - pose proof (kind_dispatch _ _ Ek) as Hd. destruct k.
    + rewrite Hd in H. inversion H. reflexivity.
    + destruct Hd as [H1 H2]. rewrite H1 in H. destruct (url_port (u_netloc u)); [|discriminate]. cbn [bind] in H.
      rewrite H2 in H. inversion H. reflexivity.
    + destruct Hd as (H1 & H2 & H3). rewrite H1 in H. destruct (url_port (u_netloc u)); [|discriminate]. cbn [bind] in H.
      rewrite H2, H3 in H. inversion H. reflexivity.
  - destruct (kind_none _ Ek) as (H1 & H2 & H3). rewrite H1 in H.
    destruct (url_port (u_netloc u)); [|discriminate]. cbn [bind] in H. rewrite H2, H3 in H. discriminate.
Qed.

(* the scheme urlsplit sees in  scheme ":" anything *)
Lemma urlsplit_scheme nf scheme rest u :
  scheme_ok scheme = true -> urlsplit nf (scheme ++ ch_colon :: rest) = Ok u -> u_scheme u = lower scheme.
Proof.
  intros Hs. unfold urlsplit.
  unfold scheme_ok in Hs. apply andb_true_iff in Hs. destruct Hs as [Hs1 Hs2].
  destruct scheme as [|c s]; [discriminate|].
  change ((c :: s) ++ ch_colon :: rest) with (c :: (s ++ ch_colon :: rest)).
  rewrite lstrip_by_head by (apply alpha_not_c0; exact Hs1).
  change (c :: (s ++ ch_colon :: rest)) with ((c :: s) ++ ch_colon :: rest).
  rewrite filter_app.
  rewrite (filter_id _ (c :: s)) by (eapply forallb_impl; [|exact Hs2]; intros x Hx; apply scheme_char_facts in Hx; destruct Hx as (_ & -> & _); reflexivity).
  cbn [filter]. change (negb (is_unsafe ch_colon)) with true. cbv iota.
  rewrite partition_on_app by (eapply forallb_impl; [|exact Hs2]; intros x Hx; apply scheme_char_facts in Hx; destruct Hx as (-> & _); reflexivity).
  rewrite Hs1, Hs2. cbn [andb].
  match goal with |- context [bind ?X _] => destruct X as [[nl u3]|e] end; [|discriminate]. cbn [bind].
  destruct (negb (is_ascii nl) && nf nl); [discriminate|]. intros H. inversion H. reflexivity.
Qed.

(* unknown scheme: refused, whatever follows the colon *)
Theorem default_face_unknown_scheme nf scheme rest :
  scheme_ok scheme = true -> scheme_kind (lower scheme) = None ->
  exists e, default_face nf (scheme ++ ch_colon :: rest) = Err e.
Proof.
  intros Hs Hk. destruct (default_face nf (scheme ++ ch_colon :: rest)) as [f|e] eqn:E; [|eauto].
  destruct (default_face_known_only _ _ _ E) as (u & Hu & Hkk).
  rewrite (urlsplit_scheme _ _ _ _ Hs Hu) in Hkk. congruence.
Qed.
