(* C14 — the certificate Interests a validation sends: exactly the key-locator path, from the packet
   upwards, cut where the validator stops; never the trust anchor's name. *)
From NDN Require Import Base.Prelude Model.Validator Spec.ChainSpec Proofs.ValidatorProofs Proofs.ValidatorExamples.
Local Open Scope nat_scope.

(* the names met when following key locators through retrievable certificates, at most n of them *)
Fixpoint kl_path (w : world) (n : nat) (p : pkt) : list vname :=
  match n with
  | O => []
  | S n' =>
      match key_locator p with
      | None => []
      | Some cn => cn :: match w_fetch w cn with FData d => kl_path w n' d | _ => [] end
      end
  end.

Lemma trace_is_path_prefix w c : forall fuel st p r st' tr,
  validate w c fuel st p = (r, st', tr) -> exists m, tr = firstn m (kl_path w fuel p).
Proof.
  induction fuel as [|f IH]; intros st p r st' tr H; cbn [validate] in H.
  - exists 0. cbn.
    destruct (key_locator p) as [cn|]; [|inversion H; reflexivity].
    destruct (name_check c (p_name p) cn) as [[|]|e]; try (inversion H; reflexivity).
    destruct (name_eqb cn (c_anchor_name c)); [inversion H; reflexivity|].
    destruct (truthy (cache_load st cn)); inversion H; reflexivity.
  - cbn [kl_path].
    destruct (key_locator p) as [cn|]; [|exists 0; inversion H; reflexivity].
    destruct (name_check c (p_name p) cn) as [[|]|e]; try (exists 0; inversion H; reflexivity).
    destruct (name_eqb cn (c_anchor_name c)); [exists 0; inversion H; reflexivity|].
    destruct (truthy (cache_load st cn)); [exists 0; inversion H; reflexivity|].
    destruct (w_fetch w cn) as [d| | |e]; try (exists 1; inversion H; reflexivity).
    destruct (validate w c f st d) as [[ri st1] tri] eqn:V.
    destruct (IH _ _ _ _ _ V) as (m & ->). exists (S m).
    destruct ri as [[|]|e]; [destruct (truthy (p_content d))| |]; inversion H; reflexivity.
Qed.

Lemma trace_avoids_anchor w c : forall fuel st p r st' tr,
  validate w c fuel st p = (r, st', tr) -> ~ In (c_anchor_name c) tr.
Proof.
  induction fuel as [|f IH]; intros st p r st' tr H; cbn [validate] in H.
  - destruct (key_locator p) as [cn|]; [|inversion H; auto].
    destruct (name_check c (p_name p) cn) as [[|]|e]; try (inversion H; auto; fail).
    destruct (name_eqb cn (c_anchor_name c)); [inversion H; auto|].
    destruct (truthy (cache_load st cn)); inversion H; auto.
  - destruct (key_locator p) as [cn|]; [|inversion H; auto].
    destruct (name_check c (p_name p) cn) as [[|]|e]; try (inversion H; auto; fail).
    destruct (name_eqb cn (c_anchor_name c)) eqn:EA; [inversion H; auto|].
    apply name_eqb_false in EA.
    destruct (truthy (cache_load st cn)); [inversion H; auto|].
    assert (One : ~ In (c_anchor_name c) [cn]) by (intros [E|[]]; congruence).
    destruct (w_fetch w cn) as [d| | |e]; try (inversion H; subst; exact One).
    destruct (validate w c f st d) as [[ri st1] tri] eqn:V.
    specialize (IH _ _ _ _ _ V).
    assert (Cons : ~ In (c_anchor_name c) (cn :: tri)) by (intros [E|E]; [congruence | auto]).
    destruct ri as [[|]|e]; [destruct (truthy (p_content d))| |]; inversion H; subst; exact Cons.
Qed.

Lemma trace_length w c fuel st p r st' tr :
  validate w c fuel st p = (r, st', tr) -> length tr <= fuel.
Proof.
  intros H. destruct (trace_is_path_prefix _ _ _ _ _ _ _ _ H) as (m & ->).
  rewrite firstn_length. clear H.
  assert (L : forall n q, length (kl_path w n q) <= n).
  { induction n as [|n IHn]; intros q; cbn; [lia|].
    destruct (key_locator q); cbn; [|lia]. destruct (w_fetch w v); cbn; try lia. specialize (IHn d). lia. }
  specialize (L fuel p). lia.
Qed.

(* a packet whose key is the anchor, or is cached, is decided without sending anything *)
Lemma no_interest_for_anchor w c fuel st p cn r st' tr :
  key_locator p = Some cn -> cn = c_anchor_name c -> validate w c fuel st p = (r, st', tr) -> tr = [] /\ st' = st.
Proof.
  intros KL -> H. destruct fuel; cbn [validate] in H; rewrite KL in H;
    destruct (name_check c (p_name p) (c_anchor_name c)) as [[|]|e]; try (inversion H; auto; fail);
    rewrite name_eqb_refl in H; inversion H; auto.
Qed.

Example ex_trace : kl_path ex_world 3 P = [nC; nA] /\ snd (validate ex_world cfg1 3 [] P) = [nC].
Proof. vm_compute. split; reflexivity. Qed.
