(* Every accepted input form of one name normalises to the same component list. *)
From NDN Require Import Base.Prelude Base.Text Model.TlvVar Model.Name
  Proofs.BytesLemmas Proofs.TlvVarProofs Proofs.TextProofs Proofs.NameWire Proofs.NameUri Proofs.NameUriName.
Local Open Scope N_scope.

Lemma uri_comp_wf c : uri_comp c -> wf_comp c.
Proof. intros (t & v & -> & [H0 H1] & _ & Hl). exists t, v. repeat split; try assumption. unfold two64. lia. Qed.

Lemma rmap_ncbytes n :
  rmap (fun c => match c with NCBytes b => Ok b | NCStr s => do e <- escape_str s ;; comp_from_str e end)
       (map NCBytes n) = Ok n.
Proof. induction n as [|c n IH]; [reflexivity|]. cbn [map rmap bind]. rewrite IH. reflexivity. Qed.

(* the string form of each component, as a caller would write it in a list *)
Definition canon_strs (n : name) : res (list str) := rmap comp_to_canonical_uri n.

Theorem normalize_agree n :
  Forall uri_comp n -> N.of_nat (name_value_length n) < two64 ->
  name_normalize (NSWire (name_encode n)) = Ok n /\
  name_normalize (NSList (map NCBytes n)) = Ok n /\
  (do u <- name_to_canonical_uri n ;; name_normalize (NSStr u)) = Ok n /\
  (do ss <- canon_strs n ;; name_normalize (NSList (map NCStr ss))) = Ok n.
Proof.
  intros H Hl. repeat split.
  - cbn [name_normalize]. unfold name_from_bytes.
    rewrite <- (app_nil_r (name_encode n)).
    rewrite name_decode_encode; [reflexivity| |exact Hl].
    eapply Forall_impl; [|exact H]. apply uri_comp_wf.
  - cbn [name_normalize]. apply rmap_ncbytes.
  - apply name_canonical_uri_roundtrip. exact H.
  - unfold canon_strs.
    assert (Hp : Forall (part_ok comp_to_canonical_uri) n) by (eapply Forall_impl; [|exact H]; apply canonical_part_ok).
    destruct (rmap_parts _ _ Hp) as (parts & E & F). rewrite E. cbn [bind name_normalize].
    clear E Hp H Hl. induction F as [|c p n parts (H1 & H2 & H3 & _) _ IH]; [reflexivity|].
    cbn [map rmap]. rewrite escape_str_id by exact H2. cbn [bind]. rewrite H3. cbn [bind]. rewrite IH. reflexivity.
Qed.
