(* [outs] is sound for touch_identity, del_key, del_identity, get_signer; the summary theorem. *)
From NDN Require Import Base.Prelude Model.Keychain Spec.KeychainSpec.
From NDN Require Import Proofs.KeychainTables Proofs.KeychainHoare Proofs.KeychainInv Proofs.KeychainOutcome
  Proofs.KeychainOutcomeA.
Local Open Scope N_scope.

Section B.
  Variable F : Prop.

  Lemma contains_get n t : kc_contains n t = true -> exists i, kc_get n t = Ok i.
  Proof. unfold kc_contains, v_contains, kc_get. destruct (v_get 0 n (t_ids t)); cbn; [eauto | discriminate]. Qed.
  Lemma default_identity_get n t t' :
    wf_tables t -> kc_contains n t = true -> sql_default_identity n t = Ok t' -> exists i, kc_get n t' = Ok i.
  Proof.
    intros W C E. pose proof (wf_default_identity _ _ _ W E) as W'. apply contains_get.
    apply (kc_contains_spec _ _ W'). apply (kc_contains_spec _ _ W) in C.
    inversion E; subst. cbn. rewrite r_set_default_names. assumption.
  Qed.

  Lemma outs_touch n cs m v c f :
    (f <> None -> F) -> disk c = db c -> wf_tables (db c) ->
    wp (touch_identity n cs m v) (fun r s' => out_touch F n cs m v c (r, core s')) (mkSt c f).
  Proof.
    intros HF Cl W. unfold touch_identity, out_touch. apply wp_bind, wp_reads. cbn [core].
    destruct (kc_contains n (db c)) eqn:Ct; cbn [negb mwhen].
    - apply wp_bind, wp_ret. apply wp_bind. unfold ensure_default_identity. apply wp_bind, wp_reads. cbn [core].
      destruct (scope_has_def 0 (t_ids (db c))) eqn:Hd; cbn [negb mwhen].
      + apply wp_ret. apply wp_bind, wp_readr. cbn [core]. destruct (contains_get _ _ Ct) as [i G]. rewrite G.
        apply wp_ret. eauto.
      + unfold set_default_identity. apply wp_txn1; [assumption| |].
        * intros t' f' E Hq. apply wp_bind, wp_readr. cbn [core commit_db db].
          destruct (default_identity_get _ _ _ W Ct E) as [i G]. rewrite G. apply wp_ret. left. eauto.
        * intros e [[-> N] | E]; [right; auto | discriminate].
    - destruct (insert_identity_absent _ _ W Ct) as [t1 E1].
      destruct (insert_identity_facts _ _ _ W E1) as [Hd1 [Ek1 [Ec1 [i [G1 [Hi1 Ni1]]]]]].
      pose proof (wf_insert_identity _ _ _ W E1) as W1.
      rewrite E1, G1.
      apply wp_bind. apply wp_with_conn. apply wp_bind. apply wp_sql_w; cbn [core flt].
      2:{ intros e [[-> N] | E]; [|congruence]. rewrite rollback_clean by assumption. left. auto. }
      intros t1' f1 E1' Hq1. assert (t1' = t1) by congruence. subst t1'.
      set (c1 := set_db t1 c).
      assert (Hr1 : do_rollback c1 = c) by (apply rollback_set_db; assumption).
      apply wp_bind. eapply wp_conseq.
      { apply wp_quiet; [apply qm_new_key|]. apply (outs_new_key F n 0 (KidRandom cs) m v c1 f1).
        - intros N. apply HF. eapply quiet_ne; eassumption.
        - exact W1. }
      intros r [c' f'] [Hout Hq']. cbn [core flt] in Hout, Hq'. unfold out_new_key in Hout.
      change (db c1) with t1 in Hout.
      change (tpm c1) with (tpm c) in Hout.
      change (cache c1) with (cache c) in Hout.
      assert (Ct1 : kc_contains n t1 = true).
      { unfold kc_contains, v_contains. unfold kc_get in G1. rewrite G1. reflexivity. }
      rewrite Ct1, G1 in Hout. cbn [negb] in Hout.
      destruct (new_key_name n 0 (KidRandom cs) (tpm c)) as [kn|e].
      2:{ injection Hout as -> ->. cbn [core flt]. rewrite Hr1. right. reflexivity. }
      destruct Hout as [[t3 [k [E3 [Gk Ex]]]] | [[e [E3 Ex]] | [HFl [Ex | Ex]]]]; injection Ex as -> ->.
      + destruct (new_key_db_facts _ _ _ _ _ _ W1 Hi1 E3) as [_ [Ei3 _]].
        assert (G3 : kc_get n t3 = Ok i) by (unfold kc_get in *; rewrite Ei3; assumption).
        assert (Hd3 : scope_has_def 0 (t_ids t3) = true) by (rewrite Ei3; assumption).
        apply wp_ret. cbn [core flt do_commit do_rollback db disk tpm cache set_db]. split.
        * intros f2 Hq2. apply wp_bind. unfold ensure_default_identity. apply wp_bind, wp_reads. unfold do_commit. cbn [core db].
          rewrite Hd3. cbn [negb mwhen]. apply wp_ret. apply wp_bind, wp_readr. cbn [core db]. rewrite G3.
          apply wp_ret. right. left. exists t3, i. repeat split; auto.
        * intros N. right. left. exists t3, i. repeat split; auto. right. split; [|reflexivity].
          apply HF. eapply quiet_ne; [exact Hq1|]. eapply quiet_ne; [exact Hq'| exact N].
      + cbn [core flt]. rewrite Hr1. replace (do_rollback c) with c by (symmetry; apply rollback_clean; assumption).
        right. right. eauto.
      + cbn [core flt]. rewrite Hr1. left. auto.
      + cbn [core flt]. rewrite Hr1. replace (do_rollback c) with c by (symmetry; apply rollback_clean; assumption).
        left. auto.
  Qed.

  (* ---- del_key ------------------------------------------------------------------------------------------ *)
  Lemma outs_del_key kn c f :
    (f <> None -> F) -> disk c = db c ->
    wp (del_key kn) (fun r s' => out_del_key F kn c (r, core s')) (mkSt c f).
  Proof.
    intros HF Cl. unfold del_key, out_del_key. apply wp_bind, wp_readr. cbn [core].
    destruct (kc_get (drop2 kn) (db c)) as [i|e]; [|reflexivity].
    apply wp_bind, wp_readr. cbn [core]. destruct (id_get i kn (db c)) as [k|e]; [|reflexivity].
    apply wp_bind. unfold cache_reset. apply wp_updc. cbn [core flt].
    apply wp_bind. apply wp_tpm_delete; cbn [core flt].
    2:{ intros N. right. left. auto. }
    intros f1 Hq1. apply wp_bind. apply wp_txn2.
    - destruct c; cbn in *. assumption.
    - intros t1 t2 f2 E1 E2 Hq2. apply wp_ret. left. inversion E1; subst. inversion E2; subst.
      destruct c; reflexivity.
    - intros e [[-> N] | [E | [t1 [_ E]]]]; [|discriminate|discriminate].
      right. right. split; [|reflexivity]. apply HF. eapply quiet_ne; eassumption.
  Qed.

  (* ---- del_identity --------------------------------------------------------------------------------------- *)
  Lemma outs_del_identity n c f :
    (f <> None -> F) -> disk c = db c ->
    wp (del_identity n) (fun r s' => out_del_identity F n c (r, core s')) (mkSt c f).
  Proof.
    intros HF Cl. unfold del_identity, out_del_identity. apply wp_bind, wp_readr. cbn [core].
    destruct (kc_get n (db c)) as [i|e]; [|reflexivity].
    apply wp_bind, wp_reads. cbn [core]. set (keys := v_iter (r_id i) (t_keys (db c))).
    apply wp_bind.
    apply (wp_mfor keys _ (fun r s => disk (core s) = db (core s) /\ quiet f (flt s) /\
                                      forall x, del_ident_out F n r (core s) x -> del_ident_out F n keys c x)).
    - cbn [core flt]. auto.
    - intros k r [c' f'] [Cl' [Hq HI]]. cbn [core flt] in *. apply wp_bind. eapply wp_conseq.
      { apply wp_quiet; [apply qm_del_key|]. apply (outs_del_key k c' f'); [|assumption].
        intros N. apply HF. eapply quiet_ne; eassumption. }
      intros res [c'' f''] [Hout Hq']. cbn [core flt] in *. destruct res as [u|e].
      + apply wp_ret. cbn [core flt].
        assert (u = RNone /\ disk c'' = db c'') as [-> Cl''].
        { unfold out_del_key in Hout. destruct (kc_get (drop2 k) (db c')) as [i0|]; [|discriminate].
          destruct (id_get i0 k (db c')) as [k0|]; [|discriminate].
          destruct Hout as [Ex | [[_ Ex] | [_ Ex]]]; inversion Ex; subst. auto. }
        split; [assumption|]. split; [eapply quiet_trans; eassumption|].
        intros x Hx. apply HI. eapply DI_step; eassumption.
      + apply HI. apply DI_err. assumption.
    - intros [c' f'] [Cl' [Hq HI]]. cbn [core flt] in *. apply wp_bind. apply wp_txn1; [assumption| |].
      + intros t' f2 E Hq2. apply wp_bind. unfold cache_reset. apply wp_updc. apply wp_ret. cbn [core].
        apply HI. apply DI_nil_ok. assumption.
      + intros e [[-> N] | E]; [|discriminate]. cbn [core]. apply HI. apply DI_nil_fault. apply HF.
        eapply quiet_ne; eassumption.
  Qed.

  (* ---- get_signer ----------------------------------------------------------------------------------------- *)
  Lemma outs_get_signer a c f :
    (f <> None -> F) ->
    wp (get_signer a) (fun r s' => out_get_signer F a c (r, core s')) (mkSt c f).
  Proof.
    intros HF. unfold get_signer, out_get_signer.
    destruct (a_nosig a); [apply wp_ret; reflexivity|].
    destruct (a_digest a); [apply wp_ret; reflexivity|].
    apply wp_bind, wp_readr. cbn [core]. destruct (resolve_args a (db c)) as [kc|e]; [|reflexivity].
    apply wp_bind, wp_getc. cbn [core].
    destruct (al_get ckey_eqb (cache c) (fst kc, match a_locator a with Some l => l | None => snd kc end)) as [g|] eqn:Hit.
    - apply wp_ret. reflexivity.
    - apply wp_bind. apply wp_tpm_read; cbn [core flt].
      + intros m f' Em Hq. rewrite Em. apply wp_bind. apply wp_updc. apply wp_ret. left. reflexivity.
      + intros e [[-> N] | [-> En]].
        * destruct (al_get name_eqb (tpm c) (fst kc)); right; auto.
        * rewrite En. left. reflexivity.
  Qed.
End B.

(* ---- every operation, with or without an injected failure, ends in one of the listed outcomes ------------ *)
Theorem run_op_outs f o c :
  disk c = db c -> wf_tables (db c) -> outs (f <> None) o c (run_op f o c).
Proof.
  intros Cl W. rewrite (surjective_pairing (run_op f o c)).
  apply (run_op_wp f o c (fun r c' => outs (f <> None) o c (r, c'))).
  destruct o; cbn [op_sem outs].
  - apply outs_new_identity; auto.
  - apply outs_touch; auto.
  - apply outs_new_key; auto.
  - apply outs_import_cert; auto.
  - apply outs_set_default_identity; auto.
  - apply outs_set_default_key; auto.
  - apply outs_set_default_cert; auto.
  - apply wp_del_cert; auto.
  - apply outs_del_key; auto.
  - apply outs_del_identity; auto.
  - unfold id_del_key. apply wp_bind, wp_readr. cbn [core].
    destruct (kc_get idn (db c)); cbn [guarded]; [apply outs_del_key; auto | reflexivity].
  - apply outs_key_del_cert; auto.
  - apply outs_get_signer; auto.
  - unfold reopen. apply wp_bind, wp_updc, wp_ret. reflexivity.
Qed.
