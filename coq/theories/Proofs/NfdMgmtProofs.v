(* C17, codec part: the command name carries parameters that decode to exactly what was given (instance of
   the C08 round trip on the regenerated ControlParameters descriptor), the shape of the v1 command tail,
   and decode(encode(response)). *)
From NDN Require Import Base.Prelude Base.PyPrim Base.Text Base.Utf8 Model.TlvVar Model.Name Model.Tlv Spec.TlvWf.
From NDN Require Import Proofs.BytesLemmas Proofs.TlvVarProofs Proofs.TlvSplit Proofs.TlvRoundtrip2 Proofs.TlvMore
  Proofs.PacketTotal.
From NDN Require Import Model.NfdMgmt.
From NDN Require Generated.Schemas.
Local Open Scope N_scope.

Lemma wf_CP : wf_fields CP.
Proof. apply wf_fieldsb_spec, Generated.Schemas.wf_nfd_mgmt_ControlParameters. Qed.
Lemma wf_CR : wf_fields CR.
Proof. apply wf_fieldsb_spec, Generated.Schemas.wf_nfd_mgmt_ControlResponse. Qed.
Lemma wf_CPV : wf_fields CPV.
Proof. apply wf_fieldsb_spec, Generated.Schemas.wf_nfd_mgmt_ControlParametersValue. Qed.

(* layout facts the statements below rely on, re-checked against the regenerated descriptors *)
Lemma CP_layout : CP = [(104, KModel CPV false)].
Proof. reflexivity. Qed.
Lemma CR_layout : exists tc tt, CR = [(tc, KUint None); (tt, KBytes true); (104, KModel CPV false)].
Proof. do 2 eexists. reflexivity. Qed.
Lemma CPV_first_is_name : exists r, CPV = (TYPE_NAME, KName) :: r.
Proof. eexists. reflexivity. Qed.

Lemma comp_get_value_enc t v :
  t < two64 -> N.of_nat (length v) < two64 -> comp_get_value (comp_enc t v) = Ok v.
Proof.
  intros Ht Hv. unfold comp_get_value, comp_enc.
  rewrite tl_dec_enc by exact Ht. cbn [bind snd].
  rewrite <- (tl_enc_length t), skipn_app_exact.
  rewrite tl_dec_enc by exact Hv. cbn [bind snd].
  rewrite <- (tl_enc_length (N.of_nat (length v))).
  rewrite <- app_length, app_assoc, skipn_app_exact. reflexivity.
Qed.

Lemma pact_tlv t p :
  t < two64 -> N.of_nat (length p) < two64 -> parse_and_check_tl (tlv t p) t = Ok p.
Proof.
  intros Ht Hp. unfold parse_and_check_tl, tlv.
  rewrite tl_dec_enc by exact Ht. cbn [bind].
  rewrite <- (tl_enc_length t), skipn_app_exact.
  rewrite tl_dec_enc by exact Hp. cbn [bind].
  rewrite N.eqb_refl. cbn [negb].
  rewrite <- (tl_enc_length (N.of_nat (length p))).
  replace (N.of_nat (length (tl_enc t ++ tl_enc (N.of_nat (length p)) ++ p)) =?
           N.of_nat (length (tl_enc t) + length (tl_enc (N.of_nat (length p)))) + N.of_nat (length p)) with true.
  - cbn [negb]. rewrite <- app_length, app_assoc, skipn_app_exact. reflexivity.
  - symmetry. apply N.eqb_eq. rewrite !app_length. lia.
Qed.

Lemma concat_snoc_length (pre : list (list N)) (c : list N) :
  length (concat (pre ++ [c])) = (length (concat pre) + length c)%nat.
Proof. rewrite concat_app, app_length. cbn [concat]. rewrite app_nil_r. reflexivity. Qed.

(* ---- make_command_v2 ------------------------------------------------------------------------------ *)
(* the four leading components for the commands registration uses *)
Definition c_of (s : str) : bytes := comp_enc TYPE_GENERIC s.
Lemma command_prefix_rib local verb :
  verb = s_register \/ verb = s_unregister ->
  command_prefix local s_rib verb =
    Ok [c_of (if local then [108;111;99;97;108;104;111;115;116] else [108;111;99;97;108;104;111;112]);
        c_of [110;102;100]; c_of s_rib; c_of verb].
Proof. intros [-> | ->]; destruct local; vm_compute; reflexivity. Qed.

(* the parameters component decodes to exactly the given values, for every module/command and every legal
   keyword set (register/unregister: only the prefix) *)
Theorem command_parameters_roundtrip local module command cpv nm :
  Forall2 (fun f v => fits (snd f) v) CPV cpv ->
  make_command_v2 local module command cpv = Ok nm ->
  N.of_nat (length (concat nm)) < two64 ->
  exists pre c, nm = pre ++ [c] /\ command_prefix local module command = Ok pre /\
                command_parameters nm = Ok cpv.
Proof.
  intros HF H Hlen. unfold make_command_v2 in H.
  destruct (command_prefix local module command) as [pre|] eqn:Ep; [|discriminate]. cbn [bind] in H.
  destruct (encode_model (depth_of CP) CP [VModel cpv]) as [w|] eqn:Ew; [|discriminate]. cbn [bind] in H.
  change (comp_from_bytes w (Z.of_N TYPE_GENERIC)) with (Ok (comp_enc TYPE_GENERIC w)) in H. cbn [bind] in H.
  injection H as <-.
  exists pre, (comp_enc TYPE_GENERIC w). split; [reflexivity|]. split; [reflexivity|].
  assert (Hw : N.of_nat (length w) < two64).
  { rewrite concat_snoc_length in Hlen. unfold comp_enc in Hlen. rewrite !app_length in Hlen. lia. }
  unfold command_parameters. rewrite rev_app_distr. cbn [rev app].
  rewrite comp_get_value_enc; [|reflexivity|exact Hw]. cbn [bind].
  rewrite (parse_encode_roundtrip (depth_of CP) CP false [VModel cpv] w); [reflexivity|exact wf_CP| |exact Ew|exact Hw].
  rewrite CP_layout. constructor; [|constructor]. cbn [snd]. constructor. exact HF.
Qed.

Definition good_comp (c : bytes) : Prop :=
  exists t v, c = comp_enc t v /\ t < two64 /\ N.of_nat (length v) < two64.

Lemma params_of_prefix_fits prefix :
  Forall good_comp prefix -> Forall2 (fun f v => fits (snd f) v) CPV (params_of_prefix prefix).
Proof.
  intros H. unfold params_of_prefix, CPV, Generated.Schemas.nfd_mgmt_ControlParametersValue.
  cbn [blank map upd]. constructor; [cbn [snd]; constructor; exact H|].
  repeat (constructor; [cbn [snd]; apply fits_none|]). constructor.
Qed.

(* C17: a register/unregister command names exactly that prefix in its control parameters *)
Theorem command_names_prefix local verb prefix nm :
  verb = s_register \/ verb = s_unregister ->
  Forall good_comp prefix ->
  make_command_v2 local s_rib verb (params_of_prefix prefix) = Ok nm ->
  N.of_nat (length (concat nm)) < two64 ->
  exists c, nm = [c_of (if local then [108;111;99;97;108;104;111;115;116] else [108;111;99;97;108;104;111;112]);
                  c_of [110;102;100]; c_of s_rib; c_of verb; c] /\
            command_parameters nm = Ok (params_of_prefix prefix).
Proof.
  intros Hv Hp H Hl.
  destruct (command_parameters_roundtrip local s_rib verb _ nm (params_of_prefix_fits prefix Hp) H Hl)
    as (pre & c & -> & Epre & Hc).
  rewrite (command_prefix_rib local verb Hv) in Epre. injection Epre as <-.
  exists c. split; [reflexivity|exact Hc].
Qed.

(* ---- make_command (v1 format) --------------------------------------------------------------------- *)
Lemma digest_sig_info_val : digest_sig_info = Ok [27; 1; 0].
Proof. vm_compute. reflexivity. Qed.

Section V1.
  Variable sha256 : bytes -> bytes.

  (* C17 (v1 command format): the command is the v2 name followed by four generic components:
     8-byte timestamp, 8-byte nonce, SignatureInfo(DigestSha256), SignatureValue = SHA-256 of all the
     preceding components *)
  Theorem make_command_shape local module command cpv ts nonce nm :
    make_command sha256 local module command cpv ts nonce = Ok nm ->
    exists base,
      make_command_v2 local module command cpv = Ok base /\
      ts < two64 /\ nonce < two64 /\
      let signed := base ++ [comp_enc TYPE_GENERIC (N_to_be 8 ts); comp_enc TYPE_GENERIC (N_to_be 8 nonce);
                             comp_enc TYPE_GENERIC [TYPE_SIGNATURE_INFO; 3; 27; 1; 0]] in
      nm = signed ++ [comp_enc TYPE_GENERIC ([TYPE_SIGNATURE_VALUE; 32] ++ sha256 (concat signed))].
  Proof.
    unfold make_command. intros H.
    destruct (make_command_v2 local module command cpv) as [base|]; [|discriminate]. cbn [bind] in H.
    unfold struct_pack1 in H. cbn [sfmt_bound sfmt_width] in H.
    destruct ((0 <=? Z.of_N ts)%Z && (Z.of_N ts <? 18446744073709551616)%Z) eqn:E1; [|discriminate].
    cbn [bind] in H.
    destruct ((0 <=? Z.of_N nonce)%Z && (Z.of_N nonce <? 18446744073709551616)%Z) eqn:E2; [|discriminate].
    cbn [bind] in H. rewrite digest_sig_info_val in H. cbn [bind length] in H.
    rewrite !N2Z.id in H.
    change (255 <? N.of_nat 3) with false in H. cbn iota in H.
    injection H as <-. exists base. split; [reflexivity|].
    unfold two64. split; [lia|]. split; [lia|].
    cbn zeta. rewrite <- !app_assoc. cbn [app]. reflexivity.
  Qed.

  (* the forwarder reads the same timestamp back *)
  Lemma timestamp_component_decodes ts :
    ts < two64 ->
    comp_to_number (comp_enc TYPE_GENERIC (N_to_be 8 ts)) = Ok ts.
  Proof.
    intros H. unfold comp_to_number. rewrite comp_get_value_enc.
    - cbn [bind]. rewrite be_to_N_to_be_small; [reflexivity|]. exact H.
    - reflexivity.
    - rewrite N_to_be_length. reflexivity.
  Qed.
End V1.

(* ---- parse_response ----------------------------------------------------------------------------------- *)
Definition params_of_body (body : value) : list value :=
  match body with VModel ps => ps | _ => blank CPV end.

(* C17: decoding a management response returns the fields that were encoded *)
Theorem response_roundtrip sc st body w :
  Forall2 (fun f v => fits (snd f) v) CR [sc; st; body] ->
  response_wire sc st body = Ok w ->
  N.of_nat (length w) < two64 ->
  parse_response (Some w) = Ok (sc, st, params_of_body body).
Proof.
  intros HF H Hl. unfold response_wire in H.
  destruct (encode_model (depth_of CR) CR [sc; st; body]) as [w0|] eqn:Ew; [|discriminate]. cbn [bind] in H.
  injection H as <-.
  assert (Hw0 : N.of_nat (length w0) < two64).
  { rewrite tlv_length in Hl. lia. }
  unfold parse_response, parse_response_gen. rewrite pact_tlv; [|reflexivity|exact Hw0]. cbn [bind].
  rewrite (parse_encode_roundtrip (depth_of CR) CR false [sc; st; body] w0 wf_CR HF Ew Hw0).
  destruct body; reflexivity.
Qed.

(* the status a forwarder encoded is the status that is read *)
Corollary response_status sc st body w :
  Forall2 (fun f v => fits (snd f) v) CR [sc; st; body] ->
  response_wire sc st body = Ok w -> N.of_nat (length w) < two64 ->
  exists t ps, parse_response (Some w) = Ok (sc, t, ps).
Proof. intros A B C. do 2 eexists. exact (response_roundtrip sc st body w A B C). Qed.

(* parse_response raises nothing but what register/unregister catch *)
Definition caught (e : err) : bool :=
  match e with EDecode | EValue | EUnicode | EIndex | EType | EStruct => true | _ => false end.

Lemma parse_response_errors c e : parse_response c = Err e -> caught e = true.
Proof.
  unfold parse_response, parse_response_gen. destruct c as [b|]; [|intros H; injection H as <-; reflexivity].
  pose proof (pact_doc b RESPONSE_TYPE) as D1.
  destruct (parse_and_check_tl b RESPONSE_TYPE) as [v|e1]; cbn [bind].
  - pose proof (parse_model_doc (depth_of CR) CR false v wf_CR) as D2.
    assert (Hd : (fields_depth CR <= S (depth_of CR))%nat) by (unfold depth_of; lia).
    specialize (D2 Hd).
    destruct (parse_model (depth_of CR) CR false v) as [vs|e2]; cbn [bind].
    + intros H.
      destruct vs as [|sc [|st [|body [|x r]]]]; try (injection H as <-; reflexivity);
        destruct body; try discriminate; injection H as <-; reflexivity.
    + intros H. injection H as <-. unfold res_documented, documented in D2. destruct e2; try discriminate; reflexivity.
  - intros H. injection H as <-. unfold res_documented, documented in D1. destruct e1; try discriminate; reflexivity.
Qed.

(* ---- the status datasets and the other management models: same round trip ---------------------------- *)
(* [nfd_models] (the 20 descriptors) is defined in Model/NfdMgmt.v, where the extracted model uses it too *)
Lemma nfd_models_wf : forallb wf_fieldsb nfd_models = true.
Proof. vm_compute. reflexivity. Qed.

Theorem dataset_roundtrip fs d ic vs w :
  In fs nfd_models ->
  Forall2 (fun f v => fits (snd f) v) fs vs ->
  encode_model d fs vs = Ok w -> N.of_nat (length w) < two64 ->
  parse_model d fs ic w = Ok vs.
Proof.
  intros Hin. apply parse_encode_roundtrip. apply wf_fieldsb_spec.
  exact (proj1 (forallb_forall _ _) nfd_models_wf fs Hin).
Qed.

(* the form the extracted model runs (Cls.parse / obj.encode of an application) *)
Theorem dataset_parse_wire fs vs w :
  In fs nfd_models ->
  Forall2 (fun f v => fits (snd f) v) fs vs ->
  dataset_wire fs vs = Ok w -> N.of_nat (length w) < two64 ->
  dataset_parse fs w = Ok vs.
Proof. unfold dataset_wire, dataset_parse. apply dataset_roundtrip. Qed.
