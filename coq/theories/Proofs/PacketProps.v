(* C07: decoder-level corollaries for the four shipped packet decoders. *)
From NDN Require Import Base.Prelude Model.TlvVar Model.Name Model.Tlv Model.Packet Spec.StrictTlv Spec.TlvWf
  Generated.Schemas Proofs.TlvMore Proofs.PacketDecode Proofs.PacketTotal.
Local Open Scope N_scope.

Lemma require_name_doc fs r : res_documented r -> res_documented (require_name fs r).
Proof.
  intros H. unfold require_name. apply bind_doc; [exact H|]. intros vs _.
  destruct (field_value fs vs TYPE_NAME); cbn; auto.
Qed.

Lemma no_frag_doc fs r : res_documented r -> res_documented (no_fragmentation fs r).
Proof.
  intros H. unfold no_fragmentation. apply bind_doc; [exact H|]. intros vs _.
  destruct (field_value fs vs LP_FRAG_INDEX); destruct (field_value fs vs LP_FRAG_COUNT); cbn; auto.
Qed.

Theorem dec_interest_doc w : res_documented (dec_interest w).
Proof. apply require_name_doc, gen_decode_doc, wf_fieldsb_spec, wf_ndn_format_0_3_InterestPacketValue. Qed.
Theorem dec_data_doc w : res_documented (dec_data w).
Proof. apply require_name_doc, gen_decode_doc, wf_fieldsb_spec, wf_ndn_format_0_3_DataPacketValue. Qed.
Theorem dec_cert_doc w : res_documented (dec_cert w).
Proof. apply require_name_doc, gen_decode_doc, wf_fieldsb_spec, wf_security_v2_CertificateV2Value. Qed.
Theorem dec_lp_doc w : res_documented (dec_lp w).
Proof. apply no_frag_doc, gen_decode_doc, wf_fieldsb_spec, wf_ndnlp_v2_LpPacketValue. Qed.

(* an accepted Interest / Data / certificate has a Name *)
Lemma require_name_inv fs r vs : require_name fs r = Ok vs -> field_value fs vs TYPE_NAME <> VNone.
Proof.
  unfold require_name. destruct r as [x|]; [|discriminate]. cbn [bind].
  destruct (field_value fs x TYPE_NAME) eqn:E; try discriminate; intros H; inversion H; subst; rewrite E; discriminate.
Qed.

(* integers have a legal width *)
Lemma parse_uint_width d fx e v :
  parse_val (S d) (KUint fx) e = Ok v ->
  (e_dlen e = 1 \/ e_dlen e = 2 \/ e_dlen e = 4 \/ e_dlen e = 8) /\
  N.of_nat (length (e_payload e)) = e_dlen e /\ v = VUint (be_to_N (e_payload e)).
Proof.
  cbn [parse_val]. destruct ((e_dlen e =? 1) || (e_dlen e =? 2) || (e_dlen e =? 4) || (e_dlen e =? 8)) eqn:E; [|discriminate].
  destruct (N.of_nat (length (e_payload e)) =? e_dlen e) eqn:E2; [|discriminate].
  intros H; inversion H; subst. repeat split; try lia.
Qed.
