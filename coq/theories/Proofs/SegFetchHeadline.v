(* C19 lemmas, part 3: what [expected] is, in the words of the property. *)
From NDN Require Import Base.Prelude Model.TlvVar Model.Name Model.SegFetch Spec.SegFetchSpec.
From NDN Require Import Proofs.SegFetchBasics Proofs.SegFetchRefine.
Local Open Scope nat_scope.

(* ---- one key --------------------------------------------------------------------------------- *)

Lemma burst_answered f att : forall n,
  burst f n att = KAnswered <->
  exists j, j < att /\ f (n + j) = Delivered /\ forall j', j' < j -> f (n + j') = Lost.
Proof.
  induction att as [|a IH]; intros n; cbn [burst].
  - split; [discriminate | intros (j & H & _); lia].
  - destruct (f n) eqn:F.
    + rewrite IH. split.
      * intros (j & Hj & D & L). exists (Datatypes.S j). split; [lia|]. split.
        { rewrite <- D. f_equal. lia. }
        intros j' Hj'. destruct j' as [|j']. { rewrite Nat.add_0_r. exact F. }
        rewrite <- (L j') by lia. f_equal. lia.
      * intros (j & Hj & D & L). destruct j as [|j]. { rewrite Nat.add_0_r in D. congruence. }
        exists j. split; [lia|]. split. { rewrite <- D. f_equal. lia. }
        intros j' Hj'. rewrite <- (L (Datatypes.S j')) by lia. f_equal. lia.
    + split; [discriminate|]. intros (j & Hj & D & L). destruct j as [|j].
      { rewrite Nat.add_0_r in D. congruence. }
      specialize (L 0 ltac:(lia)). rewrite Nat.add_0_r in L. congruence.
    + split; [discriminate|]. intros (j & Hj & D & L). destruct j as [|j].
      { rewrite Nat.add_0_r in D. congruence. }
      specialize (L 0 ltac:(lia)). rewrite Nat.add_0_r in L. congruence.
    + split; [|reflexivity]. intros _. exists 0. rewrite Nat.add_0_r.
      split; [lia|]. split; [exact F|]. intros j' Hj'. lia.
Qed.

Lemma burst_exhausted f att : forall n,
  burst f n att = KExhausted <-> forall j, j < att -> f (n + j) = Lost.
Proof.
  induction att as [|a IH]; intros n; cbn [burst].
  - split; [intros _ j Hj; lia | reflexivity].
  - destruct (f n) eqn:F.
    + rewrite IH. split.
      * intros H j Hj. destruct j as [|j]. { rewrite Nat.add_0_r. exact F. }
        rewrite <- (H j) by lia. f_equal. lia.
      * intros H j Hj. rewrite <- (H (Datatypes.S j)) by lia. f_equal. lia.
    + split; [discriminate|]. intros H. specialize (H 0 ltac:(lia)). rewrite Nat.add_0_r in H. congruence.
    + split; [discriminate|]. intros H. specialize (H 0 ltac:(lia)). rewrite Nat.add_0_r in H. congruence.
    + split; [discriminate|]. intros H. specialize (H 0 ltac:(lia)). rewrite Nat.add_0_r in H. congruence.
Qed.

Lemma burst_nofault f att : (forall m, f m = Lost \/ f m = Delivered) ->
  forall n, burst f n att = KExhausted \/ burst f n att = KAnswered.
Proof.
  intros H. induction att as [|a IH]; intros n; cbn [burst]; [left; reflexivity|].
  destruct (H n) as [E|E]; rewrite E; [apply IH | right; reflexivity].
Qed.

Lemma tolerable_iff S retry k : tolerable S retry k <-> tolerable_explicit S retry k.
Proof. unfold tolerable, tolerable_explicit, result_of. rewrite burst_answered. reflexivity. Qed.

Lemma exhausted_iff S retry k : result_of S retry k = KExhausted <-> exhausted S retry k.
Proof. unfold exhausted, result_of. rewrite burst_exhausted. reflexivity. Qed.

Lemma tolerable_dec S retry k : tolerable S retry k \/ ~ tolerable S retry k.
Proof. unfold tolerable. destruct (result_of S retry k); [right|right|left]; congruence. Qed.

(* ---- the segment walk ---------------------------------------------------------------------- *)

Section Walk.
  Variable S : scenario.
  Variable retry : nat.

  Lemma walk_complete : forall len i,
    1 <= len ->
    (forall t, i <= t < i + len -> result_of S retry (KSeg t) = KAnswered) ->
    (forall t, i <= t < i + len - 1 -> is_final (obj S) t = false) ->
    is_final (obj S) (i + len - 1) = true ->
    walk S retry (seq i len) = (map (content (obj S)) (seq i len), Completed).
  Proof.
    induction len as [|len IH]; intros i H1 HA HF HL; [lia|].
    cbn [seq walk map]. rewrite (HA i) by lia. destruct len as [|len'].
    - replace (i + 1 - 1) with i in HL by lia. rewrite HL. reflexivity.
    - rewrite (HF i) by lia. rewrite (IH (Datatypes.S i)).
      + reflexivity.
      + lia.
      + intros t Ht. apply HA. lia.
      + intros t Ht. apply HF. lia.
      + rewrite <- HL. f_equal. lia.
  Qed.

  Lemma walk_stops : forall len i j,
    i <= j < i + len ->
    (forall t, i <= t < j -> result_of S retry (KSeg t) = KAnswered /\ is_final (obj S) t = false) ->
    result_of S retry (KSeg j) <> KAnswered ->
    walk S retry (seq i len) =
      (map (content (obj S)) (seq i (j - i)), Raised (exc_of (result_of S retry (KSeg j)))).
  Proof.
    induction len as [|len IH]; intros i j Hj Hpre Hbad; [lia|]. cbn [seq walk].
    destruct (Nat.eq_dec i j) as [->|Hne].
    - replace (j - j) with 0 by lia.
      destruct (result_of S retry (KSeg j)); [reflexivity|reflexivity|contradiction].
    - destruct (Hpre i ltac:(lia)) as [A F]. rewrite A, F.
      rewrite (IH (Datatypes.S i) j); [|lia|intros t Ht; apply Hpre; lia|exact Hbad].
      replace (j - i) with (Datatypes.S (j - Datatypes.S i)) by lia. reflexivity.
  Qed.

  (* ---- the whole fetch ------------------------------------------------------------------------ *)

  Definition marked (S : scenario) : Prop :=
    match disc S with DSeg _ => well_marked (obj S) | DWhole _ _ _ => True end.

  Hypothesis HW : wf_scenario S.
  Hypothesis HM : marked S.

  Lemma seq_S_head n : 1 <= n -> seq 0 n = 0 :: seq 1 (n - 1).
  Proof. intros H. destruct n; [lia|]. cbn [seq]. f_equal. f_equal. lia. Qed.

  Theorem expected_all_tolerable :
    (forall k, needed S k -> tolerable S retry k) -> expected S retry = (all_contents S, Completed).
  Proof.
    intros HT. unfold expected, all_contents. rewrite (HT KDisc I).
    unfold marked in HM. destruct HW as [_ HD]. unfold needed, first_needed, tolerable in HT.
    destruct (disc S) as [k|nm c m]; [|reflexivity].
    destruct HM as (M1 & M2 & M3). destruct k as [|k'].
    - destruct (is_final (obj S) 0) eqn:F0.
      + assert (nseg (obj S) = 1).
        { destruct (Nat.eq_dec (nseg (obj S)) 1) as [E|E]; [exact E|]. rewrite M3 in F0 by lia. discriminate. }
        rewrite H. reflexivity.
      + assert (2 <= nseg (obj S)).
        { destruct (Nat.eq_dec (nseg (obj S)) 1) as [E|E]; [|lia]. rewrite E in M2. cbn in M2. congruence. }
        rewrite walk_complete.
        * rewrite (seq_S_head (nseg (obj S))) by lia. reflexivity.
        * lia.
        * intros t Ht. apply (HT (KSeg t)). lia.
        * intros t Ht. apply M3. lia.
        * rewrite <- M2. f_equal. lia.
    - rewrite walk_complete.
      + reflexivity.
      + lia.
      + intros t Ht. apply (HT (KSeg t)). lia.
      + intros t Ht. apply M3. lia.
      + exact M2.
  Qed.

  Theorem expected_first_failure k :
    needed S k -> (forall k', needed S k' -> before k' k -> tolerable S retry k') ->
    ~ tolerable S retry k ->
    expected S retry = (contents_before S k, Raised (exc_of (result_of S retry k))).
  Proof.
    intros Hk Hpre Hbad. unfold tolerable in *. unfold expected. destruct k as [|j].
    - cbn [contents_before]. destruct (result_of S retry KDisc); [reflexivity|reflexivity|contradiction].
    - rewrite (Hpre KDisc I I). unfold marked in HM. unfold needed, first_needed in Hk, Hpre.
      cbn [contents_before]. destruct (disc S) as [k|nm c m]; [|contradiction].
      destruct HM as (M1 & M2 & M3). destruct k as [|k'].
      + rewrite M3 by lia. rewrite (walk_stops _ 1 j); [|lia| |exact Hbad].
        * replace (seq 0 j) with (0 :: seq 1 (j - 1)) by (symmetry; apply seq_S_head; lia). reflexivity.
        * intros t Ht. split; [apply (Hpre (KSeg t)); [lia|cbn; lia] | apply M3; lia].
      + rewrite (walk_stops _ 0 j); [|lia| |exact Hbad].
        * rewrite Nat.sub_0_r. reflexivity.
        * intros t Ht. split; [apply (Hpre (KSeg t)); [lia|cbn; lia] | apply M3; lia].
  Qed.

  (* either every needed key is tolerable, or there is a first one that is not *)
  Lemma least_bad (P : nat -> Prop) (dec : forall t, P t \/ ~ P t) : forall n s,
    (forall t, s <= t < s + n -> P t) \/
    exists j, s <= j < s + n /\ ~ P j /\ forall t, s <= t < j -> P t.
  Proof.
    induction n as [|n IH]; intros s; [left; intros; lia|].
    destruct (dec s) as [Hs|Hs].
    - destruct (IH (Datatypes.S s)) as [H|(j & Hj & Hb & Hp)].
      + left. intros t Ht. destruct (Nat.eq_dec t s) as [->|]; [exact Hs|apply H; lia].
      + right. exists j. split; [lia|]. split; [exact Hb|].
        intros t Ht. destruct (Nat.eq_dec t s) as [->|]; [exact Hs|apply Hp; lia].
    - right. exists s. split; [lia|]. split; [exact Hs|]. intros; lia.
  Qed.

  Lemma first_bad_or_all_good :
    (forall k, needed S k -> tolerable S retry k) \/
    exists k, needed S k /\ ~ tolerable S retry k /\ forall k', needed S k' -> before k' k -> tolerable S retry k'.
  Proof.
    destruct (tolerable_dec S retry KDisc) as [HD|HD].
    2:{ right. exists KDisc. split; [exact I|]. split; [exact HD|]. intros k' _ B. destruct k'; contradiction. }
    destruct (disc S) as [k|nm c m] eqn:ED.
    - destruct (least_bad (fun t => tolerable S retry (KSeg t)) (fun t => tolerable_dec S retry (KSeg t))
                  (nseg (obj S) - first_needed S) (first_needed S)) as [H|(j & Hj & Hb & Hp)].
      + left. intros [|i] Hn; [exact HD|]. apply H. unfold needed in Hn. rewrite ED in Hn. lia.
      + right. exists (KSeg j). split; [unfold needed; rewrite ED; lia|]. split; [exact Hb|].
        intros [|i] Hn B; [exact HD|]. apply Hp. unfold needed in Hn. rewrite ED in Hn. cbn in B. lia.
    - left. intros [|i] Hn; [exact HD|]. unfold needed in Hn. rewrite ED in Hn. contradiction.
  Qed.

  Theorem completes_iff_all_tolerable :
    snd (expected S retry) = Completed <-> forall k, needed S k -> tolerable S retry k.
  Proof.
    split.
    - intros HC. destruct first_bad_or_all_good as [H|(k & Hn & Hb & Hp)]; [exact H|].
      rewrite (expected_first_failure k Hn Hp Hb) in HC. discriminate.
    - intros H. rewrite (expected_all_tolerable H). reflexivity.
  Qed.

  Theorem timeout_iff_exhausted :
    no_faults S ->
    (snd (expected S retry) = Raised XTimeout <-> exists k, needed S k /\ exhausted S retry k).
  Proof.
    intros NF. split.
    - intros HT. destruct first_bad_or_all_good as [H|(k & Hn & Hb & Hp)].
      + rewrite (expected_all_tolerable H) in HT. discriminate.
      + exists k. split; [exact Hn|]. apply exhausted_iff.
        destruct (burst_nofault (fate_of S k) (attempts_of retry) (NF k) 0) as [E|E]; [exact E|contradiction].
    - intros (k & Hn & He). apply exhausted_iff in He.
      destruct first_bad_or_all_good as [H|(k' & Hn' & Hb' & Hp')].
      + specialize (H k Hn). unfold tolerable in H. congruence.
      + rewrite (expected_first_failure k' Hn' Hp' Hb'). cbn [snd].
        destruct (burst_nofault (fate_of S k') (attempts_of retry) (NF k') 0) as [E|E]; [|contradiction].
        unfold result_of. rewrite E. reflexivity.
  Qed.
End Walk.
