(* C04, registration API of the legacy front-end: the table steps of register / unregister refine the
   specification; frame properties; every statement about "the state after any history" extends to
   histories with these events. *)
From NDN Require Import Base.Prelude Base.Text Model.TlvVar Model.Name Model.Trie Model.Dispatch Spec.DispatchSpec
  Model.DispatchV1 Spec.DispatchV1Spec Proofs.TrieProofs Proofs.DispatchProofs Proofs.DispatchTop.
Local Open Scope N_scope.

Lemma wf_desugar o : wf_vop o -> Forall wf_op (desugar o).
Proof.
  destruct o as [o|k [h|] v ex|k]; cbn; intros W; repeat constructor; try exact W.
Qed.

Lemma vstep_state fe s o : fst (vstep fe s o) = exec fe s (desugar o).
Proof. destruct o as [o|k [h|] v ex|k]; reflexivity. Qed.

Lemma exec_app fe s l1 l2 : exec fe s (l1 ++ l2) = exec fe (exec fe s l1) l2.
Proof. unfold exec. apply fold_left_app. Qed.

Lemma vexec_desugar fe l s : vexec fe s l = exec fe s (flat_map desugar l).
Proof.
  revert s. induction l as [|o l IH]; intros s; [reflexivity|].
  cbn [vexec fold_left flat_map]. rewrite exec_app, <- vstep_state. apply IH.
Qed.

Lemma wf_flat l : Forall wf_vop l -> Forall wf_op (flat_map desugar l).
Proof.
  induction 1 as [|o l W _ IH]; cbn; [constructor|]. apply Forall_app. split; [apply wf_desugar; exact W|exact IH].
Qed.

Lemma vrun_from_vexec fe s l : fst (vrun_from fe s l) = vexec fe s l.
Proof.
  revert s. induction l as [|o l IH]; intros s; [reflexivity|]. cbn.
  destruct (vstep fe s o) as [s1 b] eqn:E. specialize (IH s1). destruct (vrun_from fe s1 l) as [s2 bs].
  cbn in *. exact IH.
Qed.

(* dispatch = longest attached prefix after ANY history that also registers (with and without a handler) and
   unregisters *)
Theorem v1_lpm fe l n h :
  Forall wf_vop l ->
  let t := s_fib (vexec fe st0 l) in
  dispatch t n = Some h <-> exists p, is_lpm (attached t) n p h.
Proof. intros W. cbn zeta. rewrite vexec_desugar. apply top_lpm. apply wf_flat. exact W. Qed.

Theorem v1_none fe l n :
  Forall wf_vop l ->
  let t := s_fib (vexec fe st0 l) in
  dispatch t n = None <-> forall p, prefix p n -> attached t p = None.
Proof. intros W. cbn zeta. rewrite vexec_desugar. apply top_none. apply wf_flat. exact W. Qed.

(* register without a handler: nothing at all changes (no attachment, no lookup, nothing queued) *)
Theorem v1_register_none fe s k v ex : vstep fe s (VRegister k None v ex) = (s, ObOk).
Proof. reflexivity. Qed.

(* register with a handler is attach *)
Theorem v1_register_some fe s k h v ex :
  vstep fe s (VRegister k (Some h) v ex) = step fe s (OAttach k (Some h) v ex).
Proof. reflexivity. Qed.

(* unregister: never an error; k is free afterwards; every other prefix keeps its handler; nothing queued or
   delivered changes *)
Theorem v1_unregister_frame fe l k :
  Forall wf_vop l ->
  let s := vexec fe st0 l in
  let r := vstep fe s (VUnregister k) in
  snd r = ObOk /\ attached (s_fib (fst r)) k = None /\
  (forall q, q <> k -> attached (s_fib (fst r)) q = attached (s_fib s) q) /\
  s_pending (fst r) = s_pending s /\ s_calls (fst r) = s_calls s.
Proof.
  intros W s r. subst r. cbn [vstep step fst snd].
  assert (A : all_cb (s_fib s)).
  { subst s. rewrite vexec_desugar. apply reach_all_cb. apply wf_flat. exact W. }
  pose proof (fib_detach_spec (s_fib s) k A) as S. destruct (attached (s_fib s) k) eqn:E.
  - destruct S as (t' & -> & Gk & G). cbn. repeat split; try reflexivity.
    + unfold attached. rewrite Gk. reflexivity.
    + intros q N. unfold attached. rewrite G by exact N. reflexivity.
  - rewrite S. cbn. repeat split; try reflexivity. exact E.
Qed.

(* ---- refinement ----------------------------------------------------------------------------------- *)
Lemma vstep_refines fe s ss o so :
  R s ss -> svop_of fe o = Some so ->
  R (fst (vstep fe s o)) (fst (svstep fe ss so)) /\ abs_obs (snd (vstep fe s o)) = Some (snd (svstep fe ss so)).
Proof.
  intros HR Ho. destruct o as [o|k [h|] v ex|k]; cbn [svop_of] in Ho.
  - destruct (sop_of fe o) as [so'|] eqn:Eo; [|discriminate]. inversion Ho; subst so. cbn [vstep svstep].
    apply step_refines; assumption.
  - inversion Ho; subst so. cbn [vstep svstep]. apply step_refines; [exact HR|reflexivity].
  - inversion Ho; subst so. cbn [vstep svstep fst snd abs_obs]. split; [exact HR|reflexivity].
  - inversion Ho; subst so. cbn [vstep svstep fst snd abs_obs]. split; [|reflexivity].
    destruct HR as (Ra & Rc & Rp & Rl). cbn [step].
    pose proof (fib_detach_spec (s_fib s) k Rc) as S. pose proof (fib_detach_all_cb (s_fib s) k Rc) as C.
    destruct (attached (s_fib s) k) eqn:E.
    + destruct S as (t' & Et & Gk & G). rewrite Et in C |- *. cbn in C |- *.
      repeat split; try assumption.
      intros p. cbn. unfold a_upd. destruct (name_dec p k) as [->|N].
      * rewrite name_eqb_refl. unfold attached. rewrite Gk. reflexivity.
      * rewrite name_eqb_neq by exact N. rewrite <- Ra. unfold attached. rewrite G by exact N. reflexivity.
    + rewrite S in *. cbn. repeat split; try assumption.
      intros p. cbn. unfold a_upd. destruct (name_dec p k) as [->|N].
      * rewrite name_eqb_refl. exact E.
      * rewrite name_eqb_neq by exact N. apply Ra.
Qed.

Theorem vrun_refines fe l sl s ss :
  R s ss -> svops_of fe l = Some sl ->
  R (fst (vrun_from fe s l)) (fst (svrun_from fe ss sl)) /\
  map abs_obs (snd (vrun_from fe s l)) = map Some (snd (svrun_from fe ss sl)).
Proof.
  revert sl s ss. induction l as [|o l IH]; intros sl s ss HR Hs.
  - inversion Hs; subst. cbn. auto.
  - cbn [svops_of] in Hs. destruct (svop_of fe o) as [so|] eqn:Eo; [|discriminate].
    destruct (svops_of fe l) as [sos|] eqn:Es; [|discriminate]. inversion Hs; subst sl. clear Hs.
    destruct (vstep_refines fe s ss o so HR Eo) as [HR1 Hob].
    cbn [vrun_from svrun_from]. destruct (vstep fe s o) as [s1 b]. destruct (svstep fe ss so) as [ss1 sb]. cbn in HR1, Hob.
    specialize (IH sos s1 ss1 HR1 eq_refl).
    destruct (vrun_from fe s1 l) as [s2 bs]. destruct (svrun_from fe ss1 sos) as [ss2 sbs]. cbn in *.
    destruct IH as [IH1 IH2]. split; [exact IH1|]. rewrite Hob, IH2. reflexivity.
Qed.

Theorem v1_refines fe l sl :
  svops_of fe l = Some sl ->
  map abs_obs (snd (vrun_ops fe l)) = map Some (snd (svrun fe sl)) /\
  s_calls (fst (vrun_ops fe l)) = ss_calls (fst (svrun fe sl)) /\
  s_pending (fst (vrun_ops fe l)) = ss_pending (fst (svrun fe sl)) /\
  forall p, attached (s_fib (fst (vrun_ops fe l))) p = ss_att (fst (svrun fe sl)) p.
Proof.
  intros H. destruct (vrun_refines fe l sl st0 sst0 R0 H) as [(Ra & _ & Rp & Rl) Ho].
  unfold vrun_ops, svrun. auto.
Qed.
