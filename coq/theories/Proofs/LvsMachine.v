(* The iterative matching machine of Checker._match (Model/LvsChecker.mrun) computes, on every
   model whose reachable part passes the sanity rules, the same thing as the obvious recursive
   depth-first traversal [tree_fold]; it does so within [cost] steps. *)
From NDN Require Import Base.Prelude Base.Text Model.TlvVar Model.Name Model.LvsAst Model.LvsChecker
  Spec.LvsSem Spec.LvsTree.
Local Open Scope N_scope.

(* ---- generic list facts ------------------------------------------------------------------- *)
Lemma skipn_cons_nth {A} (l : list A) k v rest :
  skipn k l = v :: rest -> nth_error l k = Some v /\ skipn (S k) l = rest.
Proof.
  revert l; induction k as [|k IH]; intros [|x l] H; cbn in *; try discriminate.
  - inversion H; subst. split; [reflexivity | destruct rest; reflexivity].
  - apply IH in H. exact H.
Qed.

Lemma skipn_nil_length {A} (l : list A) k : skipn k l = [] -> (length l <= k)%nat.
Proof.
  revert l; induction k as [|k IH]; intros [|x l] H; cbn in *; try lia; try discriminate.
  apply IH in H. lia.
Qed.

Lemma skipn_cons_length {A} (l : list A) k v rest : skipn k l = v :: rest -> (k < length l)%nat.
Proof.
  intros H. apply skipn_cons_nth in H. destruct H as [H _].
  apply nth_error_Some. congruence.
Qed.

Lemma al_del_set_fresh (c : ctx) t v : al_get N.eqb c t = None -> al_del N.eqb (al_set N.eqb c t v) t = c.
Proof.
  induction c as [|[k w] c IH]; cbn; intros H.
  - rewrite N.eqb_refl. reflexivity.
  - destruct (N.eqb t k) eqn:E; [discriminate|]. cbn. rewrite E. f_equal. apply IH, H.
Qed.

Lemma al_set_fresh (c : ctx) t v : al_get N.eqb c t = None -> al_set N.eqb c t v = c ++ [(t, v)].
Proof.
  induction c as [|[k w] c IH]; cbn; intros H; [reflexivity|].
  destruct (N.eqb t k) eqn:E; [discriminate|]. f_equal. apply IH, H.
Qed.

Lemma list_sum_in {A} (g : A -> nat) (l : list A) x : In x l -> (g x <= list_sum (map g l))%nat.
Proof.
  induction l as [|y l IH]; intros H; [destruct H|].
  change (list_sum (map g (y :: l))) with (g y + list_sum (map g l))%nat.
  destruct H as [->|H]; [lia|]. specialize (IH H). lia.
Qed.

Section Machine.
  Variable ufn : ident -> option (bytes -> list (option bytes) -> res bool).
  Variable m : lvsmodel.

  Notation mstate := (mstate).
  Definition mk (cur : option N) (ei : option nat) (eis : list nat) (c : ctx) (ms : list (option N)) : mstate :=
    {| ms_cur := cur; ms_ei := ei; ms_eis := eis; ms_ctx := c; ms_ms := ms |}.

  (* ---- the recursive traversal ------------------------------------------------------------ *)
  (* crossing one pattern edge: None = not passable, Some (new context, tag pushed on [matches]) *)
  Definition try_pedge (pe : pedge) (value : bytes) (c : ctx) : res (option (ctx * option N)) :=
    match (match pe_tag pe with Some t => ctx_get c t | None => None end) with
    | Some w =>
        if negb (bytes_eqb value w) then Ok None else
        do ok <- check_cons ufn value c (pe_cons pe) ;;
        if negb ok then Ok None else Ok (Some (c, None))
    | None =>
        do ok <- check_cons ufn value c (pe_cons pe) ;;
        if negb ok then Ok None else
        match pe_tag pe with
        | None => Err EType
        | Some t => do named <- npc_leb m t ;;
                    if named then Ok (Some (al_set N.eqb c t value, Some t)) else Ok (Some (c, None))
        end
    end.

  Fixpoint pfold_gen {A R} (rec : N -> ctx -> A -> res (A + R)) (v : bytes) (c : ctx) (pes : list pedge) (a : A)
    : res (A + R) :=
    match pes with
    | [] => Ok (inl a)
    | pe :: r =>
        do t <- try_pedge pe v c ;;
        do y <- match t with
                | Some (c', _) => match pe_dest pe with Some d => rec d c' a | None => Ok (inl a) end
                | None => Ok (inl a)
                end ;;
        match y with
        | inr x => Ok (inr x)
        | inl a' => pfold_gen rec v c r a'
        end
    end.

  Fixpoint tree_fold {A R} (name : list bytes) (cur : N) (c : ctx) (f : A -> N -> ctx -> res (A + R)) (a : A)
    {struct name} : res (A + R) :=
    match get_node m cur with
    | None => Err EIndex
    | Some nd =>
        match name with
        | [] => f a cur c
        | v :: rest =>
            do x <- match find (fun ve => obytes_eqb v (ve_value ve)) (n_vedges nd) with
                    | Some ve => match ve_dest ve with Some d => tree_fold rest d c f a | None => Ok (inl a) end
                    | None => Ok (inl a)
                    end ;;
            match x with
            | inr r => Ok (inr r)
            | inl a1 => pfold_gen (fun d c' a' => tree_fold rest d c' f a') v c (n_pedges nd) a1
            end
        end
    end.

  (* an upper bound on the number of loop iterations spent below node [cur] *)
  Fixpoint cost (name : list bytes) (cur : N) : nat :=
    match name with
    | [] => 1
    | _ :: rest =>
        match get_node m cur with
        | None => 1
        | Some nd =>
            2 + list_sum (map (fun ve => match ve_dest ve with Some d => cost rest d | None => O end) (n_vedges nd))
              + list_sum (map (fun pe => S (match pe_dest pe with Some d => cost rest d | None => O end)) (n_pedges nd))
        end
    end%nat.

  (* ---- one machine step, case by case ------------------------------------------------------- *)
  Lemma mstep_yield name cur nd ei eis c ms :
    get_node m cur = Some nd -> length eis = length name ->
    mstep ufn m name cur (mk (Some cur) ei eis c ms) = Ok (backtrack nd (mk (Some cur) ei eis c ms), Some (cur, c)).
  Proof.
    intros Hn Hl. unfold mstep. rewrite Hn. cbn [ms_eis mk]. rewrite Hl, Nat.eqb_refl. reflexivity.
  Qed.

  Lemma mstep_value name cur nd eis c ms v :
    get_node m cur = Some nd -> nth_error name (length eis) = Some v ->
    mstep ufn m name cur (mk (Some cur) None eis c ms) =
    Ok (match find (fun ve => obytes_eqb v (ve_value ve)) (n_vedges nd) with
        | Some ve => mk (ve_dest ve) None (O :: eis) c (None :: ms)
        | None => mk (Some cur) (Some O) eis c ms
        end, None).
  Proof.
    intros Hn Hv. unfold mstep. rewrite Hn. cbn [ms_eis ms_ei mk].
    assert (Hlt : (length eis < length name)%nat) by (apply nth_error_Some; congruence).
    destruct (Nat.eqb_spec (length eis) (length name)); [lia|].
    destruct (n_vedges nd) as [|ve0 ves] eqn:Ev; [reflexivity|].
    rewrite Hv. destruct (find _ (ve0 :: ves)); reflexivity.
  Qed.

  Lemma mstep_back name cur nd i eis c ms :
    get_node m cur = Some nd -> (length eis < length name)%nat -> nth_error (n_pedges nd) i = None ->
    mstep ufn m name cur (mk (Some cur) (Some i) eis c ms) = Ok (backtrack nd (mk (Some cur) (Some i) eis c ms), None).
  Proof.
    intros Hn Hl Hp. unfold mstep. rewrite Hn. cbn [ms_eis ms_ei mk].
    destruct (Nat.eqb_spec (length eis) (length name)); [lia|]. rewrite Hp. reflexivity.
  Qed.

  Lemma mstep_pat name cur nd i eis c ms pe v :
    get_node m cur = Some nd -> nth_error name (length eis) = Some v -> nth_error (n_pedges nd) i = Some pe ->
    mstep ufn m name cur (mk (Some cur) (Some i) eis c ms) =
    do t <- try_pedge pe v c ;;
    Ok (match t with
        | None => mk (Some cur) (Some (S i)) eis c ms
        | Some (c', tg) => mk (pe_dest pe) None (S i :: eis) c' (tg :: ms)
        end, None).
  Proof.
    intros Hn Hv Hp. unfold mstep. rewrite Hn. cbn [ms_eis ms_ei ms_ctx ms_ms mk].
    assert (Hlt : (length eis < length name)%nat) by (apply nth_error_Some; congruence).
    destruct (Nat.eqb_spec (length eis) (length name)); [lia|]. rewrite Hp, Hv.
    unfold try_pedge, with_ei. cbn [ms_cur ms_eis ms_ctx ms_ms mk].
    destruct (match pe_tag pe with Some t => ctx_get c t | None => None end) as [w|] eqn:Eb.
    - destruct (negb (bytes_eqb v w)); [reflexivity|].
      destruct (check_cons ufn v c (pe_cons pe)) as [ok|e]; [|reflexivity]. cbn.
      destruct ok; reflexivity.
    - destruct (check_cons ufn v c (pe_cons pe)) as [ok|e]; [|reflexivity]. cbn.
      destruct ok; [|reflexivity]. cbn.
      destruct (pe_tag pe) as [t|]; [|reflexivity].
      destruct (npc_leb m t) as [named|e]; [|reflexivity]. cbn. destruct named; reflexivity.
  Qed.

  Lemma mrun_S {A R} k name cur st (f : A -> N -> ctx -> res (A + R)) a :
    ms_cur st = Some cur ->
    mrun ufn m (S k) name st f a =
    do r <- mstep ufn m name cur st ;;
    match snd r with
    | None => mrun ufn m k name (fst r) f a
    | Some y => do x <- f a (fst y) (snd y) ;;
                match x with inl a' => mrun ufn m k name (fst r) f a' | inr v => Ok (inr v) end
    end.
  Proof. intros H. cbn [mrun]. rewrite H. reflexivity. Qed.

  Lemma mrun_halt {A R} k name st (f : A -> N -> ctx -> res (A + R)) a :
    ms_cur st = None -> mrun ufn m k name st f a = Ok (inl a).
  Proof. intros H. destruct k; cbn [mrun]; rewrite H; reflexivity. Qed.

  (* ---- refinement ----------------------------------------------------------------------------- *)
  Hypothesis Hsane : forall i, reach m i -> node_ok m i = true.

  Lemma node_ok_node i : reach m i -> exists nd, get_node m i = Some nd.
  Proof.
    intros Hr. apply Hsane in Hr. unfold node_ok in Hr. destruct (get_node m i) as [nd|]; [eauto|discriminate].
  Qed.

  Lemma child_ok_inv src d : child_ok m src d = true ->
    exists c nd, d = Some c /\ get_node m c = Some nd /\ n_parent nd = Some src.
  Proof.
    unfold child_ok. destruct d as [c|]; [|discriminate].
    destruct (get_node m c) as [nd|] eqn:Eg; [|discriminate].
    destruct (n_parent nd) as [p|] eqn:Ep; [|discriminate].
    intros H. apply N.eqb_eq in H. subst. exists c, nd. auto.
  Qed.

  Lemma vedge_child cur nd ve :
    reach m cur -> get_node m cur = Some nd -> In ve (n_vedges nd) ->
    exists d cnd, ve_dest ve = Some d /\ get_node m d = Some cnd /\ n_parent cnd = Some cur /\ reach m d.
  Proof.
    intros Hr Hn Hi. pose proof (Hsane _ Hr) as Hok. unfold node_ok in Hok. rewrite Hn in Hok.
    repeat (apply andb_true_iff in Hok; destruct Hok as [Hok ?]).
    rewrite forallb_forall in H1. apply H1 in Hi as Hc. apply andb_true_iff in Hc. destruct Hc as [Hc _].
    apply child_ok_inv in Hc. destruct Hc as (d & cnd & Hd & Hg & Hp).
    exists d, cnd. repeat split; auto.
    eapply reach_edge; eauto. unfold dests. apply in_or_app. left. rewrite <- Hd. apply in_map, Hi.
  Qed.

  Lemma pedge_child cur nd pe :
    reach m cur -> get_node m cur = Some nd -> In pe (n_pedges nd) ->
    exists d cnd, pe_dest pe = Some d /\ get_node m d = Some cnd /\ n_parent cnd = Some cur /\ reach m d.
  Proof.
    intros Hr Hn Hi. pose proof (Hsane _ Hr) as Hok. unfold node_ok in Hok. rewrite Hn in Hok.
    repeat (apply andb_true_iff in Hok; destruct Hok as [Hok ?]).
    rewrite forallb_forall in H0. apply H0 in Hi as Hc.
    repeat (apply andb_true_iff in Hc; destruct Hc as [Hc ?]).
    apply child_ok_inv in Hc. destruct Hc as (d & cnd & Hd & Hg & Hp).
    exists d, cnd. repeat split; auto.
    eapply reach_edge; eauto. unfold dests. apply in_or_app. right. rewrite <- Hd. apply in_map, Hi.
  Qed.

  Definition outcome {A R} (k : nat) (name : list bytes) (f : A -> N -> ctx -> res (A + R)) (r : res (A + R)) (st : mstate)
    : res (A + R) :=
    match r with
    | Err e => Err e
    | Ok (inr v) => Ok (inr v)
    | Ok (inl a') => mrun ufn m k name st f a'
    end.

  Lemma try_pedge_ctx pe v c c' tg :
    try_pedge pe v c = Ok (Some (c', tg)) ->
    match tg with Some t => al_del N.eqb c' t = c | None => c' = c end.
  Proof.
    unfold try_pedge.
    destruct (match pe_tag pe with Some t => ctx_get c t | None => None end) as [w|] eqn:Eb.
    - destruct (negb (bytes_eqb v w)); [discriminate|].
      destruct (check_cons ufn v c (pe_cons pe)) as [[|]|]; cbn; try discriminate.
      intros H; inversion H; reflexivity.
    - destruct (check_cons ufn v c (pe_cons pe)) as [[|]|]; cbn; try discriminate.
      destruct (pe_tag pe) as [t|]; [|discriminate].
      destruct (npc_leb m t) as [[|]|]; cbn; try discriminate; intros H; inversion H; subst; [|reflexivity].
      apply al_del_set_fresh. exact Eb.
  Qed.

  Section Run.
    Context {A R : Type}.
    Variable name : list bytes.
    Variable f : A -> N -> ctx -> res (A + R).

    (* the pattern-edge loop of one node, given the claim for its children *)
    Lemma ploop cur nd v rest eis c ms :
      reach m cur -> get_node m cur = Some nd -> skipn (length eis) name = v :: rest ->
      (forall d cnd c' tg i a, reach m d -> get_node m d = Some cnd -> n_parent cnd = Some cur ->
         exists n, (n <= cost rest d)%nat /\ forall fuel,
           mrun ufn m (n + fuel) name (mk (Some d) None (i :: eis) c' (tg :: ms)) f a =
           outcome fuel name f (tree_fold rest d c' f a)
                   (mk (Some cur) (Some i) eis (match tg with Some t => al_del N.eqb c' t | None => c' end) ms)) ->
      forall todo done a, n_pedges nd = done ++ todo ->
        exists n, (n <= S (list_sum (map (fun pe => S (match pe_dest pe with Some d => cost rest d | None => O end)) todo)))%nat /\
        forall fuel,
          mrun ufn m (n + fuel) name (mk (Some cur) (Some (length done)) eis c ms) f a =
          outcome fuel name f (pfold_gen (fun d c' a' => tree_fold rest d c' f a') v c todo a)
                  (backtrack nd (mk (Some cur) (Some (length (n_pedges nd))) eis c ms)).
    Proof.
      intros Hr Hn Hs IHc.
      destruct (skipn_cons_nth _ _ _ _ Hs) as [Hv Hs'].
      assert (Hlt : (length eis < length name)%nat) by (eapply skipn_cons_length; eauto).
      induction todo as [|pe todo IH]; intros done a Hsplit.
      - exists 1%nat. split; [cbn; lia|]. intros fuel. cbn [Nat.add].
        rewrite (mrun_S _ _ cur) by reflexivity.
        rewrite (mstep_back _ _ nd) ; auto.
        2:{ apply nth_error_None. rewrite Hsplit, app_nil_r. lia. }
        cbn [bind snd fst pfold_gen outcome]. rewrite Hsplit, app_nil_r. reflexivity.
      - assert (Hnth : nth_error (n_pedges nd) (length done) = Some pe).
        { rewrite Hsplit, nth_error_app2 by lia. rewrite Nat.sub_diag. reflexivity. }
        assert (Hin : In pe (n_pedges nd)) by (rewrite Hsplit; apply in_or_app; right; left; reflexivity).
        destruct (pedge_child _ _ _ Hr Hn Hin) as (d & cnd & Hd & Hg & Hp & Hrd).
        specialize (IH (done ++ [pe]) ). rewrite app_length in IH. cbn [length] in IH.
        replace (length done + 1)%nat with (S (length done)) in IH by lia.
        assert (Hsplit' : n_pedges nd = (done ++ [pe]) ++ todo) by (rewrite <- app_assoc; exact Hsplit).
        cbn [pfold_gen map].
        assert (Hsum : forall x l, list_sum (x :: l) = (x + list_sum l)%nat) by reflexivity.
        rewrite Hsum.
        destruct (try_pedge pe v c) as [[[c' tg]|]|e] eqn:Et.
        + (* edge passable: descend *)
          destruct (IHc d cnd c' tg (S (length done)) a Hrd Hg Hp) as (n1 & Hn1 & Hrun1).
          pose proof (try_pedge_ctx _ _ _ _ _ Et) as Hc.
          destruct (tree_fold rest d c' f a) as [[a1|x]|e] eqn:Etf.
          * destruct (IH a1 Hsplit') as (n2 & Hn2 & Hrun2).
            exists (S (n1 + n2)). split; [rewrite Hd; lia|]. intros fuel.
            cbn [Nat.add]. rewrite (mrun_S _ _ cur) by reflexivity.
            rewrite (mstep_pat _ _ nd _ _ _ _ pe v); auto. rewrite Et. cbn [bind snd fst]. rewrite Hd.
            replace (n1 + n2 + fuel)%nat with (n1 + (n2 + fuel))%nat by lia.
            rewrite Hrun1, Etf. cbn [outcome].
            destruct tg as [t|]; rewrite Hc; apply Hrun2.
          * exists (S n1). split; [rewrite Hd; lia|]. intros fuel.
            cbn [Nat.add]. rewrite (mrun_S _ _ cur) by reflexivity.
            rewrite (mstep_pat _ _ nd _ _ _ _ pe v); auto. rewrite Et. cbn [bind snd fst]. rewrite Hd.
            rewrite Hrun1, Etf. reflexivity.
          * exists (S n1). split; [rewrite Hd; lia|]. intros fuel.
            cbn [Nat.add]. rewrite (mrun_S _ _ cur) by reflexivity.
            rewrite (mstep_pat _ _ nd _ _ _ _ pe v); auto. rewrite Et. cbn [bind snd fst]. rewrite Hd.
            rewrite Hrun1, Etf. reflexivity.
        + (* edge not passable *)
          destruct (IH a Hsplit') as (n2 & Hn2 & Hrun2).
          exists (S n2). split; [lia|]. intros fuel.
          cbn [Nat.add]. rewrite (mrun_S _ _ cur) by reflexivity.
          rewrite (mstep_pat _ _ nd _ _ _ _ pe v); auto. rewrite Et. cbn [bind snd fst]. apply Hrun2.
        + exists 1%nat. split; [lia|]. intros fuel.
          cbn [Nat.add]. rewrite (mrun_S _ _ cur) by reflexivity.
          rewrite (mstep_pat _ _ nd _ _ _ _ pe v); auto. rewrite Et. reflexivity.
    Qed.

    (* entering a node with edge_index = -1 *)
    Lemma enter : forall suffix cur nd eis c ms a,
      reach m cur -> get_node m cur = Some nd -> skipn (length eis) name = suffix -> (length eis <= length name)%nat ->
      exists n ei', (n <= cost suffix cur)%nat /\ forall fuel,
        mrun ufn m (n + fuel) name (mk (Some cur) None eis c ms) f a =
        outcome fuel name f (tree_fold suffix cur c f a) (backtrack nd (mk (Some cur) ei' eis c ms)).
    Proof.
      induction suffix as [|v rest IHs]; intros cur nd eis c ms a Hr Hn Hs Hle.
      - exists 1%nat, None. split; [cbn; lia|]. intros fuel.
        assert (Hl : length eis = length name) by (apply skipn_nil_length in Hs; lia).
        cbn [Nat.add]. rewrite (mrun_S _ _ cur) by reflexivity.
        rewrite (mstep_yield _ _ nd) by auto. cbn [bind snd fst tree_fold]. rewrite Hn.
        destruct (f a cur c) as [[a'|x]|e]; reflexivity.
      - destruct (skipn_cons_nth _ _ _ _ Hs) as [Hv Hs'].
        assert (Hlt : (length eis < length name)%nat) by (eapply skipn_cons_length; eauto).
        (* children: the claim of the lemma, specialised *)
        assert (IHc : forall d cnd c' tg i a, reach m d -> get_node m d = Some cnd -> n_parent cnd = Some cur ->
                  exists n, (n <= cost rest d)%nat /\ forall fuel,
                    mrun ufn m (n + fuel) name (mk (Some d) None (i :: eis) c' (tg :: ms)) f a =
                    outcome fuel name f (tree_fold rest d c' f a)
                            (mk (Some cur) (Some i) eis (match tg with Some t => al_del N.eqb c' t | None => c' end) ms)).
        { intros d cnd c' tg i a0 Hrd Hg Hp.
          destruct (IHs d cnd (i :: eis) c' (tg :: ms) a0 Hrd Hg) as (n & ei' & Hb & Hrun); [exact Hs' | cbn; lia |].
          exists n. split; [exact Hb|]. intros fuel. rewrite Hrun.
          unfold backtrack, mk. cbn. rewrite Hp. destruct tg; reflexivity. }
        cbn [tree_fold cost]. rewrite Hn.
        destruct (find (fun ve => obytes_eqb v (ve_value ve)) (n_vedges nd)) as [ve|] eqn:Ef.
        + apply find_some in Ef as Hin. destruct Hin as [Hin _].
          destruct (vedge_child _ _ _ Hr Hn Hin) as (d & cnd & Hd & Hg & Hp & Hrd).
          destruct (IHc d cnd c None O a Hrd Hg Hp) as (n1 & Hn1 & Hrun1).
          assert (Hcost : (cost rest d <= list_sum (map (fun ve => match ve_dest ve with Some d => cost rest d | None => O end) (n_vedges nd)))%nat).
          { pose proof (list_sum_in (fun ve => match ve_dest ve with Some d => cost rest d | None => O end) _ _ Hin) as Hx.
            cbv beta in Hx. rewrite Hd in Hx. exact Hx. }
          rewrite Hd. destruct (tree_fold rest d c f a) as [[a1|x]|e] eqn:Etf; cbn [bind].
          * destruct (ploop cur nd v rest eis c ms Hr Hn Hs IHc (n_pedges nd) [] a1 eq_refl) as (n2 & Hn2 & Hrun2).
            exists (S (n1 + n2)), (Some (length (n_pedges nd))). split; [lia|]. intros fuel.
            cbn [Nat.add]. rewrite (mrun_S _ _ cur) by reflexivity.
            rewrite (mstep_value _ _ nd _ _ _ v) by auto. rewrite Ef. cbn [bind snd fst]. rewrite Hd.
            replace (n1 + n2 + fuel)%nat with (n1 + (n2 + fuel))%nat by lia.
            rewrite Hrun1. cbn [outcome]. apply Hrun2.
          * exists (S n1), None. split; [lia|]. intros fuel.
            cbn [Nat.add]. rewrite (mrun_S _ _ cur) by reflexivity.
            rewrite (mstep_value _ _ nd _ _ _ v) by auto. rewrite Ef. cbn [bind snd fst]. rewrite Hd.
            rewrite Hrun1. reflexivity.
          * exists (S n1), None. split; [lia|]. intros fuel.
            cbn [Nat.add]. rewrite (mrun_S _ _ cur) by reflexivity.
            rewrite (mstep_value _ _ nd _ _ _ v) by auto. rewrite Ef. cbn [bind snd fst]. rewrite Hd.
            rewrite Hrun1. reflexivity.
        + cbn [bind].
          destruct (ploop cur nd v rest eis c ms Hr Hn Hs IHc (n_pedges nd) [] a eq_refl) as (n2 & Hn2 & Hrun2).
          exists (S n2), (Some (length (n_pedges nd))). split; [lia|]. intros fuel.
          cbn [Nat.add]. rewrite (mrun_S _ _ cur) by reflexivity.
          rewrite (mstep_value _ _ nd _ _ _ v) by auto. rewrite Ef. cbn [bind snd fst]. apply Hrun2.
    Qed.
  End Run.
End Machine.

(* ---- top level: the whole run ------------------------------------------------------------------- *)
Section Top.
  Variable ufn : ident -> option (bytes -> list (option bytes) -> res bool).
  Variable m : lvsmodel.
  Hypothesis Hsane : sane m.

  Lemma sane_start : exists s nd, m_start m = Some s /\ get_node m s = Some nd /\ n_parent nd = None /\ reach m s.
  Proof.
    destruct Hsane as (_ & Hroot & _). unfold root_ok in Hroot.
    destruct (m_start m) as [s|] eqn:Es; [|discriminate].
    destruct (get_node m s) as [nd|] eqn:En; [|discriminate].
    destruct (n_parent nd) eqn:Ep; [discriminate|].
    exists s, nd. repeat split; auto. apply reach_start. exact Es.
  Qed.

  (* the step bound of a query *)
  Definition match_cost (name : list bytes) : nat :=
    match m_start m with Some s => cost m name s | None => O end.

  Theorem machine_refines {A R} (name : list bytes) (c : ctx) (f : A -> N -> ctx -> res (A + R)) (a : A) :
    exists s, m_start m = Some s /\
    forall fuel, (match_cost name <= fuel)%nat ->
      mrun ufn m fuel name (mstart m c) f a = tree_fold ufn m name s c f a.
  Proof.
    destruct sane_start as (s & nd & Es & En & Ep & Hr).
    exists s. split; [exact Es|]. intros fuel Hf.
    destruct Hsane as (_ & _ & Hall).
    destruct (enter ufn m Hall name f name s nd [] c [] a Hr En eq_refl) as (n & ei' & Hn & Hrun); [cbn; lia|].
    unfold match_cost in Hf. rewrite Es in Hf.
    replace fuel with (n + (fuel - n))%nat by lia.
    unfold mstart. rewrite Es. fold (mk (Some s) None [] c []). rewrite Hrun.
    unfold outcome. destruct (tree_fold ufn m name s c f a) as [[a'|x]|e]; try reflexivity.
    apply mrun_halt. unfold backtrack, mk. cbn. exact Ep.
  Qed.
End Top.
