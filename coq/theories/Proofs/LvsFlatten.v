(* [flatten] lays an inductive pattern tree out as a node pool; matching on the flattened model
   (Spec/LvsTree.path) is matching on the inductive tree ([tpath]).  Generic in the tree: nothing here
   knows about rule chains. *)
From NDN Require Import Base.Prelude Base.Text Model.TlvVar Model.Name Model.LvsAst Model.LvsChecker Model.LvsCompiler
  Spec.LvsSem Spec.LvsTree Proofs.LvsMachine Proofs.LvsSanity.
Local Open Scope N_scope.

Scheme ptree_mind := Induction for ptree Sort Prop
  with vlist_mind := Induction for vlist Sort Prop
  with plist_mind := Induction for plist Sort Prop.
Combined Scheme ptree_mutind from ptree_mind, vlist_mind, plist_mind.

Definition t_ended (t : ptree) : list chain := match t with PNode e _ _ => e end.

(* ---- matching on the inductive tree --------------------------------------------------------------- *)
Fixpoint vfind (v : bytes) (l : vlist) : option ptree :=
  match l with
  | VNil => None
  | VCons x t r => if bytes_eqb v x then Some t else vfind v r
  end.

Inductive pin (tag : Z) (cs : list pcons) (t : ptree) : plist -> Prop :=
| pin_here r : pin tag cs t (PCons tag cs t r)
| pin_later tag' cs' t' r : pin tag cs t r -> pin tag cs t (PCons tag' cs' t' r).

Section TPath.
  Variable ufn : ident -> option (bytes -> list (option bytes) -> res bool).

  (* crossing a pattern edge of the inductive tree: a tag >= 0 is a named pattern, a negative one temporary *)
  Definition tstep (tag : Z) (cs : list pcons) (v : bytes) (c c' : tctx) : Prop :=
    cnf_true ufn v c cs /\
    if (0 <=? tag)%Z then
      match tget c (Z.to_N tag) with
      | Some w => v = w /\ c' = c
      | None => c' = c ++ [(Z.to_N tag, v)]
      end
    else c' = c.

  Inductive tpath : ptree -> list bytes -> tctx -> ptree -> tctx -> Prop :=
  | tp_end t c : tpath t [] c t c
  | tp_value ended vs ps v rest c child t' c' :
      vfind v vs = Some child -> tpath child rest c t' c' -> tpath (PNode ended vs ps) (v :: rest) c t' c'
  | tp_pattern ended vs ps v rest c tag cs child c1 t' c' :
      pin tag cs child ps -> tstep tag cs v c c1 -> tpath child rest c1 t' c' ->
      tpath (PNode ended vs ps) (v :: rest) c t' c'.
End TPath.

(* ---- a pool realises a tree at an index -------------------------------------------------------------- *)
Section Realizes.
  Variable npc : N.
  Variable pool : list gnode.

  Definition etag_ok (tag : Z) (etag : N) : Prop :=
    ((0 <= tag)%Z /\ etag = Z.to_N tag) \/ ((tag < 0)%Z /\ npc < etag).

  Inductive realizes : ptree -> nat -> option N -> Prop :=
  | R_node ended vs ps id parent g :
      nth_error pool id = Some g -> g_parent g = parent -> g_rule g = map ch_id ended -> g_sign g = flat_map ch_sign ended ->
      realizes_vs vs id (g_vedges g) -> realizes_ps ps id (g_pedges g) ->
      realizes (PNode ended vs ps) id parent
  with realizes_vs : vlist -> nat -> list vedge -> Prop :=
  | RV_nil src : realizes_vs VNil src []
  | RV_cons v t r src cid es :
      realizes t cid (Some (N.of_nat src)) -> realizes_vs r src es ->
      realizes_vs (VCons v t r) src ({| ve_dest := Some (N.of_nat cid); ve_value := Some v |} :: es)
  with realizes_ps : plist -> nat -> list pedge -> Prop :=
  | RP_nil src : realizes_ps PNil src []
  | RP_cons tag cs t r src cid etag es :
      realizes t cid (Some (N.of_nat src)) -> etag_ok tag etag -> realizes_ps r src es ->
      realizes_ps (PCons tag cs t r) src ({| pe_dest := Some (N.of_nat cid); pe_tag := Some etag; pe_cons := cs |} :: es).
End Realizes.

Lemma realizes_weaken npc pool pool' :
  (forall i g, nth_error pool i = Some g -> nth_error pool' i = Some g) ->
  (forall t id p, realizes npc pool t id p -> realizes npc pool' t id p).
Proof.
  intros Hsub.
  fix IH 4. intros t id p H. destruct H as [ended vs ps id parent g Hn Hp Hr Hs Hv Hps].
  econstructor; eauto.
  - clear - IH Hv. induction Hv; constructor; auto.
  - clear - IH Hps. induction Hps; econstructor; eauto.
Qed.

(* ---- flatten realises its tree ----------------------------------------------------------------------- *)
Fixpoint tsize (t : ptree) : nat :=
  match t with PNode _ vs ps => S (vsize vs + psize ps) end
with vsize (l : vlist) : nat :=
  match l with VNil => O | VCons _ t r => (tsize t + vsize r)%nat end
with psize (l : plist) : nat :=
  match l with PNil => O | PCons _ _ t r => (tsize t + psize r)%nat end.

Lemma nth_error_mid {A} (pre : list A) x post : nth_error (pre ++ x :: post) (length pre) = Some x.
Proof. rewrite nth_error_app2 by lia. rewrite Nat.sub_diag. reflexivity. Qed.

Lemma flatten_realizes npc :
  (forall t pre post parent tti sub tti',
      flatten t parent (length pre) tti = (sub, tti') -> npc <= tti ->
      realizes npc (pre ++ sub ++ post) t (length pre) parent /\ length sub = tsize t /\ tti <= tti') /\
  (forall vs pre post src tti es subs nid' tti',
      flatten_vs vs src (length pre) tti = (es, subs, nid', tti') -> npc <= tti ->
      realizes_vs npc (pre ++ subs ++ post) vs src es /\ length subs = vsize vs /\
      nid' = (length pre + length subs)%nat /\ tti <= tti') /\
  (forall ps pre post src tti es subs nid' tti',
      flatten_ps ps src (length pre) tti = (es, subs, nid', tti') -> npc <= tti ->
      realizes_ps npc (pre ++ subs ++ post) ps src es /\ length subs = psize ps /\
      nid' = (length pre + length subs)%nat /\ tti <= tti').
Proof.
  apply ptree_mutind.
  - (* PNode *)
    intros ended vs IHv ps IHp pre post parent tti sub tti' H Hle. cbn [flatten] in H.
    destruct (flatten_vs vs (length pre) (S (length pre)) tti) as [[[ves sub1] nid1] tti1] eqn:Ev.
    destruct (flatten_ps ps (length pre) nid1 tti1) as [[[pes sub2] nid2] tti2] eqn:Ep.
    inversion H; subst sub tti'. clear H.
    remember {| g_parent := parent; g_rule := map ch_id ended; g_vedges := ves; g_pedges := pes; g_sign := flat_map ch_sign ended |} as g eqn:Eg.
    assert (Hl1 : S (length pre) = length (pre ++ [g])) by (rewrite app_length; cbn; lia).
    rewrite Hl1 in Ev.
    destruct (IHv (pre ++ [g]) (sub2 ++ post) (length pre) tti ves sub1 nid1 tti1 Ev Hle) as (Rv & Lv & Nv & Tv).
    assert (Hl2 : nid1 = length ((pre ++ [g]) ++ sub1)) by (rewrite app_length; lia).
    rewrite Hl2 in Ep.
    destruct (IHp ((pre ++ [g]) ++ sub1) post (length pre) tti1 pes sub2 nid2 tti2 Ep) as (Rp & Lp & Np & Tp); [lia|].
    assert (Epool : pre ++ (g :: sub1 ++ sub2) ++ post = (pre ++ [g]) ++ sub1 ++ sub2 ++ post).
    { rewrite <- !app_assoc. cbn. rewrite <- !app_assoc. reflexivity. }
    assert (Epool2 : pre ++ (g :: sub1 ++ sub2) ++ post = ((pre ++ [g]) ++ sub1) ++ sub2 ++ post).
    { rewrite <- !app_assoc. cbn. rewrite <- !app_assoc. reflexivity. }
    split; [|split].
    + apply (R_node npc _ ended vs ps (length pre) parent g); try (subst g; reflexivity).
      * cbn [app]. apply nth_error_mid.
      * replace (g_vedges g) with ves by (subst g; reflexivity). rewrite Epool. exact Rv.
      * replace (g_pedges g) with pes by (subst g; reflexivity). rewrite Epool2. exact Rp.
    + cbn [length tsize]. rewrite app_length. lia.
    + lia.
  - (* VNil *)
    intros pre post src tti es subs nid' tti' H Hle. cbn in H. inversion H; subst.
    repeat split; try constructor; cbn; lia.
  - (* VCons *)
    intros v t IHt r IHr pre post src tti es subs nid' tti' H Hle. cbn [flatten_vs] in H.
    destruct (flatten t (Some (N.of_nat src)) (length pre) tti) as [sub tti1] eqn:Et.
    destruct (flatten_vs r src (length pre + length sub) tti1) as [[[es0 subs0] nid0] tti0] eqn:Er.
    inversion H; subst es subs nid' tti'. clear H.
    destruct (IHt pre (subs0 ++ post) _ _ _ _ Et Hle) as (Rt & Lt & Tt).
    assert (Hl : (length pre + length sub)%nat = length (pre ++ sub)) by (rewrite app_length; lia).
    rewrite Hl in Er.
    destruct (IHr (pre ++ sub) post src tti1 es0 subs0 nid0 tti0 Er) as (Rr & Lr & Nr & Tr); [lia|].
    repeat split.
    + constructor.
      * rewrite <- app_assoc. exact Rt.
      * rewrite <- app_assoc in Rr. rewrite <- app_assoc. exact Rr.
    + rewrite app_length. cbn [vsize]. lia.
    + rewrite Nr, !app_length. lia.
    + lia.
  - (* PNil *)
    intros pre post src tti es subs nid' tti' H Hle. cbn in H. inversion H; subst.
    repeat split; try constructor; cbn; lia.
  - (* PCons *)
    intros tag cs t IHt r IHr pre post src tti es subs nid' tti' H Hle. cbn [flatten_ps] in H.
    destruct (if (0 <=? tag)%Z then (Z.to_N tag, tti) else (tti + 1, tti + 1)) as [etag tti0] eqn:Ee.
    destruct (flatten t (Some (N.of_nat src)) (length pre) tti0) as [sub tti1] eqn:Et.
    destruct (flatten_ps r src (length pre + length sub) tti1) as [[[es0 subs0] nid0] tti2] eqn:Er.
    inversion H; subst es subs nid' tti'. clear H.
    assert (Hle0 : npc <= tti0 /\ tti <= tti0 /\ etag_ok npc tag etag).
    { destruct (Z.leb_spec 0 tag); inversion Ee; subst; unfold etag_ok.
      - split; [lia|]. split; [lia|]. left. split; [lia | reflexivity].
      - split; [lia|]. split; [lia|]. right. split; lia. }
    destruct Hle0 as (Hle0 & Hle1 & Hok).
    destruct (IHt pre (subs0 ++ post) _ _ _ _ Et Hle0) as (Rt & Lt & Tt).
    assert (Hl : (length pre + length sub)%nat = length (pre ++ sub)) by (rewrite app_length; lia).
    rewrite Hl in Er.
    destruct (IHr (pre ++ sub) post src tti1 es0 subs0 nid0 tti2 Er) as (Rr & Lr & Nr & Tr); [lia|].
    repeat split.
    + econstructor.
      * rewrite <- app_assoc. exact Rt.
      * exact Hok.
      * rewrite <- app_assoc in Rr. rewrite <- app_assoc. exact Rr.
    + rewrite app_length. cbn [psize]. lia.
    + rewrite Nr, !app_length. lia.
    + lia.
Qed.

(* ---- a model whose nodes are those of the pool (everything but the signer lists) ------------------------ *)
Definition mirrors (m : lvsmodel) (pool : list gnode) : Prop :=
  length (m_nodes m) = length pool /\
  forall i g, nth_error pool i = Some g ->
    exists nd, nth_error (m_nodes m) i = Some nd /\ n_id nd = Some (N.of_nat i) /\ n_parent nd = g_parent g /\
               n_rule nd = g_rule g /\ n_vedges nd = g_vedges g /\ n_pedges nd = g_pedges g.

Lemma get_node_nat m i : (i < length (m_nodes m))%nat -> get_node m (N.of_nat i) = nth_error (m_nodes m) i.
Proof.
  intros H. unfold get_node. destruct (N.ltb_spec (N.of_nat i) (N.of_nat (length (m_nodes m)))); [|lia].
  rewrite Nat2N.id. reflexivity.
Qed.

Lemma mirrors_get m pool i g : mirrors m pool -> nth_error pool i = Some g ->
  exists nd, get_node m (N.of_nat i) = Some nd /\ n_id nd = Some (N.of_nat i) /\ n_parent nd = g_parent g /\
             n_rule nd = g_rule g /\ n_vedges nd = g_vedges g /\ n_pedges nd = g_pedges g.
Proof.
  intros [Hl Hm] Hn. destruct (Hm i g Hn) as (nd & Hnd & Hrest). exists nd. split; [|exact Hrest].
  rewrite get_node_nat; [exact Hnd|]. rewrite Hl. apply nth_error_Some. congruence.
Qed.

Section PathEquiv.
  Variable ufn : ident -> option (bytes -> list (option bytes) -> res bool).
  Variable m : lvsmodel.
  Variable pool : list gnode.
  Variable npc : N.
  Hypothesis Hnpc : m_npc m = Some npc.
  Hypothesis Hmir : mirrors m pool.

  (* contexts only bind named tags *)
  Definition ctx_named (c : tctx) : Prop := forall t, npc < t -> tget c t = None.

  Fixpoint ttags_ok (t : ptree) : Prop :=
    match t with PNode _ vs ps => vtags_ok vs /\ ptags_ok ps end
  with vtags_ok (l : vlist) : Prop :=
    match l with VNil => True | VCons _ t r => ttags_ok t /\ vtags_ok r end
  with ptags_ok (l : plist) : Prop :=
    match l with PNil => True | PCons tag _ t r => ((0 <= tag)%Z -> Z.to_N tag <= npc) /\ ttags_ok t /\ ptags_ok r end.

  Lemma vfind_tags v vs child : vtags_ok vs -> vfind v vs = Some child -> ttags_ok child.
  Proof.
    induction vs as [|x t r IH]; cbn; [discriminate|]. intros [Ht Hr]. destruct (bytes_eqb v x).
    - intros E; inversion E; subst; exact Ht.
    - apply IH, Hr.
  Qed.

  Lemma pin_tags tag cs child ps : ptags_ok ps -> pin tag cs child ps ->
    ((0 <= tag)%Z -> Z.to_N tag <= npc) /\ ttags_ok child.
  Proof. intros H Hp. induction Hp; cbn in H; destruct H as (H1 & H2 & H3); auto. Qed.

  Lemma is_named_iff t : is_named m t <-> t <= npc.
  Proof.
    unfold is_named. rewrite Hnpc. split.
    - intros (k & E & L). inversion E; subst; exact L.
    - intros L. exists npc. auto.
  Qed.

  Lemma tget_app_fresh (c : tctx) t v t' : tget (c ++ [(t, v)]) t' = match tget c t' with Some w => Some w | None => if N.eqb t' t then Some v else None end.
  Proof.
    unfold tget. induction c as [|[k w] c IH]; cbn; [reflexivity|]. destruct (N.eqb t' k); [reflexivity | exact IH].
  Qed.

  Lemma pass_tstep tag etag cs d v c c' :
    etag_ok npc tag etag -> ((0 <= tag)%Z -> Z.to_N tag <= npc) -> ctx_named c ->
    (pedge_pass ufn m {| pe_dest := d; pe_tag := Some etag; pe_cons := cs |} v c c' <-> tstep ufn tag cs v c c').
  Proof.
    intros Hok Htag Hc. unfold pedge_pass, tstep. cbn [pe_tag pe_cons].
    destruct Hok as [[Hpos ->]|[Hneg Hgt]].
    - destruct (Z.leb_spec 0 tag); [|lia]. specialize (Htag Hpos). split.
      + intros (t & Et & Hcnf & Hb). inversion Et; subst t. split; [exact Hcnf|].
        destruct (tget c (Z.to_N tag)); [exact Hb|].
        destruct Hb as [[_ ->]|[Hn _]]; [reflexivity | exfalso; apply Hn; apply is_named_iff; exact Htag].
      + intros (Hcnf & Hb). exists (Z.to_N tag). split; [reflexivity|]. split; [exact Hcnf|].
        destruct (tget c (Z.to_N tag)); [exact Hb|]. left. split; [apply is_named_iff; exact Htag | exact Hb].
    - destruct (Z.leb_spec 0 tag); [lia|]. split.
      + intros (t & Et & Hcnf & Hb). inversion Et; subst t. split; [exact Hcnf|].
        rewrite (Hc etag Hgt) in Hb. destruct Hb as [[Hn _]|[_ ->]]; [apply is_named_iff in Hn; lia | reflexivity].
      + intros (Hcnf & ->). exists etag. split; [reflexivity|]. split; [exact Hcnf|].
        rewrite (Hc etag Hgt). right. split; [intros Hn; apply is_named_iff in Hn; lia | reflexivity].
  Qed.

  Lemma tstep_named tag cs v c c' :
    ((0 <= tag)%Z -> Z.to_N tag <= npc) -> ctx_named c -> tstep ufn tag cs v c c' -> ctx_named c'.
  Proof.
    intros Htag Hc (_ & Hb). destruct (Z.leb_spec 0 tag) as [Hpos|Hneg]; [|subst; exact Hc].
    destruct (tget c (Z.to_N tag)); [destruct Hb as [_ ->]; exact Hc|]. subst c'.
    intros t Ht. rewrite tget_app_fresh, (Hc t Ht). specialize (Htag Hpos).
    destruct (N.eqb_spec t (Z.to_N tag)); [lia | reflexivity].
  Qed.

  (* value edges *)
  Lemma vfind_realizes v vs src ves : realizes_vs npc pool vs src ves ->
    match find (fun e => match ve_value e with Some x => bytes_eqb v x | None => false end) ves with
    | Some ve => exists child cid, vfind v vs = Some child /\ ve_dest ve = Some (N.of_nat cid) /\
                                   realizes npc pool child cid (Some (N.of_nat src))
    | None => vfind v vs = None
    end.
  Proof.
    induction 1 as [|x t r src cid es Ht Hr IH]; cbn; [reflexivity|].
    destruct (bytes_eqb v x); [|exact IH]. exists t, cid. auto.
  Qed.

  (* pattern edges *)
  Lemma pin_realizes ps src pes : realizes_ps npc pool ps src pes ->
    (forall pe, In pe pes -> exists tag cs child cid etag,
        pin tag cs child ps /\ pe = {| pe_dest := Some (N.of_nat cid); pe_tag := Some etag; pe_cons := cs |} /\
        etag_ok npc tag etag /\ realizes npc pool child cid (Some (N.of_nat src))) /\
    (forall tag cs child, pin tag cs child ps -> exists cid etag,
        In {| pe_dest := Some (N.of_nat cid); pe_tag := Some etag; pe_cons := cs |} pes /\
        etag_ok npc tag etag /\ realizes npc pool child cid (Some (N.of_nat src))).
  Proof.
    induction 1 as [|tag0 cs0 t r src cid etag es Ht Hok Hr [IH1 IH2]]; split.
    - intros pe [].
    - intros tag cs child Hp. inversion Hp.
    - intros pe [<-|Hin].
      + exists tag0, cs0, t, cid, etag. repeat split; auto. constructor.
      + destruct (IH1 pe Hin) as (tag & cs & child & cid' & etag' & Hp & E & Hk & Hrz).
        exists tag, cs, child, cid', etag'. repeat split; auto. constructor; exact Hp.
    - intros tag cs child Hp. inversion Hp; subst.
      + exists cid, etag. repeat split; auto. left; reflexivity.
      + destruct (IH2 _ _ _ H0) as (cid' & etag' & Hin & Hk & Hrz). exists cid', etag'. repeat split; auto. right; exact Hin.
  Qed.

  Lemma realizes_path_fwd : forall name t id parent c n c',
    realizes npc pool t id parent -> ttags_ok t -> ctx_named c ->
    path ufn m (N.of_nat id) name c n c' ->
    exists t' k p', n = N.of_nat k /\ tpath ufn t name c t' c' /\ realizes npc pool t' k p' /\ ttags_ok t' /\ ctx_named c'.
  Proof.
    induction name as [|v rest IH]; intros t id parent c n c' Hrz Htg Hc Hp.
    - inversion Hp; subst. exists t, id, parent. repeat split; auto. constructor.
    - destruct Hrz as [ended vs ps id parent g Hn Hpar Hru Hsi Hvs Hps].
      destruct (mirrors_get _ _ _ _ Hmir Hn) as (nd & Hg & _ & _ & _ & Ev & Ep).
      destruct Htg as [Hvt Hpt].
      inversion Hp as [ | ? nd0 ? ? ? ve d ? ? Hg0 Ht Hd Hrest | ? nd0 ? ? ? pe d c1 ? ? Hg0 Hin Hpass Hd Hrest ]; subst.
      + rewrite Hg in Hg0. inversion Hg0; subst nd0. unfold vedge_taken in Ht. rewrite Ev in Ht.
        pose proof (vfind_realizes v _ _ _ Hvs) as Hf. rewrite Ht in Hf.
        destruct Hf as (child & cid & Hvf & Hd' & Hrc). rewrite Hd in Hd'. inversion Hd'; subst d.
        destruct (IH child cid _ c n c' Hrc (vfind_tags _ _ _ Hvt Hvf) Hc Hrest) as (t' & k & p' & En & Htp & Hrz' & Htg' & Hc').
        exists t', k, p'. repeat split; auto. eapply tp_value; eauto.
      + rewrite Hg in Hg0. inversion Hg0; subst nd0. rewrite Ep in Hin.
        destruct (pin_realizes _ _ _ Hps) as [H1 _].
        destruct (H1 pe Hin) as (tag & cs & child & cid & etag & Hpin & -> & Hok & Hrc).
        cbn in Hd. inversion Hd; subst d.
        destruct (pin_tags _ _ _ _ Hpt Hpin) as [Htag Hct].
        apply (pass_tstep _ _ _ _ _ _ _ Hok Htag Hc) in Hpass.
        pose proof (tstep_named _ _ _ _ _ Htag Hc Hpass) as Hc1.
        destruct (IH child cid _ c1 n c' Hrc Hct Hc1 Hrest) as (t' & k & p' & En & Htp & Hrz' & Htg' & Hc').
        exists t', k, p'. repeat split; auto. eapply tp_pattern; eauto.
  Qed.

  Lemma realizes_path_bwd : forall name t id parent c t' c',
    realizes npc pool t id parent -> ttags_ok t -> ctx_named c ->
    tpath ufn t name c t' c' ->
    exists k p', path ufn m (N.of_nat id) name c (N.of_nat k) c' /\ realizes npc pool t' k p'.
  Proof.
    induction name as [|v rest IH]; intros t id parent c t' c' Hrz Htg Hc Hp.
    - inversion Hp; subst. exists id, parent. split; [|exact Hrz].
      destruct Hrz as [ended vs ps id parent g Hn _ _ _ _ _].
      destruct (mirrors_get _ _ _ _ Hmir Hn) as (nd & Hg & _). eapply path_end; eauto.
    - inversion Hp as [ | ended vs ps ? ? ? child ? ? Hvf Hrest | ended vs ps ? ? ? tag cs child c1 ? ? Hpin Hstep Hrest ]; subst.
      + inversion Hrz as [? ? ? ? ? g Hn Hpar Hru Hsi Hvs Hps]; subst.
        destruct (mirrors_get _ _ _ _ Hmir Hn) as (nd & Hg & _ & _ & _ & Ev & Ep).
        destruct Htg as [Hvt Hpt].
        pose proof (vfind_realizes v _ _ _ Hvs) as Hf.
        destruct (find _ (g_vedges g)) as [ve|] eqn:Efind; [|rewrite Hf in Hvf; discriminate].
        destruct Hf as (child' & cid & Hvf' & Hd & Hrc). rewrite Hvf in Hvf'. inversion Hvf'; subst child'.
        destruct (IH child cid _ c t' c' Hrc (vfind_tags _ _ _ Hvt Hvf) Hc Hrest) as (k & p' & Hpath & Hrz').
        exists k, p'. split; [|exact Hrz']. eapply path_value; eauto. unfold vedge_taken. rewrite Ev. exact Efind.
      + inversion Hrz as [? ? ? ? ? g Hn Hpar Hru Hsi Hvs Hps]; subst.
        destruct (mirrors_get _ _ _ _ Hmir Hn) as (nd & Hg & _ & _ & _ & Ev & Ep).
        destruct Htg as [Hvt Hpt].
        destruct (pin_realizes _ _ _ Hps) as [_ H2].
        destruct (H2 _ _ _ Hpin) as (cid & etag & Hin & Hok & Hrc).
        destruct (pin_tags _ _ _ _ Hpt Hpin) as [Htag Hct].
        pose proof (tstep_named _ _ _ _ _ Htag Hc Hstep) as Hc1.
        destruct (IH child cid _ c1 t' c' Hrc Hct Hc1 Hrest) as (k & p' & Hpath & Hrz').
        exists k, p'. split; [|exact Hrz'].
        eapply path_pattern; eauto.
        * rewrite Ep. exact Hin.
        * apply (pass_tstep _ _ _ (Some (N.of_nat cid)) _ _ _ Hok Htag Hc). exact Hstep.
        * reflexivity.
  Qed.
End PathEquiv.
