(* C06 (A): the StreamFace.run loop over chunk events.
   [pumps] is the fuel-free big-step reading of the loop; [pump] (the executable model) computes it
   whenever its fuel suffices, and the fuel the model passes always suffices.  On top of the resumption
   lemmas of StreamRun.v: feeding two chunks = feeding their concatenation (state and deliveries), hence
   every chunking of a byte stream delivers the same packets. *)
From NDN Require Import Base.Prelude Model.TlvVar Model.Stream Spec.Framing Proofs.BytesLemmas Proofs.StreamRun.
Local Open Scope N_scope.

Arguments N.of_nat : simpl never.
Arguments N.to_nat : simpl never.

Inductive pumps (running : bool) : rd pkt -> bytes -> list pkt -> cstate -> bytes -> Prop :=
| P_blocked m buf m' b :
    run_one m buf = OBlocked m' b -> pumps running m buf [] (CBlocked m') b
| P_fail m buf e :
    run_one m buf = OFail e -> pumps running m buf [] (CCrashed e) buf
| P_last m buf p rest :
    running = false -> run_one m buf = ODone p rest -> pumps running m buf [p] CFinished rest
| P_next m buf p rest ps co b :
    running = true -> run_one m buf = ODone p rest ->
    pumps running run_body rest ps co b -> pumps running m buf (p :: ps) co b.

Lemma pump_sound : forall fuel r m buf ps co b,
  pump fuel r m buf = (ps, co, b) -> co <> COutOfFuel -> pumps r m buf ps co b.
Proof.
  induction fuel as [|f IH]; intros r m buf ps co b H Hne; cbn [pump] in H.
  - inversion H; subst. congruence.
  - destruct (run_one m buf) as [p rest|m' b'|e] eqn:E.
    + destruct r.
      * destruct (pump f true run_body rest) as [[ps' c'] b''] eqn:E2. inversion H; subst.
        eapply P_next; [reflexivity|exact E|]. apply IH; assumption.
      * inversion H; subst. apply P_last; [reflexivity|exact E].
    + inversion H; subst. apply P_blocked. exact E.
    + inversion H; subst. apply P_fail. exact E.
Qed.

Lemma pumps_det r m buf ps co b : pumps r m buf ps co b ->
  forall ps' co' b', pumps r m buf ps' co' b' -> ps = ps' /\ co = co' /\ b = b'.
Proof.
  induction 1 as [m buf m' b E|m buf e E|m buf p rest Hr E|m buf p rest ps co b Hr E _ IH];
    intros ps' co' b' H'; inversion H'; subst; try congruence.
  - rewrite E in H. inversion H; subst. auto.
  - rewrite E in H. inversion H; subst. auto.
  - rewrite E in H0. inversion H0; subst. auto.
  - rewrite E in H0. inversion H0; subst. destruct (IH _ _ _ H1) as (-> & -> & ->). auto.
Qed.

Lemma run_body_read : exists k, run_body = Read 1 k.
Proof. unfold run_body, read_tl_num. cbn [rbind]. eexists. reflexivity. Qed.

Lemma run_body_consumes buf p rest : run_one run_body buf = ODone p rest -> (length rest < length buf)%nat.
Proof. destruct run_body_read as [k ->]. apply run_one_read_consumes. lia. Qed.

Lemma pump_body_enough : forall fuel r buf,
  (length buf < fuel)%nat -> snd (fst (pump fuel r run_body buf)) <> COutOfFuel.
Proof.
  induction fuel as [|f IH]; intros r buf Hf; [lia|]. cbn [pump].
  destruct (run_one run_body buf) as [p rest|m' b'|e] eqn:E; try (cbn; discriminate).
  destruct r; [|cbn; discriminate].
  pose proof (run_body_consumes _ _ _ E).
  specialize (IH true rest ltac:(lia)).
  destruct (pump f true run_body rest) as [[ps' c'] b'']. exact IH.
Qed.

Lemma pump_enough fuel r m buf :
  (length buf + 1 < fuel)%nat -> snd (fst (pump fuel r m buf)) <> COutOfFuel.
Proof.
  destruct fuel as [|f]; [lia|]. intros Hf. cbn [pump].
  destruct (run_one m buf) as [p rest|m' b'|e] eqn:E; try (cbn; discriminate).
  destruct r; [|cbn; discriminate].
  destruct (run_one_done_suffix _ _ _ _ E) as [used Hu].
  assert (length rest <= length buf)%nat by (rewrite Hu, app_length; lia).
  pose proof (pump_body_enough f true rest ltac:(lia)) as IH.
  destruct (pump f true run_body rest) as [[ps' c'] b'']. exact IH.
Qed.

(* the executable loop computes the big-step relation *)
Lemma pump_complete fuel r m buf ps co b :
  pumps r m buf ps co b -> (length buf + 1 < fuel)%nat -> pump fuel r m buf = (ps, co, b).
Proof.
  intros H Hf. pose proof (pump_enough fuel r m buf Hf) as Hne.
  destruct (pump fuel r m buf) as [[ps' co'] b'] eqn:E. cbn [fst snd] in Hne.
  destruct (pumps_det _ _ _ _ _ _ H _ _ _ (pump_sound _ _ _ _ _ _ _ E Hne)) as (-> & -> & ->). reflexivity.
Qed.

Lemma pump_pumps fuel r m buf :
  (length buf + 1 < fuel)%nat -> exists ps co b, pump fuel r m buf = (ps, co, b) /\ pumps r m buf ps co b.
Proof.
  intros Hf. pose proof (pump_enough fuel r m buf Hf) as Hne.
  destruct (pump fuel r m buf) as [[ps co] b] eqn:E. exists ps, co, b. split; [reflexivity|].
  apply (pump_sound _ _ _ _ _ _ _ E Hne).
Qed.

(* the loop only looks at [run_one m buf] *)
Lemma pumps_cong r m1 buf1 m2 buf2 ps co b :
  run_one m1 buf1 = run_one m2 buf2 -> pumps r m1 buf1 ps co b -> (forall e, co <> CCrashed e) ->
  pumps r m2 buf2 ps co b.
Proof.
  intros E H Hc. inversion H; subst.
  - apply P_blocked. congruence.
  - exfalso. eapply Hc. reflexivity.
  - apply P_last; congruence.
  - eapply P_next; [reflexivity| |eassumption]. congruence.
Qed.

(* more bytes after a suspension: continue where the loop was *)
Lemma pumps_split r m buf ps m' b' : pumps r m buf ps (CBlocked m') b' ->
  forall c ps2 co b2, pumps r m' (b' ++ c) ps2 co b2 -> (forall e, co <> CCrashed e) ->
  pumps r m (buf ++ c) (ps ++ ps2) co b2.
Proof.
  intros H. remember (CBlocked m') as cb eqn:Ecb. revert m' Ecb.
  induction H as [m buf m1 b E|m buf e E|m buf p rest Hr E|m buf p rest ps co0 b Hr E _ IH];
    intros m' Ecb c ps2 co b2 H2 Hc; try discriminate.
  - inversion Ecb; subst. cbn [app].
    eapply pumps_cong; [|exact H2|exact Hc]. symmetry. apply run_one_blocked_app. exact E.
  - subst co0. cbn [app]. eapply P_next; [exact Hr|apply run_one_done_app; exact E|].
    eapply IH; [reflexivity|exact H2|exact Hc].
Qed.

(* more bytes after run() has returned: they just stay in the buffer *)
Lemma pumps_finished_app r m buf ps b : pumps r m buf ps CFinished b ->
  forall c, pumps r m (buf ++ c) ps CFinished (b ++ c).
Proof.
  intros H. remember CFinished as cf eqn:Ecf.
  induction H as [m buf m1 b E|m buf e E|m buf p rest Hr E|m buf p rest ps co0 b Hr E _ IH];
    intros c; try discriminate.
  - apply P_last; [exact Hr|apply run_one_done_app; exact E].
  - eapply P_next; [exact Hr|apply run_one_done_app; exact E|]. apply IH. exact Ecf.
Qed.

Lemma pumps_never_fails r m buf ps co b : pumps r m buf ps co b -> never_fails m ->
  (forall e, co <> CCrashed e) /\ co <> COutOfFuel /\ (forall m', co = CBlocked m' -> never_fails m' /\ waiting m' b).
Proof.
  induction 1 as [m buf m1 b E|m buf e E|m buf p rest Hr E|m buf p rest ps co b Hr E _ IH]; intros Hs.
  - repeat split; try discriminate.
    + inversion H; subst. eapply never_fails_blocked; eassumption.
    + inversion H; subst. eapply run_one_blocked_inv; eassumption.
  - exfalso. eapply never_fails_run; eassumption.
  - repeat split; try discriminate.
  - apply IH. apply run_body_never_fails.
Qed.

(* ---- faces ----------------------------------------------------------------------------------------------- *)
(* what holds of a StreamFace between two events as long as only bytes have arrived (plus, possibly, a
   shutdown() by the application) *)
Definition face_inv (f : face) : Prop :=
  f_eof f = false /\
  match f_co f with
  | CBlocked m => never_fails m /\ waiting m (f_buf f)
  | CFinished => True
  | _ => False
  end.

Lemma face_init_inv : face_inv face_init.
Proof.
  split; [reflexivity|]. cbn. split; [apply run_body_never_fails|].
  destruct run_body_read as [k E]. exists 1, k. split; [exact E|cbn; lia].
Qed.

Lemma step_feed_inv cfg f c f' out : face_inv f -> step cfg f (Feed c) = (f', out) -> face_inv f'.
Proof.
  intros [He Hco] H. cbn [step] in H. rewrite He in H.
  destruct (f_co f) as [m| | |] eqn:Eco; try (destruct Hco; fail).
  - destruct Hco as [Hs Hw].
    destruct (pump_pumps (2 + length (f_buf f ++ c)) (f_running f) m (f_buf f ++ c) ltac:(lia)) as (ps & co & b & E & HP).
    rewrite E in H. inversion H; subst. split; [reflexivity|]. cbn [f_co f_buf].
    destruct (pumps_never_fails _ _ _ _ _ _ HP Hs) as (Hc & Hf & Hb).
    destruct co as [m'| |e|].
    + apply Hb; reflexivity.
    + exact I.
    + eapply Hc; reflexivity.
    + apply Hf; reflexivity.
  - inversion H; subst. split; [reflexivity|exact I].
Qed.

(* feeding nothing changes nothing *)
Lemma step_feed_nil cfg f : face_inv f -> step cfg f (Feed []) = (f, []).
Proof.
  intros [He Hco]. destruct f as [r co buf eof cl]. cbn in He, Hco. subst eof. cbn [step f_eof f_buf f_co f_running f_closed].
  rewrite app_nil_r. destruct co as [m| | |]; try (destruct Hco; fail); [|reflexivity].
  destruct Hco as [Hs Hw].
  rewrite (pump_complete _ r m buf [] (CBlocked m) buf); [reflexivity| |lia].
  apply P_blocked. apply waiting_blocked. exact Hw.
Qed.

(* THE chunk lemma: two feeds = one feed of the concatenation; same deliveries, same state *)
Theorem step_feed_feed cfg f c1 c2 f1 o1 f2 o2 :
  face_inv f -> step cfg f (Feed c1) = (f1, o1) -> step cfg f1 (Feed c2) = (f2, o2) ->
  step cfg f (Feed (c1 ++ c2)) = (f2, o1 ++ o2).
Proof.
  intros Hinv H1 H2. pose proof (step_feed_inv _ _ _ _ _ Hinv H1) as Hinv1.
  destruct Hinv as [He Hco]. destruct Hinv1 as [He1 Hco1].
  cbn [step] in *. rewrite He in *. rewrite He1 in H2.
  destruct (f_co f) as [m| | |] eqn:Eco; try (destruct Hco; fail).
  - destruct Hco as [Hs Hw].
    destruct (pump_pumps (2 + length (f_buf f ++ c1)) (f_running f) m (f_buf f ++ c1) ltac:(lia)) as (ps1 & co1 & b1 & E1 & HP1).
    rewrite E1 in H1. inversion H1; subst f1 o1. clear H1. cbn [f_co f_buf f_running f_closed] in *.
    destruct (pumps_never_fails _ _ _ _ _ _ HP1 Hs) as (Hc1 & Hf1 & Hb1).
    rewrite app_assoc.
    destruct co1 as [m1| |e|]; try (destruct Hco1; fail).
    + destruct (Hb1 _ eq_refl) as [Hs1 Hw1].
      destruct (pump_pumps (2 + length (b1 ++ c2)) (f_running f) m1 (b1 ++ c2) ltac:(lia)) as (ps2 & co2 & b2 & E2 & HP2).
      rewrite E2 in H2. inversion H2; subst f2 o2. clear H2.
      destruct (pumps_never_fails _ _ _ _ _ _ HP2 Hs1) as (Hc2 & _ & _).
      rewrite (pump_complete _ _ _ _ _ _ _ (pumps_split _ _ _ _ _ _ HP1 _ _ _ _ HP2 Hc2)) by lia.
      reflexivity.
    + inversion H2; subst f2 o2. clear H2.
      rewrite (pump_complete _ _ _ _ _ _ _ (pumps_finished_app _ _ _ _ _ HP1 c2)) by lia.
      rewrite app_nil_r. reflexivity.
  - inversion H1; subst f1 o1. cbn [f_co f_buf f_running f_closed] in *. inversion H2; subst.
    rewrite app_assoc. reflexivity.
Qed.

Lemma run_events_app cfg : forall evs1 evs2 f f1 o1 f2 o2,
  run_events cfg f evs1 = (f1, o1) -> run_events cfg f1 evs2 = (f2, o2) ->
  run_events cfg f (evs1 ++ evs2) = (f2, o1 ++ o2).
Proof.
  induction evs1 as [|e evs1 IH]; intros evs2 f f1 o1 f2 o2 H1 H2; cbn [run_events app] in *.
  - inversion H1; subst. exact H2.
  - destruct (step cfg f e) as [fa oa]. destruct (run_events cfg fa evs1) as [fb ob] eqn:Eb.
    inversion H1; subst. rewrite (IH _ _ _ _ _ _ Eb H2). reflexivity.
Qed.

(* every way of cutting a byte string into chunks leads to the same state and the same deliveries as
   feeding it in one piece *)
Theorem feeds_concat cfg : forall chunks f f' outs,
  face_inv f -> run_events cfg f (map Feed chunks) = (f', outs) ->
  step cfg f (Feed (concat chunks)) = (f', concat outs).
Proof.
  induction chunks as [|c cs IH]; intros f f' outs Hinv H; cbn [map run_events concat] in *.
  - inversion H; subst. apply step_feed_nil. exact Hinv.
  - destruct (step cfg f (Feed c)) as [f1 o1] eqn:E1.
    destruct (run_events cfg f1 (map Feed cs)) as [f2 os] eqn:E2. inversion H; subst. cbn [concat].
    eapply step_feed_feed; [exact Hinv|exact E1|].
    apply IH; [eapply step_feed_inv; eassumption|exact E2].
Qed.

(* ---- well-formed streams ------------------------------------------------------------------------------------ *)
Lemma pumps_stream : forall pkts tail co b,
  Forall framed pkts -> pumps true run_body tail [] co b ->
  pumps true run_body (stream_of pkts ++ tail) pkts co b.
Proof.
  induction pkts as [|p ps IH]; intros tail co b Hf Ht; cbn [stream_of flat_map app].
  - exact Ht.
  - inversion Hf; subst. rewrite <- app_assoc.
    eapply P_next; [reflexivity|apply run_body_framed; assumption|]. apply IH; assumption.
Qed.

Lemma run_body_empty : run_one run_body [] = OBlocked run_body [].
Proof. destruct run_body_read as [k E]. rewrite E. reflexivity. Qed.

Theorem framing cfg pkts chunks f' outs :
  Forall framed pkts -> concat chunks = stream_of pkts ->
  run_events cfg face_init (map Feed chunks) = (f', outs) ->
  concat outs = pkts /\ f' = face_init.
Proof.
  intros Hf Hc H. pose proof (feeds_concat cfg _ _ _ _ face_init_inv H) as H1.
  rewrite Hc in H1. cbn [step face_init f_eof f_buf f_co f_running f_closed app] in H1.
  rewrite (pump_complete _ true run_body (stream_of pkts) pkts (CBlocked run_body) []) in H1.
  - inversion H1; subst. split; reflexivity.
  - rewrite <- (app_nil_r (stream_of pkts)). apply pumps_stream; [exact Hf|]. apply P_blocked. apply run_body_empty.
  - lia.
Qed.

Theorem truncated cfg pkts pre chunks f' outs :
  catch_incomplete cfg = true ->
  Forall framed pkts -> partial_packet pre -> concat chunks = stream_of pkts ++ pre ->
  run_events cfg face_init (map Feed chunks ++ [Eof]) = (f', outs) ->
  concat outs = pkts /\ f' = Face false CFinished [] true true.
Proof.
  intros Hcfg Hf Hp Hc H.
  destruct (run_events cfg face_init (map Feed chunks)) as [f1 o1] eqn:E1.
  pose proof (feeds_concat cfg _ _ _ _ face_init_inv E1) as H1.
  rewrite Hc in H1. cbn [step face_init f_eof f_buf f_co f_running f_closed app] in H1.
  destruct (run_body_partial pre Hp) as (m & b & Eb).
  rewrite (pump_complete _ true run_body (stream_of pkts ++ pre) pkts (CBlocked m) b) in H1;
    [|apply pumps_stream; [exact Hf|apply P_blocked; exact Eb]|lia].
  inversion H1; subst f1. clear H1.
  destruct (run_events cfg (Face true (CBlocked m) b false false) [Eof]) as [f2 o2] eqn:E2.
  rewrite (run_events_app cfg _ _ _ _ _ _ _ E1 E2) in H. inversion H; subst f' outs. clear H.
  cbn [run_events step f_co f_running f_closed raise_in_run] in E2. rewrite Hcfg in E2. cbn in E2.
  inversion E2; subst f2 o2. rewrite concat_app. cbn [concat]. rewrite !app_nil_r. split; [|reflexivity].
  reflexivity.
Qed.
