(* Fault recovery: an operation that failed by an injected storage failure leaves a state that satisfies the
   invariant, and repeating the operation gives exactly the result and the state of a run that never failed. *)
From NDN Require Import Base.Prelude Model.Keychain Spec.KeychainSpec.
From NDN Require Import Proofs.KeychainTables Proofs.KeychainHoare Proofs.KeychainInv Proofs.KeychainOutcome
  Proofs.KeychainOutcomeA Proofs.KeychainOutcomeB Proofs.KeychainInvariant Proofs.KeychainCascade.
Local Open Scope N_scope.

Definition NF : Prop := @None nat <> None.
Lemma nf : ~ NF. Proof. intros H. apply H. reflexivity. Qed.

Lemma al_del_idem {V} (l : list (name * V)) k : NoDup (map fst l) -> al_del name_eqb (al_del name_eqb l k) k = al_del name_eqb l k.
Proof. intros ND. apply (al_del_absent name_eqb). apply (al_get_del_same name_eqb name_eqb_eq). assumption. Qed.

Lemma out_txn1_err F fn fin c e c1 : out_txn1 F fn fin c (Err e, c1) -> c1 = c.
Proof. intros [[t [_ H]] | [[e' [_ H]] | [_ H]]]; inversion H; reflexivity. Qed.

(* a key that the identity lists is found by del_key *)
Lemma listed_key_lookup t n i k :
  wf_tables t -> kc_get n t = Ok i -> In k (v_iter (r_id i) (t_keys t)) ->
  kc_get (drop2 k) t = Ok i /\ exists kr, id_get i k t = Ok kr.
Proof.
  intros W G Hin. apply v_iter_in in Hin. destruct Hin as [kr [Hkr [Nk Pk]]].
  pose proof (kc_get_ok _ _ _ G) as [Hi Ni].
  destruct (wf_kname _ W _ _ Hkr Hi (eq_sym Pk)) as [Dn _]. split.
  - rewrite <- Nk, Dn. apply kc_get_in; auto.
  - exists kr. unfold id_get. apply v_get_in; auto. apply W.
Qed.

Section Det.
  Variable G : Prop.
  Hypothesis NG : ~ G.

  Lemma out_del_key_det kn c x y : out_del_key G kn c x -> out_del_key G kn c y -> x = y.
  Proof.
    unfold out_del_key. destruct (kc_get (drop2 kn) (db c)) as [i|]; [|congruence].
    destruct (id_get i kn (db c)) as [k|]; [|congruence].
    intros [-> | [[g _] | [g _]]] [-> | [[g' _] | [g' _]]]; try contradiction. reflexivity.
  Qed.
  Lemma del_ident_det n ks c x y : del_ident_out G n ks c x -> del_ident_out G n ks c y -> x = y.
  Proof.
    intros H. revert y. induction H as [c t' Ed | c HF | k ks c e c' Hout | k ks c c' x Hout Hrest IH]; intros y Hy.
    - inversion Hy; subst; [congruence | contradiction].
    - contradiction.
    - inversion Hy; subst.
      + eapply out_del_key_det; eassumption.
      + pose proof (out_del_key_det _ _ _ _ Hout H1). discriminate.
    - inversion Hy; subst.
      + pose proof (out_del_key_det _ _ _ _ Hout H3). discriminate.
      + pose proof (out_del_key_det _ _ _ _ Hout H1) as E. inversion E; subst. apply IH. assumption.
  Qed.

  Variable F : Prop.

  (* the repeat of a failed del_identity, seen from the state before the failed attempt *)
  Lemma del_ident_recover n ks c c1 :
    del_ident_out F n ks c (Err EFault, c1) ->
    inv c -> forall i, kc_get n (db c) = Ok i -> v_iter (r_id i) (t_keys (db c)) = ks ->
    forall x1, out_del_identity G n c1 x1 -> del_ident_out G n ks c x1.
  Proof.
    intros H. remember (Err EFault, c1) as x eqn:Ex. revert c1 Ex.
    induction H as [c t' Ed | c HF | k ks c e c' Hout | k ks c c' x Hout Hrest IH]; intros c1 Ex I i Gi Ei x1 H1.
    - discriminate.
    - inversion Ex; subst c1. unfold out_del_identity in H1. rewrite Gi, Ei in H1. exact H1.
    - inversion Ex; subst e c'. clear Ex.
      assert (Hin : In k (v_iter (r_id i) (t_keys (db c)))) by (rewrite Ei; left; reflexivity).
      destruct (listed_key_lookup _ _ _ _ (inv_wf _ I) Gi Hin) as [Gk [kr Gkr]].
      assert (Hc1 : db c1 = db c /\ al_del name_eqb (tpm c1) k = al_del name_eqb (tpm c) k).
      { unfold out_del_key in Hout. rewrite Gk, Gkr in Hout.
        destruct Hout as [Hx | [[_ Hx] | [_ Hx]]]; inversion Hx; subst; cbn; split; auto.
        apply al_del_idem. apply I. }
      destruct Hc1 as [Edb Etp].
      unfold out_del_identity in H1. rewrite Edb, Gi, Ei in H1.
      inversion H1; subst.
      + exfalso. unfold out_del_key in H4. rewrite Edb, Gk, Gkr in H4.
        destruct H4 as [Hx | [[g _] | [g _]]]; [discriminate | contradiction | contradiction].
      + eapply DI_step; [|eassumption].
        unfold out_del_key in H2 |- *. rewrite Edb, Gk, Gkr in H2. rewrite Gk, Gkr.
        destruct H2 as [Hx | [[g _] | [g _]]]; [|contradiction|contradiction].
        left. rewrite Hx, Etp. reflexivity.
    - subst x.
      destruct (out_del_key_ok _ _ _ _ _ Hout) as [i0 [kr [Gk [Gkr [_ Ec']]]]].
      pose proof (inv_out_del_key _ _ _ _ I Hout) as I'. cbn [snd] in I'.
      assert (Gi' : kc_get n (db c') = Ok i) by (subst c'; cbn; exact Gi).
      assert (Ei' : v_iter (r_id i) (t_keys (db c')) = ks).
      { subst c'. cbn. apply v_iter_delete_head; [apply I | assumption]. }
      eapply DI_step; [|eapply IH; eauto].
      unfold out_del_key. rewrite Gk, Gkr. left. rewrite Ec'. reflexivity.
  Qed.
End Det.

Lemma del_key_recover F kn c c1 X Y :
  NoDup (map fst (tpm c)) ->
  out_del_key F kn c (Err EFault, c1) -> out_del_key NF kn c X -> out_del_key NF kn c1 Y -> Y = X.
Proof.
  intros ND H HX HY. unfold out_del_key in *.
  destruct (kc_get (drop2 kn) (db c)) as [i|] eqn:Gi.
  2:{ inversion H; subst. rewrite Gi in HY. congruence. }
  destruct (id_get i kn (db c)) as [kr|] eqn:Gk.
  2:{ inversion H; subst. rewrite Gi, Gk in HY. congruence. }
  destruct HX as [-> | [[g _] | [g _]]]; try destruct (nf g).
  destruct H as [H | [[_ H] | [_ H]]]; inversion H; subst c1; clear H; cbn [db set_cache set_tpm tpm] in HY;
    rewrite Gi, Gk in HY; destruct HY as [-> | [[g _] | [g _]]]; try destruct (nf g).
  - reflexivity.
  - rewrite al_del_idem by assumption. reflexivity.
Qed.
Lemma out_del_key_err_db F kn c e c1 : out_del_key F kn c (Err e, c1) -> db c1 = db c.
Proof.
  unfold out_del_key. destruct (kc_get (drop2 kn) (db c)) as [i|]; [|intros H; inversion H; reflexivity].
  destruct (id_get i kn (db c)) as [kr|]; [|intros H; inversion H; reflexivity].
  intros [H | [[_ H] | [_ H]]]; inversion H; reflexivity.
Qed.

Theorem fault_recovery k o c c1 :
  inv c -> wf_op o -> run_op (Some k) o c = (Err EFault, c1) ->
  inv c1 /\ run_op None o c1 = run_op None o c.
Proof.
  intros I Wo R.
  assert (I1 : inv c1).
  { pose proof (inv_step (Some k) o c I Wo) as X. unfold step in X. cbn [fst snd] in X. rewrite R in X. exact X. }
  split; [assumption|].
  pose proof (run_op_outs (Some k) o c (inv_clean _ I) (inv_wf _ I)) as H. rewrite R in H.
  pose proof (run_op_outs None o c (inv_clean _ I) (inv_wf _ I)) as HX.
  pose proof (run_op_outs None o c1 (inv_clean _ I1) (inv_wf _ I1)) as HY.
  fold NF in HX, HY.
  assert (Rb : do_rollback c = c) by (apply rollback_clean; apply I).
  assert (Triv : c1 = c -> run_op None o c1 = run_op None o c) by (intros ->; reflexivity).
  destruct o; cbn [outs] in H, HX, HY.
  - (* new_identity *) apply Triv. unfold out_new_identity in H. destruct (kc_contains n (db c)); [inversion H; reflexivity|].
    destruct H as [[t1 [i [_ [_ H]]]] | [_ H]]; inversion H; reflexivity.
  - (* touch_identity *)
    unfold out_touch in H. destruct (kc_contains n (db c)) eqn:Ct.
    { apply Triv. destruct (scope_has_def 0 (t_ids (db c))).
      - destruct H as [i [_ H]]. discriminate.
      - destruct H as [[t' [i [_ [_ H]]]] | [_ H]]; inversion H; reflexivity. }
    destruct H as [[_ H] | H]; [apply Triv; inversion H; reflexivity|].
    unfold out_touch in HX. rewrite Ct in HX. destruct HX as [[g _] | HX]; [destruct (nf g)|].
    destruct (sql_insert_identity n (db c)) as [t1|] eqn:E1; [|apply Triv; inversion H; reflexivity].
    destruct (kc_get n t1) as [i|] eqn:G1; [|apply Triv; inversion H; reflexivity].
    destruct (new_key_name n 0 (KidRandom cands) (tpm c)) as [kn|] eqn:Nn; [|apply Triv; inversion H; reflexivity].
    destruct H as [[t3 [i' [E3 [G3 H]]]] | [e [_ H]]]; [|apply Triv; inversion H; reflexivity].
    cbn zeta in H. destruct H as [H | [_ H]]; [discriminate|]. inversion H; subst c1. clear H.
    (* the failed call had completed everything: the repeat finds the identity *)
    destruct HX as [[t3' [i'' [E3' [G3' HX]]]] | [e [E3' _]]]; [|congruence].
    assert (t3' = t3) by congruence. subst t3'. assert (i'' = i') by congruence. subst i''.
    cbn zeta in HX. destruct HX as [HX | [g _]]; [|destruct (nf g)]. rewrite HX.
    unfold out_touch in HY. cbn [db] in HY.
    assert (Ct3 : kc_contains n t3 = true).
    { unfold kc_contains, v_contains. unfold kc_get in G3. rewrite G3. reflexivity. }
    assert (Hd3 : scope_has_def 0 (t_ids t3) = true).
    { destruct (insert_identity_facts _ _ _ (inv_wf _ I) E1) as [Hd1 _].
      pose proof (kc_get_ok _ _ _ G1) as [Hi1 _].
      destruct (new_key_db_facts _ _ _ _ _ _ (wf_insert_identity _ _ _ (inv_wf _ I) E1) Hi1 E3) as [_ [Ei3 _]].
      rewrite Ei3. assumption. }
    rewrite Ct3, Hd3 in HY. destruct HY as [i0 [G0 HY]]. rewrite HY. congruence.
  - (* new_key *) apply Triv. unfold out_new_key in H. destruct (negb (kc_contains idn (db c))); [inversion H; reflexivity|].
    destruct (kc_get idn (db c)); [|inversion H; reflexivity].
    destruct (new_key_name idn ktype ks (tpm c)); [|inversion H; reflexivity].
    destruct H as [[t2 [k0 [_ [_ H]]]] | [[e [_ H]] | [_ [H | H]]]]; inversion H; congruence.
  - apply Triv. eapply out_txn1_err; eassumption.
  - apply Triv. eapply out_txn1_err; eassumption.
  - apply Triv. unfold guarded in H. destruct (kc_get idn (db c)); [eapply out_txn1_err; eassumption | inversion H; reflexivity].
  - apply Triv. unfold guarded in H. destruct (kc_get idn (db c)) as [i|]; [|inversion H; reflexivity].
    destruct (id_get i kn (db c)); [eapply out_txn1_err; eassumption | inversion H; reflexivity].
  - apply Triv. eapply out_txn1_err; eassumption.
  - (* del_key *) eapply del_key_recover; eauto. apply I.
  - (* del_identity *)
    unfold out_del_identity in H, HX. destruct (kc_get n (db c)) as [i|] eqn:Gi; [|apply Triv; inversion H; reflexivity].
    eapply (del_ident_det NF nf); [|exact HX].
    eapply del_ident_recover; eauto.
  - (* Identity.del_key *)
    unfold guarded in H, HX. destruct (kc_get idn (db c)) as [i|] eqn:Gi; [|apply Triv; inversion H; reflexivity].
    unfold guarded in HY. rewrite (out_del_key_err_db _ _ _ _ _ H), Gi in HY.
    eapply del_key_recover; eauto. apply I.
  - apply Triv. unfold guarded in H. destruct (kc_get idn (db c)) as [i|]; [|inversion H; reflexivity].
    destruct (id_get i kn (db c)); [eapply out_txn1_err; eassumption | inversion H; reflexivity].
  - (* get_signer *) apply Triv. unfold out_get_signer in H.
    destruct (a_nosig a); [discriminate|]. destruct (a_digest a); [discriminate|].
    destruct (resolve_args a (db c)) as [kc|]; [|inversion H; reflexivity].
    destruct (al_get ckey_eqb (cache c) _); [discriminate|].
    destruct (al_get name_eqb (tpm c) (fst kc)); destruct H as [H | [_ H]]; inversion H; reflexivity.
  - discriminate.
Qed.
