(* abs after the statements on the keys and certificates tables. *)
From NDN Require Import Base.Prelude Model.Keychain Spec.KeychainSpec.
From NDN Require Import Proofs.KeychainTables Proofs.KeychainInv Proofs.KeychainInvariant Proofs.KeychainAbs
  Proofs.KeychainRefineLemmas Proofs.KeychainRefineA.
Local Open Scope N_scope.

Lemma rows_neq_id l (a b : row) : wf_rows l -> In a l -> In b l -> a <> b -> r_id a <> r_id b.
Proof. intros W Ha Hb N E. apply N. eapply id_inj; eassumption. Qed.

(* ---- INSERT INTO keys ------------------------------------------------------------------------------------------ *)
Lemma abs_insert_key t t1 tp i0 kn m :
  wf_tables t -> In i0 (t_ids t) -> drop2 kn = r_name i0 ->
  sql_insert_key (r_id i0) kn m t = Ok t1 ->
  abs_tables t1 (nset tp kn m) = s_add_key kn m (abs_tables t tp).
Proof.
  intros W Hi0 Dn E. unfold sql_insert_key in E. destruct (r_insert (r_id i0) kn m (t_keys t)) as [l|] eqn:R; [|discriminate].
  cbn in E. inversion E; subst t1. clear E. apply r_insert_ok in R. destruct R as [-> NI].
  set (newk := mkRow (next_id (t_keys t)) (r_id i0) kn m (negb (scope_has_def (r_id i0) (t_keys t)))).
  set (t1 := mkT (t_ids t) (t_keys t ++ [newk]) (t_certs t)).
  assert (Hfresh : forall c, In c (t_certs t) -> r_par c <> next_id (t_keys t)).
  { intros c Hc E. destruct (wf_cref _ W _ Hc) as [k [Hk Ek]]. apply (next_id_fresh_row _ _ Hk). congruence. }
  assert (Hnewk : abs_key t1 newk = mkSK m [] None).
  { unfold abs_key. cbn [r_val r_id newk t_certs t1]. f_equal.
    - apply scope_map_empty. assumption.
    - apply scope_defname_none. destruct (scope_has_def (next_id (t_keys t)) (t_certs t)) eqn:H; [|reflexivity].
      apply scope_has_def_true in H. destruct H as [c [Hc [_ Pc]]]. exfalso. apply (Hfresh c Hc Pc). }
  assert (Hother : forall i, In i (t_ids t) -> i <> i0 -> abs_ident t1 i = abs_ident t i).
  { intros i Hi Ni. pose proof (rows_neq_id _ _ _ (wf_i _ W) Hi Hi0 Ni) as Nid.
    unfold abs_ident. cbn [t_keys t1]. f_equal.
    - rewrite scope_map_app. replace (in_scope (r_id i) newk) with false by (symmetry; apply in_scope_false; cbn; congruence).
      rewrite app_nil_r. apply scope_map_ext. intros. apply abs_key_certs. reflexivity.
    - rewrite scope_defname_app. unfold is_def_in.
      replace (in_scope (r_id i) newk) with false by (symmetry; apply in_scope_false; cbn; congruence).
      rewrite andb_false_r. destruct (scope_defname (r_id i) (t_keys t)); reflexivity. }
  assert (Hmine : abs_ident t1 i0 =
                  mkSI (nset (si_keys (abs_ident t i0)) kn (mkSK m [] None)) (first_default (si_defkey (abs_ident t i0)) kn)).
  { unfold abs_ident. cbn [t_keys t1 si_keys si_defkey]. f_equal.
    - rewrite scope_map_app. replace (in_scope (r_id i0) newk) with true by (symmetry; apply in_scope_true; reflexivity).
      rewrite Hnewk. cbn [r_name newk]. rewrite nset_fresh.
      + reflexivity.
      + rewrite scope_map_nget. destruct (v_get (r_id i0) kn (t_keys t)) as [r|] eqn:G; [|reflexivity].
        apply v_get_ok in G. exfalso. apply NI. destruct G as [Hr [<- _]]. apply in_map. assumption.
    - rewrite scope_defname_app. unfold first_default. destruct (scope_defname (r_id i0) (t_keys t)) eqn:D; [reflexivity|].
      apply scope_defname_none in D. unfold is_def_in, in_scope. cbn [newk r_def r_par r_name]. rewrite D, N.eqb_refl. reflexivity. }
  unfold s_add_key, upd_ident. rewrite (s_ident_find _ _ _ W).
  rewrite (r_find_in _ _ i0 (wf_i _ W) Hi0 (eq_sym Dn)). cbn [option_map s_ids s_defid s_tpm].
  unfold abs_tables at 1. f_equal.
  change (scope_map (abs_ident t1) 0 (t_ids t1)) with (s_ids (abs_tables t1 tp)).
  rewrite (abs_update_ident t t1 tp i0 W eq_refl Hi0 Hother). rewrite Hmine, Dn. reflexivity.
Qed.

(* ---- INSERT INTO certificates ------------------------------------------------------------------------------------ *)
Lemma find_cert_owner t cn cr :
  wf_tables t -> r_find cn (t_certs t) = Some cr ->
  exists k0, In k0 (t_keys t) /\ r_id k0 = r_par cr /\ r_name k0 = drop2 cn /\ key_get k0 cn t = Ok cr.
Proof.
  intros W F. apply r_find_some in F. destruct F as [Hc Nc].
  destruct (wf_cref _ W _ Hc) as [k0 [Hk0 Ek0]]. destruct (wf_cname _ W _ _ Hc Hk0 Ek0) as [Dn _].
  exists k0. rewrite Nc in Dn. repeat split; auto.
  unfold key_get. apply v_get_in; auto. apply W.
Qed.
Lemma s_cert_find t tp cn :
  wf_tables t -> s_cert (abs_tables t tp) cn = option_map r_val (r_find cn (t_certs t)).
Proof.
  intros W. unfold s_cert. destruct (r_find cn (t_certs t)) as [cr|] eqn:F; cbn [option_map].
  - destruct (find_cert_owner _ _ _ W F) as [k0 [Hk0 [_ [Nk0 G]]]].
    rewrite (find_key_some _ _ _ k0 W (r_find_in _ _ _ (wf_k _ W) Hk0 Nk0)). cbn [obind].
    rewrite abs_cert_get, G. reflexivity.
  - destruct (s_key (abs_tables t tp) (drop2 cn)) as [k|] eqn:Sk; cbn [obind]; [|reflexivity].
    destruct (r_find (drop2 cn) (t_keys t)) as [kr|] eqn:Fk; [|rewrite (find_key_none _ _ _ Fk) in Sk; discriminate].
    rewrite (find_key_some _ _ _ _ W Fk) in Sk. inversion Sk; subst k. rewrite abs_cert_get.
    destruct (key_get kr cn t) as [c|] eqn:G; [|reflexivity]. unfold key_get in G. apply v_get_ok in G.
    apply r_find_none in F. exfalso. apply F. destruct G as [Hc [<- _]]. apply in_map. assumption.
Qed.

(* replace the entry of key k0 (owned by i0): two levels *)
Lemma abs_replace_key t t' tp k0 (g : skey -> skey) :
  wf_tables t -> t_ids t' = t_ids t -> t_keys t' = t_keys t -> In k0 (t_keys t) ->
  (forall k, In k (t_keys t) -> k <> k0 -> abs_key t' k = abs_key t k) ->
  abs_key t' k0 = g (abs_key t k0) ->
  abs_tables t' tp = upd_key (abs_tables t tp) (r_name k0) g.
Proof.
  intros W Ei Ek Hk0 Hother Hmine.
  destruct (wf_kref _ W _ Hk0) as [i0 [Hi0 Ei0]]. destruct (wf_kname _ W _ _ Hk0 Hi0 Ei0) as [Dn _].
  destruct (abs_update_key t t' i0 k0 W Ek Hk0 (eq_sym Ei0) Hother) as [Hkeys [Hdef Hoth]].
  unfold upd_key, upd_ident. rewrite (s_ident_find _ _ _ W), Dn.
  rewrite (r_find_in _ _ i0 (wf_i _ W) Hi0 eq_refl). cbn [option_map].
  rewrite abs_key_get. unfold id_get. rewrite (v_get_in _ _ _ _ (wf_k _ W) Hk0 eq_refl (eq_sym Ei0)).
  unfold abs_tables at 1. cbn [s_ids s_defid s_tpm]. rewrite Ei. f_equal.
  change (scope_map (abs_ident t') 0 (t_ids t)) with (scope_map (abs_ident t') 0 (t_ids t)).
  assert (Hids : s_ids (abs_tables t' tp) = nset (s_ids (abs_tables t tp)) (r_name i0) (abs_ident t' i0)).
  { apply abs_update_ident; auto. intros i Hi Ni. apply Hoth. apply (rows_neq_id _ _ _ (wf_i _ W) Hi Hi0 Ni). }
  unfold abs_tables in Hids at 1. cbn [s_ids] in Hids. rewrite Ei in Hids. rewrite Hids. f_equal.
  destruct (abs_ident t' i0) as [ks dk] eqn:Ea. cbn [si_keys si_defkey] in Hkeys, Hdef. subst ks dk.
  rewrite Hmine. reflexivity.
Qed.

Lemma abs_insert_cert t t2 tp kn cn d :
  wf_tables t -> drop2 cn = kn -> sql_insert_cert kn cn d t = Ok t2 ->
  abs_tables t2 tp = s_add_cert cn d (abs_tables t tp).
Proof.
  intros W Dn E. apply sql_insert_cert_ok in E. destruct E as [k0 [l [F [R ->]]]].
  apply r_find_some in F. destruct F as [Hk0 Nk0]. apply r_insert_ok in R. destruct R as [-> NI].
  set (newc := mkRow (next_id (t_certs t)) (r_id k0) cn d (negb (scope_has_def (r_id k0) (t_certs t)))).
  unfold s_add_cert. rewrite Dn, <- Nk0.
  apply abs_replace_key; auto.
  - intros k Hk Nk. pose proof (rows_neq_id _ _ _ (wf_k _ W) Hk Hk0 Nk) as Nid.
    unfold abs_key. cbn [t_certs]. f_equal.
    + rewrite scope_map_app. replace (in_scope (r_id k) newc) with false by (symmetry; apply in_scope_false; cbn; congruence).
      apply app_nil_r.
    + rewrite scope_defname_app. unfold is_def_in.
      replace (in_scope (r_id k) newc) with false by (symmetry; apply in_scope_false; cbn; congruence).
      rewrite andb_false_r. destruct (scope_defname (r_id k) (t_certs t)); reflexivity.
  - unfold abs_key. cbn [t_certs sk_bits sk_certs sk_defcert]. f_equal.
    + rewrite scope_map_app. replace (in_scope (r_id k0) newc) with true by (symmetry; apply in_scope_true; reflexivity).
      cbn [r_name r_val newc]. rewrite nset_fresh; [reflexivity|].
      rewrite scope_map_nget. destruct (v_get (r_id k0) cn (t_certs t)) as [r|] eqn:G; [|reflexivity].
      apply v_get_ok in G. exfalso. apply NI. destruct G as [Hr [<- _]]. apply in_map. assumption.
    + rewrite scope_defname_app. unfold first_default. destruct (scope_defname (r_id k0) (t_certs t)) eqn:D; [reflexivity|].
      apply scope_defname_none in D. unfold is_def_in, in_scope. cbn [newc r_def r_par r_name]. rewrite D, N.eqb_refl. reflexivity.
Qed.

(* ---- UPDATE keys / certificates SET is_default=1 ----------------------------------------------------------------- *)
Lemma abs_default_key t tp kn :
  wf_tables t ->
  abs_tables (mkT (t_ids t) (r_set_default kn (t_keys t)) (t_certs t)) tp =
  match s_key (abs_tables t tp) kn with
  | Some _ => upd_ident (abs_tables t tp) (drop2 kn) (fun i => mkSI (si_keys i) (Some kn))
  | None => abs_tables t tp
  end.
Proof.
  intros W. set (t' := mkT (t_ids t) (r_set_default kn (t_keys t)) (t_certs t)).
  assert (Hkeys : forall i, si_keys (abs_ident t' i) = si_keys (abs_ident t i)).
  { intros i. unfold abs_ident. cbn [si_keys t_keys t']. rewrite scope_map_set_default.
    - apply scope_map_ext. intros. apply abs_key_certs. reflexivity.
    - intros x y S. unfold abs_key. cbn [t_certs t']. destruct S as [-> [_ [_ ->]]]. reflexivity. }
  destruct (r_find kn (t_keys t)) as [kr|] eqn:F.
  - rewrite (find_key_some _ _ _ _ W F). destruct (find_key_owner _ _ _ W F) as [i0 [Hi0 [Ei0 [Ni0 _]]]].
    assert (Hdef : forall i, si_defkey (abs_ident t' i) = if r_par kr =? r_id i then Some kn else si_defkey (abs_ident t i)).
    { intros i. unfold abs_ident. cbn [si_defkey t_keys t']. apply scope_defname_set_default; [apply W | assumption]. }
    unfold upd_ident. rewrite (s_ident_find _ _ _ W), <- Ni0. rewrite (r_find_in _ _ i0 (wf_i _ W) Hi0 eq_refl). cbn [option_map].
    unfold abs_tables at 1. cbn [t_ids t']. f_equal.
    change (scope_map (abs_ident t') 0 (t_ids t)) with (s_ids (abs_tables t' tp)).
    rewrite (abs_update_ident t t' tp i0 W eq_refl Hi0).
    + f_equal. destruct (abs_ident t' i0) as [ks dk] eqn:Ea. pose proof (Hkeys i0) as H1. pose proof (Hdef i0) as H2.
      rewrite Ea in H1, H2. cbn in H1, H2. subst ks. rewrite <- Ei0, N.eqb_refl in H2. subst dk. reflexivity.
    + intros i Hi Ni. pose proof (rows_neq_id _ _ _ (wf_i _ W) Hi Hi0 Ni) as Nid.
      destruct (abs_ident t' i) as [ks dk] eqn:Ea. pose proof (Hkeys i) as H1. pose proof (Hdef i) as H2.
      rewrite Ea in H1, H2. cbn in H1, H2. subst ks.
      replace (r_par kr =? r_id i) with false in H2 by (symmetry; apply N.eqb_neq; congruence). subst dk.
      reflexivity.
  - rewrite (find_key_none _ _ _ F). unfold t', r_set_default. rewrite F. destruct t; reflexivity.
Qed.

Lemma abs_default_cert t tp cn :
  wf_tables t ->
  abs_tables (mkT (t_ids t) (t_keys t) (r_set_default cn (t_certs t))) tp =
  match s_cert (abs_tables t tp) cn with
  | Some _ => upd_key (abs_tables t tp) (drop2 cn) (fun k => mkSK (sk_bits k) (sk_certs k) (Some cn))
  | None => abs_tables t tp
  end.
Proof.
  intros W. set (t' := mkT (t_ids t) (t_keys t) (r_set_default cn (t_certs t))).
  rewrite (s_cert_find _ _ _ W). destruct (r_find cn (t_certs t)) as [cr|] eqn:F; cbn [option_map].
  - destruct (find_cert_owner _ _ _ W F) as [k0 [Hk0 [Ek0 [Nk0 _]]]]. rewrite <- Nk0.
    assert (Hk : forall k, abs_key t' k =
                          mkSK (sk_bits (abs_key t k)) (sk_certs (abs_key t k))
                               (if r_par cr =? r_id k then Some cn else sk_defcert (abs_key t k))).
    { intros k. unfold abs_key. cbn [t_certs t' sk_bits sk_certs sk_defcert]. f_equal.
      - apply scope_map_set_default. intros x y S. destruct S as [_ [_ [_ ->]]]. reflexivity.
      - apply scope_defname_set_default; [apply W | assumption]. }
    apply abs_replace_key; auto.
    + intros k Hk' Nk. pose proof (rows_neq_id _ _ _ (wf_k _ W) Hk' Hk0 Nk) as Nid. rewrite Hk.
      replace (r_par cr =? r_id k) with false by (symmetry; apply N.eqb_neq; congruence). reflexivity.
    + rewrite Hk. rewrite <- Ek0, N.eqb_refl. reflexivity.
  - unfold t', r_set_default. rewrite F. destruct t; reflexivity.
Qed.
