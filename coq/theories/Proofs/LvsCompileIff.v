(* compile accepts a schema exactly when it has none of the documented static errors. *)
From NDN Require Import Base.Prelude Base.Text Model.TlvVar Model.Name Model.LvsAst Model.LvsChecker Model.LvsCompiler
  Spec.LvsSem Spec.LvsChains Proofs.LvsGenTree Proofs.LvsCompileTree Proofs.LvsSortRules Proofs.LvsCompileStatic Proofs.LvsCompileAccepts Proofs.LvsExpand Proofs.LvsSimD.
Local Open Scope N_scope.

Lemma forallb_false_ex {A} (f : A -> bool) l : forallb f l = false -> exists x, In x l /\ f x = false.
Proof.
  induction l as [|a l IH]; cbn; [discriminate|]. destruct (f a) eqn:E; cbn; [|intros _; exists a; auto].
  intros H. destruct (IH H) as (x & Hx & Hf). exists x. auto.
Qed.

Lemma refs_cref d c : In c (rule_refs d) -> In (CRef c) (r_name d).
Proof.
  unfold rule_refs. intros H. apply in_flat_map in H. destruct H as (cp & Hcp & Hc). destruct cp as [v|p|r]; try destruct Hc.
  - subst. exact Hcp.
  - contradiction.
Qed.

Lemma labelled_in_renamed S lbl d : In (lbl, d) (labelled 1 S) -> In (set_rule_id d lbl) (rename_temp_rules 1 S).
Proof. intros H. rewrite rename_labelled. apply in_map_iff. exists (lbl, d). auto. Qed.

Lemma idx_lt x l : In x l -> (idx x l < length l)%nat.
Proof.
  induction l as [|y l IH]; [intros []|]. cbn. destruct (ident_eqb x y) eqn:E; [lia|]. intros [->|H]; [rewrite (proj2 (ident_eqb_eq _ _) eq_refl) in E; discriminate|].
  specialize (IH H). lia.
Qed.

Section Depth.
  Variable S : lvsfile.
  Let S' := rename_temp_rules 1 S.
  Variable sorted : list rule.
  Variable order : list ident.
  Hypothesis Hclosed : refs_closed S.
  Hypothesis Hnd : NoDup order.
  Hypothesis Hord : forall x, In x order <-> In x (dedup ident_eqb (map r_id S')).
  Hypothesis Hin : forall r, In r sorted <-> In r S'.
  Hypothesis Hedge : forall x y q1 q2, ref_edge S x y -> order = q1 ++ y :: q2 -> In x q2.

  (* a reference of a definition (under its label) points to a rule placed earlier *)
  Lemma ref_before lbl d c : In (lbl, d) (labelled 1 S) -> In c (rule_refs d) ->
    is_temp_rule c = false /\ (idx c order < idx lbl order)%nat /\ (idx lbl order < length order)%nat.
  Proof.
    intros Hl Hc. pose proof (labelled_in_renamed S lbl d Hl) as Hd'.
    destruct (Hclosed (set_rule_id d lbl) c Hd' Hc) as [Hids Ht]. split; [exact Ht|].
    apply (proj1 (ids_in S c)) in Hids. destruct Hids as (d' & Hd'S & Hid').
    assert (Hdef : In d' (defs_of (rename_temp_rules 1 S) c)) by (unfold defs_of; apply filter_In; split; [exact Hd'S | apply ident_eqb_eq; exact Hid']).
    pose proof (height_edge S sorted order Hnd Hord Hin Hedge (set_rule_id d lbl) c d' Hd' (refs_cref d c Hc) Hdef) as Hh.
    unfold height in Hh. cbn [set_rule_id r_id] in Hh. rewrite Hid' in Hh. split; [exact Hh|].
    apply idx_lt. apply (id_in_order S order Hord (set_rule_id d lbl) Hd').
  Qed.

  Lemma depth_ok : forall n x, is_temp_rule x = false -> (idx x order <= n)%nat -> ref_depth_ok (Datatypes.S n) S x = true.
  Proof.
    induction n as [|n IH]; intros x Hx Hidx; cbn [ref_depth_ok]; apply forallb_forall; intros d Hd; apply filter_In in Hd; destruct Hd as [HdS Hid];
      apply ident_eqb_eq in Hid; apply forallb_forall; intros c Hc; destruct (labelled_cover S 1 d HdS) as (lbl & Hl);
      assert (lbl = x) by (rewrite <- Hid; apply (labelled_plain S 1 lbl d Hl); rewrite Hid; exact Hx); subst lbl;
      destruct (ref_before x d c Hl Hc) as (Hct & Hlt & _).
    - lia.
    - apply IH; [exact Hct | lia].
  Qed.

  Lemma order_len : (length order <= length S)%nat.
  Proof.
    assert (length order <= length (map r_id S'))%nat.
    { apply NoDup_incl_length; [exact Hnd|]. intros x Hx. apply (proj1 (Hord x)) in Hx. apply (proj1 (in_dedup _ ident_eqb_eq _ _)) in Hx. exact Hx. }
    rewrite map_length in H. unfold S' in H. rewrite rename_length in H. exact H.
  Qed.

  Lemma all_depth_ok d : In d S -> ref_depth_ok (Datatypes.S (length S)) S (r_id d) = true.
  Proof.
    intros Hd. cbn [ref_depth_ok]. apply forallb_forall. intros d2 Hd2. apply filter_In in Hd2. destruct Hd2 as [Hd2S _].
    apply forallb_forall. intros c Hc. destruct (labelled_cover S 1 d2 Hd2S) as (lbl & Hl).
    destruct (ref_before lbl d2 c Hl Hc) as (Hct & Hlt & Hlen). pose proof order_len as Hol.
    destruct (length S) as [|n] eqn:El; [lia|]. apply depth_ok; [exact Hct | lia].
  Qed.
End Depth.

Definition sign_plain (S : lvsfile) : Prop := forall d k, In d S -> In k (r_sign d) -> ident_plain k.

Theorem compile_ok_static S m : sign_plain S -> compile S = Ok m -> static_ok S = true.
Proof.
  intros Hpl Hm.
  assert (Hne : compile S <> Err ESemantic) by (rewrite Hm; discriminate).
  unfold static_ok. repeat (apply andb_true_iff; split).
  - destruct (forallb _ S) eqn:E; [reflexivity|]. exfalso. apply forallb_false_ex in E. destruct E as (d & Hd & E).
    apply forallb_false_ex in E. destruct E as (c & Hc & E). apply Hne. eapply compile_rejects_bad_reference; eauto.
  - unfold compile, chains_of in Hm.
    destruct (sort_rule_references S) as [[sorted order]|] eqn:Es; cbn [bind] in Hm; [|discriminate].
    pose proof (sort_rule_references_spec S) as Hs. rewrite Es in Hs. destruct Hs as (Hclosed & Hnd & Hord & _ & Hin & _ & Hedge).
    apply forallb_forall. intros d Hd. apply (all_depth_ok S sorted order Hclosed Hnd Hord Hin Hedge d Hd).
  - destruct (forallb _ S) eqn:E; [reflexivity|]. exfalso. apply forallb_false_ex in E. destruct E as (d & Hd & E).
    apply forallb_false_ex in E. destruct E as (cs & Hcs & E). apply forallb_false_ex in E. destruct E as (tc & Htc & E).
    apply Hne. eapply compile_rejects_bad_constraint; eauto.
  - destruct (forallb _ S) eqn:E; [reflexivity|]. exfalso. apply forallb_false_ex in E. destruct E as (d & Hd & E).
    apply forallb_false_ex in E. destruct E as (k & Hk & E). apply Hne. eapply compile_rejects_unknown_signer; eauto.
Qed.

(* accepted exactly when free of static errors *)
Theorem compile_iff S : schema_wf S = true -> sign_plain S -> ((exists m, compile S = Ok m) <-> static_ok S = true).
Proof.
  intros Hwf Hpl. split.
  - intros (m & Hm). eapply compile_ok_static; eauto.
  - intros Hs. destruct (compile_accepts S Hs Hwf) as (chains & st & m & _ & Hm & _). eauto.
Qed.

(* ---- building a checker from a compiled schema -------------------------------------------------------------------------------- *)
From NDN Require Import Proofs.LvsFlatten Proofs.LvsCompileThms Proofs.LvsSanity Proofs.LvsSignGraph.

Lemma compiled_ids_ok S chains st m : chains_of S = Ok (chains, st) -> compile S = Ok m -> ids_ok m.
Proof.
  intros Hc Hm. destruct (compile_unfold _ _ _ _ Hc Hm) as (t0 & _ & Hmodel).
  destruct (compiled_mirrors st m t0 Hmodel) as [Hl Hall]. intros i nd Hg.
  unfold get_node in Hg. destruct (N.ltb_spec i (N.of_nat (length (m_nodes m)))) as [Hlt|]; [|discriminate].
  destruct (nth_error (fst (flatten t0 None 0 (N.of_nat (length (ns_named st))))) (N.to_nat i)) as [g|] eqn:Eg.
  - destruct (Hall _ _ Eg) as (nd' & Hnd' & Hid & _). rewrite Hg in Hnd'. inversion Hnd'; subst nd'. rewrite Hid, N2Nat.id. reflexivity.
  - apply nth_error_None in Eg. lia.
Qed.

(* Checker(compile S): accepted iff no name pattern (node) is, directly or transitively, its own signer; else the schema error *)
Theorem checker_verdict S m : static_ok S = true -> schema_wf S = true -> compile S = Ok m ->
  ((exists r, sanity_check (sanity_fuel m) m = Ok r) <-> sign_acyclic m) /\
  (forall e, sanity_check (sanity_fuel m) m = Err e -> e = ESemantic).
Proof.
  intros Hs Hwf Hm. destruct (compile_accepts S Hs Hwf) as (chains & st & m' & Hc & Hm' & Hok).
  rewrite Hm in Hm'. inversion Hm'; subst m'.
  apply loader_verdict; [exact (compile_sane (fun _ => None) S chains st m Hc Hm Hok) | eapply compiled_ids_ok; eauto].
Qed.
