(* URI <-> component / name round trips (C09). *)
From NDN Require Import Base.Prelude Base.Text Model.TlvVar Model.Name
  Proofs.BytesLemmas Proofs.TlvVarProofs Proofs.TextProofs Proofs.NameWire.
Local Open Scope N_scope.

Arguments N.pow : simpl never.
Arguments N.mul : simpl never.
Arguments N.add : simpl never.
Arguments N.div : simpl never.
Arguments N.modulo : simpl never.
Arguments N.of_nat : simpl never.

(* a CHARSET character that is neither '=' nor '/' nor '%'-sensitive for counting purposes *)
Definition okc (c : N) : bool := in_charset c && negb (c =? 61) && negb (c =? 47).

Lemma okc_in_charset s : forallb okc s = true -> forallb in_charset s = true.
Proof.
  intros H. rewrite forallb_forall in *. intros c Hc. specialize (H c Hc). unfold okc in H.
  apply andb_true_iff in H. destruct H as [H _]. apply andb_true_iff in H. tauto.
Qed.

Lemma okc_count s : forallb okc s = true -> count_eq 61 s = 0%nat.
Proof.
  induction s as [|c s IH]; intros H; [reflexivity|]. cbn [forallb] in H. apply andb_true_iff in H.
  destruct H as [Hc Hs]. cbn [count_eq]. rewrite IH by exact Hs. unfold okc in Hc.
  destruct (c =? 61); [rewrite andb_false_r in Hc; discriminate|reflexivity].
Qed.

Lemma okc_index s : forallb okc s = true -> index_of 61 s = None.
Proof.
  induction s as [|c s IH]; intros H; [reflexivity|]. cbn [forallb] in H. apply andb_true_iff in H.
  destruct H as [Hc Hs]. cbn [index_of]. rewrite IH by exact Hs. unfold okc in Hc.
  destruct (c =? 61); [rewrite andb_false_r in Hc; discriminate|reflexivity].
Qed.

Lemma okc_noslash s : forallb okc s = true -> forallb (fun c => negb (c =? 47)) s = true.
Proof.
  intros H. rewrite forallb_forall in *. intros c Hc. specialize (H c Hc). unfold okc in H.
  apply andb_true_iff in H. tauto.
Qed.

Lemma count_eq_app c a b : count_eq c (a ++ b) = (count_eq c a + count_eq c b)%nat.
Proof. induction a as [|x a IH]; cbn [app count_eq]; [reflexivity|]. rewrite IH. lia. Qed.

Lemma index_of_app_okc a r : forallb okc a = true -> index_of 61 (a ++ 61 :: r) = Some (length a).
Proof.
  induction a as [|c a IH]; intros H.
  - reflexivity.
  - cbn [forallb] in H. apply andb_true_iff in H. destruct H as [Hc Hs].
    cbn [app index_of length]. rewrite IH by exact Hs. unfold okc in Hc.
    destruct (c =? 61); [rewrite andb_false_r in Hc; discriminate|reflexivity].
Qed.

Lemma is_digit_okc c : is_digit c = true -> okc c = true.
Proof.
  intros H. unfold is_digit in H.
  assert (D : c = 48 \/ c = 49 \/ c = 50 \/ c = 51 \/ c = 52 \/ c = 53 \/ c = 54 \/ c = 55 \/ c = 56 \/ c = 57) by lia.
  repeat (destruct D as [->|D]; [reflexivity|]). subst. reflexivity.
Qed.

Lemma digits_okc s : forallb is_digit s = true -> forallb okc s = true.
Proof. intros H. rewrite forallb_forall in *. intros c Hc. apply is_digit_okc, H, Hc. Qed.

(* per-byte facts about the escaping used by to_str / to_canonical_uri *)
Lemma uri_char_okc b : b < 256 -> forallb okc (uri_char b) = true.
Proof. apply (byte_forall (fun b => forallb okc (uri_char b))). vm_compute. reflexivity. Qed.

Lemma uri_char_nonempty b : uri_char b <> [].
Proof. unfold uri_char. destruct (_ && _); discriminate. Qed.

Lemma pct_decode_uri_char b r : b < 256 ->
  pct_decode (uri_char b ++ r) = option_map (cons b) (pct_decode r).
Proof.
  intros Hb. unfold uri_char.
  destruct (in_charset b && negb (b =? 37) && negb (b =? 61)) eqn:E.
  - cbn [app pct_decode]. destruct (b =? 37) eqn:E37.
    + rewrite andb_false_r in E. cbn in E. discriminate.
    + destruct (pct_decode r); reflexivity.
  - cbn [app pct_decode]. change (37 =? 37) with true. cbv iota.
    destruct (hex_upper_roundtrip b Hb) as (H1 & H2 & H3). rewrite H1, H2. cbn [obind].
    destruct (pct_decode r); cbn [obind option_map]; [rewrite H3|]; reflexivity.
Qed.

Lemma pct_decode_body v : wf_bytes v -> pct_decode (flat_map uri_char v) = Some v.
Proof.
  induction 1 as [|b v Hb Hv IH]; [reflexivity|].
  cbn [flat_map]. rewrite pct_decode_uri_char by exact Hb. rewrite IH. reflexivity.
Qed.

Lemma body_okc v : wf_bytes v -> forallb okc (flat_map uri_char v) = true.
Proof.
  induction 1 as [|b v Hb Hv IH]; [reflexivity|].
  cbn [flat_map]. rewrite forallb_app, uri_char_okc by exact Hb. exact IH.
Qed.

Lemma body_nonempty v : v <> [] -> flat_map uri_char v <> [].
Proof.
  destruct v as [|b v]; [congruence|]. intros _. cbn [flat_map].
  pose proof (uri_char_nonempty b). destruct (uri_char b); [congruence|discriminate].
Qed.

(* splitting "typ_str=rest" *)
Lemma comp_from_str_typed ds body :
  forallb okc ds = true -> forallb okc body = true ->
  comp_from_str (ds ++ 61 :: body) = comp_from_typed ds body.
Proof.
  intros Hd Hb. unfold comp_from_str.
  destruct (ds ++ 61 :: body) as [|c0 r0] eqn:E; [destruct ds; discriminate|]. rewrite <- E. clear E c0 r0.
  assert (Hcs : forallb in_charset (ds ++ 61 :: body) = true).
  { rewrite forallb_app. cbn [forallb]. rewrite (okc_in_charset ds Hd), (okc_in_charset body Hb). reflexivity. }
  rewrite Hcs. cbn [negb].
  rewrite count_eq_app. cbn [count_eq]. rewrite (okc_count ds Hd), (okc_count body Hb).
  change (61 =? 61) with true. cbn [Nat.add Nat.ltb Nat.leb].
  rewrite index_of_app_okc by exact Hd.
  rewrite firstn_app_exact.
  replace (skipn (S (length ds)) (ds ++ 61 :: body)) with body; [reflexivity|].
  clear. induction ds as [|c ds IH]; [reflexivity|]. cbn [length app skipn]. exact IH.
Qed.

Lemma comp_split_enc t v :
  t < two64 -> N.of_nat (length v) < two64 -> comp_split (comp_enc t v) = Ok (t, v).
Proof.
  intros Ht Hv. unfold comp_split, comp_enc.
  rewrite tl_dec_enc by exact Ht. cbn [bind].
  rewrite skipn_app_exact' by (symmetry; apply tl_enc_length).
  rewrite tl_dec_enc by exact Hv. cbn [bind].
  rewrite !app_length, !tl_enc_length.
  replace (N.of_nat (tl_size t + (tl_size (N.of_nat (length v)) + length v)) =?
           N.of_nat (length v) + N.of_nat (tl_size t + tl_size (N.of_nat (length v)))) with true by lia.
  rewrite app_assoc. rewrite skipn_app_exact' by (rewrite app_length, !tl_enc_length; reflexivity). reflexivity.
Qed.

Definition valid_type (t : N) : Prop := 0 < t /\ t <= 65535.

Lemma head_digit_not_key ds :
  ds <> [] -> forallb is_digit ds = true ->
  str_eqb ds s_sha256digest = false /\ str_eqb ds s_params_sha256 = false /\ alt_by_str alt_uri ds = None.
Proof.
  intros Hne Hd. destruct ds as [|c r]; [congruence|]. cbn [forallb] in Hd. apply andb_true_iff in Hd.
  destruct Hd as [Hc _]. unfold is_digit in Hc.
  assert (E1 : (c =? 115) = false) by lia. assert (E2 : (c =? 112) = false) by lia.
  assert (E3 : (c =? 111) = false) by lia. assert (E4 : (c =? 118) = false) by lia.
  assert (E5 : (c =? 116) = false) by lia.
  unfold str_eqb, s_sha256digest, s_params_sha256, alt_uri. cbn [list_eqb alt_by_str].
  repeat (first [rewrite E1 | rewrite E2 | rewrite E3 | rewrite E4 | rewrite E5]; cbn [andb list_eqb alt_by_str]).
  unfold str_eqb. cbn [list_eqb].
  repeat (first [rewrite E1 | rewrite E2 | rewrite E3 | rewrite E4 | rewrite E5]; cbn [andb list_eqb]).
  auto.
Qed.

(* from_str on the canonical URI body of (t, v) *)
Lemma comp_from_str_uri_body t v :
  valid_type t -> wf_bytes v -> comp_from_str (uri_body t v) = Ok (comp_enc t v).
Proof.
  intros [Ht0 Ht1] Hv. unfold uri_body, TYPE_GENERIC.
  destruct (t =? 8) eqn:E8.
  - apply N.eqb_eq in E8. subst t. cbn [app].
    destruct v as [|b v'] eqn:Ev; [reflexivity|]. rewrite <- Ev in *.
    assert (Hne : flat_map uri_char v <> []) by (apply body_nonempty; congruence).
    unfold comp_from_str. destruct (flat_map uri_char v) as [|c0 r0] eqn:E; [congruence|]. rewrite <- E.
    rewrite (okc_in_charset _ (body_okc v Hv)). cbn [negb].
    rewrite (okc_count _ (body_okc v Hv)). cbn [Nat.ltb Nat.leb].
    rewrite (okc_index _ (body_okc v Hv)). rewrite pct_decode_body by exact Hv. reflexivity.
  - destruct (dec_print_spec t) as (Hne & Hd & Hval).
    rewrite <- app_assoc. cbn [app].
    rewrite comp_from_str_typed by (apply digits_okc; exact Hd) || (apply body_okc; exact Hv).
    unfold comp_from_typed.
    destruct (head_digit_not_key (dec_print t) Hne Hd) as (K1 & K2 & K3). rewrite K1, K2, K3.
    rewrite py_int_dec_print. cbn [of_opt bind]. unfold MAX_COMPONENT_TYPE.
    replace ((Z.of_N t <=? 0)%Z || (Z.of_N 65535 <? Z.of_N t)%Z) with false by lia.
    rewrite pct_decode_body by exact Hv. cbn [of_opt bind]. rewrite N2Z.id. reflexivity.
Qed.

(* C09: canonical URI round trip for every component *)
Theorem comp_canonical_uri_roundtrip t v :
  valid_type t -> wf_bytes v -> N.of_nat (length v) < two64 ->
  (do u <- comp_to_canonical_uri (comp_enc t v) ;; comp_from_str u) = Ok (comp_enc t v).
Proof.
  intros Ht Hv Hl. unfold comp_to_canonical_uri.
  rewrite comp_split_enc by (assumption || (destruct Ht; unfold two64; lia)). cbn [bind].
  apply comp_from_str_uri_body; assumption.
Qed.

(* ---- to_str (naming-convention shorthands) ----------------------------------------------------- *)
Lemma hexdigit_lower_okc b : b < 256 ->
  okc (hexdigit_lower (b / 16)) = true /\ okc (hexdigit_lower (b mod 16)) = true.
Proof.
  intros Hb.
  pose proof (byte_forall (fun b => okc (hexdigit_lower (b / 16)) && okc (hexdigit_lower (b mod 16)))
                ltac:(vm_compute; reflexivity) b Hb) as H.
  cbv beta in H. apply andb_true_iff in H. exact H.
Qed.

Lemma hex_print_okc v : wf_bytes v -> forallb okc (hex_print v) = true.
Proof.
  induction 1 as [|b v Hb Hv IH]; [reflexivity|]. cbn [hex_print forallb].
  destruct (hexdigit_lower_okc b Hb) as [H1 H2]. rewrite H1, H2, IH. reflexivity.
Qed.

Definition is_alt_type (t : N) : bool := (t =? 50) || (t =? 52) || (t =? 54) || (t =? 56) || (t =? 58).

Lemma alt_by_type_spec t :
  match alt_by_type alt_uri t with
  | Some k => is_alt_type t = true /\ forallb okc k = true /\ str_eqb k s_sha256digest = false
              /\ str_eqb k s_params_sha256 = false /\ alt_by_str alt_uri k = Some t
  | None => is_alt_type t = false
  end.
Proof.
  unfold alt_by_type, alt_uri, is_alt_type.
  destruct (t =? 50) eqn:E1; [apply N.eqb_eq in E1; subst; vm_compute; auto|].
  destruct (t =? 52) eqn:E2; [apply N.eqb_eq in E2; subst; vm_compute; auto|].
  destruct (t =? 54) eqn:E3; [apply N.eqb_eq in E3; subst; vm_compute; auto|].
  destruct (t =? 56) eqn:E4; [apply N.eqb_eq in E4; subst; vm_compute; auto|].
  destruct (t =? 58) eqn:E5; [apply N.eqb_eq in E5; subst; vm_compute; auto|].
  reflexivity.
Qed.

Lemma comp_from_bytes_ok v t : valid_type t -> comp_from_bytes v (Z.of_N t) = Ok (comp_enc t v).
Proof.
  intros [H0 H1]. unfold comp_from_bytes, MAX_COMPONENT_TYPE.
  replace ((Z.of_N t <=? 0)%Z || (Z.of_N 65535 <? Z.of_N t)%Z) with false by lia.
  rewrite N2Z.id. reflexivity.
Qed.

(* C09: URI round trip with naming-convention shorthands; numbers must be canonically encoded *)
Theorem comp_uri_roundtrip t v :
  valid_type t -> wf_bytes v -> N.of_nat (length v) < two64 ->
  (is_alt_type t = true -> nni_len_ok (length v) = true -> exists m, m < two64 /\ v = nni_enc m) ->
  (do u <- comp_to_str (comp_enc t v) ;; comp_from_str u) = Ok (comp_enc t v).
Proof.
  intros Ht Hv Hl Hcanon. unfold comp_to_str.
  rewrite comp_split_enc by (assumption || (destruct Ht; unfold two64; lia)). cbn [bind].
  unfold TYPE_IMPLICIT_SHA256, TYPE_PARAMETERS_SHA256.
  destruct (t =? 1) eqn:E1.
  { apply N.eqb_eq in E1. subst t. cbn [bind].
    rewrite comp_from_str_typed by (reflexivity || (apply hex_print_okc; exact Hv)).
    unfold comp_from_typed. change (str_eqb s_sha256digest s_sha256digest) with true. cbv iota.
    rewrite hex_parse_print by exact Hv. cbn [of_opt bind]. apply (comp_from_bytes_ok v 1). exact Ht. }
  destruct (t =? 2) eqn:E2.
  { apply N.eqb_eq in E2. subst t. cbn [bind].
    rewrite comp_from_str_typed by (reflexivity || (apply hex_print_okc; exact Hv)).
    unfold comp_from_typed. change (str_eqb s_params_sha256 s_sha256digest) with false.
    change (str_eqb s_params_sha256 s_params_sha256) with true. cbv iota.
    rewrite hex_parse_print by exact Hv. cbn [of_opt bind]. apply (comp_from_bytes_ok v 2). exact Ht. }
  pose proof (alt_by_type_spec t) as A. destruct (alt_by_type alt_uri t) as [k|].
  - destruct (nni_len_ok (length v)) eqn:EL; [|cbn [bind]; apply comp_from_str_uri_body; assumption].
    destruct A as (Ha & Hk & K1 & K2 & K3). destruct (Hcanon Ha eq_refl) as (m & Hm & ->). cbn [bind].
    destruct (dec_print_spec (be_to_N (nni_enc m))) as (Hne & Hd & _).
    rewrite comp_from_str_typed by (exact Hk || (apply digits_okc; exact Hd)).
    unfold comp_from_typed. rewrite K1, K2, K3. rewrite py_int_dec_print. cbn [of_opt bind].
    unfold comp_from_number. replace (Z.of_N (be_to_N (nni_enc m)) <? 0)%Z with false by lia.
    rewrite N2Z.id. unfold nni_enc at 1 2. rewrite be_to_N_to_be_small by (apply nni_width_bound; exact Hm).
    unfold nni_enc_r. replace (m <? two64) with true by lia. cbn [bind].
    apply comp_from_bytes_ok. exact Ht.
  - cbn [bind]. apply comp_from_str_uri_body; assumption.
Qed.
