(* C02, both ends for Data: whatever the decoder accepts and is well-formed has its reported ranges equal to the
   specification; and for every packet the library makes, the receiver's decoder reports exactly the bytes the
   signer was given. *)
From NDN Require Import Base.Prelude Model.TlvVar Model.Name Model.Tlv Model.Packet Model.PacketEnc Model.PacketPtrs
  Spec.TlvWf Spec.SignedPortion Generated.Schemas
  Proofs.BytesLemmas Proofs.TlvVarProofs Proofs.TlvSplit Proofs.TlvRoundtrip Proofs.TlvRoundtrip2 Proofs.TlvMore
  Proofs.PacketRoundtrip Proofs.SignedPortionProofs Proofs.PtrsSpecView Proofs.PtrsSplit Proofs.PtrsData Proofs.PtrsAccept.
Local Open Scope N_scope.
Set Default Timeout 900.
Arguments N.of_nat : simpl never.
Arguments N.to_nat : simpl never.

Definition fsD := ndn_format_0_3_DataPacketValue.
Definition relD (pa pw : nat) : Prop := (pa = 0 /\ pw <= 1)%nat \/ (1 <= pa /\ pw = S pa)%nat.

Lemma findD pa pw t : relD pa pw ->
  match find_from fsD 0 pa t with
  | Some (i, k) => exists j, find_field LD 0 pw t = Some j /\ relD (S i) (S j) /\ plain k
  | None => find_field LD 0 pw t = None
  end.
Proof.
  intros R. rewrite ffD. unfold fsD, ndn_format_0_3_DataPacketValue. cbn [find_from].
  assert (Hpl : forall k, (forall a, k <> KRepeated a) -> (forall a b c, k <> KMap a b c) -> plain k) by (intros; split; assumption).
  Ltac fin Hpl := cbn; repeat (rewrite ?Bool.andb_false_r, ?Bool.andb_true_r; cbn);
    first [reflexivity | (eexists; split; [reflexivity|split; [right; lia|apply Hpl; intros; discriminate]])].
  destruct (N.eqb_spec 7 t) as [<-|N7].
  { destruct R as [(-> & Hw)|(Hp & ->)]; [destruct pw as [|[|pw]]; [| |lia]|destruct pa as [|pa]; [lia|]]; fin Hpl. }
  destruct (N.eqb_spec 20 t) as [<-|N20].
  { destruct R as [(-> & Hw)|(Hp & ->)]; [destruct pw as [|[|pw]]; [| |lia]|destruct pa as [|[|pa]]; [lia| |]]; fin Hpl. }
  destruct (N.eqb_spec 21 t) as [<-|N21].
  { destruct R as [(-> & Hw)|(Hp & ->)]; [destruct pw as [|[|pw]]; [| |lia]|destruct pa as [|[|[|pa]]]; [lia| | |]]; fin Hpl. }
  destruct (N.eqb_spec 22 t) as [<-|N22].
  { destruct R as [(-> & Hw)|(Hp & ->)]; [destruct pw as [|[|pw]]; [| |lia]|destruct pa as [|[|[|[|pa]]]]; [lia| | | |]]; fin Hpl. }
  destruct (N.eqb_spec 23 t) as [<-|N23].
  { destruct R as [(-> & Hw)|(Hp & ->)]; [destruct pw as [|[|pw]]; [| |lia]|destruct pa as [|[|[|[|[|pa]]]]]; [lia| | | | |]]; fin Hpl. }
  cbn. rewrite !Bool.andb_false_r. reflexivity.
Qed.

Lemma ptrs_data_accepts w vs v :
  dec_data w = Ok vs -> parse_and_check_tl w TYPE_DATA = Ok v -> exists p, ptrs_data_with LD v = Ok p.
Proof.
  unfold dec_data, require_name, gen_decode. intros H Hv. rewrite Hv in H. cbn [bind] in H.
  destruct (parse_model _ _ false v) as [vs'|] eqn:Pm; [|discriminate].
  unfold parse_model, split_wire in Pm. rewrite elements_raw_fst in Pm.
  unfold ptrs_data_with, split_raw.
  destruct (elements_raw (S (length v)) v) as [rs|]; [|discriminate]. cbn [bind] in Pm |- *.
  destruct (assign_walk fsD LD relD findD _ _ _ _ _ 0%nat 0%nat [] Pm ltac:(left; split; [reflexivity|lia])) as (ev & Hev).
  rewrite map_map in Hev. rewrite Hev. cbn [bind]. destruct (sig_part 23 rs ev). eexists; reflexivity.
Qed.

(* serialised element lists are well-formed values *)
Lemma strict_split_ser els : forall fuel, Forall el_ok els -> (length els < fuel)%nat ->
  strict_split fuel (ser_els els) = Some (map (fun e => (e_type e, ser_elem e)) els).
Proof.
  induction els as [|e r IH]; intros fuel H Hf.
  - destruct fuel; [cbn in Hf; lia|]. reflexivity.
  - inversion H as [|? ? He Hr]; subst. destruct fuel; [cbn in Hf; lia|].
    unfold ser_els. cbn [map concat]. fold (ser_els r).
    assert (Hne : ser_elem e ++ ser_els r <> []).
    { unfold ser_elem, tlv. pose proof (tl_size_pos (e_type e)). pose proof (tl_enc_length (e_type e)).
      destruct (tl_enc (e_type e)); [cbn in *; lia|discriminate]. }
    destruct (ser_elem e ++ ser_els r) as [|b w'] eqn:Ew; [contradiction|]. rewrite <- Ew.
    assert (Hstep : strict_split (S fuel) (ser_elem e ++ ser_els r) =
                    match next_element (ser_elem e ++ ser_els r) with
                    | Some (t, e0, r0) => option_map (cons (t, e0)) (strict_split fuel r0)
                    | None => None end) by (rewrite Ew; reflexivity).
    rewrite Hstep, next_element_ser by exact He. rewrite IH by (try exact Hr; cbn in Hf; lia). reflexivity.
Qed.

Section Made.
Variable sign : bytes -> bytes.

(* for every Data the library makes with a signer, the receiver's decoder reports exactly what was signed *)
Theorem made_data_reported d m s :
  make_data sign d = Ok m -> d_sig d = Some s ->
  N.of_nat (length (m_wire m)) < two64 ->
  (forall sv, data_fits d sv) ->
  fits (KModel ndn_format_0_3_MetaInfo false) (d_meta d) ->
  fits (KModel ndn_format_0_3_SignatureInfo true) (si_info s) ->
  exists body p,
    m_wire m = tlv TYPE_DATA body /\ well_formed_value body /\
    ptrs_data_with LD body = Ok p /\
    concat (p_sig_covered p) = m_sig_covered m /\
    p_sig_value p = value_of_type (S (length body)) 23 body.
Proof.
  intros H Es Hl Hfit Hfm Hfs.
  destruct (data_sign_covers_spec sign d m s H Es Hl Hfm Hfs) as (body & Ew & Hsp).
  destruct (make_data_roundtrip sign d m H Hl Hfit) as (sv & Hdec & _).
  destruct (make_data_body sign d m H) as (body' & sv' & Ew' & Eb & _).
  assert (Hb : body' = body).
  { assert (P1 : parse_and_check_tl (m_wire m) TYPE_DATA = Ok body).
    { rewrite Ew. rewrite Ew, tlv_length in Hl. apply pact_tlv; [unfold TYPE_DATA, two64; lia|lia]. }
    assert (P2 : parse_and_check_tl (m_wire m) TYPE_DATA = Ok body').
    { rewrite Ew'. rewrite Ew', tlv_length in Hl. apply pact_tlv; [unfold TYPE_DATA, two64; lia|lia]. }
    congruence. }
  subst body'.
  assert (Hlb : N.of_nat (length body) < two64) by (rewrite Ew, tlv_length in Hl; lia).
  destruct (encode_wellformed _ _ _ _ (wf_fieldsb_spec _ wf_ndn_format_0_3_DataPacketValue) (Hfit sv') Eb Hlb)
    as (els & Eels & Hok & _).
  assert (Hwf : well_formed_value body).
  { eexists. rewrite Eels. apply strict_split_ser; [exact Hok|].
    pose proof (ser_els_length_ge els Hok). lia. }
  assert (Hpc : parse_and_check_tl (m_wire m) TYPE_DATA = Ok body).
  { rewrite Ew. rewrite Ew, tlv_length in Hl. apply pact_tlv; [unfold TYPE_DATA, two64; lia|lia]. }
  destruct (ptrs_data_accepts _ _ _ Hdec Hpc) as (p & Hp).
  destruct Hwf as (sel & Hsel).
  destruct (ptrs_data_spec body sel p Hsel Hp) as (Hval & Hcov & _).
  exists body, p. split; [exact Ew|]. split; [exists sel; exact Hsel|]. split; [exact Hp|].
  split; [apply Hcov; exact Hsp|exact Hval].
Qed.

End Made.
