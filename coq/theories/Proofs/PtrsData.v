(* C02 (receiving side, Data and certificates): on every well-formed packet value that the decoder accepts,
   the signature-covered range and the signature value it REPORTS are the specified ones. *)
From NDN Require Import Base.Prelude Model.TlvVar Model.Tlv Model.PacketPtrs Spec.SignedPortion
  Proofs.BytesLemmas Proofs.PtrsSpecView Proofs.PtrsSplit.
From NDN Require Generated.Schemas.
Local Open Scope N_scope.
Set Default Timeout 900.
Arguments N.of_nat : simpl never.
Arguments N.to_nat : simpl never.

Definition LD : layout := Generated.Schemas.ndn_format_0_3_DataPacketValue_layout.

(* the reflected declared order, as the walk sees it *)
Lemma ffD pos t :
  find_field LD 0 pos t =
  if 7 =? t then (if (pos <=? 1)%nat then Some 1%nat else None)
  else if 20 =? t then (if (pos <=? 2)%nat then Some 2%nat else None)
  else if 21 =? t then (if (pos <=? 3)%nat then Some 3%nat else None)
  else if 22 =? t then (if (pos <=? 4)%nat then Some 4%nat else None)
  else if 23 =? t then (if (pos <=? 5)%nat then Some 5%nat else None)
  else None.
Proof.
  unfold LD, Generated.Schemas.ndn_format_0_3_DataPacketValue_layout. cbn [find_field].
  destruct (N.eqb_spec 7 t) as [<-|N7]; [destruct pos as [|[|[|[|[|[|p]]]]]]; reflexivity|].
  destruct (N.eqb_spec 20 t) as [<-|N20]; [destruct pos as [|[|[|[|[|[|p]]]]]]; reflexivity|].
  destruct (N.eqb_spec 21 t) as [<-|N21]; [destruct pos as [|[|[|[|[|[|p]]]]]]; reflexivity|].
  destruct (N.eqb_spec 22 t) as [<-|N22]; [destruct pos as [|[|[|[|[|[|p]]]]]]; reflexivity|].
  destruct (N.eqb_spec 23 t) as [<-|N23]; destruct pos as [|[|[|[|[|[|p]]]]]]; reflexivity.
Qed.

Lemma smD pos i idx marks : (1 <= i)%nat ->
  set_marks LD 0 pos i idx marks = if (pos <=? 0)%nat then (1, idx) :: marks else marks.
Proof.
  intros Hi. unfold LD, Generated.Schemas.ndn_format_0_3_DataPacketValue_layout. cbn [set_marks].
  destruct pos; destruct i; try lia; reflexivity.
Qed.

Lemma ffD_range pos t i : find_field LD 0 pos t = Some i -> (1 <= i <= 5)%nat /\ (pos <= i)%nat.
Proof.
  rewrite ffD.
  destruct (7 =? t); [destruct (Nat.leb_spec pos 1); intros HH; inversion HH; lia|].
  destruct (20 =? t); [destruct (Nat.leb_spec pos 2); intros HH; inversion HH; lia|].
  destruct (21 =? t); [destruct (Nat.leb_spec pos 3); intros HH; inversion HH; lia|].
  destruct (22 =? t); [destruct (Nat.leb_spec pos 4); intros HH; inversion HH; lia|].
  destruct (23 =? t); [destruct (Nat.leb_spec pos 5); intros HH; inversion HH; lia|discriminate].
Qed.

(* once a field beyond the Name has been filled, a Name element is refused *)
Lemma walkD_no_name : forall ts idx pos marks ev,
  walk LD idx ts pos marks = Ok ev -> (2 <= pos)%nat -> ~ In 7 ts.
Proof.
  induction ts as [|t r IH]; intros idx pos marks ev H Hp; [intros []|].
  cbn [walk] in H. intros [E|Hin].
  - subst t. rewrite ffD in H. cbn in H. destruct (Nat.leb_spec pos 1); [lia|]. discriminate.
  - destruct (find_field LD 0 pos t) as [i|] eqn:F.
    + destruct (walk LD (S idx) r (S i) _) as [rest|] eqn:W; [|discriminate].
      apply ffD_range in F. eapply IH; [exact W|lia|exact Hin].
    + destruct (N.odd t); [discriminate|]. eapply IH; [exact H|exact Hp|exact Hin].
Qed.

(* the signature-start marker is recorded once, by the first element that is assigned to a field *)
Lemma walkD_marks_fixed : forall ts idx pos marks ev,
  walk LD idx ts pos marks = Ok ev -> (1 <= pos)%nat -> Forall (fun e => snd e = marks) ev.
Proof.
  induction ts as [|t r IH]; intros idx pos marks ev H Hp; [inversion H; constructor|].
  cbn [walk] in H. destruct (find_field LD 0 pos t) as [i|] eqn:F.
  - pose proof (ffD_range _ _ _ F) as (Hi & Hpi). rewrite smD in H by lia.
    destruct (Nat.leb_spec pos 0); [lia|].
    destruct (walk LD (S idx) r (S i) marks) as [rest|] eqn:W; [|discriminate]. inversion H; subst.
    constructor; [reflexivity|]. eapply IH; [exact W|lia].
  - destruct (N.odd t); [discriminate|]. eapply IH; [exact H|exact Hp].
Qed.

Lemma event_types : forall ts idx pos marks ev,
  walk LD idx ts pos marks = Ok ev -> Forall (fun e => In (snd (fst e)) ts) ev.
Proof.
  induction ts as [|t r IH]; intros idx pos marks ev H; [inversion H; constructor|].
  cbn [walk] in H. destruct (find_field LD 0 pos t) as [i|] eqn:F.
  - destruct (walk LD (S idx) r (S i) _) as [rest|] eqn:W; [|discriminate]. inversion H; subst.
    constructor; [left; reflexivity|]. eapply Forall_impl; [|eapply IH; exact W]. intros e He; right; exact He.
  - destruct (N.odd t); [discriminate|]. eapply Forall_impl; [|eapply IH; exact H]. intros e He; right; exact He.
Qed.

(* the first SignatureValue element is the one assigned to the field *)
Lemma walkD_sig_event : forall ts idx pos marks ev,
  walk LD idx ts pos marks = Ok ev -> (pos <= 5)%nat ->
  match idx_of 23 ts with
  | Some k => exists m, event_of 23 ev = Some ((idx + k)%nat, m)
  | None => event_of 23 ev = None
  end.
Proof.
  induction ts as [|t r IH]; intros idx pos marks ev H Hp; [inversion H; reflexivity|].
  cbn [walk] in H. cbn [idx_of].
  destruct (t =? 23) eqn:E.
  - apply N.eqb_eq in E. subst t. rewrite ffD in H. cbn in H. destruct (Nat.leb_spec pos 5); [|lia].
    destruct (walk LD (S idx) r 6 _) as [rest|] eqn:W; [|discriminate]. inversion H; subst.
    eexists. cbn [event_of]. rewrite N.eqb_refl. rewrite Nat.add_0_r. reflexivity.
  - destruct (find_field LD 0 pos t) as [i|] eqn:F.
    + destruct (walk LD (S idx) r (S i) _) as [rest|] eqn:W; [|discriminate]. inversion H; subst.
      assert (Hi : (S i <= 5)%nat).
      { rewrite ffD in F. apply N.eqb_neq in E.
        destruct (7 =? t); [destruct (pos <=? 1)%nat; inversion F; lia|].
        destruct (20 =? t); [destruct (pos <=? 2)%nat; inversion F; lia|].
        destruct (21 =? t); [destruct (pos <=? 3)%nat; inversion F; lia|].
        destruct (22 =? t); [destruct (pos <=? 4)%nat; inversion F; lia|].
        destruct (23 =? t) eqn:E'; [apply N.eqb_eq in E'; congruence|discriminate]. }
      specialize (IH (S idx) (S i) _ _ W Hi). cbn [event_of]. rewrite E.
      destruct (idx_of 23 r) as [k|]; cbn [option_map].
      * destruct IH as (m & Hm). exists m. rewrite Hm. f_equal. f_equal. lia.
      * exact IH.
    + destruct (N.odd t); [discriminate|]. specialize (IH (S idx) pos _ _ H Hp).
      destruct (idx_of 23 r) as [k|]; cbn [option_map].
      * destruct IH as (m & Hm). exists m. rewrite Hm. f_equal. f_equal. lia.
      * exact IH.
Qed.

Lemma idx_of_in t ts k : idx_of t ts = Some k -> In t ts.
Proof.
  revert k; induction ts as [|t' r IH]; intros k H; [discriminate|]. cbn [idx_of] in H.
  destruct (t' =? t) eqn:E; [apply N.eqb_eq in E; left; exact E|].
  destruct (idx_of t r); [|discriminate]. right. eapply IH. reflexivity.
Qed.
Lemma in_firstn {A} (x : A) k l : In x (firstn k l) -> In x l.
Proof. revert l; induction k; intros l H; [destruct H|]. destruct l; [destruct H|]. destruct H; [left|right]; auto. Qed.

(* the start marker is the first Name element, whenever a Name precedes the SignatureValue *)
Lemma walkD_start : forall ts idx ev k23 k7 m,
  walk LD idx ts 0 [] = Ok ev ->
  idx_of 23 ts = Some k23 -> idx_of 7 (firstn k23 ts) = Some k7 ->
  event_of 23 ev = Some ((idx + k23)%nat, m) -> get_mark MARK_SIG_START m = Some (idx + k7)%nat.
Proof.
  induction ts as [|t r IH]; intros idx ev k23 k7 m H H23 H7 He; [discriminate|].
  cbn [walk] in H. cbn [idx_of] in H23.
  destruct (t =? 23) eqn:E23.
  { inversion H23; subst. cbn in H7. discriminate. }
  destruct (idx_of 23 r) as [k23'|] eqn:R23; [|discriminate]. inversion H23; subst k23. clear H23.
  cbn [firstn idx_of] in H7.
  destruct (find_field LD 0 0 t) as [i|] eqn:F.
  - pose proof (ffD_range _ _ _ F) as (Hi & _). rewrite smD in H by lia. cbn [Nat.leb] in H.
    destruct (walk LD (S idx) r (S i) [(1, idx)]) as [rest|] eqn:W; [|discriminate]. inversion H; subst ev.
    cbn [event_of] in He. rewrite E23 in He.
    destruct (t =? 7) eqn:E7.
    + inversion H7; subst k7.
      pose proof (walkD_marks_fixed _ _ _ _ _ W ltac:(lia)) as Hfix.
      assert (Hm : m = [(1, idx)]).
      { clear -He Hfix. induction rest as [|[[i' t'] m'] rest IH]; [discriminate|]. cbn [event_of] in He.
        inversion Hfix as [|? ? A B]; subst. cbn [snd] in A.
        destruct (t' =? 23); [inversion He; subst; reflexivity|apply IH; assumption]. }
      subst m. cbn. f_equal. lia.
    + (* a field beyond the Name was filled first: no Name may follow, but one does *)
      exfalso. destruct (idx_of 7 (firstn k23' r)) as [k|] eqn:R7; [|discriminate].
      assert (Hi2 : (2 <= S i)%nat).
      { rewrite ffD in F. apply N.eqb_neq in E7.
        destruct (7 =? t) eqn:E'; [apply N.eqb_eq in E'; congruence|].
        destruct (20 =? t); [inversion F; lia|]. destruct (21 =? t); [inversion F; lia|].
        destruct (22 =? t); [inversion F; lia|]. destruct (23 =? t); [inversion F; lia|discriminate]. }
      eapply (walkD_no_name _ _ _ _ _ W Hi2). eapply in_firstn. eapply idx_of_in. exact R7.
  - destruct (N.odd t); [discriminate|].
    destruct (t =? 7) eqn:E7.
    { apply N.eqb_eq in E7. subst t. rewrite ffD in F. cbn in F. discriminate. }
    destruct (idx_of 7 (firstn k23' r)) as [k|] eqn:R7; [|discriminate]. inversion H7; subst k7.
    replace (idx + S k23')%nat with (S idx + k23')%nat in He by lia.
    rewrite (IH (S idx) ev k23' k m H eq_refl R7 He). f_equal. lia.
Qed.

Lemma types_firstn k sel : types (firstn k sel) = firstn k (types sel).
Proof. unfold types. symmetry. apply firstn_map. Qed.
Lemma raws_firstn k sel : raws (firstn k sel) = firstn k (raws sel).
Proof. unfold raws. symmetry. apply firstn_map. Qed.
Lemma raws_skipn k sel : raws (skipn k sel) = skipn k (raws sel).
Proof. unfold raws. symmetry. apply skipn_map. Qed.
Lemma Forall_firstn {A} (P : A -> Prop) k l : Forall P l -> Forall P (firstn k l).
Proof. revert l; induction k; intros l H; [constructor|]. destruct l; [constructor|]. inversion H; subst. constructor; auto. Qed.

(* the specified signed portion of a Data value, in terms of its elements *)
Lemma signed_portion_data_view v sel : strict_split (S (length v)) v = Some sel ->
  signed_portion_data v =
  match idx_of 23 (types sel) with
  | Some k23 => match idx_of 7 (firstn k23 (types sel)) with
                | Some k7 => Some (concat (firstn (k23 - k7) (skipn k7 (raws sel))))
                | None => None
                end
  | None => None
  end.
Proof.
  intros H. destruct (strict_split_inv _ _ _ H) as (Ev & Hel & Hlen).
  pose proof (length_le_concat sel Hlen) as G0. rewrite <- Ev in G0.
  unfold signed_portion_data. rewrite Ev at 2. rewrite (before_type_view sel Hel Hlen) by lia.
  destruct (idx_of 23 (types sel)) as [k23|]; cbn [option_map]; [|reflexivity].
  set (pre := firstn k23 sel).
  assert (Hel' : Forall is_el pre) by (apply Forall_firstn; exact Hel).
  assert (Hlen' : Forall (fun tr => (2 <= length (snd tr))%nat) pre) by (apply Forall_firstn; exact Hlen).
  pose proof (length_le_concat pre Hlen') as G1.
  rewrite (from_type_view pre Hel' Hlen') by lia.
  unfold pre. rewrite types_firstn. unfold T_NAME.
  destruct (idx_of 7 (firstn k23 (types sel))) as [k7|]; cbn [option_map]; [|reflexivity].
  rewrite raws_skipn, raws_firstn, skipn_firstn_comm. reflexivity.
Qed.

Theorem ptrs_data_spec v sel p :
  strict_split (S (length v)) v = Some sel ->
  ptrs_data_with LD v = Ok p ->
  p_sig_value p = value_of_type (S (length v)) 23 v /\
  (forall s, signed_portion_data v = Some s -> concat (p_sig_covered p) = s) /\
  (value_of_type (S (length v)) 23 v = None -> p_sig_covered p = [] /\ p_sig_value p = None).
Proof.
  intros Hs Hp.
  destruct (strict_split_inv _ _ _ Hs) as (Ev & Hel & Hlen).
  pose proof (length_le_concat sel Hlen) as G0. rewrite <- Ev in G0.
  destruct (split_raw_strict _ _ Hs) as (rs & Ers & Hag).
  unfold ptrs_data_with in Hp. rewrite Ers in Hp. cbn [bind] in Hp.
  rewrite (agrees_types _ _ Hag) in Hp.
  destruct (walk LD 0 (types sel) 0 []) as [ev|] eqn:W; [|discriminate]. cbn [bind] in Hp.
  assert (Hv : value_of_type (S (length v)) 23 v =
               match idx_of 23 (types sel) with Some k => match nth_error (raws sel) k with Some e => el_value e | None => None end | None => None end).
  { rewrite Ev at 2. apply value_of_type_view; [exact Hel|lia]. }
  pose proof (walkD_sig_event _ _ _ _ _ W ltac:(lia)) as Hev.
  unfold sig_part in Hp.
  destruct (idx_of 23 (types sel)) as [k23|] eqn:I23.
  - destruct Hev as (m & Hm). cbn [Nat.add] in Hm. rewrite Hm in Hp.
    assert (Hk : (k23 < length sel)%nat).
    { clear -I23. unfold types in I23. revert k23 I23. induction sel as [|x s IH]; intros k H; [discriminate|].
      cbn [map idx_of] in H. destruct (fst x =? 23); [inversion H; cbn; lia|].
      destruct (idx_of 23 (map fst s)) eqn:E; [|discriminate]. inversion H; subst. specialize (IH _ eq_refl). cbn; lia. }
    assert (Hnth : exists er, nth_error rs k23 = Some er).
    { pose proof (agrees_length _ _ Hag) as L. destruct (nth_error rs k23) eqn:E; [eexists; reflexivity|].
      apply nth_error_None in E. lia. }
    destruct Hnth as (er & Hnth). rewrite Hnth in Hp. cbn [option_map] in Hp.
    destruct (agrees_nth _ _ _ _ Hag Hnth) as (tr & Htr & (_ & Araw & Aval)).
    assert (Hraw : nth_error (raws sel) k23 = Some (snd tr)) by (unfold raws; rewrite nth_error_map, Htr; reflexivity).
    rewrite Hraw in Hv.
    split; [|split].
    + inversion Hp; subst p. cbn [p_sig_value]. rewrite Hv, Aval. reflexivity.
    + intros s Hsp. rewrite (signed_portion_data_view _ _ Hs), I23 in Hsp.
      destruct (idx_of 7 (firstn k23 (types sel))) as [k7|] eqn:I7; [|discriminate]. inversion Hsp; subst s.
      pose proof (walkD_start _ _ _ _ _ _ W I23 I7 Hm) as Hmk. cbn [Nat.add] in Hmk.
      rewrite Hmk in Hp. inversion Hp; subst p. cbn [p_sig_covered concat]. rewrite app_nil_r.
      unfold raws_between. rewrite (agrees_raws _ _ Hag). reflexivity.
    + intros Hnone. rewrite Hv, Aval in Hnone. discriminate.
  - rewrite Hev in Hp. inversion Hp; subst p. cbn [p_sig_value p_sig_covered].
    split; [rewrite Hv; reflexivity|]. split; [|intros _; split; reflexivity].
    intros s Hsp. rewrite (signed_portion_data_view _ _ Hs), I23 in Hsp. discriminate.
Qed.

(* certificates declare the same order as Data *)
Lemma cert_layout_is_data : Generated.Schemas.security_v2_CertificateV2Value_layout = LD.
Proof. reflexivity. Qed.

Theorem ptrs_cert_spec v sel p :
  strict_split (S (length v)) v = Some sel ->
  ptrs_data_with Generated.Schemas.security_v2_CertificateV2Value_layout v = Ok p ->
  p_sig_value p = value_of_type (S (length v)) 23 v /\
  (forall s, signed_portion_data v = Some s -> concat (p_sig_covered p) = s) /\
  (value_of_type (S (length v)) 23 v = None -> p_sig_covered p = [] /\ p_sig_value p = None).
Proof. rewrite cert_layout_is_data. apply ptrs_data_spec. Qed.
