(* C16: the issued certificate is accepted by the strict reader of the format (Spec/StrictTlv.v) -- at every nesting
   level, not only at the top -- and the strict reader extracts the same field values.  The encoder-output lemma of
   Proofs/TlvRoundtrip2.v is re-proved for the strict element reader; the scan-loop lemma (Proofs/TlvAssign.v) is
   generic in the element reader and is reused as it is. *)
From NDN Require Import Base.Prelude Base.Utf8 Model.TlvVar Model.Name Model.Tlv Model.Packet Model.PacketEnc Model.Cert
  Spec.TlvWf Spec.StrictTlv Generated.Schemas
  Proofs.BytesLemmas Proofs.TlvVarProofs Proofs.NameWire Proofs.TlvSplit Proofs.TlvAssign Proofs.TlvRoundtrip
  Proofs.TlvRoundtrip2 Proofs.TlvMore Proofs.PacketDecode Proofs.PacketRoundtrip Proofs.CertProofs.
Local Open Scope N_scope.
Set Default Timeout 900.

Arguments N.pow : simpl never.
Arguments N.mul : simpl never.
Arguments N.add : simpl never.
Arguments N.of_nat : simpl never.
Arguments N.to_nat : simpl never.
Arguments N.min : simpl never.

Lemma strict_split_ser els : Forall el_ok els -> strict_split (ser_els els) = Some els.
Proof.
  intros H. unfold strict_split. apply elements_exact_strict.
  - exact (split_wire_ser els H).
  - eapply Forall_impl; [|exact H]. intros e (_ & He & _). exact He.
Qed.

Lemma strict_val_model d fs ic e :
  strict_val (S d) (KModel fs ic) e =
  match strict_split (e_payload e) with
  | Some els => do vs <- assign_with (strict_val d) fs ic PNormal 0 els (blank fs) ;; Ok (VModel vs)
  | None => Err EIndex
  end.
Proof. reflexivity. Qed.

Lemma strict_val_mono d : pv_le (strict_val d) (strict_val (S d)).
Proof.
  induction d as [|d IH]; intros k e v H; [discriminate|].
  destruct k; try exact H.
  rewrite strict_val_model in H |- *.
  destruct (strict_split (e_payload e)) as [els|]; [|discriminate].
  destruct (assign_with (strict_val d) fs ignore_critical PNormal 0 els (blank fs)) as [vs|] eqn:E; [|discriminate].
  rewrite (assign_mono _ _ _ _ IH _ _ _ _ _ E). exact H.
Qed.

Definition PS (d : nat) : Prop :=
  forall t k v w, wfk t k -> fits k v -> enc_val d t k v = Ok w -> N.of_nat (length w) < two64 ->
  exists els, w = ser_els els /\ good (strict_val d) t k v els.

Lemma enc_fields_good_s d : PS d ->
  forall fs vs w, (forall t k, In (t, k) fs -> wfk t k) -> Forall2 (fun f v => fits (snd f) v) fs vs ->
  enc_fields_with (enc_val d) fs vs = Ok w -> N.of_nat (length w) < two64 ->
  exists items, map it_field items = fs /\ map it_value items = vs /\
                w = ser_els (concat (map it_els items)) /\ Forall (item_good (strict_val d)) items.
Proof.
  intros HP fs vs w Hwf HF. revert w. induction HF as [|[t k] v fs vs Hfit _ IH]; intros w He Hl.
  - cbn in He. inversion He; subst. exists []. repeat split; constructor.
  - cbn [enc_fields_with] in He. cbn [snd] in Hfit.
    destruct (enc_val d t k v) as [a|] eqn:Ea; [|discriminate]. cbn [bind] in He.
    destruct (enc_fields_with (enc_val d) fs vs) as [r|] eqn:Er; [|discriminate]. cbn [bind] in He.
    inversion He; subst w. rewrite app_length in Hl.
    destruct (HP t k v a (Hwf t k (or_introl eq_refl)) Hfit Ea ltac:(lia)) as (els & -> & Hg).
    destruct (IH (fun t' k' H => Hwf t' k' (or_intror H)) r eq_refl ltac:(lia)) as (items & E1 & E2 & -> & Hgs).
    exists (((t, k), v, els) :: items). cbn [map it_field it_value it_els fst snd concat].
    rewrite E1, E2. repeat split; try reflexivity.
    + rewrite ser_els_app. reflexivity.
    + constructor; [exact Hg|exact Hgs].
Qed.

Theorem enc_good_s : forall d, PS d.
Proof.
  induction d as [|d IH]; intros t k v w Hwf Hfit He Hl; [discriminate|].
  destruct Hfit as [k|fx n wd Hfw Hn| |s b Hutf|n Hcomps|fs ic vs HF|e l Hne HFl|kk vt vk l Hne HFl Hnk].
  - rewrite enc_val_none in He. inversion He; subst. exists []. split; [reflexivity|constructor].
  - (* uint *)
    inversion Hwf as [t0 fx0 Ht Hfx| | | | | | ]; subst.
    cbn [enc_val] in He. rewrite Hfw in He. cbn [bind] in He.
    replace (256 ^ N.of_nat wd <=? n) with false in He by lia.
    rewrite tl_enc_r_ok in He by exact Ht. cbn [bind] in He. inversion He; subst w. clear He.
    pose proof (fixed_width_cases _ _ _ Hfw) as Hc.
    assert (Ew : tl_enc t ++ N.of_nat wd :: N_to_be wd n = tlv t (N_to_be wd n)).
    { unfold tlv. rewrite N_to_be_length. rewrite (tl_enc_small (N.of_nat wd)) by (destruct Hc as [-> |[-> |[-> | ->]]]; lia). reflexivity. }
    rewrite Ew in *. apply good_single_intro; try reflexivity; try discriminate; try exact Ht.
    + eapply tlv_len_bound. exact Hl.
    + cbn [strict_val e_payload e_dlen]. rewrite N_to_be_length.
      replace ((N.of_nat wd =? 1) || (N.of_nat wd =? 2) || (N.of_nat wd =? 4) || (N.of_nat wd =? 8)) with true
        by (destruct Hc as [-> |[-> |[-> | ->]]]; reflexivity).
      rewrite be_to_N_to_be_small by exact Hn. reflexivity.
  - (* bool *)
    inversion Hwf as [ |t0 Ht| | | | | ]; subst.
    cbn [enc_val] in He. rewrite tl_enc_r_ok in He by exact Ht. cbn [bind] in He. inversion He; subst w. clear He.
    change (tl_enc t ++ [0]) with (tlv t []) in *.
    apply good_single_intro; try reflexivity; try discriminate; try exact Ht; try (unfold two64; cbn; lia).
  - (* bytes *)
    inversion Hwf as [ | |t0 s0 Ht| | | | ]; subst.
    cbn [enc_val] in He. rewrite tl_enc_r_ok in He by exact Ht. cbn [bind] in He. inversion He; subst w. clear He.
    change (tl_enc t ++ tl_enc (N.of_nat (length b)) ++ b) with (tlv t b) in *.
    apply good_single_intro; try reflexivity; try discriminate; try exact Ht.
    + eapply tlv_len_bound. exact Hl.
    + cbn [strict_val e_payload]. destruct s; [rewrite (Hutf eq_refl)|]; reflexivity.
  - (* name *)
    inversion Hwf; subst.
    cbn [enc_val] in He. inversion He; subst w. clear He.
    assert (En : name_encode n = tlv TYPE_NAME (concat n)).
    { unfold name_encode, tlv. rewrite name_value_length_concat. reflexivity. }
    rewrite En in *.
    apply good_single_intro; [reflexivity|discriminate|reflexivity| |].
    + eapply tlv_len_bound. exact Hl.
    + cbn [strict_val e_payload e_dlen e_type]. rewrite N.eqb_refl. cbn [negb].
      rewrite name_components_concat; [reflexivity|exact Hcomps|].
      pose proof (concat_length_ge n Hcomps). lia.
  - (* sub-model *)
    inversion Hwf as [ | | | |t0 fs0 ic0 Ht Hfs| | ]; subst.
    cbn [enc_val] in He.
    destruct (enc_fields_with (enc_val d) fs vs) as [inner|] eqn:Ei; [|discriminate]. cbn [bind] in He.
    rewrite tl_enc_r_ok in He by exact Ht. cbn [bind] in He. inversion He; subst w. clear He.
    change (tl_enc t ++ tl_enc (N.of_nat (length inner)) ++ inner) with (tlv t inner) in *.
    pose proof (tlv_len_bound _ _ Hl) as Hli.
    inversion Hfs as [fs1 Hnd Hall]; subst.
    destruct (enc_fields_good_s d IH fs vs inner Hall HF Ei Hli) as (items & E1 & E2 & -> & Hgs).
    apply good_single_intro; try reflexivity; try discriminate; try assumption.
    rewrite strict_val_model. cbn [e_payload].
    rewrite strict_split_ser by (eapply items_el_ok; exact Hgs).
    subst fs vs.
    pose proof (assign_fields (strict_val d) (map it_field items) ic Hnd items [] [] 0%nat
                  eq_refl eq_refl Hgs (le_n _)) as A.
    cbn [app] in A. unfold blank. rewrite map_map. rewrite A. reflexivity.
  - (* repeated *)
    inversion Hwf as [ | | | | |t0 e0 Hs Hwe| ]; subst.
    cbn [enc_val] in He.
    assert (G : forall l w, Forall (fun x => x <> VNone /\ fits e x) l -> rconcat (enc_val d t e) l = Ok w ->
                N.of_nat (length w) < two64 ->
                exists els, w = ser_els els /\ Forall2 (good1 (strict_val (S d)) t e) l els).
    { clear l Hne HFl He Hl w. induction l as [|x l IHl]; intros w HFl He Hl.
      - cbn in He. inversion He; subst. exists []. split; [reflexivity|constructor].
      - inversion HFl as [|? ? (Hx & Hfx) Hr]; subst. cbn [rconcat] in He.
        destruct (enc_val d t e x) as [a|] eqn:Ea; [|discriminate]. cbn [bind] in He.
        destruct (rconcat (enc_val d t e) l) as [r|] eqn:Er; [|discriminate]. cbn [bind] in He.
        inversion He; subst w. rewrite app_length in Hl.
        destruct (IH t e x a Hwe Hfx Ea ltac:(lia)) as (els & -> & Hg).
        destruct (good_single_inv _ _ _ _ _ Hg Hs Hx) as (ex & -> & (A1 & A2 & A3)).
        destruct (IHl r Hr eq_refl ltac:(lia)) as (els' & -> & HF2).
        exists (ex :: els'). split; [rewrite <- ser_els_app; reflexivity|].
        constructor; [|exact HF2]. split; [exact A1|split; [exact A2|apply strict_val_mono; exact A3]]. }
    destruct (G l w HFl He Hl) as (els & -> & HF2). exists els. split; [reflexivity|].
    apply good_rep; assumption.
  - (* map *)
    inversion Hwf as [ | | | | | |t0 kk0 vt0 vk0 Hkk Hwk Hsv Hwv]; subst.
    cbn [enc_val] in He.
    assert (Hsk : single kk = true) by (destruct kk; try discriminate; reflexivity).
    assert (G : forall l w,
                Forall (fun kv => fst kv <> VNone /\ fits kk (fst kv) /\ snd kv <> VNone /\ fits vk (snd kv)) l ->
                rconcat (fun kv => do a <- enc_val d t kk (fst kv) ;; do b <- enc_val d vt vk (snd kv) ;; Ok (a ++ b)) l = Ok w ->
                N.of_nat (length w) < two64 ->
                exists prs, w = ser_els (flat_map (fun pr => [fst pr; snd pr]) prs) /\
                            Forall2 (fun kv pr => good1 (strict_val (S d)) t kk (fst kv) (fst pr) /\
                                                  good1 (strict_val (S d)) vt vk (snd kv) (snd pr)) l prs).
    { clear l Hne HFl Hnk He Hl w. induction l as [|[key val] l IHl]; intros w HFl He Hl.
      - cbn in He. inversion He; subst. exists []. split; [reflexivity|constructor].
      - inversion HFl as [|? ? (Hk1 & Hk2 & Hv1 & Hv2) Hr]; subst. cbn [fst snd] in *. cbn [rconcat fst snd] in He.
        destruct (enc_val d t kk key) as [a|] eqn:Ea; [|discriminate]. cbn [bind] in He.
        destruct (enc_val d vt vk val) as [b|] eqn:Eb; [|discriminate]. cbn [bind] in He.
        destruct (rconcat _ l) as [r|] eqn:Er; [|discriminate]. cbn [bind] in He.
        inversion He; subst w. rewrite !app_length in Hl.
        destruct (IH t kk key a Hwk Hk2 Ea ltac:(lia)) as (els1 & -> & Hg1).
        destruct (IH vt vk val b Hwv Hv2 Eb ltac:(lia)) as (els2 & -> & Hg2).
        destruct (good_single_inv _ _ _ _ _ Hg1 Hsk Hk1) as (e1 & -> & (A1 & A2 & A3)).
        destruct (good_single_inv _ _ _ _ _ Hg2 Hsv Hv1) as (e2 & -> & (B1 & B2 & B3)).
        destruct (IHl r Hr eq_refl ltac:(lia)) as (prs & -> & HF2).
        exists ((e1, e2) :: prs). split.
        + cbn [flat_map fst snd app]. rewrite <- !ser_els_app. reflexivity.
        + constructor; [|exact HF2]. cbn [fst snd]. split.
          * split; [exact A1|split; [exact A2|apply strict_val_mono; exact A3]].
          * split; [exact B1|split; [exact B2|apply strict_val_mono; exact B3]]. }
    destruct (G l w HFl He Hl) as (prs & -> & HF2). eexists. split; [reflexivity|].
    apply good_map; assumption.
Qed.

(* the strict reader gives back what was encoded, for every well-formed model and legal assignment *)
Theorem strict_encode_roundtrip d fs ic vs w :
  wf_fields fs -> Forall2 (fun f v => fits (snd f) v) fs vs ->
  encode_model d fs vs = Ok w -> N.of_nat (length w) < two64 ->
  strict_model d fs ic w = Ok vs.
Proof.
  intros Hwf HF He Hl. inversion Hwf as [fs0 Hnd Hall]; subst.
  destruct (enc_fields_good_s d (enc_good_s d) fs vs w Hall HF He Hl) as (items & E1 & E2 & -> & Hgs).
  unfold strict_model. rewrite strict_split_ser by (eapply items_el_ok; exact Hgs).
  subst fs vs.
  pose proof (assign_fields (strict_val d) (map it_field items) ic Hnd items [] [] 0%nat
                eq_refl eq_refl Hgs (le_n _)) as A.
  cbn [app] in A. unfold blank. rewrite map_map. rewrite A. reflexivity.
Qed.

(* ---- the certificate ------------------------------------------------------------------------------------------------------ *)
Section Cert.
Variable sign : bytes -> bytes.

Theorem new_cert_strict a m p :
  parts_of sign a m p ->
  N.of_nat (length (m_wire m)) < two64 ->
  Forall wf_comp64 (p_name p) ->
  fits (KModel ndn_format_0_3_SignatureInfo true) (VModel (written_of a)) ->
  strict_cert (m_wire m) = Ok (cert_values (p_name p) (c_pub a) (written_of a) (p_nb p) (p_na p) (p_sv p)).
Proof.
  intros Hp Hl Hn Hw. destruct (new_cert_body sign a m p Hp) as [Ew Eb].
  rewrite Ew in *. rewrite tlv_length in Hl.
  unfold strict_cert, gen_decode. rewrite pact_tlv; [|unfold TYPE_DATA, two64; lia|lia].
  cbn [bind].
  rewrite (strict_encode_roundtrip _ _ false _ _ (wf_fieldsb_spec _ wf_security_v2_CertificateV2Value)
             (cert_fits _ _ _ _ _ _ Hn Hw) Eb) by lia.
  unfold require_name. cbn [bind]. reflexivity.
Qed.
End Cert.
