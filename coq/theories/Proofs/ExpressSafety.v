(* C03 — safety facts that hold for EVERY history (well-formed or not):
   no exception escapes (no InvalidStateError from a future, hence [errs] stays empty and no awaitable finishes with an
   internal error), every awaitable finishes at most once, and the completion log is exactly the set of finished
   waiter tasks. *)
From NDN Require Import Base.Prelude Spec.ExpressSpec Model.ExpressPipeline Proofs.ExpressBasics.
Local Open Scope N_scope.

Ltac break_match :=
  repeat match goal with
         | |- context [match ?x with _ => _ end] => destruct x eqn:?; cbn in *
         | |- context [if ?x then _ else _] => destruct x eqn:?; cbn in *
         end.

(* ---------------------------------------------------------------- no internal error ----- *)
Definition no_err_outcome (o : outcome) : Prop := match o with OErr _ => False | _ => True end.
Definition clean_eff (e : eff) : Prop := f_errs e = [] /\ Forall (fun x : N * outcome * N => no_err_outcome (snd (fst x))) (f_log e).
Definition clean (s : st) : Prop := errs s = [] /\ Forall (fun x : N * outcome * N => no_err_outcome (snd (fst x))) (log s).

Lemma verdict_outcome_no_err fe d v : no_err_outcome (verdict_outcome fe d v).
Proof. unfold verdict_outcome. destruct (pass fe v); exact I. Qed.

Lemma clean_keep r : clean_eff (keep r). Proof. split; constructor. Qed.
Lemma clean_only r : clean_eff (only r). Proof. split; constructor. Qed.
Lemma clean_done i r o t : no_err_outcome o -> clean_eff (done i r o t).
Proof. intros H; split; cbn; auto. Qed.

(* the done-guards: fut_set is only ever reached on a pending future *)
Lemma clean_sat_rec fe d r : clean_eff (sat_rec fe d r).
Proof. unfold sat_rec, fut_set. destruct fe; [apply clean_only|]. destruct (fdone (i_fut r)); split; constructor. Qed.
Lemma clean_nack_rec x r : clean_eff (nack_rec x r).
Proof. unfold nack_rec, fut_set. destruct (fdone (i_fut r)); split; constructor. Qed.
Lemma clean_finish_validation fe r d v : clean_eff (finish_validation fe r d v).
Proof. unfold finish_validation, fut_set. destruct (fdone (i_fut r)); split; constructor. Qed.
Lemma clean_sv_rec fe i r : clean_eff (sv_rec fe i r).
Proof.
  unfold sv_rec. destruct (i_val r); try apply clean_keep. destruct (i_vm r).
  - destruct (clean_finish_validation fe r d v) as [E L]. split; cbn; auto.
  - split; constructor.
Qed.
Lemma clean_ws_rec fe nw i r : clean_eff (ws_rec fe nw i r).
Proof.
  unfold ws_rec. destruct (i_wait r); try apply clean_keep.
  - destruct (i_xc r); [apply clean_done; exact I|]. destruct (i_tfired r); [apply clean_done; exact I|].
    destruct (i_fut r); try apply clean_keep; try (apply clean_done; exact I).
    destruct fe; [apply clean_done; exact I|]. destruct (i_vm r); split; cbn; auto.
    constructor; auto. apply verdict_outcome_no_err.
  - destruct (i_xc r); [apply clean_done; exact I | apply clean_keep].
Qed.
Lemma clean_vdone_rec fe nw i v r : clean_eff (vdone_rec fe nw i v r).
Proof.
  unfold vdone_rec. destruct fe.
  - destruct (i_val r); try apply clean_keep. apply clean_finish_validation.
  - destruct (i_wait r); try apply clean_keep. destruct (i_xc r); [apply clean_keep|].
    apply clean_done. apply verdict_outcome_no_err.
Qed.

Lemma flat_map_all_nil {A B} (f : A -> list B) l : (forall a, In a l -> f a = []) -> flat_map f l = [].
Proof. induction l; cbn; auto. intros H. rewrite H, IHl; auto. Qed.

Lemma clean_upd_all f s : (forall i r, clean_eff (f i r)) -> clean s -> clean (upd_all f s).
Proof.
  intros H [E L]. split; cbn.
  - rewrite E. cbn. apply flat_map_all_nil. intros [k r] _. apply H.
  - apply Forall_app; split; auto. apply Forall_forall. intros x I. apply in_flat_map in I.
    destruct I as [[k r] [_ I]]. destruct (H k r) as [_ F]. rewrite Forall_forall in F. auto.
Qed.

Lemma clean_set_pit s p : clean s -> clean (set_pit s p). Proof. auto. Qed.
Lemma clean_set_now s t : clean s -> clean (set_now s t). Proof. auto. Qed.

Lemma clean_fire b t s : clean s -> clean (fire b t s).
Proof. apply clean_upd_all. intros; apply clean_only. Qed.
Lemma clean_settle fe s : clean s -> clean (settle fe s).
Proof.
  intros H. unfold settle. apply clean_upd_all; [intros; apply clean_ws_rec|]. apply clean_set_pit.
  apply clean_upd_all; auto. intros; apply clean_sv_rec.
Qed.
Lemma clean_apply fe s e : clean s -> clean (apply fe s e).
Proof.
  intros H. destruct e; cbn.
  - unfold do_express. destruct (shut s); [exact H|]. destruct (al_mem N.eqb (ints s) i); [exact H|].
    destruct (pit_get (pit s) n) as [[nid l]|]; exact H.
  - apply clean_upd_all; auto. intros j r. destruct (j =? i); [apply clean_only | apply clean_keep].
  - unfold do_data. apply clean_upd_all; [|apply clean_set_pit; auto].
    intros j r. destruct (mem j _); [apply clean_sat_rec | apply clean_keep].
  - unfold do_nack. apply clean_upd_all; [|apply clean_set_pit; auto].
    intros j r. destruct (mem j _); [apply clean_nack_rec | apply clean_keep].
  - apply clean_upd_all; auto. intros j r. destruct (j =? i); [apply clean_vdone_rec | apply clean_keep].
  - apply clean_upd_all; auto. intros j r. destruct (j =? i); [apply clean_only | apply clean_keep].
  - unfold do_shutdown. destruct (shut s); [exact H|].
    assert (C : clean (upd_all (fun i r => if mem i (pit_hits (fun _ _ _ => true) (pit s))
                                           then only (set_fut r (fut_cancel (i_fut r))) else keep r) s)).
    { apply clean_upd_all; auto. intros j r. destruct (mem j _); [apply clean_only | apply clean_keep]. }
    exact C.
  - exact H.
  - unfold do_attach. destruct (al_mem name_eqb (fib s) p); exact H.
  - exact H.
  - exact H.
Qed.

Lemma clean_step fe s x : clean s -> clean (step fe s x).
Proof.
  intros H. unfold step. apply clean_settle, clean_fire, clean_apply.
  unfold pre. destruct (fst x).
  - apply clean_settle, clean_fire, clean_set_now, H.
  - apply clean_settle, clean_fire, clean_set_now, H.
  - apply clean_fire, clean_settle, clean_fire, clean_set_now, H.
Qed.

Lemma clean_fold fe h : forall s, clean s -> clean (fold_left (step fe) h s).
Proof. induction h as [|x h IH]; cbn; auto. intros s H. apply IH, clean_step, H. Qed.

Theorem no_internal_error fe h :
  errs (run_hist fe h) = [] /\ forall i e t, ~ In (i, OErr e, t) (log (run_hist fe h)).
Proof.
  assert (C : clean (run_hist fe h)).
  { unfold run_hist. apply (clean_fold fe h init). split; [reflexivity | apply Forall_nil]. }
  destruct C as [E L]. split; auto. intros i e t I. rewrite Forall_forall in L. apply (L _ I).
Qed.

(* ---------------------------------------------------------------- at most once ----- *)
Definition lkey (x : N * outcome * N) : N := fst (fst x).

Definition log_ok (s : st) : Prop :=
  NoDup (map fst (ints s)) /\
  NoDup (map lkey (log s)) /\
  (forall i o t, In (i, o, t) (log s) <-> exists r, get_int s i = Some r /\ i_wait r = WDone o t).

(* a per-record function logs exactly the transitions into WDone, and WDone is absorbing *)
Definition log_good (f : N -> irec -> eff) : Prop :=
  forall i r,
    f_log (f i r) =
      match i_wait r, i_wait (f_rec (f i r)) with
      | WDone _ _, _ => []
      | _, WDone o t => [(i, o, t)]
      | _, _ => []
      end
    /\ (forall o t, i_wait r = WDone o t -> i_wait (f_rec (f i r)) = WDone o t).

Lemma in_flat_log f l x :
  In x (flat_map (fun kr : N * irec => f_log (f (fst kr) (snd kr))) l) <-> exists k r, In (k, r) l /\ In x (f_log (f k r)).
Proof.
  rewrite in_flat_map. split.
  - intros [[k r] [I J]]. eauto.
  - intros [k [r [I J]]]. exists (k, r); auto.
Qed.

Lemma log_good_entry f i r x :
  log_good f -> In x (f_log (f i r)) ->
  (forall o t, i_wait r <> WDone o t) /\ exists o t, i_wait (f_rec (f i r)) = WDone o t /\ x = (i, o, t).
Proof.
  intros G I. destruct (G i r) as [E _]. rewrite E in I.
  destruct (i_wait r) eqn:W; try (cbn in I; tauto);
    (destruct (i_wait (f_rec (f i r))) eqn:W'; cbn in I; try tauto;
     destruct I as [<-|[]]; split; [intros; discriminate | eauto]).
Qed.

Lemma nodup_flat_log f l :
  log_good f -> NoDup (map fst l) ->
  NoDup (map lkey (flat_map (fun kr : N * irec => f_log (f (fst kr) (snd kr))) l)).
Proof.
  intros G. induction l as [|[k r] l IH]; cbn; [constructor|]. intros ND. inversion ND; subst.
  rewrite map_app. destruct (G k r) as [E _]. rewrite E.
  assert (T : forall y, In y (map lkey (flat_map (fun kr : N * irec => f_log (f (fst kr) (snd kr))) l)) -> In y (map fst l)).
  { intros y I. apply in_map_iff in I. destruct I as [x [<- I]]. apply in_flat_log in I. destruct I as [k' [r' [I J]]].
    destruct (log_good_entry f k' r' x G J) as [_ [o [t [_ ->]]]]. cbn. apply in_map_iff. exists (k', r'); auto. }
  destruct (i_wait r); cbn; auto; destruct (i_wait (f_rec (f k r))); cbn; auto;
    constructor; auto.
Qed.

Lemma log_ok_upd_all f s : log_good f -> log_ok s -> log_ok (upd_all f s).
Proof.
  intros G [K [ND IFF]]. split; [|split].
  - rewrite ids_upd_all; auto.
  - cbn. rewrite map_app. apply NoDup_app_intro; auto.
    + apply nodup_flat_log; auto.
    + intros y I1 I2. apply in_map_iff in I1. destruct I1 as [[[i o] t] [<- I1]]. cbn in *.
      apply in_map_iff in I2. destruct I2 as [x [E I2]]. apply in_flat_log in I2. destruct I2 as [k [r [I2 J]]].
      destruct (log_good_entry f k r x G J) as [NW [o' [t' [_ ->]]]]. cbn in E; subst.
      apply IFF in I1. destruct I1 as [r0 [Gi W]]. apply In_al_get in I2; auto.
      unfold get_int in Gi. rewrite I2 in Gi. inversion Gi; subst. eapply NW; eauto.
  - intros i o t. cbn [log upd_all]. rewrite in_app_iff, in_flat_log, get_int_upd_all. split.
    + intros [I | [k [r [I J]]]].
      * apply IFF in I. destruct I as [r [Gi W]]. rewrite Gi; cbn. eexists; split; eauto. apply (G i r); auto.
      * destruct (log_good_entry f k r _ G J) as [NW [o' [t' [W E]]]]. inversion E; subst.
        apply In_al_get in I; auto. unfold get_int. rewrite I; cbn. eauto.
    + intros [r' [Gi W]]. destruct (get_int s i) as [r|] eqn:Gr; cbn in Gi; [|discriminate]. inversion Gi; subst.
      destruct (i_wait r) eqn:W0.
      1-3: right; exists i, r; split; [apply al_get_In; auto|]; destruct (G i r) as [E _]; rewrite E, W0, W; left; reflexivity.
      left. apply IFF. exists r; split; auto. destruct (G i r) as [_ A]. rewrite (A _ _ W0) in W. congruence.
Qed.

Lemma log_good_nolog f :
  (forall i r, f_log (f i r) = [] /\ i_wait (f_rec (f i r)) = i_wait r) -> log_good f.
Proof.
  intros H i r. destruct (H i r) as [E W]. rewrite E, W. split.
  - destruct (i_wait r); reflexivity.
  - auto.
Qed.

Lemma log_good_fire b t : log_good (fun _ r => only (fire_rec b t r)).
Proof.
  apply log_good_nolog. intros i r. split; auto. unfold fire_rec. destruct (timer_due b t r); reflexivity.
Qed.
Lemma wait_finish_validation fe r d v : i_wait (f_rec (finish_validation fe r d v)) = i_wait r /\ f_log (finish_validation fe r d v) = [].
Proof. unfold finish_validation, fut_set. destruct (fdone (i_fut r)); cbn; auto. Qed.
Lemma log_good_sv fe : log_good (sv_rec fe).
Proof.
  apply log_good_nolog. intros i r. unfold sv_rec. destruct (i_val r); cbn; auto. destruct (i_vm r); cbn; auto.
  destruct (wait_finish_validation fe r d v); auto.
Qed.
Lemma log_good_ws fe nw : log_good (ws_rec fe nw).
Proof.
  intros i [nm cb dg lf dl vm nd fu wa tm tf xc va]. unfold ws_rec, done; cbn.
  destruct wa; cbn; [| destruct xc, tf, fu, fe, vm | destruct xc |]; cbn;
    (split; [reflexivity | intros; try discriminate; auto]).
Qed.
Lemma log_good_cond (c : N -> bool) f : log_good f -> log_good (fun i r => if c i then f i r else keep r).
Proof.
  intros G i r. destruct (c i); [apply G|]. cbn. split; auto. destruct (i_wait r); reflexivity.
Qed.
Lemma log_good_sat fe d : log_good (fun _ r => sat_rec fe d r).
Proof.
  apply log_good_nolog. intros i r. unfold sat_rec, fut_set. destruct fe; cbn; auto. destruct (fdone (i_fut r)); cbn; auto.
Qed.
Lemma log_good_nack x : log_good (fun _ r => nack_rec x r).
Proof. apply log_good_nolog. intros i r. unfold nack_rec, fut_set. destruct (fdone (i_fut r)); cbn; auto. Qed.
Lemma log_good_vdone fe nw v : log_good (fun i r => vdone_rec fe nw i v r).
Proof.
  intros i [nm cb dg lf dl vm nd fu wa tm tf xc va]. unfold vdone_rec, finish_validation, fut_set, done; cbn.
  destruct fe; [destruct va; cbn; try destruct (fdone fu); cbn | destruct wa; cbn; try destruct xc; cbn];
    (split; [try reflexivity; destruct wa; reflexivity | intros; try discriminate; auto]).
Qed.
Lemma log_good_await fe nw : log_good (fun _ r => only (await_rec fe nw r)).
Proof.
  intros i r. unfold await_rec. destruct (i_wait r) eqn:W; cbn; rewrite ?W; split; try reflexivity; auto; intros; discriminate.
Qed.
Lemma log_good_cancel : log_good (fun _ r => only (cancel_rec r)).
Proof.
  apply log_good_nolog. intros i r. unfold cancel_rec. destruct (i_wait r) eqn:W; cbn; auto.
Qed.

Lemma log_ok_same s s' : ints s' = ints s -> log s' = log s -> log_ok s -> log_ok s'.
Proof. unfold log_ok, get_int. intros -> ->. auto. Qed.

Lemma log_ok_fire b t s : log_ok s -> log_ok (fire b t s).
Proof. apply log_ok_upd_all, log_good_fire. Qed.
Lemma log_ok_settle fe s : log_ok s -> log_ok (settle fe s).
Proof.
  intros H. unfold settle. apply log_ok_upd_all; [apply log_good_ws|].
  eapply log_ok_same; [| |apply log_ok_upd_all; [apply (log_good_sv fe) | exact H]]; reflexivity.
Qed.

Lemma log_ok_express fe s i n cbp dig life vm : log_ok s -> log_ok (do_express fe s i n cbp dig life vm).
Proof.
  intros H. unfold do_express. destruct (shut s); [eapply log_ok_same; [| |exact H]; reflexivity|].
  destruct (al_mem N.eqb (ints s) i) eqn:M; [exact H|].
  destruct H as [K [ND IFF]].
  assert (Gi : get_int s i = None). { unfold get_int. rewrite al_mem_get in M. destruct (al_get N.eqb (ints s) i); [discriminate | reflexivity]. }
  destruct (pit_get (pit s) n) as [[nid l]|]; (split; [|split]; cbn).
  1,4: rewrite map_app; cbn; apply NoDup_app_intro; auto; [repeat constructor; auto |
       intros y I [<-|[]]; apply al_get_None_notin in Gi; auto].
  1,3: exact ND.
  all: intros j o t; rewrite IFF; unfold get_int; cbn; rewrite al_get_app; unfold get_int in Gi;
    split; intros [r [A W]].
  1,3: rewrite A; eauto.
  all: destruct (al_get N.eqb (ints s) j) eqn:Gj; [eauto|]; cbn in A; destruct (j =? i); inversion A; subst; cbn in W; discriminate.
Qed.

Lemma log_ok_apply fe s e : log_ok s -> log_ok (apply fe s e).
Proof.
  intros H. destruct e; cbn.
  - apply log_ok_express, H.
  - apply log_ok_upd_all; auto. apply (log_good_cond (fun j => j =? i)), log_good_await.
  - unfold do_data. apply log_ok_upd_all; [apply (log_good_cond (fun j => mem j _)), log_good_sat|].
    eapply log_ok_same; [| |exact H]; reflexivity.
  - unfold do_nack. apply log_ok_upd_all; [apply (log_good_cond (fun j => mem j _)), log_good_nack|].
    eapply log_ok_same; [| |exact H]; reflexivity.
  - apply log_ok_upd_all; auto. apply (log_good_cond (fun j => j =? i)), log_good_vdone.
  - apply log_ok_upd_all; auto. apply (log_good_cond (fun j => j =? i)), log_good_cancel.
  - unfold do_shutdown. destruct (shut s); [exact H|].
    eapply log_ok_same; [| |apply log_ok_upd_all; [|exact H]]; try reflexivity.
    apply (log_good_cond (fun j => mem j _)). apply log_good_nolog. intros; cbn; auto.
  - exact H.
  - unfold do_attach. destruct (al_mem name_eqb (fib s) p); [exact H|]. eapply log_ok_same; [| |exact H]; reflexivity.
  - eapply log_ok_same; [| |exact H]; reflexivity.
  - eapply log_ok_same; [| |exact H]; reflexivity.
Qed.

Lemma log_ok_step fe s x : log_ok s -> log_ok (step fe s x).
Proof.
  intros H. unfold step. apply log_ok_settle, log_ok_fire, log_ok_apply.
  assert (H0 : log_ok (set_now s (N.max (now s) (ev_time (snd x))))) by (eapply log_ok_same; [| |exact H]; reflexivity).
  unfold pre. destruct (fst x).
  - apply log_ok_settle, log_ok_fire, H0.
  - apply log_ok_settle, log_ok_fire, H0.
  - apply log_ok_fire, log_ok_settle, log_ok_fire, H0.
Qed.

Lemma log_ok_fold fe h : forall s, log_ok s -> log_ok (fold_left (step fe) h s).
Proof. induction h as [|x h IH]; cbn; auto. intros s H. apply IH, log_ok_step, H. Qed.

Lemma log_ok_init : log_ok init.
Proof.
  split; [constructor | split; [constructor|]]. intros i o t; cbn. split; [tauto | intros [r [A _]]; discriminate].
Qed.

Lemma log_ok_run fe h : log_ok (run_hist fe h).
Proof. unfold run_hist. apply (log_ok_fold fe h init), log_ok_init. Qed.

Theorem at_most_once fe h : NoDup (map lkey (log (run_hist fe h))).
Proof. apply (log_ok_run fe h). Qed.

(* the completion observed for Interest i is the result stored in its finished waiter task *)
Lemma find_key_nodup (l : list (N * outcome * N)) i o t :
  NoDup (map lkey l) -> In (i, o, t) l -> find (fun x => lkey x =? i) l = Some (i, o, t).
Proof.
  induction l as [|x l IH]; cbn; [tauto|]. intros ND [E|I].
  - subst. unfold lkey at 1; cbn. rewrite N.eqb_refl. reflexivity.
  - inversion ND; subst. destruct (N.eqb_spec (lkey x) i).
    + exfalso. apply H1. apply in_map_iff. exists (i, o, t); auto.
    + auto.
Qed.
Lemma find_key_none (l : list (N * outcome * N)) i :
  (forall o t, ~ In (i, o, t) l) -> find (fun x => lkey x =? i) l = None.
Proof.
  induction l as [|[[k o] t] l IH]; cbn; auto. intros H. unfold lkey at 1; cbn.
  destruct (N.eqb_spec k i); subst.
  - exfalso. eapply H; left; reflexivity.
  - apply IH. intros o' t' I. eapply H; right; eauto.
Qed.

Lemma completion_spec s i :
  log_ok s ->
  completion s i = match get_int s i with
                   | Some r => match i_wait r with WDone o _ => Some o | _ => None end
                   | None => None
                   end.
Proof.
  intros [K [ND IFF]]. unfold completion. change (fun x : N * outcome * N => fst (fst x) =? i) with (fun x => lkey x =? i).
  destruct (get_int s i) as [r|] eqn:G.
  - destruct (i_wait r) eqn:W.
    4: { assert (I : In (i, o, t) (log s)) by (apply IFF; eauto). rewrite (find_key_nodup _ _ _ _ ND I). reflexivity. }
    all: rewrite find_key_none; auto; intros o t I; apply IFF in I; destruct I as [r' [G' W']]; congruence.
  - rewrite find_key_none; auto. intros o t I. apply IFF in I. destruct I as [r' [G' _]]. congruence.
Qed.
