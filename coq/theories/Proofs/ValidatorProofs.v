(* C14 — proofs: the validator model accepts exactly the packets with a valid chain. *)
From NDN Require Import Base.Prelude Model.Validator Spec.ChainSpec.
Local Open Scope N_scope.

(* ---------------------------------------------------------------- names, caches ---------------- *)
Lemma name_eqb_spec a b : name_eqb a b = true <-> a = b.
Proof. apply list_eqb_spec. apply bytes_eqb_spec. Qed.

Lemma name_eqb_refl a : name_eqb a a = true.
Proof. apply name_eqb_spec. reflexivity. Qed.

Lemma name_eqb_false a b : name_eqb a b = false <-> a <> b.
Proof.
  split.
  - intros H E. apply name_eqb_spec in E. congruence.
  - intros H. destruct (name_eqb a b) eqn:E; auto. apply name_eqb_spec in E. contradiction.
Qed.

Lemma load_save st cn k cn' :
  cache_load (cache_save st cn k) cn' = if name_eqb cn' cn then Some k else cache_load st cn'.
Proof.
  unfold cache_load, cache_save.
  induction st as [|[n v] st IH]; cbn.
  - destruct (name_eqb cn' cn); reflexivity.
  - destruct (name_eqb cn n) eqn:E; cbn.
    + apply name_eqb_spec in E. subst n. destruct (name_eqb cn' cn); reflexivity.
    + destruct (name_eqb cn' n) eqn:E2.
      * apply name_eqb_spec in E2. subst n.
        destruct (name_eqb cn' cn) eqn:E3; auto.
        apply name_eqb_spec in E3. subst. rewrite name_eqb_refl in E. discriminate.
      * apply IH.
Qed.

Lemma truthy_some k k' : truthy k = Some k' -> k = Some k' /\ k' <> [].
Proof. destruct k as [[|b r]|]; cbn; intros H; inversion H; subst; split; congruence. Qed.

Lemma truthy_content k : k <> [] -> truthy (Some k) = Some k.
Proof. destruct k; cbn; congruence. Qed.

(* ---------------------------------------------------------------- key locator, verify_sig ------ *)
Lemma key_locator_spec p cn : key_locator p = Some cn <-> names_key p cn.
Proof.
  unfold key_locator, names_key. split.
  - destruct (p_sig p) as [si|]; [|discriminate].
    destruct (s_kl si) as [[|c r]|] eqn:K; try discriminate.
    intros H; inversion H; subst. split; [congruence|]. exists si. auto.
  - intros (Hne & si & -> & ->). destruct cn; [exfalso; apply Hne; reflexivity | reflexivity].
Qed.

Lemma dispatch_true w ty k p :
  dispatch sig_branches w ty k p = Ok true <-> asymmetric ty = true /\ w_verify w ty k p = Ok true.
Proof.
  unfold sig_branches, asymmetric, dispatch, SIG_HMAC, SIG_RSA, SIG_ECDSA, SIG_ED25519.
  destruct (ty =? 4) eqn:E4.
  { apply N.eqb_eq in E4. subst ty. cbn. split.
    - destruct (w_verify w 4 k p); cbn; congruence.
    - intros [? _]; discriminate. }
  destruct (ty =? 1) eqn:E1.
  { apply N.eqb_eq in E1. subst ty. cbn. split.
    - destruct (w_verify w 1 k p) as [[]|]; cbn; try congruence. auto.
    - intros [_ ->]. reflexivity. }
  destruct (ty =? 3) eqn:E3.
  { apply N.eqb_eq in E3. subst ty. cbn. split.
    - destruct (w_verify w 3 k p) as [[]|]; cbn; try congruence. auto.
    - intros [_ ->]. reflexivity. }
  destruct (ty =? 5) eqn:E5.
  { apply N.eqb_eq in E5. subst ty. cbn. split.
    - destruct (w_verify w 5 k p) as [[]|]; cbn; try congruence. auto.
    - intros [_ ->]. reflexivity. }
  cbn. split; [congruence | intros [? _]; discriminate].
Qed.

Lemma dispatch_no_fuel w ty k p :
  (forall a, w_verify w a k p <> Err EFuel) -> dispatch sig_branches w ty k p <> Err EFuel.
Proof.
  intros H. unfold sig_branches. cbn.
  repeat match goal with
         | |- context [if ?c then _ else _] => destruct c
         | |- context [bind (w_verify w ?a k p) _] =>
             let E := fresh in pose proof (H a) as E; destruct (w_verify w a k p) as [?|[]]; cbn; try congruence
         end; congruence.
Qed.

Lemma verify_sig_true_sig w k p : verify_sig w k p = Ok true <-> verifies_sig w k p.
Proof.
  unfold verify_sig, verifies_sig. split.
  - destruct (p_sig p) as [si|]; [|discriminate]. intros H. apply dispatch_true in H. destruct H.
    exists si; auto.
  - intros (si & -> & Ha & Hv). apply dispatch_true. auto.
Qed.

Lemma verify_sig_true w k p : k <> [] -> (verify_sig w k p = Ok true <-> verifies w k p).
Proof.
  intros Hk. rewrite verify_sig_true_sig. unfold verifies. tauto.
Qed.

Lemma check_key_true w k p : check_key w k p = Ok true <-> verifies w k p.
Proof.
  unfold check_key. destruct k as [|b r].
  - split; [discriminate | intros [H _]; congruence].
  - apply verify_sig_true. discriminate.
Qed.

Lemma verifies_sigb_spec w k p : verifies_sigb w k p = true <-> verifies_sig w k p.
Proof.
  unfold verifies_sigb, verifies_sig. destruct (p_sig p) as [si|].
  - rewrite andb_true_iff. split.
    + intros [Ha Hv]. exists si. repeat split; auto.
      destruct (w_verify w (s_type si) k p) as [[]|]; congruence.
    + intros (si' & E & Ha & Hv). inversion E; subst si'. rewrite Hv. auto.
  - split; [discriminate | intros (si & E & _); discriminate].
Qed.

Lemma verifiesb_spec w k p : verifiesb w k p = true <-> verifies w k p.
Proof.
  unfold verifiesb, verifies. destruct k as [|b r].
  - split; [discriminate | intros [H _]; congruence].
  - rewrite verifies_sigb_spec. split; [intros H; split; [discriminate | exact H] | tauto].
Qed.

(* name_check vs the schema's signing check *)
Lemma name_check_true c n cn : name_check c n cn = Ok true <-> t_allowed (trust_of c) n cn = true.
Proof.
  unfold name_check, trust_of, allowed_of; cbn. destruct (c_check c) as [f|].
  - destruct (f n cn) as [[]|]; split; congruence.
  - split; auto.
Qed.

(* ---------------------------------------------------------------- the cache invariant ---------- *)
(* "cached  =>  retrievable under that name, and validated under the same anchor and schema" *)
Definition cache_ok (w : world) (t : trust) (st : cache) : Prop :=
  forall cn k, truthy (cache_load st cn) = Some k ->
               exists d, w_fetch w cn = FData d /\ p_content d = Some k /\ Chain w t d.

Lemma cache_ok_nil w t : cache_ok w t [].
Proof. intros cn k H. discriminate. Qed.

Lemma cache_ok_save w t st cn d k :
  cache_ok w t st -> w_fetch w cn = FData d -> truthy (p_content d) = Some k -> Chain w t d ->
  cache_ok w t (cache_save st cn k).
Proof.
  intros Hst Hf Hk Hc cn' k' H. rewrite load_save in H.
  destruct (name_eqb cn' cn) eqn:E.
  - apply name_eqb_spec in E. subst cn'. apply truthy_some in Hk. destruct Hk as [Hk Hne].
    destruct k as [|b r]; [congruence|]. cbn in H. inversion H; subst k'. exists d. auto.
  - apply Hst; auto.
Qed.

(* Chain follows a unique path: inversion lemmas *)
Lemma chain_anchor_inv w t p :
  Chain w t p -> names_key p (t_anchor_name t) ->
  t_allowed t (p_name p) (t_anchor_name t) = true /\ verifies w (t_anchor_key t) p.
Proof.
  intros H Hk. inversion H; subst; auto.
  exfalso. destruct Hk as (_ & si & E1 & K1). destruct H0 as (_ & si' & E2 & K2).
  rewrite E1 in E2. inversion E2; subst si'. congruence.
Qed.

Lemma chain_cert_inv w t p cn :
  Chain w t p -> names_key p cn -> cn <> t_anchor_name t ->
  t_allowed t (p_name p) cn = true /\
  exists c k, w_fetch w cn = FData c /\ p_content c = Some k /\ verifies w k p /\ Chain w t c.
Proof.
  intros H Hk Hne. destruct Hk as (_ & si & E1 & K1). inversion H; subst.
  - destruct H0 as (_ & si' & E2 & K2). rewrite E1 in E2. inversion E2; subst si'. congruence.
  - destruct H0 as (_ & si' & E2 & K2). rewrite E1 in E2. inversion E2; subst si'.
    assert (cn0 = cn) by congruence. subst cn0. split; auto. exists c, k. auto.
Qed.

(* ---------------------------------------------------------------- soundness + completeness ----- *)
Definition no_fuel_err (w : world) : Prop := forall a k p, w_verify w a k p <> Err EFuel.
Definition check_no_fuel (c : cfg) : Prop :=
  forall f n cn, c_check c = Some f -> f n cn <> Err EFuel.
Definition fetch_no_fuel (w : world) : Prop := forall cn, w_fetch w cn <> FFail EFuel.

(* Main lemma: any verdict other than "out of fuel" is characterised by Chain, and the cache
   invariant is preserved — for every fuel, cache, packet. *)
Lemma validate_sound w c :
  forall fuel st p r st' tr,
    cache_ok w (trust_of c) st ->
    validate w c fuel st p = (r, st', tr) ->
    cache_ok w (trust_of c) st' /\
    (r = Ok true -> Chain w (trust_of c) p) /\
    (Chain w (trust_of c) p -> r = Ok true \/ r = Err EFuel).
Proof.
  set (t := trust_of c).
  induction fuel as [|f IH]; intros st p r st' tr Hst Hv; cbn [validate] in Hv.
  - (* no fuel: no fetch possible *)
    destruct (key_locator p) as [cn|] eqn:KL.
    2:{ inversion Hv; subst. split; auto. split; [discriminate|].
        intros Hc. exfalso. inversion Hc; subst;
          match goal with H : names_key p _ |- _ => apply key_locator_spec in H; congruence end. }
    pose proof KL as NK. apply key_locator_spec in NK.
    destruct (name_check c (p_name p) cn) as [[|]|e] eqn:NC.
    2:{ inversion Hv; subst. split; auto. split; [discriminate|]. intros Hc. exfalso.
        assert (t_allowed t (p_name p) cn = true).
        { destruct (name_eqb cn (t_anchor_name t)) eqn:E.
          - apply name_eqb_spec in E. subst cn. apply (chain_anchor_inv _ _ _ Hc NK).
          - apply name_eqb_false in E. apply (chain_cert_inv _ _ _ _ Hc NK E). }
        apply name_check_true in H. congruence. }
    2:{ inversion Hv; subst. split; auto. split; [discriminate|]. intros Hc. exfalso.
        assert (t_allowed t (p_name p) cn = true).
        { destruct (name_eqb cn (t_anchor_name t)) eqn:E.
          - apply name_eqb_spec in E. subst cn. apply (chain_anchor_inv _ _ _ Hc NK).
          - apply name_eqb_false in E. apply (chain_cert_inv _ _ _ _ Hc NK E). }
        apply name_check_true in H. congruence. }
    apply name_check_true in NC. fold t in NC.
    change (c_anchor_name c) with (t_anchor_name t) in Hv.
    destruct (name_eqb cn (t_anchor_name t)) eqn:EA.
    + apply name_eqb_spec in EA. subst cn. inversion Hv; subst. split; auto. split.
      * intros H. apply check_key_true in H. apply ByAnchor; auto.
      * intros Hc. left. apply check_key_true. apply (chain_anchor_inv _ _ _ Hc NK).
    + apply name_eqb_false in EA.
      destruct (truthy (cache_load st cn)) as [k|] eqn:CL.
      * inversion Hv; subst. split; auto.
        destruct (Hst _ _ CL) as (d & Fd & Cd & Chd).
        apply truthy_some in CL. destruct CL as [_ Kne]. split.
        -- intros H. apply verify_sig_true in H; auto. eapply ByCert; eauto.
        -- intros Hc. left. apply verify_sig_true; auto.
           destruct (chain_cert_inv _ _ _ _ Hc NK EA) as (_ & c' & k' & F' & C' & V' & _).
           rewrite Fd in F'. inversion F'; subst c'. congruence.
      * inversion Hv; subst. split; auto. split; [discriminate|]. auto.
  - destruct (key_locator p) as [cn|] eqn:KL.
    2:{ inversion Hv; subst. split; auto. split; [discriminate|].
        intros Hc. exfalso. inversion Hc; subst;
          match goal with H : names_key p _ |- _ => apply key_locator_spec in H; congruence end. }
    pose proof KL as NK. apply key_locator_spec in NK.
    destruct (name_check c (p_name p) cn) as [[|]|e] eqn:NC.
    2:{ inversion Hv; subst. split; auto. split; [discriminate|]. intros Hc. exfalso.
        assert (t_allowed t (p_name p) cn = true).
        { destruct (name_eqb cn (t_anchor_name t)) eqn:E.
          - apply name_eqb_spec in E. subst cn. apply (chain_anchor_inv _ _ _ Hc NK).
          - apply name_eqb_false in E. apply (chain_cert_inv _ _ _ _ Hc NK E). }
        apply name_check_true in H. congruence. }
    2:{ inversion Hv; subst. split; auto. split; [discriminate|]. intros Hc. exfalso.
        assert (t_allowed t (p_name p) cn = true).
        { destruct (name_eqb cn (t_anchor_name t)) eqn:E.
          - apply name_eqb_spec in E. subst cn. apply (chain_anchor_inv _ _ _ Hc NK).
          - apply name_eqb_false in E. apply (chain_cert_inv _ _ _ _ Hc NK E). }
        apply name_check_true in H. congruence. }
    apply name_check_true in NC. fold t in NC.
    change (c_anchor_name c) with (t_anchor_name t) in Hv.
    destruct (name_eqb cn (t_anchor_name t)) eqn:EA.
    + apply name_eqb_spec in EA. subst cn. inversion Hv; subst. split; auto. split.
      * intros H. apply check_key_true in H. apply ByAnchor; auto.
      * intros Hc. left. apply check_key_true. apply (chain_anchor_inv _ _ _ Hc NK).
    + apply name_eqb_false in EA.
      destruct (truthy (cache_load st cn)) as [k|] eqn:CL.
      * inversion Hv; subst. split; auto.
        destruct (Hst _ _ CL) as (d & Fd & Cd & Chd).
        apply truthy_some in CL. destruct CL as [_ Kne]. split.
        -- intros H. apply verify_sig_true in H; auto. eapply ByCert; eauto.
        -- intros Hc. left. apply verify_sig_true; auto.
           destruct (chain_cert_inv _ _ _ _ Hc NK EA) as (_ & c' & k' & F' & C' & V' & _).
           rewrite Fd in F'. inversion F'; subst c'. congruence.
      * (* fetch *)
        destruct (w_fetch w cn) as [d| | |e] eqn:F.
        2,3,4: inversion Hv; subst; split; auto; split; [discriminate|];
               intros Hc; exfalso;
               destruct (chain_cert_inv _ _ _ _ Hc NK EA) as (_ & c' & k' & F' & _); congruence.
        destruct (validate w c f st d) as [[ri st1] tri] eqn:VI.
        destruct (IH _ _ _ _ _ Hst VI) as (Hst1 & Hsound & Hcompl).
        assert (ChainInv : Chain w t p -> exists k', p_content d = Some k' /\ verifies w k' p /\ Chain w t d).
        { intros Hc. destruct (chain_cert_inv _ _ _ _ Hc NK EA) as (_ & c' & k' & F' & C' & V' & Ch').
          rewrite F in F'; inversion F'; subst c'. exists k'. auto. }
        destruct ri as [[|]|e].
        -- destruct (truthy (p_content d)) as [k|] eqn:TK.
           ++ inversion Hv; subst. split.
              { eapply cache_ok_save; eauto. }
              pose proof TK as TK'. apply truthy_some in TK'. destruct TK' as [Cd Kne]. split.
              ** intros H. apply verify_sig_true in H; auto. eapply ByCert; eauto.
              ** intros Hc. left. apply verify_sig_true; auto.
                 destruct (ChainInv Hc) as (k' & C' & V' & _). congruence.
           ++ inversion Hv; subst. split; auto. split; [discriminate|].
              intros Hc. exfalso. destruct (ChainInv Hc) as (k' & C' & [Kne _] & _).
              rewrite C' in TK. rewrite truthy_content in TK; auto. discriminate.
        -- inversion Hv; subst. split; auto. split; [discriminate|].
           intros Hc. exfalso. destruct (ChainInv Hc) as (k' & _ & _ & Chd).
           destruct (Hcompl Chd); discriminate.
        -- inversion Hv; subst. split; auto. split; [discriminate|].
           intros Hc. destruct (ChainInv Hc) as (k' & _ & _ & Chd).
           destruct (Hcompl Chd) as [H|H]; [discriminate|]. right. congruence.
Qed.

(* accept <-> Chain whenever the validator answered (anything but running out of fuel) *)
Theorem validate_iff w c fuel st p r st' tr :
  cache_ok w (trust_of c) st ->
  validate w c fuel st p = (r, st', tr) ->
  r <> Err EFuel ->
  (r = Ok true <-> Chain w (trust_of c) p).
Proof.
  intros Hst Hv Hne. destruct (validate_sound _ _ _ _ _ _ _ _ Hst Hv) as (_ & S & C).
  split; auto. intros Hc. destruct (C Hc); auto. contradiction.
Qed.

Theorem validate_keeps_cache_ok w c fuel st p r st' tr :
  cache_ok w (trust_of c) st -> validate w c fuel st p = (r, st', tr) -> cache_ok w (trust_of c) st'.
Proof. intros Hst Hv. apply (validate_sound _ _ _ _ _ _ _ _ Hst Hv). Qed.

(* A packet with a chain is accepted as soon as there is enough fuel (= the chain is finite):
   completeness without a termination hypothesis. *)
Lemma validate_complete w c p :
  Chain w (trust_of c) p ->
  exists n, forall fuel st, (n <= fuel)%nat -> cache_ok w (trust_of c) st ->
                            fst (fst (validate w c fuel st p)) = Ok true.
Proof.
  set (t := trust_of c).
  induction 1 as [p NK AL V | p cn d k NK NE AL F C V Ch IH].
  - exists 0%nat. intros fuel st _ _.
    apply key_locator_spec in NK. apply name_check_true in AL.
    destruct fuel; cbn [validate]; rewrite NK, AL; cbn [t trust_of t_anchor_name];
      rewrite name_eqb_refl; cbn; apply check_key_true; exact V.
  - destruct IH as (n & IH). exists (S n). intros fuel st Hf Hst.
    destruct fuel as [|f]; [lia|].
    pose proof NK as KL. apply key_locator_spec in KL. apply name_check_true in AL.
    cbn [validate]. rewrite KL, AL.
    assert (EA : name_eqb cn (c_anchor_name c) = false) by (apply name_eqb_false; exact NE).
    rewrite EA.
    destruct (truthy (cache_load st cn)) as [k'|] eqn:CL.
    + cbn. destruct (Hst _ _ CL) as (d' & F' & C' & _).
      rewrite F in F'. inversion F'; subst d'. assert (k' = k) by congruence. subst k'.
      apply verify_sig_true; [apply V | exact V].
    + rewrite F.
      specialize (IH f st ltac:(lia) Hst).
      destruct (validate w c f st d) as [[ri st1] tri]. cbn in IH. subst ri.
      rewrite C. destruct V as [Kne V']. rewrite truthy_content by exact Kne. cbn.
      apply verify_sig_true; [exact Kne | split; auto].
Qed.

(* the headline: "accepts iff chain", fuel existentially quantified (no termination hypothesis) *)
Theorem accepts_iff_chain w c st p :
  cache_ok w (trust_of c) st ->
  (exists fuel, fst (fst (validate w c fuel st p)) = Ok true) <-> Chain w (trust_of c) p.
Proof.
  intros Hst. split.
  - intros (fuel & H). destruct (validate w c fuel st p) as [[r st'] tr] eqn:V. cbn in H. subst r.
    apply (validate_sound _ _ _ _ _ _ _ _ Hst V). reflexivity.
  - intros Hc. destruct (validate_complete _ _ _ Hc) as (n & Hn). exists n. apply Hn; auto.
Qed.

(* ---------------------------------------------------------------- termination ------------------ *)
(* the key-locator path from p reaches a packet where no fetch happens within n steps *)
Inductive Bounded (w : world) (c : cfg) : nat -> pkt -> Prop :=
| BNoKey n p : key_locator p = None -> Bounded w c n p
| BAnchor n p : key_locator p = Some (c_anchor_name c) -> Bounded w c n p
| BNoData n p cn : key_locator p = Some cn -> (forall d, w_fetch w cn <> FData d) -> Bounded w c (S n) p
| BStep n p cn d : key_locator p = Some cn -> w_fetch w cn = FData d -> Bounded w c n d -> Bounded w c (S n) p.

Lemma validate_terminates w c :
  no_fuel_err w -> check_no_fuel c -> fetch_no_fuel w ->
  forall n p, Bounded w c n p -> forall st, fst (fst (validate w c n st p)) <> Err EFuel.
Proof.
  intros NV NCk NF.
  assert (VS : forall k p, verify_sig w k p <> Err EFuel).
  { intros k p. unfold verify_sig. destruct (p_sig p); [|discriminate].
    apply dispatch_no_fuel. intros a. apply NV. }
  assert (CK : forall k p, check_key w k p <> Err EFuel).
  { intros k p. unfold check_key. destruct k; [discriminate | apply VS]. }
  assert (NC : forall n cn, name_check c n cn <> Err EFuel).
  { intros n cn. unfold name_check. destruct (c_check c) as [f|] eqn:E; [|discriminate]. eapply NCk; eauto. }
  induction n as [|n IH]; intros p HB st.
  - inversion HB; subst; cbn [validate]; rewrite H.
    + cbn. discriminate.
    + destruct (name_check c (p_name p) (c_anchor_name c)) as [[|]|e] eqn:E; cbn; try discriminate.
      * rewrite name_eqb_refl. cbn. apply CK.
      * intros X. inversion X; subst. apply (NC _ _ E).
  - cbn [validate]. destruct (key_locator p) as [cn|] eqn:KL; [|cbn; discriminate].
    destruct (name_check c (p_name p) cn) as [[|]|e] eqn:E; cbn; try discriminate.
    2:{ intros X. inversion X; subst. apply (NC _ _ E). }
    destruct (name_eqb cn (c_anchor_name c)) eqn:EA; [cbn; apply CK|].
    destruct (truthy (cache_load st cn)); [cbn; apply VS|].
    destruct (w_fetch w cn) as [d| | |e] eqn:F; cbn; try discriminate.
    2:{ intros X. inversion X; subst. apply (NF _ F). }
    assert (HBd : Bounded w c n d).
    { inversion HB as [? ? K|? ? K|? ? cn0 K ND|? ? cn0 d0 K F0 B0]; subst.
      - congruence.
      - apply name_eqb_false in EA. congruence.
      - exfalso. assert (cn0 = cn) by congruence. subst. eapply ND; eauto.
      - assert (cn0 = cn) by congruence. subst. rewrite F in F0. inversion F0; subst. auto. }
    specialize (IH d HBd st).
    destruct (validate w c n st d) as [[[[|]|e] st1] tr]; cbn in *; try discriminate.
    + destruct (truthy (p_content d)); cbn; [apply VS | discriminate].
    + congruence.
Qed.

(* ---------------------------------------------------------------- chainb ----------------------- *)
Lemma chainb_spec w t : forall fuel p b, chainb w t fuel p = Some b -> (b = true <-> Chain w t p).
Proof.
  induction fuel as [|f IH]; intros p b H; cbn [chainb] in H.
  - destruct (key_locator p) as [cn|] eqn:KL.
    2:{ inversion H; subst. split; [discriminate|]. intros Hc; exfalso.
        inversion Hc; subst; match goal with H : names_key p _ |- _ => apply key_locator_spec in H; congruence end. }
    pose proof KL as NK. apply key_locator_spec in NK.
    assert (AL : Chain w t p -> t_allowed t (p_name p) cn = true).
    { intros Hc. destruct (name_eqb cn (t_anchor_name t)) eqn:E.
      - apply name_eqb_spec in E. subst cn. apply (chain_anchor_inv _ _ _ Hc NK).
      - apply name_eqb_false in E. apply (chain_cert_inv _ _ _ _ Hc NK E). }
    destruct (t_allowed t (p_name p) cn) eqn:A; cbn in H.
    2:{ inversion H; subst. split; [discriminate|]. intros Hc. specialize (AL Hc). discriminate. }
    destruct (name_eqb cn (t_anchor_name t)) eqn:EA.
    { apply name_eqb_spec in EA. subst cn. inversion H; subst. rewrite verifiesb_spec. split.
      - intros V. apply ByAnchor; auto.
      - intros Hc. apply (chain_anchor_inv _ _ _ Hc NK). }
    apply name_eqb_false in EA.
    destruct (w_fetch w cn) as [d| | |e] eqn:F.
    2,3,4: inversion H; subst; split; [discriminate|]; intros Hc; exfalso;
           destruct (chain_cert_inv _ _ _ _ Hc NK EA) as (_ & c' & k' & F' & _); congruence.
    destruct (p_content d) as [k|] eqn:C.
    2:{ inversion H; subst. split; [discriminate|]. intros Hc; exfalso.
        destruct (chain_cert_inv _ _ _ _ Hc NK EA) as (_ & c' & k' & F' & C' & _).
        rewrite F in F'; inversion F'; subst c'. congruence. }
    destruct (verifiesb w k p) eqn:V; [discriminate|].
    inversion H; subst. split; [discriminate|]. intros Hc; exfalso.
    destruct (chain_cert_inv _ _ _ _ Hc NK EA) as (_ & c' & k' & F' & C' & V' & _).
    rewrite F in F'; inversion F'; subst c'. assert (k' = k) by congruence. subst. apply verifiesb_spec in V'. congruence.
  - destruct (key_locator p) as [cn|] eqn:KL.
    2:{ inversion H; subst. split; [discriminate|]. intros Hc; exfalso.
        inversion Hc; subst; match goal with H : names_key p _ |- _ => apply key_locator_spec in H; congruence end. }
    pose proof KL as NK. apply key_locator_spec in NK.
    assert (AL : Chain w t p -> t_allowed t (p_name p) cn = true).
    { intros Hc. destruct (name_eqb cn (t_anchor_name t)) eqn:E.
      - apply name_eqb_spec in E. subst cn. apply (chain_anchor_inv _ _ _ Hc NK).
      - apply name_eqb_false in E. apply (chain_cert_inv _ _ _ _ Hc NK E). }
    destruct (t_allowed t (p_name p) cn) eqn:A; cbn in H.
    2:{ inversion H; subst. split; [discriminate|]. intros Hc. specialize (AL Hc). discriminate. }
    destruct (name_eqb cn (t_anchor_name t)) eqn:EA.
    { apply name_eqb_spec in EA. subst cn. inversion H; subst. rewrite verifiesb_spec. split.
      - intros V. apply ByAnchor; auto.
      - intros Hc. apply (chain_anchor_inv _ _ _ Hc NK). }
    apply name_eqb_false in EA.
    destruct (w_fetch w cn) as [d| | |e] eqn:F.
    2,3,4: inversion H; subst; split; [discriminate|]; intros Hc; exfalso;
           destruct (chain_cert_inv _ _ _ _ Hc NK EA) as (_ & c' & k' & F' & _); congruence.
    destruct (p_content d) as [k|] eqn:C.
    2:{ inversion H; subst. split; [discriminate|]. intros Hc; exfalso.
        destruct (chain_cert_inv _ _ _ _ Hc NK EA) as (_ & c' & k' & F' & C' & _).
        rewrite F in F'; inversion F'; subst c'. congruence. }
    destruct (verifiesb w k p) eqn:V.
    + apply IH in H. rewrite H. apply verifiesb_spec in V. split.
      * intros Hd. eapply ByCert; eauto.
      * intros Hc. destruct (chain_cert_inv _ _ _ _ Hc NK EA) as (_ & c' & k' & F' & _ & _ & Ch').
        rewrite F in F'; inversion F'; subst c'. auto.
    + inversion H; subst. split; [discriminate|]. intros Hc; exfalso.
      destruct (chain_cert_inv _ _ _ _ Hc NK EA) as (_ & c' & k' & F' & C' & V' & _).
      rewrite F in F'; inversion F'; subst c'. assert (k' = k) by congruence. subst. apply verifiesb_spec in V'. congruence.
Qed.

(* ---------------------------------------------------------------- constructors ----------------- *)
Lemma subsetb_spec a b : subsetb a b = true <-> forall r, In r a -> In r b.
Proof.
  unfold subsetb. rewrite forallb_forall. split; intros H r Hr; specialize (H r Hr).
  - apply existsb_exists in H. destruct H as (x & Hx & E). apply bytes_eqb_spec in E. subst; auto.
  - apply existsb_exists. exists r. split; auto. apply bytes_eqb_spec. reflexivity.
Qed.

Lemma anchor_matchesb_spec sc a : anchor_matchesb sc a = true <-> anchor_matches sc a.
Proof.
  unfold anchor_matchesb, anchor_matches. destruct (sc_match sc (p_name a)) as [[|m ms]|e].
  - split; [discriminate | intros (ms & E & N & _); inversion E; subst; congruence].
  - rewrite subsetb_spec. split.
    + intros H. exists (m :: ms). repeat split; auto. discriminate.
    + intros (ms' & E & _ & H). inversion E; subst. exact H.
  - split; [discriminate | intros (ms & E & _); discriminate].
Qed.

Lemma self_signedb_spec w a : self_signedb w a = true <-> self_signed w a.
Proof.
  unfold self_signedb, self_signed. destruct (p_content a) as [k|].
  - rewrite verifies_sigb_spec. split; [intros H; exists k; auto | intros (k' & E & H); inversion E; subst; auto].
  - split; [discriminate | intros (k & E & _); discriminate].
Qed.

Lemma sanity_check_ok sc a :
  sanity_check sc a = Ok tt <-> sc_fns_ok sc = true /\ exists p, a = Ok p /\ anchor_matches sc p.
Proof.
  unfold sanity_check. destruct (sc_fns_ok sc); cbn.
  2:{ split; [discriminate | intros [? _]; discriminate]. }
  destruct a as [p|e]; cbn.
  2:{ split; [discriminate | intros (_ & p & E & _); discriminate]. }
  split.
  - intros H. split; auto. exists p. split; auto. apply anchor_matchesb_spec. unfold anchor_matchesb.
    destruct (sc_match sc (p_name p)) as [[|m ms]|e]; cbn in H; try discriminate.
    destruct (subsetb (sc_roots sc) (m :: ms)); [reflexivity | discriminate].
  - intros (_ & p' & E & M). inversion E; subst p'. apply anchor_matchesb_spec in M.
    unfold anchor_matchesb in M.
    destruct (sc_match sc (p_name p)) as [[|m ms]|e]; cbn; try discriminate. rewrite M. reflexivity.
Qed.

Lemma cascade_init_ok w a chk c :
  cascade_init w a chk = Ok c <->
  exists p k, a = Ok p /\ p_content p = Some k /\ verifies_sig w k p /\
              c = {| c_anchor_name := p_name p; c_anchor_key := k; c_check := chk |}.
Proof.
  unfold cascade_init. destruct a as [p|e]; cbn.
  2:{ split; [discriminate | intros (p & k & E & _); discriminate]. }
  destruct (p_content p) as [k|] eqn:C.
  2:{ split; [discriminate | intros (p' & k & E & C' & _); inversion E; subst; congruence]. }
  destruct (verify_sig w k p) as [[|]|e] eqn:V; cbn.
  - apply verify_sig_true_sig in V. split.
    + intros H; inversion H; subst. exists p, k. auto.
    + intros (p' & k' & E & C' & _ & ->). inversion E; subst p'. assert (k' = k) by congruence. subst. reflexivity.
  - split; [discriminate|]. intros (p' & k' & E & C' & V' & _). inversion E; subst p'.
    assert (k' = k) by congruence. subst. apply verify_sig_true_sig in V'. congruence.
  - split; [discriminate|]. intros (p' & k' & E & C' & V' & _). inversion E; subst p'.
    assert (k' = k) by congruence. subst. apply verify_sig_true_sig in V'. congruence.
Qed.

(* the validator is built  <->  user functions present, anchor matches all roots of trust, properly self-signed *)
Theorem lvs_init_iff w sc a :
  (exists c, lvs_init w sc a = Ok c) <->
  sc_fns_ok sc = true /\ exists p, a = Ok p /\ anchor_matches sc p /\ self_signed w p.
Proof.
  unfold lvs_init. split.
  - intros (c & H). destruct (sanity_check sc a) as [[]|e] eqn:S; [|discriminate]. cbn in H.
    apply sanity_check_ok in S. destruct S as (F & p & E & M).
    apply cascade_init_ok in H. destruct H as (p' & k & E' & C & V & _).
    rewrite E in E'. inversion E'; subst p'. split; auto. exists p. repeat split; auto. exists k. auto.
  - intros (F & p & E & M & k & C & V).
    assert (S : sanity_check sc a = Ok tt) by (apply sanity_check_ok; split; auto; exists p; auto).
    rewrite S. cbn. eexists. apply cascade_init_ok. exists p, k. repeat split; eauto.
Qed.

(* ... and what it is then configured with *)
Theorem lvs_init_cfg w sc a c :
  lvs_init w sc a = Ok c ->
  exists p k, a = Ok p /\ p_content p = Some k /\
              trust_of c = {| t_anchor_name := p_name p; t_anchor_key := k; t_allowed := allowed_of (Some (sc_check sc)) |}.
Proof.
  unfold lvs_init. destruct (sanity_check sc a) as [[]|e]; [|discriminate]. cbn. intros H.
  apply cascade_init_ok in H. destruct H as (p & k & E & C & _ & ->). exists p, k. auto.
Qed.

Theorem cascade_init_iff w a :
  (exists c, cascade_init w a None = Ok c) <-> exists p, a = Ok p /\ self_signed w p.
Proof.
  split.
  - intros (c & H). apply cascade_init_ok in H. destruct H as (p & k & E & C & V & _). exists p. split; auto. exists k; auto.
  - intros (p & E & k & C & V). eexists. apply cascade_init_ok. exists p, k. repeat split; eauto.
Qed.

(* only packets with a public-key signature type (RSA, ECDSA, Ed25519) can have a chain: HMAC-,
   digest- and unknown-type packets are never accepted *)
Lemma chain_asymmetric w t p :
  Chain w t p -> exists si, p_sig p = Some si /\ asymmetric (s_type si) = true.
Proof.
  intros H. inversion H; subst;
    match goal with V : verifies _ _ p |- _ => destruct V as (_ & si & E & A & _); exists si; auto end.
Qed.
