(* From the text of a schema (its AST) to the answers of Checker.match / Checker.check on the compiled model. *)
From NDN Require Import Base.Prelude Base.Text Model.TlvVar Model.Name Model.LvsAst Model.LvsChecker Model.LvsCompiler
  Spec.LvsSem Spec.LvsTree Spec.LvsChains Proofs.LvsMachine Proofs.LvsCheckerThms Proofs.LvsGenTree Proofs.LvsCompileTree Proofs.LvsCompileThms
  Proofs.LvsCompileAccepts Proofs.LvsNumbering Proofs.LvsReplicate Proofs.LvsRepresents Proofs.LvsNamedInv Proofs.LvsSimD.
Local Open Scope N_scope.

(* ---- association lists ------------------------------------------------------------------------------------------------ *)
Lemma al_set_fresh_gen {K V} (eqb : K -> K -> bool) (l : list (K * V)) k v : al_get eqb l k = None -> al_set eqb l k v = l ++ [(k, v)].
Proof. induction l as [|[k0 v0] l IH]; cbn; [reflexivity|]. destruct (eqb k k0); [discriminate|]. intros H. rewrite IH by exact H. reflexivity. Qed.

Lemma al_get_app_gen {K V} (eqb : K -> K -> bool) (l1 l2 : list (K * V)) k :
  al_get eqb (l1 ++ l2) k = match al_get eqb l1 k with Some v => Some v | None => al_get eqb l2 k end.
Proof. induction l1 as [|[k0 v0] l1 IH]; cbn; [reflexivity|]. destruct (eqb k k0); [reflexivity | exact IH]. Qed.

Lemma al_get_none_gen {K V} (eqb : K -> K -> bool) (Heq : forall a, eqb a a = true) (l : list (K * V)) k :
  al_get eqb l k = None -> ~ In k (map fst l).
Proof.
  induction l as [|[k0 v0] l IH]; cbn; [auto|]. destruct (eqb k k0) eqn:E; [discriminate|]. intros H [->|Hin]; [rewrite Heq in E; discriminate | exact (IH H Hin)].
Qed.

Lemma al_get_notin_gen {K V} (eqb : K -> K -> bool) (Heq : forall a b, eqb a b = true -> a = b) (l : list (K * V)) k :
  ~ In k (map fst l) -> al_get eqb l k = None.
Proof.
  induction l as [|[k0 v0] l IH]; cbn; [reflexivity|]. intros H. destruct (eqb k k0) eqn:E; [apply Heq in E; subst; exfalso; apply H; left; reflexivity|].
  apply IH. intros Hin. apply H. right. exact Hin.
Qed.

Lemma fold_al_set_distinct {K V A} (eqb : K -> K -> bool) (Heq : forall a b, eqb a b = true -> a = b) (kf : A -> K) (vf : A -> V) :
  forall l d0, NoDup (map kf l) -> (forall a, In a l -> ~ In (kf a) (map fst d0)) ->
    fold_left (fun d s => al_set eqb d (kf s) (vf s)) l d0 = d0 ++ map (fun s => (kf s, vf s)) l.
Proof.
  induction l as [|a l IH]; intros d0 Hnd Hd; cbn [fold_left map]; [rewrite app_nil_r; reflexivity|].
  inversion Hnd as [|? ? Hna Hnd']; subst.
  rewrite (al_set_fresh_gen eqb d0 (kf a) (vf a)) by (apply (al_get_notin_gen eqb Heq); apply Hd; left; reflexivity).
  rewrite IH; [rewrite <- app_assoc; reflexivity | exact Hnd' |].
  intros b Hb. rewrite map_app, in_app_iff. cbn. intros [H|[H|[]]]; [eapply Hd; [right; exact Hb | exact H]|].
  apply Hna. rewrite H. apply in_map. exact Hb.
Qed.

(* ---- the symbol table of a compiled model -------------------------------------------------------------------------------- *)
Definition sym_of (named : list (ident * N)) : list (option N * option ident) := map (fun q => (Some (snd q), Some (fst q))) named.

Lemma optN_eqb_eq a b : optN_eqb a b = true -> a = b.
Proof. destruct a, b; cbn; try discriminate; [intros H; apply N.eqb_eq in H; congruence | reflexivity]. Qed.

Lemma named_good_nodup named : named_good named -> NoDup (map snd named).
Proof.
  intros G. apply NoDup_nth_error. intros i j Hi E. rewrite map_length in Hi.
  destruct (nth_error named i) as [[p n]|] eqn:Ei; [|apply nth_error_None in Ei; lia].
  rewrite !nth_error_map, Ei in E. cbn in E. destruct (nth_error named j) as [[q n']|] eqn:Ej; [|discriminate]. cbn in E. inversion E; subst n'.
  destruct (G _ _ _ Ei), (G _ _ _ Ej). lia.
Qed.

Lemma symbols_compiled m named : named_good named ->
  m_symbols m = map (fun p => {| ts_tag := Some (snd p); ts_ident := Some (fst p) |}) named -> symbols m = sym_of named.
Proof.
  intros G E. unfold symbols. rewrite E.
  rewrite (fold_al_set_distinct optN_eqb optN_eqb_eq ts_tag ts_ident); [cbn; unfold sym_of; rewrite map_map; reflexivity | | intros a _ []].
  rewrite map_map. cbn. pose proof (named_good_nodup named G) as Hnd. clear - Hnd.
  induction named as [|[p n] l IH]; cbn in *; [constructor|]. inversion Hnd; subst. constructor; [|auto].
  rewrite in_map_iff. intros ([q n'] & Eq & Hin). cbn in Eq. inversion Eq; subst. apply H1. apply in_map_iff. exists (q, n). auto.
Qed.

Lemma sym_lookup named p t : named_good named -> al_get ident_eqb named p = Some t -> al_get optN_eqb (sym_of named) (Some t) = Some (Some p).
Proof.
  intros G Hp. pose proof (named_good_nodup named G) as Hnd. apply al_get_in_pair in Hp. clear G. unfold sym_of.
  induction named as [|[q n] l IH]; [destruct Hp|]. cbn in *. inversion Hnd; subst. destruct (N.eqb_spec t n) as [->|Hne].
  - destruct Hp as [Hp|Hp]; [inversion Hp; reflexivity|]. exfalso. apply H1. apply in_map_iff. exists (p, n). auto.
  - destruct Hp as [Hp|Hp]; [inversion Hp; congruence | auto].
Qed.

Definition inj_env (e : env) : list (option ident * bytes) := map (fun pv => (Some (fst pv), snd pv)) e.

Lemma oident_eqb_eq a b : oident_eqb a b = true -> a = b.
Proof. destruct a, b; cbn; try discriminate; [intros H; apply ident_eqb_eq in H; congruence | reflexivity]. Qed.

Lemma context_to_name_env m named e c : named_good named -> symbols m = sym_of named ->
  env_ctx named e c -> NoDup (map fst e) -> context_to_name m c = inj_env e.
Proof.
  intros G Hsym He Hnd. unfold context_to_name. rewrite Hsym.
  assert (H1 : forall e c, env_ctx named e c -> forall e0, NoDup (map fst (e0 ++ e)) ->
            fold_left (fun d tv => match al_get optN_eqb (sym_of named) (Some (fst tv)) with
                                   | Some idn => al_set oident_eqb d idn (snd tv) | None => d end) c (inj_env e0) = inj_env (e0 ++ e)).
  { clear e c He Hnd. intros e c He. induction He as [|[p v] [t w] e c [Hp Hv] _ IH]; intros e0 Hnd; cbn [fold_left]; [rewrite app_nil_r; reflexivity|].
    cbn [fst snd] in *. subst w. rewrite (sym_lookup named p t G Hp).
    rewrite al_set_fresh_gen.
    - change (inj_env e0 ++ [(Some p, v)]) with (inj_env e0 ++ inj_env [(p, v)]). unfold inj_env at 1 2. rewrite <- map_app. fold (inj_env (e0 ++ [(p, v)])).
      rewrite IH; [rewrite <- app_assoc; reflexivity | rewrite <- app_assoc; exact Hnd].
    - apply (al_get_notin_gen oident_eqb oident_eqb_eq). unfold inj_env. rewrite map_map. cbn. intros Hin. apply in_map_iff in Hin.
      destruct Hin as ([q u] & Eq & Hq). cbn in Eq. inversion Eq; subst q. rewrite map_app in Hnd. apply NoDup_remove_2 in Hnd. apply Hnd.
      apply in_or_app. left. apply in_map_iff. exists (p, u). auto. }
  pose proof (H1 e c He [] Hnd) as H2. change (inj_env []) with (@nil (option ident * bytes)) in H2. cbn [app] in H2. rewrite H2.
  clear H1 H2 Hnd. generalize (inj_env e) as d. induction He as [|[p v] [t w] e c [Hp Hv] _ IH]; intros d; cbn [fold_left]; [reflexivity|].
  cbn [fst] in *. rewrite (sym_lookup named p t G Hp). apply IH.
Qed.

Lemma inj_env_inj e e' : inj_env e = inj_env e' -> e = e'.
Proof.
  revert e'; induction e as [|[p v] e IH]; intros [|[q w] e'] H; cbn in H; try discriminate; [reflexivity|]. inversion H; subst. f_equal. apply IH. assumption.
Qed.

Lemma NoDup_app_snoc' {A} (l : list A) x : NoDup l /\ ~ In x l -> NoDup (l ++ [x]).
Proof.
  intros [Hnd Hx]. induction l as [|a l IH]; cbn; [constructor; [intros [] | constructor]|].
  inversion Hnd; subst. constructor.
  - intros Hin. apply in_app_or in Hin. destruct Hin as [Hin|[<-|[]]]; [contradiction | apply Hx; left; reflexivity].
  - apply IH; [assumption|]. intros Hin. apply Hx. right. exact Hin.
Qed.

(* ---- facts about chain_match ------------------------------------------------------------------------------------------------ *)
Lemma ident_eqb_refl a : ident_eqb a a = true.
Proof. apply ident_eqb_eq. reflexivity. Qed.

Lemma chain_match_keys ufn ncons : forall comps n e seen e', chain_match ufn ncons comps n e seen = Some e' -> NoDup (map fst e) ->
  NoDup (map fst e') /\ forall p, In p (map fst e') -> In p (map fst e) \/ In (FNamed p) comps.
Proof.
  induction comps as [|fc comps IH]; intros n e seen e' H Hnd; destruct n as [|v n]; cbn [chain_match] in H; try discriminate.
  - inversion H; subst. auto.
  - destruct fc; discriminate.
  - assert (Hrec : forall e1 seen1, chain_match ufn ncons comps n e1 seen1 = Some e' -> NoDup (map fst e1) ->
              (forall p, In p (map fst e1) -> In p (map fst e) \/ In (FNamed p) (fc :: comps)) ->
              NoDup (map fst e') /\ forall p, In p (map fst e') -> In p (map fst e) \/ In (FNamed p) (fc :: comps)).
    { intros e1 seen1 H1 Hnd1 Hsub. destruct (IH _ _ _ _ H1 Hnd1) as [A B]. split; [exact A|]. intros p Hp. destruct (B p Hp) as [Hq|Hq]; [apply Hsub, Hq | right; right; exact Hq]. }
    destruct fc as [x|p|cs].
    + destruct (bytes_eqb x v); [|discriminate]. apply (Hrec _ _ H Hnd). auto.
    + destruct (al_get ident_eqb e p) as [w|] eqn:Eg.
      * destruct (negb (bytes_eqb v w)); [discriminate|]. destruct (imem p seen); [apply (Hrec _ _ H Hnd); auto|].
        destruct (cons_hold ufn e v (cons_on p ncons)); [|discriminate]. apply (Hrec _ _ H Hnd); auto.
      * destruct (cons_hold ufn e v (cons_on p ncons)); [|discriminate]. apply (Hrec _ _ H).
        -- rewrite map_app. cbn. apply NoDup_app_snoc'. split; [exact Hnd | apply (al_get_none_gen ident_eqb ident_eqb_refl); exact Eg].
        -- intros q Hq. rewrite map_app in Hq. apply in_app_or in Hq. destruct Hq as [Hq|[<-|[]]]; [auto | right; left; reflexivity].
    + destruct (cons_hold ufn e v cs); [|discriminate]. apply (Hrec _ _ H Hnd). auto.
Qed.

(* ---- small bridges -------------------------------------------------------------------------------------------------------- *)
Lemma strip_digest_strip name nm : strip_digest name = Ok nm -> strip name = nm.
Proof.
  unfold strip_digest, strip, is_digest. destruct (rev name) as [|c t]; [intros H; inversion H; reflexivity|].
  destruct (comp_get_type c) as [ty|]; cbn [bind]; [|discriminate]. destruct (ty =? TYPE_IMPLICIT_SHA256); intros H; inversion H; reflexivity.
Qed.

Lemma in_matches_of ufn S e0 n lbl d e : In (lbl, d, e) (matches_of ufn S e0 n) <->
  exists f, In (lbl, d) (labelled 1 S) /\ In f (expand (ref_fuel S) S d) /\ chain_match ufn (f_ncons f) (f_comps f) n e0 [] = Some e.
Proof.
  unfold matches_of. rewrite in_flat_map. split.
  - intros ([lbl' d'] & Hl & Hin). apply in_flat_map in Hin. destruct Hin as (f & Hf & Hin). cbn [fst snd] in *.
    destruct (chain_match ufn (f_ncons f) (f_comps f) n e0 []) as [e1|] eqn:E; [|destruct Hin]. destruct Hin as [Hin|[]]. inversion Hin; subst.
    exists f. auto.
  - intros (f & Hl & Hf & E). exists (lbl, d). split; [exact Hl|]. apply in_flat_map. exists f. split; [exact Hf|]. cbn [fst snd]. rewrite E. left; reflexivity.
Qed.

Lemma env_ctx_exists named e : (forall p, In p (map fst e) -> named_has named p) -> exists c, env_ctx named e c.
Proof.
  induction e as [|[p v] e IH]; intros H; [exists []; constructor|].
  destruct (H p (or_introl eq_refl)) as (t & Ht). destruct IH as (c & Hc); [intros q Hq; apply H; right; exact Hq|].
  exists ((t, v) :: c). constructor; [cbn; auto | exact Hc].
Qed.

Lemma env_ctx_keys named e c : env_ctx named e c -> forall p, In p (map fst e) -> named_has named p.
Proof.
  intros H. induction H as [|[p v] [t w] e c [Hp _] _ IH]; intros q Hq; [destruct Hq|]. destruct Hq as [<-|Hq]; [exists t; exact Hp | apply IH, Hq].
Qed.

Lemma forall2_in_left {A B} (R : A -> B -> Prop) l l' x : Forall2 R l l' -> In x l -> exists y, In y l' /\ R x y.
Proof. intros F. induction F as [|a b l l' Hab _ IH]; [intros []|]. intros [<-|H]; [exists b; split; [left; reflexivity | exact Hab] | destruct (IH H) as (y & Hy & Hr); exists y; split; [right; exact Hy | exact Hr]]. Qed.

Lemma represents_named named rc f p : represents named rc f -> In (FNamed p) (f_comps f) -> named_has named p.
Proof.
  intros [R1 _] Hin. destruct (forall2_in_left _ _ _ _ R1 Hin) as (nc & _ & Hc). destruct nc as [v|t|x]; cbn in Hc; try contradiction.
  destruct Hc as [_ Hc]. eexists. exact Hc.
Qed.

Lemma rep_sem0 ufn named rc f : named_good named -> represents named rc f -> forall nm e c, env_ctx named e c ->
  forall c', chain_sem_from ufn 0 rc nm c c' <-> exists e', chain_match ufn (f_ncons f) (f_comps f) nm e [] = Some e' /\ env_ctx named e' c'.
Proof.
  intros G Hrep nm e c He c'. unfold chain_sem_from. cbn [tags_before firstn flat_map skipn].
  apply (represents_sem ufn named (named_good_inj named G) rc f Hrep (f_comps f) (ch_name rc) (rp_comps _ _ _ Hrep) nm e c [] [] He).
  - intros p t _. cbn. split; discriminate.
  - intros p Hp. cbn in Hp. discriminate.
Qed.

(* what a chain match produces can be read as a context *)
Lemma match_ctx ufn named rc f nm e c e' : represents named rc f -> env_ctx named e c -> NoDup (map fst e) ->
  chain_match ufn (f_ncons f) (f_comps f) nm e [] = Some e' -> NoDup (map fst e') /\ exists c', env_ctx named e' c'.
Proof.
  intros Hrep He Hnd Hm. destruct (chain_match_keys ufn _ _ _ _ _ _ Hm Hnd) as [Hnd' Hkeys]. split; [exact Hnd'|].
  apply env_ctx_exists. intros p Hp. destruct (Hkeys p Hp) as [Hq|Hq]; [eapply env_ctx_keys; eauto | eapply represents_named; eauto].
Qed.

Lemma compile_symbols S chains st m : chains_of S = Ok (chains, st) -> compile S = Ok m ->
  m_symbols m = map (fun p => {| ts_tag := Some (snd p); ts_ident := Some (fst p) |}) (ns_named st).
Proof.
  intros Hc Hm. destruct (compile_unfold _ _ _ _ Hc Hm) as (t0 & _ & H). unfold model_of in H.
  destruct (fix_all _ 0 _) as [nodes|]; cbn [bind] in H; [|discriminate]. inversion H. reflexivity.
Qed.

Lemma chains_of_good S chains st : chains_of S = Ok (chains, st) -> named_good (ns_named st).
Proof.
  intros Hc. unfold chains_of in Hc. destruct (sort_rule_references S) as [[sorted order]|]; cbn [bind fst] in Hc; [|discriminate].
  destruct (gen_pattern_numbers sorted) as [[nrules st']|] eqn:En; cbn [bind] in Hc; [|discriminate].
  destruct (replicate_rules nrules (ns_next_temp st')) as [rep|]; cbn [bind] in Hc; [|discriminate]. inversion Hc; subst.
  eapply gen_pattern_numbers_good; eauto.
Qed.

(* ---- the two headline theorems ------------------------------------------------------------------------------------------- *)
Section Final.
  Variable ufn : ident -> option (bytes -> list (option bytes) -> res bool).
  Variable S : lvsfile.
  Variable m : lvsmodel.
  Hypothesis Hstatic : static_ok S = true.
  Hypothesis Hwf : schema_wf S = true.
  Hypothesis Hm : compile S = Ok m.

  (* Checker.match reports rule r with bindings env  iff  the schema text gives r a chain the name satisfies with env *)
  Theorem match_iff fuel name nm l r env :
    strip_digest name = Ok nm -> (match_cost m nm <= fuel)%nat -> lvs_match ufn m fuel name = Ok l -> not_pseudo r ->
    ((exists rs, In (rs, inj_env env) l /\ In r rs) <-> sem ufn S r name env).
  Proof.
    intros Hs Hf Hl Hnp. destruct (compile_accepts S Hstatic Hwf) as (chains & st & m' & Hc & Hm' & Hok).
    rewrite Hm in Hm'. inversion Hm'; subst m'. clear Hm'.
    pose proof (chains_of_good _ _ _ Hc) as G. destruct (chains_of_expand S chains st Hc) as [HA HB].
    pose proof (symbols_compiled m _ G (compile_symbols _ _ _ _ Hc Hm)) as Hsym.
    pose proof (compile_sane ufn S chains st m Hc Hm Hok) as Hsane.
    pose proof (match_chains ufn S chains st m Hc Hm Hok fuel name nm l r Hs Hf Hl Hnp) as Hmc.
    unfold sem. rewrite (strip_digest_strip _ _ Hs). split.
    - intros (rs & Hin & Hr).
      destruct (proj1 (lvs_match_spec ufn m Hsane fuel name nm l Hs Hf Hl rs (inj_env env)) Hin) as (n & c & Htm & Hrn & Ecn).
      destruct (proj1 (Hmc c)) as (rc & Hrc & Hid & Hsem); [exists rs; rewrite <- Ecn; eauto|].
      destruct (HA rc Hrc) as (lbl & d & f & Hlab & Hf' & Hid' & Hrep & _).
      destruct (proj1 (rep_sem0 ufn _ rc f G Hrep nm [] [] (Forall2_nil _) c) Hsem) as (e' & Hcm & He').
      destruct (chain_match_keys ufn _ _ _ _ _ _ Hcm (NoDup_nil _)) as [Hnd _].
      rewrite (context_to_name_env m _ e' c G Hsym He' Hnd) in Ecn. apply inj_env_inj in Ecn. subst e'.
      exists d. apply in_matches_of. exists f. split; [congruence | auto].
    - intros (d & Hin). apply in_matches_of in Hin. destruct Hin as (f & Hlab & Hf' & Hcm).
      destruct (HB r d f Hlab Hf') as (rc & Hrc & Hid & Hrep & _).
      destruct (match_ctx ufn _ rc f nm [] [] env Hrep (Forall2_nil _) (NoDup_nil _) Hcm) as [Hnd (c' & He')].
      destruct (proj2 (Hmc c')) as (rs & Hin & Hr & _).
      { exists rc. split; [exact Hrc|]. split; [exact Hid|]. apply (rep_sem0 ufn _ rc f G Hrep nm [] [] (Forall2_nil _) c'). eauto. }
      exists rs. rewrite (context_to_name_env m _ env c' G Hsym He' Hnd) in Hin. auto.
  Qed.

  (* Checker.check says yes  iff  the schema text lets the key sign the packet *)
  Theorem check_iff fuel pkt key p k b :
    strip_digest pkt = Ok p -> strip_digest key = Ok k -> (Nat.max (match_cost m p) (match_cost m k) <= fuel)%nat ->
    lvs_check ufn m fuel pkt key = Ok b -> (b = true <-> can_sign ufn S pkt key).
  Proof.
    intros Hp Hk Hf Hchk. destruct (compile_accepts S Hstatic Hwf) as (chains & st & m' & Hc & Hm' & Hok).
    rewrite Hm in Hm'. inversion Hm'; subst m'. clear Hm'.
    pose proof (chains_of_good _ _ _ Hc) as G. destruct (chains_of_expand S chains st Hc) as [HA HB].
    rewrite (check_chains ufn S chains st m Hc Hm Hok fuel pkt key p k b Hp Hk Hf Hchk).
    unfold can_sign. rewrite (strip_digest_strip _ _ Hp), (strip_digest_strip _ _ Hk). split.
    - intros (rc & rk & cx & cx' & Hrc & Hsem & Hrk & Hsg & Hsemk).
      destruct (HA rc Hrc) as (lbl & d & f & Hlab & Hf' & Hid & Hrep & Hsign).
      destruct (HA rk Hrk) as (lblk & dk & fk & Hlabk & Hfk & Hidk & Hrepk & _).
      destruct (proj1 (rep_sem0 ufn _ rc f G Hrep p [] [] (Forall2_nil _) cx) Hsem) as (e & Hcm & He).
      destruct (proj1 (rep_sem0 ufn _ rk fk G Hrepk k e cx He cx') Hsemk) as (e' & Hcmk & He').
      exists lbl, d, e. split; [apply in_matches_of; exists f; auto|].
      exists lblk. split; [rewrite Hsign in Hsg; apply (proj1 (in_isort _ _ _)) in Hsg; congruence|].
      exists dk, e'. apply in_matches_of. exists fk. auto.
    - intros (r & d & e & Hin & kr & Hkr & dk & e' & Hink).
      apply in_matches_of in Hin. destruct Hin as (f & Hlab & Hf' & Hcm).
      apply in_matches_of in Hink. destruct Hink as (fk & Hlabk & Hfk & Hcmk).
      destruct (HB r d f Hlab Hf') as (rc & Hrc & Hid & Hrep & Hsign).
      destruct (HB kr dk fk Hlabk Hfk) as (rk & Hrk & Hidk & Hrepk & _).
      destruct (match_ctx ufn _ rc f p [] [] e Hrep (Forall2_nil _) (NoDup_nil _) Hcm) as [Hnd (cx & He)].
      destruct (match_ctx ufn _ rk fk k e cx e' Hrepk He Hnd Hcmk) as [_ (cx' & He')].
      exists rc, rk, cx, cx'. split; [exact Hrc|]. split; [apply (rep_sem0 ufn _ rc f G Hrep p [] [] (Forall2_nil _) cx); eauto|].
      split; [exact Hrk|]. split; [rewrite Hsign, Hidk; apply (proj2 (in_isort _ _ _)); exact Hkr|].
      apply (rep_sem0 ufn _ rk fk G Hrepk k e cx He cx'). eauto.
  Qed.
End Final.
