(* C20 — the precedence theorems: read_client_conf on a world whose first existing candidate holds a
   well-formed client.conf (or on a world without any), in terms of the specification only. *)
From NDN Require Import Base.Prelude Base.Text Model.ConfBase Model.ClientConf Spec.ClientConfSpec
  Proofs.ConfBaseLemmas Proofs.ClientConfProofs Proofs.ConfIni.
From Coq Require Strings.String Strings.Ascii.
Import Coq.Strings.String.StringSyntax Coq.Strings.Ascii.AsciiSyntax.
Local Open Scope N_scope.

Definition env_of (w : world) (name : str) : option str := env_get (w_env w) name.

Lemma file_of_render w lines :
  wf_conf lines = true -> nonempty (get_path w) = true -> read_file w (get_path w) = Ok (render lines) ->
  file_of w = Ok (entries_of lines).
Proof.
  intros Hwf Hp Hr. unfold file_of. rewrite Hp, Hr. cbn [bind]. apply ini_read_render. exact Hwf.
Qed.

Theorem precedence_file w lines :
  wf_conf lines = true -> nonempty (get_path w) = true -> read_file w (get_path w) = Ok (render lines) ->
  exists c, read_client_conf w = Ok c /\
    c_transport c = spec_value (env_of w (slit "NDN_CLIENT_TRANSPORT")) (file_lookup key_transport lines)
                               (default_transport (the_platform w)) /\
    setting_ok w Pib (spec_value (env_of w (slit "NDN_CLIENT_PIB")) (file_lookup key_pib lines)
                                 (default_pib_scheme (the_platform w))) (c_pib c) /\
    setting_ok w Tpm (spec_value (env_of w (slit "NDN_CLIENT_TPM")) (file_lookup key_tpm lines)
                                 (default_tpm_scheme (the_platform w))) (c_tpm c).
Proof.
  intros Hwf Hp Hr.
  destruct (read_client_conf_sources w _ (file_of_render w lines Hwf Hp Hr)) as (c & E & Ht & Hpib & Htpm).
  exists c. split; [exact E|]. unfold raw_setting, ini_get in *. rewrite <- !file_lookup_entries in *.
  split; [exact Ht|]. split; [exact Hpib|exact Htpm].
Qed.

Theorem precedence_nofile w :
  get_path w = [] ->
  exists c, read_client_conf w = Ok c /\
    c_transport c = spec_value (env_of w (slit "NDN_CLIENT_TRANSPORT")) None (default_transport (the_platform w)) /\
    setting_ok w Pib (spec_value (env_of w (slit "NDN_CLIENT_PIB")) None (default_pib_scheme (the_platform w))) (c_pib c) /\
    setting_ok w Tpm (spec_value (env_of w (slit "NDN_CLIENT_TPM")) None (default_tpm_scheme (the_platform w))) (c_tpm c).
Proof.
  intros Hp. destruct (read_client_conf_sources w _ (file_of_nofile w Hp)) as (c & E & Ht & Hpib & Htpm).
  exists c. split; [exact E|]. split; [exact Ht|]. split; [exact Hpib|exact Htpm].
Qed.

(* reading never fails on a well-formed file / without a file; it fails exactly when the file cannot be read or parsed *)
Theorem read_client_conf_error_iff w e :
  read_client_conf w = Err e <-> file_of w = Err e.
Proof.
  split.
  - intros H. destruct (file_of w) as [f|e'] eqn:Ef.
    + destruct (read_client_conf_sources w f Ef) as (c & E & _). congruence.
    + rewrite (read_client_conf_file_error w e' Ef) in H. inversion H. reflexivity.
  - apply read_client_conf_file_error.
Qed.

(* without '$' in the home directory, $VAR expansion leaves the platform paths alone *)
Theorem candidates_plain w :
  contains ch_dollar (user_home w) = false ->
  expanded_candidates w = client_conf_paths (the_platform w) /\
  expanded_defaults w Pib = default_pib_paths (the_platform w) /\
  expanded_defaults w Tpm = default_tpm_paths (the_platform w).
Proof.
  intros H. unfold expanded_candidates, expanded_defaults, the_platform, linux_platform, item_paths.
  cbn [client_conf_paths default_pib_paths default_tpm_paths map].
  repeat split; repeat (rewrite expandvars_plain; [|try reflexivity; rewrite contains_app, H; reflexivity]); reflexivity.
Qed.

(* the platform default transport always denotes a Unix face *)
Theorem platform_transport_face nf w :
  default_face nf (default_transport (the_platform w)) = Ok (FUnix (slit "/run/nfd/nfd.sock")) \/
  default_face nf (default_transport (the_platform w)) = Ok (FUnix (slit "/run/nfd.sock")).
Proof.
  unfold the_platform, linux_platform. cbn [default_transport]. unfold linux_default_transport.
  destruct (negb (w_exists w (slit "/run/nfd/nfd.sock")) && w_exists w (slit "/run/nfd.sock")); [right|left]; reflexivity.
Qed.
