(* C02, both ends for Interests: for every Interest the library makes with a signer, the receiver's decoder reports
   exactly the bytes the signer was given, the bytes that were hashed into the parameters digest, and that digest. *)
From NDN Require Import Base.Prelude Model.TlvVar Model.Name Model.Tlv Model.Packet Model.PacketEnc Model.PacketPtrs
  Spec.TlvWf Spec.SignedPortion Generated.Schemas
  Proofs.BytesLemmas Proofs.TlvVarProofs Proofs.TlvSplit Proofs.TlvAssign Proofs.TlvRoundtrip Proofs.TlvRoundtrip2 Proofs.TlvMore
  Proofs.PacketRoundtrip Proofs.SignedPortionProofs Proofs.SignedPortionInterest
  Proofs.PtrsSpecView Proofs.PtrsSplit Proofs.PtrsData Proofs.PtrsAccept Proofs.PtrsDataMade
  Proofs.PtrsInterestWalk Proofs.PtrsInterest.
Local Open Scope N_scope.
Set Default Timeout 900.
Arguments N.of_nat : simpl never.
Arguments N.to_nat : simpl never.

Definition fsI := ndn_format_0_3_InterestPacketValue.
Definition relI (pa pw : nat) : Prop := (pa <= 7 /\ pw = pa)%nat \/ (8 <= pa /\ pw = pa + 2)%nat.

Ltac finI Hpl := cbn; repeat (rewrite ?Bool.andb_false_r, ?Bool.andb_true_r; cbn);
  first [reflexivity
        | (eexists; split; [reflexivity|split; [first [left; split; lia|right; split; lia]|apply Hpl; intros; discriminate]])].
Ltac caseI R pa Hpl :=
  destruct R as [(Hp & ->)|(Hp & ->)]; dpos pa; try lia; finI Hpl.

Lemma findI pa pw t : relI pa pw ->
  match find_from fsI 0 pa t with
  | Some (i, k) => exists j, find_field LI 0 pw t = Some j /\ relI (S i) (S j) /\ plain k
  | None => find_field LI 0 pw t = None
  end.
Proof.
  intros R.
  assert (Hpl : forall k, (forall a, k <> KRepeated a) -> (forall a b c, k <> KMap a b c) -> plain k) by (intros; split; assumption).
  unfold LI, Generated.Schemas.ndn_format_0_3_InterestPacketValue_layout, fsI, ndn_format_0_3_InterestPacketValue.
  cbn [find_from find_field].
  destruct (N.eqb_spec 7 t) as [<-|N1]; [caseI R pa Hpl|].
  destruct (N.eqb_spec 33 t) as [<-|N2]; [caseI R pa Hpl|].
  destruct (N.eqb_spec 18 t) as [<-|N3]; [caseI R pa Hpl|].
  destruct (N.eqb_spec 30 t) as [<-|N4]; [caseI R pa Hpl|].
  destruct (N.eqb_spec 10 t) as [<-|N5]; [caseI R pa Hpl|].
  destruct (N.eqb_spec 12 t) as [<-|N6]; [caseI R pa Hpl|].
  destruct (N.eqb_spec 34 t) as [<-|N7]; [caseI R pa Hpl|].
  destruct (N.eqb_spec 36 t) as [<-|N8]; [caseI R pa Hpl|].
  destruct (N.eqb_spec 44 t) as [<-|N9]; [caseI R pa Hpl|].
  destruct (N.eqb_spec 46 t) as [<-|N10]; [caseI R pa Hpl|].
  cbn. rewrite !Bool.andb_false_r. reflexivity.
Qed.

Lemma walkI_accepts w vs v :
  dec_interest w = Ok vs -> parse_and_check_tl w TYPE_INTEREST = Ok v ->
  exists rs ev, split_raw v = Ok rs /\ walk LI 0 (map (fun er => e_type (fst er)) rs) 0 [] = Ok ev.
Proof.
  unfold dec_interest, require_name, gen_decode. intros H Hv. rewrite Hv in H. cbn [bind] in H.
  destruct (parse_model _ _ false v) as [vs'|] eqn:Pm; [|discriminate].
  unfold parse_model, split_wire in Pm. rewrite elements_raw_fst in Pm. unfold split_raw.
  destruct (elements_raw (S (length v)) v) as [rs|]; [|discriminate]. cbn [bind] in Pm.
  destruct (assign_walk fsI LI relI findI _ _ _ _ _ 0%nat 0%nat [] Pm ltac:(left; split; [lia|reflexivity])) as (ev & Hev).
  rewrite map_map in Hev. exists rs, ev. split; [reflexivity|exact Hev].
Qed.

Lemma name_parts_total : forall comps cov dig,
  Forall (fun c => exists t, is_el (t, c) /\ (2 <= length c)%nat) comps -> exists r, name_parts comps cov dig = Ok r.
Proof.
  induction comps as [|c r IH]; intros cov dig H; [eexists; reflexivity|].
  inversion H as [|? ? (t & Hel & Hl) Hr]; subst.
  destruct (is_el_unfold t c [] Hel Hl) as (st & l & sl & E1 & E2 & _). rewrite app_nil_r in E1, E2.
  cbn [name_parts]. unfold comp_get_type, comp_get_value. rewrite E1. cbn [bind fst snd]. rewrite E2. cbn [bind].
  destruct (t =? TYPE_PARAMETERS_SHA256); apply IH; exact Hr.
Qed.

(* the walk succeeding and the Name being well-formed is all the pointer computation needs *)
Lemma ptrs_interest_ok v sel rs ev s :
  strict_split (S (length v)) v = Some sel -> split_raw v = Ok rs ->
  walk LI 0 (map (fun er => e_type (fst er)) rs) 0 [] = Ok ev ->
  signed_portion_interest v = Some s ->
  exists p, ptrs_interest_with LI v = Ok p.
Proof.
  intros Hs Ers W Hsp.
  destruct (strict_split_inv _ _ _ Hs) as (Ev & Hel & Hlen).
  pose proof (length_le_concat sel Hlen) as G. rewrite <- Ev in G.
  destruct (split_raw_strict _ _ Hs) as (rs' & Ers' & Hag). rewrite Ers in Ers'. inversion Ers'; subst rs'. clear Ers'.
  unfold ptrs_interest_with. rewrite Ers. cbn [bind]. rewrite W. cbn [bind]. unfold TYPE_NAME.
  unfold signed_portion_interest, T_NAME in Hsp. rewrite Ev in Hsp at 2.
  rewrite (value_of_type_view sel 7 Hel) in Hsp by lia.
  rewrite (agrees_types _ _ Hag) in W. pose proof (walkI_name_event _ _ _ _ W) as Hev.
  destruct (idx_of 7 (types sel)) as [k7|] eqn:I7; [|discriminate].
  destruct Hev as (m & Hm). cbn [Nat.add] in Hm. rewrite Hm.
  pose proof (idx_of_lt _ _ _ I7) as Hk. unfold types in Hk. rewrite map_length in Hk.
  destruct (nth_agrees sel rs k7 Hag Hk) as (er & tr & E1 & E2 & (Aty & Araw & _)).
  rewrite E1. destruct er as [el raw]. cbn [fst snd] in Aty, Araw. subst raw.
  unfold raws in Hsp. rewrite nth_error_map, E2 in Hsp. cbn [option_map] in Hsp.
  destruct (el_value (snd tr)) as [nv|] eqn:Env; [|discriminate].
  destruct (components (S (length nv)) nv) as [comps|] eqn:Ec; [|discriminate].
  assert (Htr : is_el tr /\ (2 <= length (snd tr))%nat /\ fst tr = 7).
  { split; [eapply Forall_forall; [exact Hel|eapply nth_error_In; exact E2]|].
    split; [eapply (proj1 (Forall_forall _ _) Hlen); eapply nth_error_In; exact E2|].
    clear -I7 E2. unfold types in I7. revert k7 I7 E2. induction sel as [|x s0 IH]; intros k H1 H2; [discriminate|].
    cbn [map idx_of] in H1. destruct (N.eqb_spec (fst x) 7) as [E|N].
    - inversion H1; subst. cbn in H2. inversion H2; subst. exact E.
    - destruct (idx_of 7 (map fst s0)) eqn:E'; [|discriminate]. inversion H1; subst. cbn in H2. eapply IH; [reflexivity|exact H2]. }
  destruct Htr as (Hel7 & Hl7 & Ht7). destruct tr as [t7 e7]. cbn [fst snd] in *. clear Aty. subst t7.
  destruct (name_decode_strict e7 nv comps Hel7 Hl7 Env Ec) as (u & Hu). rewrite Hu. cbn [bind fst].
  destruct (components_inv _ _ _ Ec) as (_ & Hall).
  destruct (name_parts_total comps [] None Hall) as ([ncov dig] & Hnp). rewrite Hnp. cbn [bind].
  destruct (sig_part 46 rs ev). eexists; reflexivity.
Qed.

(* ---- the element order of a packet the encoder produced ------------------------------------------- *)
Lemma idx_of_app_notin t A B : ~ In t A -> idx_of t (A ++ B) = option_map (Nat.add (length A)) (idx_of t B).
Proof.
  induction A as [|x A IH]; intros Hn; [cbn; destruct (idx_of t B); reflexivity|].
  cbn [app idx_of length]. destruct (N.eqb_spec x t) as [->|]; [exfalso; apply Hn; left; reflexivity|].
  rewrite IH by (intros H; apply Hn; right; exact H). destruct (idx_of t B); reflexivity.
Qed.

Lemma map_cons_inv {A B} (f : A -> B) l b r : map f l = b :: r -> exists x l', l = x :: l' /\ f x = b /\ map f l' = r.
Proof. destruct l as [|x l']; [discriminate|]. cbn. intros H; inversion H; subst. exists x, l'. repeat split. Qed.

Lemma item_types pv (it : item) : item_good pv it -> (forall a b c, snd (it_field it) <> KMap a b c) ->
  Forall (fun x => x = fst (it_field it)) (map e_type (it_els it)).
Proof.
  intros Hg Hk. pose proof (good_types pv _ _ _ _ Hg Hk) as F. induction F as [|e l (A & _) _ IH]; constructor; assumption.
Qed.

Lemma params_first_sorted (L1 L2 L3 L4 L5 L6 L7 L8 L9 L10 : list N) :
  Forall (fun x => x = 7) L1 -> Forall (fun x => x = 33) L2 -> Forall (fun x => x = 18) L3 ->
  Forall (fun x => x = 30) L4 -> Forall (fun x => x = 10) L5 -> Forall (fun x => x = 12) L6 ->
  Forall (fun x => x = 34) L7 -> Forall (fun x => x = 36) L8 -> Forall (fun x => x = 44) L9 ->
  Forall (fun x => x = 46) L10 ->
  params_first (L1 ++ L2 ++ L3 ++ L4 ++ L5 ++ L6 ++ L7 ++ L8 ++ L9 ++ L10).
Proof.
  intros F1 F2 F3 F4 F5 F6 F7 F8 F9 F10.
  set (A := L1 ++ L2 ++ L3 ++ L4 ++ L5 ++ L6 ++ L7).
  assert (HA : Forall (fun x => x <> 36 /\ x <> 44 /\ x <> 46) A).
  { unfold A. repeat (apply Forall_app; split);
    match goal with |- Forall _ ?L => match goal with H : Forall _ L |- _ =>
      eapply Forall_impl; [|exact H]; intros x ->; repeat split; discriminate end end. }
  replace (L1 ++ L2 ++ L3 ++ L4 ++ L5 ++ L6 ++ L7 ++ L8 ++ L9 ++ L10) with (A ++ L8 ++ L9 ++ L10)
    by (unfold A; rewrite <- !app_assoc; reflexivity).
  intros k Hk x Hx.
  assert (Hn : ~ In 36 A) by (intros Hin; rewrite Forall_forall in HA; destruct (HA _ Hin) as (X & _); apply X; reflexivity).
  rewrite (idx_of_app_notin 36 A _ Hn) in Hk.
  destruct L8 as [|y L8'].
  - exfalso. cbn [app] in Hk.
    assert (Hn2 : ~ In 36 (L9 ++ L10)).
    { intros Hin. apply in_app_or in Hin. destruct Hin as [Hin|Hin].
      - rewrite Forall_forall in F9. specialize (F9 _ Hin). discriminate.
      - rewrite Forall_forall in F10. specialize (F10 _ Hin). discriminate. }
    rewrite (idx_of_none _ _ Hn2) in Hk. discriminate.
  - inversion F8 as [|? ? Hy _]; subst y. cbn [app idx_of N.eqb Pos.eqb option_map] in Hk.
    inversion Hk; subst k. rewrite Nat.add_0_r in Hx. rewrite firstn_app_exact in Hx.
    rewrite Forall_forall in HA. destruct (HA _ Hx) as (_ & X & Y). split; assumption.
Qed.

Lemma types_of_ser els : types (map (fun e => (e_type e, ser_elem e)) els) = map e_type els.
Proof. unfold types. rewrite map_map. reflexivity. Qed.

Section Made.
Variables sha sign : bytes -> bytes.

Theorem made_interest_reported i m s :
  (forall x, length (sha x) = 32%nat) ->
  make_interest sha sign i = Ok m -> i_sig i = Some s ->
  N.of_nat (length (m_wire m)) < two64 ->
  Forall wf_comp64 (i_name i) ->
  fits (KModel [(7, KRepeated KName)] false) (hint_value (i_hint i)) ->
  fits (KModel ndn_format_0_3_SignatureInfo false) (si_info s) ->
  (forall sv, interest_fits i (m_final_name m) sv) ->
  exists body p,
    m_wire m = tlv TYPE_INTEREST body /\ well_formed_value body /\
    ptrs_interest_with LI body = Ok p /\
    concat (p_sig_covered p) = m_sig_covered m /\
    concat (p_dig_covered p) = m_digest_covered m /\
    p_dig_value p = Some (sha (m_digest_covered m)) /\
    p_sig_value p = value_of_type (S (length body)) 46 body.
Proof.
  intros Hsha H Es Hl Hn Hfh Hfs Hfit.
  destruct (interest_sign_covers_spec sha sign Hsha i m s H Es Hl Hn Hfh Hfs) as (body & Ew & Hsp & Hdp & Hdc).
  destruct (make_interest_roundtrip sha sign i m H Hl Hfit) as (sv & Hdec & _).
  destruct (make_interest_body sha sign i m H) as (body' & sv' & Ew' & Eb & _).
  assert (Hpc : parse_and_check_tl (m_wire m) TYPE_INTEREST = Ok body).
  { rewrite Ew. rewrite Ew, tlv_length in Hl. apply pact_tlv; [unfold TYPE_INTEREST, two64; lia|lia]. }
  assert (Hb : body' = body).
  { assert (P2 : parse_and_check_tl (m_wire m) TYPE_INTEREST = Ok body').
    { rewrite Ew'. rewrite Ew', tlv_length in Hl. apply pact_tlv; [unfold TYPE_INTEREST, two64; lia|lia]. }
    congruence. }
  subst body'.
  assert (Hlb : N.of_nat (length body) < two64) by (rewrite Ew, tlv_length in Hl; lia).
  pose proof (wf_fieldsb_spec _ wf_ndn_format_0_3_InterestPacketValue) as Hwf.
  inversion Hwf as [fs0 Hnd Hall]; subst fs0.
  unfold encode_model in Eb.
  destruct (enc_fields_good _ (enc_good _) _ _ _ Hall (Hfit sv') Eb Hlb) as (items & E1 & _ & Eels & Hgs).
  set (els := concat (map it_els items)) in *.
  pose proof (items_el_ok _ _ Hgs) as Hok. fold els in Hok.
  set (sel := map (fun e => (e_type e, ser_elem e)) els).
  assert (Hsel : strict_split (S (length body)) body = Some sel).
  { rewrite Eels. apply strict_split_ser; [exact Hok|]. pose proof (ser_els_length_ge els Hok). lia. }
  (* the element order *)
  assert (Hcanon : params_first (types sel)).
  { unfold sel. rewrite types_of_ser. unfold els.
    unfold ndn_format_0_3_InterestPacketValue in E1.
    repeat match type of E1 with map it_field _ = _ :: _ =>
      let x := fresh "it" in let l := fresh "items" in let Ex := fresh "Ex" in
      destruct (map_cons_inv _ _ _ _ E1) as (x & l & -> & Ex & E1') ; clear E1; rename E1' into E1 end.
    match type of E1 with map it_field ?l = [] => destruct l as [|? ?]; [|discriminate] end. clear E1.
    cbn [map concat]. rewrite !map_app, app_nil_r. cbn [map].
    repeat match goal with Hg : Forall (item_good _) (_ :: _) |- _ => inversion Hg; subst; clear Hg end.
    apply params_first_sorted;
      match goal with |- Forall _ (map e_type (it_els ?it)) =>
        match goal with Ex : it_field it = _, Hg : item_good _ it |- _ =>
          let F := fresh in
          assert (F := item_types _ it Hg); rewrite Ex in F; cbn [fst snd] in F; apply F; intros; discriminate end end. }
  destruct (walkI_accepts _ _ _ Hdec Hpc) as (rs & ev & Ers & W).
  destruct (ptrs_interest_ok body sel rs ev _ Hsel Ers W Hsp) as (p & Hp).
  exists body, p. split; [exact Ew|]. split; [exists sel; exact Hsel|]. split; [exact Hp|].
  split; [apply (interest_signed_range body sel p Hsel Hp Hcanon); exact Hsp|].
  split; [apply (interest_digest_range body sel p Hsel Hp Hcanon); exact Hdp|].
  split; [apply (interest_digest_value body sel p Hsel Hp); exact Hdc|].
  apply (interest_sig_value body sel p Hsel Hp).
Qed.
End Made.
