(* C06 (A): for ANY byte string, well formed or not, and any chunking of it, the face hands over exactly
   the complete packets at its front (Spec/Framing.v [packets_of]) and keeps the incomplete remainder. *)
From NDN Require Import Base.Prelude Model.TlvVar Model.Stream Spec.Framing Proofs.BytesLemmas Proofs.StreamRun
  Proofs.StreamPump.
Local Open Scope N_scope.

Arguments N.of_nat : simpl never.
Arguments N.to_nat : simpl never.

Lemma take_varnum_dec w : take_varnum w = to_option (tl_dec w).
Proof.
  destruct w as [|b r]; [reflexivity|]. cbn [take_varnum tl_dec].
  destruct (b <=? 252); [reflexivity|]. unfold unpack_be.
  destruct (b =? 253).
  { rewrite firstn_length. destruct (Nat.leb 2 (length r)) eqn:E.
    - replace (Nat.eqb (Nat.min 2 (length r)) 2) with true by lia. reflexivity.
    - replace (Nat.eqb (Nat.min 2 (length r)) 2) with false by lia. reflexivity. }
  destruct (b =? 254).
  { rewrite firstn_length. destruct (Nat.leb 4 (length r)) eqn:E.
    - replace (Nat.eqb (Nat.min 4 (length r)) 4) with true by lia. reflexivity.
    - replace (Nat.eqb (Nat.min 4 (length r)) 4) with false by lia. reflexivity. }
  rewrite firstn_length. destruct (Nat.leb 8 (length r)) eqn:E.
  - replace (Nat.eqb (Nat.min 8 (length r)) 8) with true by lia. reflexivity.
  - replace (Nat.eqb (Nat.min 8 (length r)) 8) with false by lia. reflexivity.
Qed.

Lemma take_varnum_some w v sz : take_varnum w = Some (v, sz) -> tl_dec w = Ok (v, sz).
Proof. rewrite take_varnum_dec. destruct (tl_dec w) as [[a b]|]; cbn; intros H; inversion H; reflexivity. Qed.

Lemma take_varnum_pos w v sz : take_varnum w = Some (v, sz) -> (1 <= sz <= length w)%nat.
Proof.
  destruct w as [|b r]; [discriminate|]. cbn [take_varnum length].
  destruct (b <=? 252); [intros H; inversion H; lia|].
  destruct (Nat.leb _ (length r)) eqn:E; [|discriminate]. intros H; inversion H; subst.
  destruct (b =? 253); [lia|]. destruct (b =? 254); lia.
Qed.

(* when the number is not all there the stream reader waits *)
Lemma read_tl_num_blocked w bio : take_varnum w = None -> exists m b, run_one (read_tl_num bio) w = OBlocked m b.
Proof.
  destruct w as [|b r]; intros H.
  - eexists _, _. reflexivity.
  - cbn [take_varnum] in H. unfold read_tl_num. cbn [run_one].
    replace (1 <=? N.of_nat (length (b :: r))) with true by (cbn [length]; lia).
    change (N.to_nat 1) with 1%nat. cbn [firstn skipn].
    destruct (b <=? 252); [discriminate|].
    assert (X : forall k bio', Nat.leb k (length r) = false -> exists m b0, run_one (read_ext k bio') r = OBlocked m b0).
    { intros k bio' Hk. unfold read_ext. cbn [run_one]. replace (N.of_nat k <=? N.of_nat (length r)) with false by lia.
      eexists _, _. reflexivity. }
    destruct (b =? 253); [|destruct (b =? 254)]; destruct (Nat.leb _ (length r)) eqn:E; try discriminate; apply X; exact E.
Qed.

Lemma firstn_plus {A} a b (l : list A) : firstn (a + b) l = firstn a l ++ firstn b (skipn a l).
Proof.
  revert l. induction a as [|a IH]; intros l; [reflexivity|].
  destruct l as [|x l]; cbn [Nat.add firstn skipn app]; [destruct b; reflexivity|]. rewrite IH. reflexivity.
Qed.

Lemma skipn_add {A} a b (l : list A) : skipn b (skipn a l) = skipn (a + b) l.
Proof.
  revert l. induction a as [|a IH]; intros l; [reflexivity|].
  destruct l as [|x l]; cbn [Nat.add skipn]; [destruct b; reflexivity|]. apply IH.
Qed.

Lemma rbind_blocked {A B} (m : rd A) (f : A -> rd B) : forall buf m' b,
  run_one m buf = OBlocked m' b -> exists m2, run_one (rbind m f) buf = OBlocked m2 b.
Proof.
  induction m as [a0|e0|n k IH]; intros buf m' b H; cbn [run_one rbind] in *; try discriminate.
  destruct (n <=? N.of_nat (length buf)) eqn:E.
  - eapply IH. exact H.
  - inversion H; subst. eexists. reflexivity.
Qed.

Theorem run_body_first_packet w :
  match first_packet w with
  | Some (p, rest) => run_one run_body w = ODone p rest
  | None => exists m b, run_one run_body w = OBlocked m b
  end.
Proof.
  unfold first_packet, run_body.
  destruct (take_varnum w) as [[t a]|] eqn:E1.
  2:{ destruct (read_tl_num_blocked w [] E1) as (m & b & Hb).
      destruct (rbind_blocked _ (fun '(typ, bio) => rbind (read_tl_num bio) (fun '(siz, bio0) =>
        Read siz (fun body => Ret (typ, bio0 ++ body)))) _ _ _ Hb) as [m2 H2]. eexists _, _. exact H2. }
  pose proof (read_tl_num_dec _ _ _ [] (take_varnum_some _ _ _ E1)) as R1.
  rewrite (run_one_bind _ _ _ _ _ R1). cbn [app].
  destruct (take_varnum (skipn a w)) as [[l b]|] eqn:E2.
  2:{ destruct (read_tl_num_blocked (skipn a w) (firstn a w) E2) as (m & b & Hb).
      destruct (rbind_blocked _ (fun '(siz, bio0) => Read siz (fun body => Ret (t, bio0 ++ body))) _ _ _ Hb) as [m2 H2].
      eexists _, _. exact H2. }
  pose proof (read_tl_num_dec _ _ _ (firstn a w) (take_varnum_some _ _ _ E2)) as R2.
  rewrite (run_one_bind _ _ _ _ _ R2). cbn [run_one].
  rewrite !(skipn_add a b w).
  destruct (l <=? N.of_nat (length (skipn (a + b) w))) eqn:E3.
  - rewrite !firstn_plus, <- app_assoc. reflexivity.
  - eexists _, _. reflexivity.
Qed.

Lemma first_packet_shrinks w p rest : first_packet w = Some (p, rest) -> (length rest < length w)%nat.
Proof.
  intros H. pose proof (run_body_first_packet w) as R. rewrite H in R. apply run_body_consumes in R. exact R.
Qed.

Lemma pumps_split_stream : forall fuel w, (length w <= fuel)%nat ->
  exists m b, pumps true run_body w (fst (split_stream fuel w)) (CBlocked m) b.
Proof.
  induction fuel as [|f IH]; intros w Hf.
  - destruct w; [|cbn in Hf; lia]. cbn. exists run_body, []. apply P_blocked. apply run_body_empty.
  - cbn [split_stream]. pose proof (run_body_first_packet w) as R.
    destruct (first_packet w) as [[p rest]|] eqn:E.
    + pose proof (first_packet_shrinks _ _ _ E).
      destruct (IH rest ltac:(lia)) as (m & b & Hm). destruct (split_stream f rest) as [ps r]. cbn [fst snd] in *.
      exists m, b. eapply P_next; [reflexivity|exact R|exact Hm].
    + destruct R as (m & b & Hb). exists m, b. cbn [fst]. apply P_blocked. exact Hb.
Qed.

(* any byte string, any chunking: the packets handed over are the complete packets at its front *)
Theorem framing_any_stream cfg chunks f' outs :
  run_events cfg face_init (map Feed chunks) = (f', outs) ->
  concat outs = fst (packets_of (concat chunks)) /\ f_running f' = true /\ exists m, f_co f' = CBlocked m.
Proof.
  intros H. pose proof (feeds_concat cfg _ _ _ _ face_init_inv H) as H1.
  cbn [step face_init f_eof f_buf f_co f_running f_closed app] in H1.
  destruct (pumps_split_stream (length (concat chunks)) (concat chunks) (le_n _)) as (m & b & HP).
  rewrite (pump_complete _ _ _ _ _ _ _ HP) in H1 by lia. inversion H1; subst.
  split; [reflexivity|]. split; [reflexivity|]. exists m. reflexivity.
Qed.

(* ... and when the stream then ends, the face shuts down and the incomplete remainder is never handed over *)
Theorem eof_any_stream cfg chunks f' outs :
  catch_incomplete cfg = true ->
  run_events cfg face_init (map Feed chunks ++ [Eof]) = (f', outs) ->
  concat outs = fst (packets_of (concat chunks)) /\ f' = Face false CFinished [] true true.
Proof.
  intros Hcfg H.
  destruct (run_events cfg face_init (map Feed chunks)) as [f1 o1] eqn:E1.
  destruct (framing_any_stream _ _ _ _ E1) as (Ho & Hr & m & Hm).
  destruct (run_events cfg f1 [Eof]) as [f2 o2] eqn:E2.
  rewrite (run_events_app cfg _ _ _ _ _ _ _ E1 E2) in H. inversion H; subst f' outs. clear H.
  cbn [run_events step] in E2. rewrite Hm in E2. unfold raise_in_run in E2. rewrite Hcfg in E2. cbn in E2.
  inversion E2; subst. rewrite concat_app. cbn [concat]. rewrite !app_nil_r. split; [exact Ho|reflexivity].
Qed.

(* ---- what is handed over is one TLV of the announced Type: the outer check of the decoders passes --------- *)
Lemma tl_dec_len w v sz : tl_dec w = Ok (v, sz) -> (sz <= length w)%nat.
Proof.
  destruct w as [|b r]; [discriminate|]. cbn [tl_dec length].
  destruct (b <=? 252); [intros H; inversion H; lia|]. unfold unpack_be.
  destruct (b =? 253); [|destruct (b =? 254)];
    (destruct (Nat.eqb (length (firstn _ r)) _) eqn:E; [|discriminate]); cbn [bind]; intros H; inversion H; subst;
    rewrite firstn_length in E; lia.
Qed.

(* parse_tl_num only looks at the bytes of the number *)
Lemma tl_dec_prefix w v sz x : tl_dec w = Ok (v, sz) -> tl_dec (firstn sz w ++ x) = Ok (v, sz).
Proof.
  destruct w as [|b r]; [discriminate|]. cbn [tl_dec].
  destruct (b <=? 252) eqn:E0.
  { intros H; inversion H; subst. cbn [firstn app tl_dec]. rewrite E0. reflexivity. }
  unfold unpack_be.
  assert (X : forall k, Nat.eqb (length (firstn k r)) k = true ->
                        firstn k (firstn k r ++ x) = firstn k r).
  { intros k Hk. apply Nat.eqb_eq in Hk. rewrite firstn_app, Hk, Nat.sub_diag. cbn [firstn].
    rewrite app_nil_r. rewrite firstn_firstn, Nat.min_id. reflexivity. }
  destruct (b =? 253) eqn:E1; [|destruct (b =? 254) eqn:E2];
    (destruct (Nat.eqb (length (firstn _ r)) _) eqn:E; [|discriminate]); cbn [bind]; intros H; inversion H; subst;
    rewrite firstn_cons; cbn [app tl_dec]; rewrite E0, ?E1, ?E2; unfold unpack_be; rewrite (X _ E), E; reflexivity.
Qed.

Definition consistent (p : N * bytes) : Prop := exists body, parse_and_check_tl (snd p) (fst p) = Ok body.

Lemma first_packet_consistent w p rest : first_packet w = Some (p, rest) -> consistent p.
Proof.
  unfold first_packet.
  destruct (take_varnum w) as [[t a]|] eqn:E1; [|discriminate].
  destruct (take_varnum (skipn a w)) as [[l b]|] eqn:E2; [|discriminate].
  destruct (l <=? N.of_nat (length (skipn (a + b) w))) eqn:E3; [|discriminate].
  intros H; inversion H; subst p rest. clear H.
  apply take_varnum_some in E1, E2.
  pose proof (tl_dec_len _ _ _ E1) as L1. pose proof (tl_dec_len _ _ _ E2) as L2. rewrite skipn_length in L2.
  unfold consistent. cbn [fst snd]. unfold parse_and_check_tl.
  rewrite !firstn_plus, <- app_assoc.
  rewrite (tl_dec_prefix _ _ _ _ E1). cbn [bind].
  replace (skipn a (firstn a w ++ firstn b (skipn a w) ++ firstn (N.to_nat l) (skipn (a + b) w)))
    with (firstn b (skipn a w) ++ firstn (N.to_nat l) (skipn (a + b) w))
    by (symmetry; apply skipn_app_exact'; rewrite firstn_length; lia).
  rewrite (tl_dec_prefix _ _ _ _ E2). cbn [bind].
  rewrite N.eqb_refl. cbn [negb].
  rewrite !app_length, !firstn_length, !skipn_length.
  rewrite skipn_length in E3.
  replace (negb (N.of_nat (Nat.min a (length w) + (Nat.min b (length w - a) + Nat.min (N.to_nat l) (length w - (a + b))))
                 =? N.of_nat (a + b) + l)) with false by lia.
  eexists. reflexivity.
Qed.

Lemma split_stream_consistent : forall fuel w, Forall consistent (fst (split_stream fuel w)).
Proof.
  induction fuel as [|f IH]; intros w; cbn [split_stream]; [constructor|].
  destruct (first_packet w) as [[p rest]|] eqn:E; [|constructor].
  specialize (IH rest). destruct (split_stream f rest) as [ps r]. cbn [fst] in *.
  constructor; [eapply first_packet_consistent; exact E|exact IH].
Qed.

(* every (typ, buf) the callback gets, from any byte stream in any chunking: buf is exactly one TLV element of
   Type typ, so parse_and_check_tl(buf, typ) succeeds -- over a stream face _receive never sees inconsistent outer framing *)
Theorem delivered_consistent cfg chunks f' outs :
  run_events cfg face_init (map Feed chunks) = (f', outs) -> Forall consistent (concat outs).
Proof.
  intros H. destruct (framing_any_stream _ _ _ _ H) as (-> & _). apply split_stream_consistent.
Qed.

(* a connection reset while the reader waits: same deliveries, the face shuts down, buffered bytes stay unread *)
Theorem reset_any_stream cfg chunks f' outs :
  catch_reset cfg = true ->
  run_events cfg face_init (map Feed chunks ++ [Reset]) = (f', outs) ->
  concat outs = fst (packets_of (concat chunks)) /\ f_running f' = false /\ f_co f' = CFinished /\ f_closed f' = true.
Proof.
  intros Hcfg H.
  destruct (run_events cfg face_init (map Feed chunks)) as [f1 o1] eqn:E1.
  destruct (framing_any_stream _ _ _ _ E1) as (Ho & Hr & m & Hm).
  destruct (run_events cfg f1 [Reset]) as [f2 o2] eqn:E2.
  rewrite (run_events_app cfg _ _ _ _ _ _ _ E1 E2) in H. inversion H; subst f' outs. clear H.
  cbn [run_events step] in E2. rewrite Hm in E2. unfold raise_in_run in E2. rewrite Hcfg in E2.
  inversion E2; subst. rewrite concat_app. cbn [concat]. rewrite !app_nil_r. repeat split; [exact Ho].
Qed.
