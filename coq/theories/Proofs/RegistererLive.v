(* C17 — progress of the timestamp loop: the call that holds the semaphore and sleeps in the loop with [l]
   readings left puts its command on the face after at most l+1 ticks, whatever the clock does (the for-else
   bump).  Together with C17_one_command_per_call: once a call has the semaphore it sends exactly one command. *)
From NDN Require Import Base.Prelude Model.TlvVar Model.Name Model.Tlv Model.NfdMgmt Model.Registerer
  Spec.Registration Proofs.RegistererBase Proofs.RegistererInv.
Local Open Scope N_scope.

Section Live.
  Variable fe : kind -> proto.
  Variable clock : nat -> N.
  Variable va : bool.
  Hypothesis Hok : forall k, proto_ok (fe k) = true.
  Hypothesis Hva : forall k, p_validates (fe k) = va.
  (* the front-end chooses its timestamps with the wait loop (appv2) *)
  Hypothesis Hloop : forall k, exists n, p_ts (fe k) = TsLoop n true.

  Lemma wake_app s a b : wake fe clock s (a ++ b) = wake fe clock (wake fe clock s a) b.
  Proof. revert s. induction a as [|x a IH]; intros s; cbn [app wake]; [reflexivity|apply IH]. Qed.

  Lemma wake_idle ids : forall s,
    (forall j l, In j ids -> status s j <> Some (CSleep l)) -> wake fe clock s ids = s.
  Proof.
    induction ids as [|x r IH]; intros s H; cbn [wake]; [reflexivity|].
    destruct (status s x) as [[|l| |]|] eqn:E;
      try (apply IH; intros j l0 Hj; apply H; right; exact Hj).
    exfalso. exact (H x l (or_introl eq_refl) E).
  Qed.

  Lemma send_holder s id : holder (send fe clock s id) = holder s.
  Proof.
    unfold send. destruct (nth_error (calls s) id) as [c|]; [|reflexivity].
    destruct (match p_ts (fe (c_kind c)) with TsNone => true | _ => negb (p_recorded (fe (c_kind c))) end); reflexivity.
  Qed.
  Lemma ts_try_holder s id l b : holder (ts_try fe clock s id l b) = holder s.
  Proof.
    destruct l as [|l]; cbn [ts_try].
    - rewrite send_holder. destruct b; reflexivity.
    - destruct (last_ts s <? clock (clk s)); [rewrite send_holder|]; reflexivity.
  Qed.

  Lemma send_status s id c0 : status s id = Some c0 -> status (send fe clock s id) id = Some COut.
  Proof.
    intros Hs. unfold status in Hs. destruct (stat_nth _ _ _ Hs) as (c & En & _).
    rewrite (send_eq fe clock Hok s id c En). unfold status. simp. exact (stat_upd_eq _ _ COut _ Hs).
  Qed.

  Lemma ts_try_status s id c0 l :
    status s id = Some c0 ->
    status (ts_try fe clock s id l true) id = Some COut \/
    exists l', l = S l' /\ status (ts_try fe clock s id l true) id = Some (CSleep l').
  Proof.
    intros Hs. destruct l as [|l']; cbn [ts_try].
    - left. apply (send_status _ id c0). exact Hs.
    - destruct (last_ts s <? clock (clk s)).
      + left. apply (send_status _ id c0). exact Hs.
      + right. exists l'. split; [reflexivity|]. unfold status in *. simp. exact (stat_upd_eq _ _ _ _ Hs).
  Qed.

  (* a tick wakes exactly the holder *)
  Lemma tick_holder s id l :
    Inv va s -> status s id = Some (CSleep l) -> step fe clock s ETick = ts_try fe clock s id l true.
  Proof.
    intros HI Hs. cbn [step].
    pose proof (I_active _ s HI id (CSleep l) Hs eq_refl) as Hh.
    assert (Hlt : (id < length (calls s))%nat) by (unfold status in Hs; exact (stat_lt _ _ _ Hs)).
    assert (Hseq : seq 0 (length (calls s)) = seq 0 id ++ id :: seq (S id) (length (calls s) - S id)).
    { replace (length (calls s)) with (id + S (length (calls s) - S id))%nat at 1 by lia.
      rewrite seq_app. cbn [seq plus]. reflexivity. }
    rewrite Hseq, wake_app. rewrite (wake_idle (seq 0 id)).
    2:{ intros j l0 Hj Hsl. apply in_seq in Hj.
        pose proof (I_active _ s HI j (CSleep l0) Hsl eq_refl) as Hj'. rewrite Hh in Hj'. injection Hj' as <-. lia. }
    cbn [wake]. rewrite Hs. unfold proto_of. unfold status in Hs. destruct (stat_nth _ _ _ Hs) as (c & En & Hc).
    rewrite En. cbn [option_map].
    destruct (Hloop (c_kind c)) as (n & Ets). rewrite Ets.
    apply wake_idle. intros j l0 Hj Hsl. apply in_seq in Hj.
    assert (HI' : Inv va (ts_try fe clock s id l true)).
    { apply (ts_try_inv fe clock va Hok s id (CSleep l)); [exact HI|exact Hh|exact Hs|reflexivity]. }
    pose proof (I_active _ _ HI' j (CSleep l0) Hsl eq_refl) as Hj'. rewrite ts_try_holder, Hh in Hj'.
    injection Hj' as <-. lia.
  Qed.

  (* C17 (progress): after at most l+1 ticks the sleeping holder's command is on the face *)
  Theorem holder_sends_within : forall l s id,
    Inv va s -> status s id = Some (CSleep l) ->
    exists n, (n <= S l)%nat /\ status (fold_left (step fe clock) (repeat ETick n) s) id = Some COut.
  Proof.
    induction l as [|l IH]; intros s id HI Hs.
    - exists 1%nat. split; [lia|]. cbn [repeat fold_left]. rewrite (tick_holder s id 0 HI Hs).
      destruct (ts_try_status s id _ 0 Hs) as [H|(l' & E & _)]; [exact H|discriminate].
    - pose proof (step_inv fe clock va Hok Hva s ETick HI) as HI'. rewrite (tick_holder s id (S l) HI Hs) in HI'.
      destruct (ts_try_status s id _ (S l) Hs) as [H|(l' & E & H)].
      + exists 1%nat. split; [lia|]. cbn [repeat fold_left]. rewrite (tick_holder s id (S l) HI Hs). exact H.
      + injection E as <-. destruct (IH _ id HI' H) as (n & Hn & Hst).
        exists (S n). split; [lia|]. cbn [repeat fold_left]. rewrite (tick_holder s id (S l) HI Hs). exact Hst.
  Qed.
End Live.
