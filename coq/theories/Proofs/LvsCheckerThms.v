(* Checker.match / Checker.check on a sane binary model = the tree-path semantics of
   Spec/LvsTree.v; every query halts within [match_cost] loop iterations. *)
From NDN Require Import Base.Prelude Base.Text Model.TlvVar Model.Name Model.LvsAst Model.LvsChecker
  Spec.LvsSem Spec.LvsTree Proofs.LvsMachine Proofs.LvsTreePaths.
Local Open Scope N_scope.

Section Thms.
  Variable ufn : ident -> option (bytes -> list (option bytes) -> res bool).
  Variable m : lvsmodel.
  Hypothesis Hsane : sane m.

  (* ---- consumers ---------------------------------------------------------------------------- *)
  Lemma feed_list_ext {A R} (f g : A -> N -> ctx -> res (A + R)) l a :
    (forall a n c, f a n c = g a n c) -> feed_list f l a = feed_list g l a.
  Proof.
    intros H. revert a; induction l as [|y l IH]; intros a; cbn; [reflexivity|].
    rewrite H. destruct (g a (fst y) (snd y)) as [[a'|v]|e]; cbn; auto.
  Qed.
  Lemma feed_ext {A R} (f g : A -> N -> ctx -> res (A + R)) ev a :
    (forall a n c, f a n c = g a n c) -> feed f ev a = feed g ev a.
  Proof. intros H. unfold feed. rewrite (feed_list_ext f g _ _ H). reflexivity. Qed.

  (* a consumer that maps every yield and never stops *)
  Lemma feed_list_map {B} (g : N -> ctx -> res B) (l : list (N * ctx)) (acc : list B) r :
    feed_list (R := unit) (fun acc n c => do y <- g n c ;; Ok (inl (y :: acc))) l acc = Ok r ->
    exists ys, r = inl (rev ys ++ acc) /\ Forall2 (fun p y => g (fst p) (snd p) = Ok y) l ys.
  Proof.
    revert acc r; induction l as [|p l IH]; intros acc r; cbn.
    - intros H; inversion H. exists []. split; [reflexivity | constructor].
    - destruct (g (fst p) (snd p)) as [y|] eqn:Eg; [|discriminate]. cbn. intros H.
      apply IH in H. destruct H as (ys & -> & HF). exists (y :: ys). split.
      + cbn. rewrite <- app_assoc. reflexivity.
      + constructor; assumption.
  Qed.

  (* a consumer that stops at the first yield satisfying a test *)
  Definition bcons (P : N -> ctx -> res bool) : unit -> N -> ctx -> res (unit + unit) :=
    fun _ n c => do b <- P n c ;; Ok (if b then inr tt else inl tt).

  Lemma feed_list_bcons_true P l : feed_list (bcons P) l tt = Ok (inr tt) ->
    exists n c, In (n, c) l /\ P n c = Ok true.
  Proof.
    induction l as [|[n c] l IH]; cbn; [discriminate|]. unfold bcons at 1. cbn.
    destruct (P n c) as [[|]|] eqn:Ep; cbn; try discriminate.
    - intros _. exists n, c. auto.
    - intros H. apply IH in H. destruct H as (n' & c' & Hin & Hp). exists n', c'. auto.
  Qed.

  Lemma feed_list_bcons_false P l : feed_list (bcons P) l tt = Ok (inl tt) ->
    forall n c, In (n, c) l -> P n c = Ok false.
  Proof.
    induction l as [|[n0 c0] l IH]; cbn; [intros _ n c []|]. unfold bcons at 1. cbn.
    destruct (P n0 c0) as [[|]|] eqn:Ep; cbn; try discriminate.
    intros H n c [E|Hin]; [inversion E; subst; exact Ep | apply IH; auto].
  Qed.

  Lemma feed_bcons_true P ev : feed (bcons P) ev tt = Ok (inr tt) ->
    exists n c, In (n, c) (fst ev) /\ P n c = Ok true.
  Proof.
    unfold feed. destruct (feed_list (bcons P) (fst ev) tt) as [[[]|[]]|] eqn:E; cbn; try discriminate.
    - destruct (snd ev); discriminate.
    - intros _. apply feed_list_bcons_true. exact E.
  Qed.

  Lemma feed_bcons_false P ev : feed (bcons P) ev tt = Ok (inl tt) ->
    snd ev = None /\ forall n c, In (n, c) (fst ev) -> P n c = Ok false.
  Proof.
    unfold feed. destruct (feed_list (bcons P) (fst ev) tt) as [[[]|[]]|] eqn:E; cbn; try discriminate.
    destruct (snd ev); [discriminate|]. intros _. split; [reflexivity|]. apply feed_list_bcons_false. exact E.
  Qed.

  (* ---- _match ----------------------------------------------------------------------------------- *)
  Theorem match_all_spec fuel name c l :
    (match_cost m name <= fuel)%nat -> match_all ufn m fuel name c = Ok l ->
    forall n c', In (n, c') l <-> tree_match ufn m name c n c'.
  Proof.
    intros Hf H. unfold match_all in H.
    destruct (machine_refines ufn m Hsane name c (R := unit) (fun acc nid cx => Ok (inl ((nid, cx) :: acc))) [])
      as (s & Es & Hrun).
    rewrite Hrun in H by exact Hf. rewrite tree_fold_feed in H.
    unfold feed in H.
    destruct (feed_list _ (fst (tree_events ufn m name s c)) []) as [x|] eqn:Efl; [|discriminate].
    pose proof (feed_list_map (fun n c => Ok (n, c)) _ _ _ Efl) as (ys & -> & HF).
    cbn in H. destruct (snd (tree_events ufn m name s c)) eqn:Ee; [discriminate|].
    inversion H; subst l. rewrite app_nil_r, rev_involutive.
    assert (ys = fst (tree_events ufn m name s c)).
    { clear - HF. induction HF as [|[a b] y l l' Hy _ IH]; [reflexivity|]. cbn in Hy. inversion Hy. f_equal. exact IH. }
    subst ys. intros n c'. unfold tree_match. split.
    - intros Hin. exists s. split; [exact Es|]. apply events_sound. exact Hin.
    - intros (s' & Es' & Hp). rewrite Es in Es'. inversion Es'; subst s'. apply events_complete; assumption.
  Qed.

  (* more fuel than the bound changes nothing: the loop has halted *)
  Theorem match_all_halts fuel name c :
    (match_cost m name <= fuel)%nat -> match_all ufn m fuel name c = match_all ufn m (match_cost m name) name c.
  Proof.
    intros Hf. unfold match_all.
    destruct (machine_refines ufn m Hsane name c (R := unit) (fun acc nid cx => Ok (inl ((nid, cx) :: acc))) [])
      as (s & Es & Hrun).
    rewrite (Hrun fuel Hf), (Hrun (match_cost m name)) by lia. reflexivity.
  Qed.

  (* ---- Checker.match -------------------------------------------------------------------------------- *)
  Theorem lvs_match_spec fuel name nm l :
    strip_digest name = Ok nm -> (match_cost m nm <= fuel)%nat -> lvs_match ufn m fuel name = Ok l ->
    forall rs cn, In (rs, cn) l <->
      exists n c, tree_match ufn m nm [] n c /\ node_rule_names m n = Ok rs /\ cn = context_to_name m c.
  Proof.
    intros Hs Hf H. unfold lvs_match in H. rewrite Hs in H. cbn [bind] in H.
    set (g := fun nid cx => do rn <- node_rule_names m nid ;; Ok (rn, context_to_name m cx)).
    assert (Hcons : forall acc nid cx,
              (do rn <- node_rule_names m nid ;; Ok (inl (B := unit) ((rn, context_to_name m cx) :: acc))) =
              (do y <- g nid cx ;; Ok (inl (y :: acc)))).
    { intros. unfold g. destruct (node_rule_names m nid); reflexivity. }
    destruct (machine_refines ufn m Hsane nm [] (R := unit)
                (fun acc nid cx => do rn <- node_rule_names m nid ;; Ok (inl ((rn, context_to_name m cx) :: acc))) [])
      as (s & Es & Hrun).
    rewrite Hrun in H by exact Hf. rewrite tree_fold_feed in H. unfold feed in H.
    rewrite (feed_list_ext _ (fun acc nid cx => do y <- g nid cx ;; Ok (inl (y :: acc))) _ _ Hcons) in H.
    destruct (feed_list _ (fst (tree_events ufn m nm s [])) []) as [x|] eqn:Efl; [|discriminate].
    pose proof (feed_list_map g _ _ _ Efl) as (ys & -> & HF).
    cbn in H. destruct (snd (tree_events ufn m nm s [])) eqn:Ee; [discriminate|].
    inversion H; subst l. rewrite app_nil_r, rev_involutive.
    intros rs cn. split.
    - intros Hin.
      assert (exists p, In p (fst (tree_events ufn m nm s [])) /\ g (fst p) (snd p) = Ok (rs, cn)).
      { clear - HF Hin. induction HF as [|p y l l' Hy _ IH]; [destruct Hin|].
        destruct Hin as [->|Hin]; [exists p; split; [left; reflexivity | exact Hy]|].
        destruct (IH Hin) as (q & Hq & Hg). exists q. split; [right; exact Hq | exact Hg]. }
      destruct H0 as ([n c] & Hin' & Hg). cbn in Hg. unfold g in Hg.
      destruct (node_rule_names m n) as [rn|] eqn:En; [|discriminate]. cbn in Hg. inversion Hg; subst.
      exists n, c. split; [|auto]. exists s. split; [exact Es|]. apply events_sound. exact Hin'.
    - intros (n & c & (s' & Es' & Hp) & Hrn & ->). rewrite Es in Es'. inversion Es'; subst s'.
      apply (events_complete ufn m _ _ _ _ _ Ee) in Hp.
      clear - HF Hp Hrn. induction HF as [|p y l l' Hy _ IH]; [destruct Hp|].
      destruct Hp as [->|Hp]; [|right; apply IH; exact Hp].
      left. cbn in Hy. unfold g in Hy. rewrite Hrn in Hy. cbn in Hy. inversion Hy. reflexivity.
  Qed.

  Theorem lvs_match_halts fuel name nm :
    strip_digest name = Ok nm -> (match_cost m nm <= fuel)%nat ->
    lvs_match ufn m fuel name = lvs_match ufn m (match_cost m nm) name.
  Proof.
    intros Hs Hf. unfold lvs_match. rewrite Hs. cbn [bind].
    destruct (machine_refines ufn m Hsane nm [] (R := unit)
                (fun acc nid cx => do rn <- node_rule_names m nid ;; Ok (inl ((rn, context_to_name m cx) :: acc))) [])
      as (s & Es & Hrun).
    rewrite (Hrun fuel Hf), (Hrun (match_cost m nm)) by lia. reflexivity.
  Qed.

  (* ---- Checker.check ---------------------------------------------------------------------------------- *)
  Definition is_inr {X Y} (x : X + Y) : bool := match x with inl _ => false | inr _ => true end.

  Definition key_test (pnode : node) : N -> ctx -> res bool := fun kn _ => Ok (existsb (N.eqb kn) (n_sign pnode)).

  Definition pkt_test (s : N) (k : list bytes) : N -> ctx -> res bool :=
    fun pn cx =>
      match get_node m pn with
      | None => Err EIndex
      | Some pnode => do r2 <- feed (bcons (key_test pnode)) (tree_events ufn m k s cx) tt ;; Ok (is_inr r2)
      end.

  (* the fuel-free reading of check *)
  Definition check_tree (s : N) (p k : list bytes) : res bool :=
    do r <- feed (bcons (pkt_test s k)) (tree_events ufn m p s []) tt ;; Ok (is_inr r).

  Lemma lvs_check_tree fuel pkt key p k :
    strip_digest pkt = Ok p -> strip_digest key = Ok k ->
    (Nat.max (match_cost m p) (match_cost m k) <= fuel)%nat ->
    exists s, m_start m = Some s /\ lvs_check ufn m fuel pkt key = check_tree s p k.
  Proof.
    intros Hp Hk Hf. unfold lvs_check. rewrite Hp, Hk. cbn [bind].
    match goal with |- context [mrun ufn m fuel p (mstart m []) ?F tt] =>
      destruct (machine_refines ufn m Hsane p [] F tt) as (s & Es & Hrun) end.
    exists s. split; [exact Es|]. rewrite Hrun by lia. rewrite tree_fold_feed.
    unfold check_tree.
    erewrite feed_ext.
    - instantiate (1 := bcons (pkt_test s k)).
      destruct (feed (bcons (pkt_test s k)) (tree_events ufn m p s []) tt) as [[[]|[]]|]; reflexivity.
    - intros [] pn cx. unfold bcons at 1, pkt_test. destruct (get_node m pn) as [pnode|]; [|reflexivity].
      match goal with |- context [mrun ufn m fuel k (mstart m cx) ?G tt] =>
        destruct (machine_refines ufn m Hsane k cx G tt) as (s' & Es' & Hrun') end.
      rewrite Es in Es'. inversion Es'; subst s'. rewrite Hrun' by lia. rewrite tree_fold_feed.
      erewrite feed_ext.
      + instantiate (1 := bcons (key_test pnode)).
        destruct (feed (bcons (key_test pnode)) (tree_events ufn m k s cx) tt) as [[[]|[]]|]; reflexivity.
      + intros [] kn c0. unfold bcons, key_test. cbn. destruct (existsb (N.eqb kn) (n_sign pnode)); reflexivity.
  Qed.

  Theorem lvs_check_spec fuel pkt key p k b :
    strip_digest pkt = Ok p -> strip_digest key = Ok k ->
    (Nat.max (match_cost m p) (match_cost m k) <= fuel)%nat ->
    lvs_check ufn m fuel pkt key = Ok b ->
    (b = true <-> exists pn cx pnode kn cx',
        tree_match ufn m p [] pn cx /\ get_node m pn = Some pnode /\ tree_match ufn m k cx kn cx' /\ In kn (n_sign pnode)).
  Proof.
    intros Hp Hk Hf H.
    destruct (lvs_check_tree fuel pkt key p k Hp Hk Hf) as (s & Es & Heq). rewrite Heq in H. clear Heq.
    unfold check_tree in H.
    destruct (feed (bcons (pkt_test s k)) (tree_events ufn m p s []) tt) as [[[]|[]]|] eqn:Ef; cbn in H; inversion H; subst b.
    - (* no: every packet path fails *)
      apply feed_bcons_false in Ef. destruct Ef as [Ee Hall].
      split; [discriminate|]. intros (pn & cx & pnode & kn & cx' & (s1 & Es1 & Hpp) & Hg & (s2 & Es2 & Hpk) & Hin).
      rewrite Es in Es1, Es2. inversion Es1; inversion Es2; subst s1 s2.
      apply (events_complete ufn m _ _ _ _ _ Ee) in Hpp. apply Hall in Hpp.
      unfold pkt_test in Hpp. rewrite Hg in Hpp.
      destruct (feed (bcons (key_test pnode)) (tree_events ufn m k s cx) tt) as [[[]|[]]|] eqn:Ek; cbn in Hpp; try discriminate.
      apply feed_bcons_false in Ek. destruct Ek as [Eek Hallk].
      apply (events_complete ufn m _ _ _ _ _ Eek) in Hpk. apply Hallk in Hpk. unfold key_test in Hpk.
      assert (Hex : existsb (N.eqb kn) (n_sign pnode) = true)
        by (apply existsb_exists; exists kn; split; [exact Hin | apply N.eqb_refl]).
      rewrite Hex in Hpk. discriminate.
    - (* yes *)
      split; [intros _|reflexivity].
      apply feed_bcons_true in Ef. destruct Ef as (pn & cx & Hin & Ht).
      unfold pkt_test in Ht. destruct (get_node m pn) as [pnode|] eqn:Eg; [|discriminate].
      destruct (feed (bcons (key_test pnode)) (tree_events ufn m k s cx) tt) as [[[]|[]]|] eqn:Ek; cbn in Ht; try discriminate.
      apply feed_bcons_true in Ek. destruct Ek as (kn & cx' & Hink & Htk).
      unfold key_test in Htk. inversion Htk as [Hx]. apply existsb_exists in Hx. destruct Hx as (x & Hx & Heq).
      apply N.eqb_eq in Heq. subst x.
      exists pn, cx, pnode, kn, cx'. repeat split; auto.
      + exists s. split; [exact Es|]. apply events_sound. exact Hin.
      + exists s. split; [exact Es|]. apply events_sound. exact Hink.
  Qed.

  Theorem lvs_check_halts fuel pkt key p k :
    strip_digest pkt = Ok p -> strip_digest key = Ok k ->
    (Nat.max (match_cost m p) (match_cost m k) <= fuel)%nat ->
    lvs_check ufn m fuel pkt key = lvs_check ufn m (Nat.max (match_cost m p) (match_cost m k)) pkt key.
  Proof.
    intros Hp Hk Hf.
    destruct (lvs_check_tree fuel pkt key p k Hp Hk Hf) as (s & Es & Heq).
    destruct (lvs_check_tree _ pkt key p k Hp Hk (Nat.le_refl _)) as (s' & Es' & Heq').
    rewrite Es in Es'. inversion Es'; subst s'. rewrite Heq, Heq'. reflexivity.
  Qed.
End Thms.
