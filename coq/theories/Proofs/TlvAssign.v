(* The scan loop ([assign_with]) on the element list produced by encoding the fields of a model,
   for an arbitrary element parser [pv]: every field gets its value back. *)
From NDN Require Import Base.Prelude Model.TlvVar Model.Name Model.Tlv Spec.TlvWf
  Proofs.BytesLemmas Proofs.TlvVarProofs Proofs.TlvSplit.
Local Open Scope N_scope.

Section Assign.
Variable pv : fkind -> elem -> res value.

(* one element carrying value [v] of kind [k] under Type [t] *)
Definition good1 (t : N) (k : fkind) (v : value) (e : elem) : Prop :=
  e_type e = t /\ el_ok e /\ pv k e = Ok v.

Inductive good (t : N) : fkind -> value -> list elem -> Prop :=
| good_none k : good t k VNone []
| good_single k v e : single k = true -> v <> VNone -> good1 t k v e -> good t k v [e]
| good_rep ek l els : l <> [] -> Forall2 (good1 t ek) l els -> good t (KRepeated ek) (VList l) els
| good_map kk vt vk l prs :
    l <> [] -> NoDup_keys l ->
    Forall2 (fun kv pr => good1 t kk (fst kv) (fst pr) /\ good1 vt vk (snd kv) (snd pr)) l prs ->
    good t (KMap kk vt vk) (VMap l) (flat_map (fun pr => [fst pr; snd pr]) prs).

Lemma find_from_at pre : forall idx pos t k post,
  ~ In t (map fst pre) -> (pos <= idx + length pre)%nat ->
  find_from (pre ++ (t, k) :: post) idx pos t = Some ((idx + length pre)%nat, k).
Proof.
  induction pre as [|[t' k'] pre IH]; intros idx pos t k post Hn Hp.
  - cbn [app find_from length]. rewrite N.eqb_refl. replace (Nat.leb pos idx) with true by (symmetry; apply Nat.leb_le; cbn in Hp; lia).
    cbn. f_equal. f_equal. lia.
  - cbn [app find_from]. cbn [map fst In] in Hn.
    replace (t' =? t) with false by (symmetry; apply N.eqb_neq; intros ->; apply Hn; left; reflexivity).
    rewrite andb_false_r. rewrite IH; [|intros H; apply Hn; right; exact H|cbn [length] in Hp; lia].
    f_equal. f_equal. cbn [length]. lia.
Qed.

Lemma upd_at {A} (done : list A) x tail f : upd (done ++ x :: tail) (length done) f = done ++ f x :: tail.
Proof. induction done as [|y done IH]; cbn [app length upd]; [reflexivity|]. rewrite IH. reflexivity. Qed.

Variable fs : list field.
Variable ic : bool.
Hypothesis Hnd : NoDup (map fst fs).

Lemma nodup_split pre t k post : fs = pre ++ (t, k) :: post -> ~ In t (map fst pre).
Proof.
  intros E Hin. rewrite E, map_app in Hnd. cbn [map fst] in Hnd.
  apply NoDup_remove_2 in Hnd. apply Hnd. apply in_or_app. left. exact Hin.
Qed.

Lemma find_fs pre t k post pos :
  fs = pre ++ (t, k) :: post -> (pos <= length pre)%nat -> find_from fs 0 pos t = Some (length pre, k).
Proof.
  intros E Hp. pose proof (nodup_split pre t k post E) as Hn. rewrite E.
  rewrite find_from_at by (assumption || (cbn; lia)). reflexivity.
Qed.

(* a run of repeated elements *)
Lemma assign_rep pre t ek post : fs = pre ++ (t, KRepeated ek) :: post ->
  forall l els, Forall2 (good1 t ek) l els ->
  forall pos rest done tail acc0,
    (pos <= length pre)%nat -> length done = length pre ->
    assign_with pv fs ic PNormal pos (els ++ rest)
       (done ++ (match acc0 with [] => VNone | _ => VList acc0 end) :: tail)
    = match l with
      | [] => assign_with pv fs ic PNormal pos rest (done ++ (match acc0 with [] => VNone | _ => VList acc0 end) :: tail)
      | _ => assign_with pv fs ic PNormal (length pre) rest (done ++ VList (acc0 ++ l) :: tail)
      end.
Proof.
  intros Efs l els H. induction H as [|x e l els (Ht & Hok & Hp) Hrest IH]; intros pos rest done tail acc0 Hpos Hlen.
  - reflexivity.
  - cbn [app assign_with]. rewrite Ht.
    rewrite (find_fs pre t (KRepeated ek) post pos Efs Hpos).
    rewrite Hp. cbn [bind]. rewrite <- Hlen, upd_at, Hlen.
    replace (match match acc0 with [] => VNone | _ :: _ => VList acc0 end with
             | VList l0 => VList (l0 ++ [x]) | _ => VList [x] end) with (VList (acc0 ++ [x]))
      by (destruct acc0; reflexivity).
    specialize (IH (length pre) rest done tail (acc0 ++ [x]) (le_n _) Hlen).
    replace (match acc0 ++ [x] with [] => VNone | _ :: _ => VList (acc0 ++ [x]) end) with (VList (acc0 ++ [x])) in IH
      by (destruct acc0; reflexivity).
    rewrite IH. destruct l; rewrite <- ?app_assoc; reflexivity.
Qed.

Lemma nodup_keys_prefix a b : NoDup_keys (a ++ b) -> NoDup_keys a.
Proof.
  revert a. induction b as [|x b IH] using rev_ind; intros a H.
  - rewrite app_nil_r in H. exact H.
  - rewrite app_assoc in H. inversion H as [|k v l Hk Hl E].
    + destruct (a ++ b); discriminate.
    + apply app_inj_tail in E. destruct E as [E _]. subst l. apply IH. exact Hl.
Qed.

Lemma nodup_keys_last a k v : NoDup_keys (a ++ [(k, v)]) ->
  forall k' v', In (k', v') a -> value_eqb_flat k k' = false.
Proof.
  intros H. inversion H as [|k0 v0 l Hk Hl E].
  - destruct a; discriminate.
  - apply app_inj_tail in E. destruct E as [E1 E2]. inversion E2; subst. exact Hk.
Qed.

Lemma map_store_fresh a k v :
  (forall k' v', In (k', v') a -> value_eqb_flat k k' = false) -> map_store a k v = a ++ [(k, v)].
Proof.
  induction a as [|[k' v'] a IH]; intros H; [reflexivity|].
  cbn [map_store]. rewrite (H k' v') by (left; reflexivity). cbn [app]. rewrite IH; [reflexivity|].
  intros k2 v2 Hin. apply (H k2 v2). right. exact Hin.
Qed.

(* a run of map entries *)
Lemma assign_map pre t kk vt vk post : fs = pre ++ (t, KMap kk vt vk) :: post ->
  forall l prs, Forall2 (fun kv pr => good1 t kk (fst kv) (fst pr) /\ good1 vt vk (snd kv) (snd pr)) l prs ->
  forall pos rest done tail acc0,
    (pos <= length pre)%nat -> length done = length pre -> NoDup_keys (acc0 ++ l) ->
    assign_with pv fs ic PNormal pos (flat_map (fun pr => [fst pr; snd pr]) prs ++ rest)
       (done ++ (match acc0 with [] => VNone | _ => VMap acc0 end) :: tail)
    = match l with
      | [] => assign_with pv fs ic PNormal pos rest (done ++ (match acc0 with [] => VNone | _ => VMap acc0 end) :: tail)
      | _ => assign_with pv fs ic PNormal (length pre) rest (done ++ VMap (acc0 ++ l) :: tail)
      end.
Proof.
  intros Efs l prs H.
  induction H as [|[k v] [ke ve] l prs ((Ht & Hok & Hp) & (Ht2 & Hok2 & Hp2)) Hrest IH];
    intros pos rest done tail acc0 Hpos Hlen Hnk.
  - reflexivity.
  - cbn [fst snd] in *. cbn [flat_map app fst snd]. cbn [app assign_with]. rewrite Ht.
    rewrite (find_fs pre t (KMap kk vt vk) post pos Efs Hpos).
    rewrite Hp. cbn [bind]. rewrite Ht2, N.eqb_refl. rewrite Hp2. cbn [bind].
    rewrite <- Hlen, upd_at, Hlen.
    assert (Hfresh : forall k' v', In (k', v') acc0 -> value_eqb_flat k k' = false).
    { apply (nodup_keys_last acc0 k v). apply (nodup_keys_prefix _ l).
      rewrite <- app_assoc. exact Hnk. }
    replace (match match acc0 with [] => VNone | _ :: _ => VMap acc0 end with
             | VMap l0 => VMap (map_store l0 k v) | _ => VMap [(k, v)] end) with (VMap (acc0 ++ [(k, v)]))
      by (destruct acc0 as [|a0 acc0']; [reflexivity|]; rewrite map_store_fresh by exact Hfresh; reflexivity).
    specialize (IH (length pre) rest done tail (acc0 ++ [(k, v)]) (le_n _) Hlen).
    replace (match acc0 ++ [(k, v)] with [] => VNone | _ :: _ => VMap (acc0 ++ [(k, v)]) end)
      with (VMap (acc0 ++ [(k, v)])) in IH by (destruct acc0; reflexivity).
    rewrite IH by (rewrite <- app_assoc; exact Hnk).
    destruct l; rewrite <- ?app_assoc; reflexivity.
Qed.

(* one field: (type, kind), value, and the elements it was encoded to *)
Definition item := (field * value * list elem)%type.
Definition it_field (i : item) : field := fst (fst i).
Definition it_value (i : item) : value := snd (fst i).
Definition it_els (i : item) : list elem := snd i.
Definition item_good (i : item) : Prop := good (fst (it_field i)) (snd (it_field i)) (it_value i) (it_els i).

Theorem assign_fields items : forall pre done pos,
  fs = pre ++ map it_field items -> length done = length pre ->
  Forall item_good items -> (pos <= length pre)%nat ->
  assign_with pv fs ic PNormal pos (concat (map it_els items)) (done ++ map (fun _ => VNone) items)
  = Ok (done ++ map it_value items).
Proof.
  induction items as [|[[[t k] v] els] items IH]; intros pre done pos Efs Hlen Hg Hpos.
  - cbn. reflexivity.
  - apply Forall_cons_iff in Hg. destruct Hg as [Hg1 Hgr]. unfold item_good in Hg1.
    cbn [it_field it_value it_els fst snd] in Hg1.
    cbn [map concat it_field it_value it_els fst snd] in *.
    assert (Efs' : fs = (pre ++ [(t, k)]) ++ map it_field items) by (rewrite <- app_assoc; exact Efs).
    assert (Hlen' : forall x : value, length (done ++ [x]) = length (pre ++ [(t, k)]))
      by (intros x; rewrite !app_length; cbn; lia).
    inversion Hg1 as [k0|k0 v0 e Hs Hv (Ht & Hok & Hp)|ek l els0 Hne HF|kk vt vk l prs Hne Hnk HF];
      [subst k0 v els|subst k0 v0 els|subst k v els0|subst k v els].
    + (* omitted *)
      cbn [app]. specialize (IH (pre ++ [(t, k)]) (done ++ [VNone]) pos Efs' (Hlen' VNone) Hgr).
      rewrite <- !app_assoc in IH. cbn [app] in IH. apply IH. rewrite app_length. lia.
    + (* one element *)
      cbn [app assign_with]. rewrite Ht.
      rewrite (find_fs pre t k (map it_field items) pos Efs Hpos).
      assert (Hbranch : forall (A : Type) (a b c : A),
                 match k with KRepeated _ => a | KMap _ _ _ => b | _ => c end = c)
        by (intros; destruct k; try reflexivity; discriminate).
      rewrite Hp. cbn [bind].
      transitivity (assign_with pv fs ic PNormal (S (length pre)) (concat (map it_els items))
                      (upd (done ++ VNone :: map (fun _ => VNone) items) (length pre) (fun _ => v))).
      { destruct k; try reflexivity; discriminate. }
      rewrite <- Hlen, upd_at.
      specialize (IH (pre ++ [(t, k)]) (done ++ [v]) (S (length done)) Efs' (Hlen' v) Hgr).
      rewrite <- !app_assoc in IH. cbn [app] in IH. apply IH. rewrite app_length. cbn. lia.
    + (* repeated *)
      pose proof (assign_rep pre t ek (map it_field items) Efs l els HF pos
                    (concat (map it_els items)) done (map (fun _ => VNone) items) [] Hpos Hlen) as R.
      cbn [app] in R. rewrite R. destruct l as [|x l]; [congruence|].
      specialize (IH (pre ++ [(t, KRepeated ek)]) (done ++ [VList (x :: l)]) (length pre) Efs' (Hlen' _) Hgr).
      rewrite <- !app_assoc in IH. cbn [app] in IH. apply IH. rewrite app_length. lia.
    + (* map *)
      pose proof (assign_map pre t kk vt vk (map it_field items) Efs l prs HF pos
                    (concat (map it_els items)) done (map (fun _ => VNone) items) [] Hpos Hlen Hnk) as R.
      cbn [app] in R. rewrite R. destruct l as [|x l]; [congruence|].
      specialize (IH (pre ++ [(t, KMap kk vt vk)]) (done ++ [VMap (x :: l)]) (length pre) Efs' (Hlen' _) Hgr).
      rewrite <- !app_assoc in IH. cbn [app] in IH. apply IH. rewrite app_length. lia.
Qed.

End Assign.
