(* How one scope of one table, seen as a finite map ([scope_map]) with its default ([scope_defname]), changes
   under the statements of the keychain: the algebra behind [abs (after) = spec_step (abs before)]. *)
From NDN Require Import Base.Prelude Model.Keychain Spec.KeychainSpec.
From NDN Require Import Proofs.KeychainTables Proofs.KeychainInv Proofs.KeychainInvariant Proofs.KeychainAbs.
Local Open Scope N_scope.

Section Maps.
  Context {V : Type}.
  Implicit Types (g : row -> V) (m : list (name * V)).

  Lemma nset_fresh m n v : nget m n = None -> nset m n v = m ++ [(n, v)].
  Proof.
    induction m as [|[k w] m IH]; cbn; [reflexivity|].
    destruct (name_eqb n k); [discriminate|]. intros H. f_equal. auto.
  Qed.
  Lemma ndel_absent m n : nget m n = None -> ndel m n = m.
  Proof. apply (al_del_absent name_eqb). Qed.

  Lemma scope_map_app g p l x :
    scope_map g p (l ++ [x]) = scope_map g p l ++ (if in_scope p x then [(r_name x, g x)] else []).
  Proof.
    unfold scope_map. rewrite filter_app, map_app. cbn. destruct (in_scope p x); reflexivity.
  Qed.
  Lemma scope_map_ext g g' p l :
    (forall x, In x l -> r_par x = p -> g x = g' x) -> scope_map g p l = scope_map g' p l.
  Proof.
    intros H. unfold scope_map. apply map_ext_in. intros x Hx. apply filter_In in Hx. destruct Hx as [Hx Px].
    apply in_scope_true in Px. rewrite (H x Hx Px). reflexivity.
  Qed.
  Lemma scope_map_nget g p l n :
    nget (scope_map g p l) n = match v_get p n l with Ok r => Some (g r) | Err _ => None end.
  Proof. apply (scope_map_get g p l n). Qed.
  Lemma scope_map_empty g p l : (forall x, In x l -> r_par x <> p) -> scope_map g p l = [].
  Proof.
    intros H. unfold scope_map. induction l as [|x l IH]; cbn; [reflexivity|].
    replace (in_scope p x) with false by (symmetry; apply in_scope_false; apply H; left; reflexivity).
    apply IH. intros y Hy. apply H. right. assumption.
  Qed.

  (* the image of exactly one row changes: an in-place update of the map *)
  Lemma scope_map_update g g' p l r :
    wf_rows l -> In r l -> r_par r = p ->
    (forall x, In x l -> r_par x = p -> x <> r -> g' x = g x) ->
    scope_map g' p l = nset (scope_map g p l) (r_name r) (g' r).
  Proof.
    intros W Hr Pr Hsame. unfold scope_map.
    assert (ND : NoDup (map r_name l)) by apply W. clear W.
    induction l as [|x l IH]; [contradiction|]. cbn in ND. inversion ND as [|? ? NI ND']; subst.
    cbn [filter]. destruct (in_scope (r_par r) x) eqn:Sx; cbn [map al_set].
    - destruct Hr as [-> | Hr].
      + rewrite name_eqb_refl. f_equal.
        (* the tail keeps its images *)
        apply map_ext_in. intros y Hy. apply filter_In in Hy. destruct Hy as [Hy Py]. apply in_scope_true in Py.
        f_equal. apply Hsame; [right; assumption | assumption|].
        intros ->. apply NI. apply in_map. assumption.
      + assert (Nx : name_eqb (r_name r) (r_name x) = false).
        { apply name_eqb_neq. intros E. apply NI. rewrite <- E. apply in_map. assumption. }
        rewrite Nx. f_equal.
        * f_equal. apply Hsame; [left; reflexivity | apply in_scope_true; assumption|].
          intros ->. apply NI. apply in_map. assumption.
        * apply IH; auto. intros y Hy. apply Hsame. right. assumption.
    - destruct Hr as [-> | Hr]; [apply in_scope_false in Sx; contradiction|].
      apply IH; auto. intros y Hy. apply Hsame. right. assumption.
  Qed.

  (* rows rewritten without touching id, parent, name (flags only), images unchanged *)
  Lemma scope_map_map g p (u : row -> row) l :
    (forall x, r_name (u x) = r_name x /\ r_par (u x) = r_par x) -> (forall x, In x l -> g (u x) = g x) ->
    scope_map g p (map u l) = scope_map g p l.
  Proof.
    intros Hu Hg. unfold scope_map. induction l as [|x l IH]; cbn; [reflexivity|].
    destruct (Hu x) as [En Ep].
    assert (Es : in_scope p (u x) = in_scope p x) by (unfold in_scope; rewrite Ep; reflexivity).
    rewrite Es. destruct (in_scope p x); cbn.
    - rewrite En, (Hg x (or_introl eq_refl)). f_equal. apply IH. intros y Hy. apply Hg. right. assumption.
    - apply IH. intros y Hy. apply Hg. right. assumption.
  Qed.

  Lemma scope_map_delete_name g p l n :
    wf_rows l -> scope_map g p (r_delete_name n l) = ndel (scope_map g p l) n.
  Proof.
    intros W. assert (ND : NoDup (map r_name l)) by apply W. clear W. unfold scope_map, r_delete_name.
    induction l as [|x l IH]; cbn; [reflexivity|]. inversion ND as [|? ? NI ND']; subst.
    unfold has_name at 1. destruct (name_eqb (r_name x) n) eqn:E; cbn.
    - apply name_eqb_eq in E. subst n.
      assert (Hl : filter (fun r => negb (has_name (r_name x) r)) l = l).
      { apply filter_all. intros y Hy. apply negb_true_iff, has_name_false. intros E. apply NI. rewrite <- E. apply in_map. assumption. }
      rewrite Hl. destruct (in_scope p x); cbn.
      + rewrite name_eqb_refl. reflexivity.
      + symmetry. apply (al_del_absent name_eqb). apply (al_get_none name_eqb name_eqb_eq).
        intros Hin. apply NI. rewrite map_map in Hin. cbn in Hin. apply in_map_iff in Hin. destruct Hin as [y [Ey Hy]].
        apply filter_In in Hy. rewrite <- Ey. apply in_map. tauto.
    - destruct (in_scope p x); cbn.
      + rewrite (name_eqb_sym n (r_name x)), E. f_equal. apply IH. assumption.
      + apply IH. assumption.
  Qed.
  Lemma scope_map_delete_scope g p q l :
    scope_map g p (r_delete_scope q l) = if p =? q then [] else scope_map g p l.
  Proof.
    unfold scope_map, r_delete_scope. destruct (p =? q) eqn:E.
    - apply N.eqb_eq in E. subst q. induction l as [|x l IH]; cbn; [reflexivity|].
      destruct (in_scope p x) eqn:S; cbn; [assumption|]. rewrite S. assumption.
    - apply N.eqb_neq in E. induction l as [|x l IH]; cbn; [reflexivity|].
      destruct (in_scope q x) eqn:Sq; cbn.
      + replace (in_scope p x) with false; [assumption|]. symmetry. apply in_scope_false. apply in_scope_true in Sq. congruence.
      + destruct (in_scope p x); cbn; [f_equal|]; assumption.
  Qed.
End Maps.

(* ---- defaults ------------------------------------------------------------------------------------------------- *)
Lemma find_app' {A} (f : A -> bool) l1 l2 : find f (l1 ++ l2) = match find f l1 with Some x => Some x | None => find f l2 end.
Proof. induction l1 as [|x l1 IH]; cbn; [reflexivity|]. destruct (f x); auto. Qed.

Lemma scope_defname_app p l x :
  scope_defname p (l ++ [x]) =
  match scope_defname p l with Some d => Some d | None => if is_def_in p x then Some (r_name x) else None end.
Proof.
  unfold scope_defname, scope_default. rewrite find_app'. destruct (find (is_def_in p) l); cbn; [reflexivity|].
  destruct (is_def_in p x); reflexivity.
Qed.

Lemma scope_default_is p l d :
  wf_rows l -> In d l -> r_def d = true -> r_par d = p -> scope_default p l = Some d.
Proof.
  intros W Hd Dd Pd. destruct (scope_default p l) as [d'|] eqn:E.
  - f_equal. symmetry. eapply scope_default_unique; eassumption.
  - apply scope_default_none in E. rewrite (scope_has_def_false _ _ _ E Hd Pd) in Dd. discriminate.
Qed.
Lemma scope_defname_none p l : scope_defname p l = None <-> scope_has_def p l = false.
Proof. unfold scope_defname. rewrite <- scope_default_none. destruct (scope_default p l); cbn; split; congruence. Qed.

Lemma scope_defname_set_default p n l r :
  wf_rows l -> r_find n l = Some r ->
  scope_defname p (r_set_default n l) = if r_par r =? p then Some n else scope_defname p l.
Proof.
  intros W F. pose proof (r_find_some _ _ _ F) as [Hr Nr].
  pose proof (r_set_default_wf n l W) as W'.
  destruct (r_set_default_sets n l r W F) as [r' [Hr' [Ei [En [Ep Ed]]]]].
  destruct (r_par r =? p) eqn:E.
  - apply N.eqb_eq in E. unfold scope_defname. rewrite (scope_default_is p _ r' W' Hr' Ed); [cbn; congruence | congruence].
  - apply N.eqb_neq in E. unfold r_set_default. rewrite F. destruct (r_def r) eqn:D; [reflexivity|].
    unfold scope_defname, scope_default.
    assert (Hfind : forall l0, (forall x, In x l0 -> In x l) ->
              option_map r_name (find (is_def_in p) (map (upd_default r) l0)) = option_map r_name (find (is_def_in p) l0)).
    { induction l0 as [|x l0 IH]; intros Hin; cbn; [reflexivity|].
      assert (Ex : is_def_in p (upd_default r x) = is_def_in p x).
      { unfold is_def_in, in_scope. rewrite upd_default_par. unfold upd_default.
        destruct (r_id x =? r_id r) eqn:Ei'.
        - apply N.eqb_eq in Ei'. assert (x = r) by (apply (id_inj l); [exact W | apply Hin; left; reflexivity | exact Hr | exact Ei']). subst x.
          replace (r_par r =? p) with false by (symmetry; apply N.eqb_neq; assumption). rewrite !andb_false_r. reflexivity.
        - destruct (in_scope (r_par r) x) eqn:S; [|reflexivity]. apply in_scope_true in S.
          replace (r_par x =? p) with false by (symmetry; apply N.eqb_neq; congruence). rewrite !andb_false_r. reflexivity. }
      rewrite Ex. destruct (is_def_in p x); cbn; [rewrite upd_default_name; reflexivity|].
      apply IH. intros y Hy. apply Hin. right. assumption. }
    apply Hfind. auto.
Qed.
Lemma scope_defname_set_default_none p n l : r_find n l = None -> scope_defname p (r_set_default n l) = scope_defname p l.
Proof. intros F. unfold r_set_default. rewrite F. reflexivity. Qed.

Lemma scope_defname_filter (f : row -> bool) p l :
  wf_rows l ->
  scope_defname p (filter f l) =
  match scope_default p l with Some d => if f d then Some (r_name d) else None | None => None end.
Proof.
  intros W. destruct (scope_default p l) as [d|] eqn:E.
  - pose proof (scope_default_some _ _ _ E) as [Hd [Dd Pd]]. destruct (f d) eqn:Fd.
    + unfold scope_defname. rewrite (scope_default_is p (filter f l) d); auto. apply filter_wf; assumption. apply filter_In; auto.
    + apply scope_defname_none. destruct (scope_has_def p (filter f l)) eqn:H; [|reflexivity].
      apply scope_has_def_true in H. destruct H as [d' [Hd' [Dd' Pd']]]. apply filter_In in Hd'. destruct Hd' as [Hd' Fd'].
      assert (d' = d) by (eapply scope_default_unique; eassumption). subst. congruence.
  - apply scope_defname_none. apply scope_default_none in E.
    destruct (scope_has_def p (filter f l)) eqn:H; [|reflexivity]. apply filter_scope_has_def in H. congruence.
Qed.
Lemma scope_defname_delete_name p n l :
  wf_rows l -> scope_defname p (r_delete_name n l) = clear_default (scope_defname p l) n.
Proof.
  intros W. unfold r_delete_name. rewrite scope_defname_filter by assumption. unfold scope_defname.
  destruct (scope_default p l) as [d|]; cbn; [|reflexivity]. unfold has_name.
  destruct (name_eqb (r_name d) n); reflexivity.
Qed.
Lemma scope_defname_delete_scope p q l :
  wf_rows l -> scope_defname p (r_delete_scope q l) = if p =? q then None else scope_defname p l.
Proof.
  intros W. unfold r_delete_scope. rewrite scope_defname_filter by assumption. unfold scope_defname.
  destruct (scope_default p l) as [d|] eqn:E; cbn; [|destruct (p =? q); reflexivity].
  apply scope_default_some in E. destruct E as [_ [_ Pd]]. unfold in_scope. rewrite Pd. destruct (p =? q); reflexivity.
Qed.
