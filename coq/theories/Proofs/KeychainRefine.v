(* model ⊑ spec, one operation at a time: a run without injected failure moves the abstract state exactly as
   Spec.spec_step says, and raises exactly when the specification refuses. *)
From NDN Require Import Base.Prelude Model.Keychain Spec.KeychainSpec.
From NDN Require Import Proofs.KeychainTables Proofs.KeychainHoare Proofs.KeychainInv Proofs.KeychainOutcome
  Proofs.KeychainOutcomeA Proofs.KeychainOutcomeB Proofs.KeychainInvariant Proofs.KeychainAbs Proofs.KeychainCascade
  Proofs.KeychainRecovery Proofs.KeychainRefineLemmas Proofs.KeychainRefineA Proofs.KeychainRefineB Proofs.KeychainRefineC.
Local Open Scope N_scope.

Definition refines (o : op) (c : cst) (x : outcome) : Prop :=
  match o with
  | OGetSigner _ => abs (snd x) = abs c
  | _ => match spec_step o (abs c) with
         | Some a' => is_ok (fst x) = true /\ abs (snd x) = a'
         | None => is_ok (fst x) = false /\ abs (snd x) = abs c
         end
  end.

Lemma abs_commit_db t c : abs (commit_db t c) = abs_tables t (tpm c).
Proof. reflexivity. Qed.
Lemma abs_set_cache x c : abs (set_cache x c) = abs c.
Proof. reflexivity. Qed.

Lemma r_find_absent n l : ~ In n (map r_name l) -> r_find n l = None.
Proof.
  intros H. destruct (r_find n l) as [r|] eqn:F; [|reflexivity]. apply r_find_some in F. exfalso. apply H.
  destruct F as [Hr <-]. apply in_map. assumption.
Qed.
Lemma r_find_present n l : In n (map r_name l) -> exists r, r_find n l = Some r.
Proof.
  intros H. destruct (r_find n l) as [r|] eqn:F; [eauto|]. apply r_find_none in F. contradiction.
Qed.

Lemma s_ident_of_get c n : s_ident (abs c) n = match kc_get n (db c) with Ok i => Some (abs_ident (db c) i) | Err _ => None end.
Proof. apply abs_ident_get. Qed.

(* s_new_key once the identity exists and the key name is determined *)
Lemma s_new_key_named idn kt ks m v a kn i :
  s_ident a idn = Some i -> new_key_name idn kt ks (s_tpm a) = Ok kn ->
  s_new_key idn kt ks m v a =
  match s_key a kn with Some _ => None | None => Some (s_add_cert (kn ++ [C_SELF; v]) 0 (s_add_key kn m a)) end.
Proof.
  intros Si Nn. unfold s_new_key, new_key_name in *. rewrite Si. cbn [obind].
  destruct (2 <=? kt); [discriminate|].
  destruct ks as [cs|k]; cbn [bind to_option obind] in *.
  - destruct (pick_kid idn cs (s_tpm a)) as [kid|]; [|discriminate]. cbn [bind to_option obind] in *.
    destruct (nmem (s_tpm a) (idn ++ [C_KEY; kid])); [discriminate|]. inversion Nn; subst. reflexivity.
  - destruct (nmem (s_tpm a) (idn ++ [C_KEY; k])); [discriminate|]. inversion Nn; subst. reflexivity.
Qed.
Lemma s_new_key_unnamed idn kt ks m v a e i :
  s_ident a idn = Some i -> new_key_name idn kt ks (s_tpm a) = Err e -> s_new_key idn kt ks m v a = None.
Proof.
  intros Si Nn. unfold s_new_key, new_key_name in *. rewrite Si. cbn [obind].
  destruct (2 <=? kt); [reflexivity|].
  destruct ks as [cs|k]; cbn [bind to_option obind] in *.
  - destruct (pick_kid idn cs (s_tpm a)) as [kid|]; [|reflexivity]. cbn [bind to_option obind] in *.
    destruct (nmem (s_tpm a) (idn ++ [C_KEY; kid])); [reflexivity | discriminate].
  - destruct (nmem (s_tpm a) (idn ++ [C_KEY; k])); [reflexivity | discriminate].
Qed.

(* new_key on well-formed tables: the two INSERTs succeed iff the key name is new *)
Lemma new_key_db_refines t tp i kn kid m v :
  wf_tables t -> In i (t_ids t) -> kn = r_name i ++ [C_KEY; kid] ->
  match new_key_db i kn m v t with
  | Ok t2 => s_key (abs_tables t tp) kn = None /\
             abs_tables t2 (nset tp kn m) = s_add_cert (kn ++ [C_SELF; v]) 0 (s_add_key kn m (abs_tables t tp))
  | Err _ => exists k, s_key (abs_tables t tp) kn = Some k
  end.
Proof.
  intros W Hi En. unfold new_key_db.
  assert (Dn : drop2 kn = r_name i) by (subst kn; apply drop2_app2).
  destruct (sql_insert_key (r_id i) kn m t) as [t1|e] eqn:E1; cbn [bind].
  - assert (W1 : wf_tables t1).
    { eapply wf_insert_key; try eassumption. subst kn. rewrite app_length. cbn. lia. }
    assert (Fk : r_find kn (t_keys t) = None).
    { unfold sql_insert_key in E1. destruct (r_insert (r_id i) kn m (t_keys t)) as [l|] eqn:R; [|discriminate].
      apply r_insert_ok in R. apply r_find_absent. tauto. }
    pose proof (abs_insert_key t t1 tp i kn m W Hi Dn E1) as A1.
    destruct (sql_insert_cert kn (kn ++ [C_SELF; v]) 0 t1) as [t2|e] eqn:E2.
    + split; [apply find_key_none; assumption|].
      rewrite <- A1. apply (abs_insert_cert t1 t2 (nset tp kn m) kn); [exact W1 | apply drop2_app2 | exact E2].
    + (* impossible: a certificate of that name would belong to a key of that name *)
      exfalso. unfold sql_insert_cert in E2.
      assert (Hk1 : exists k1, r_find kn (t_keys t1) = Some k1).
      { unfold sql_insert_key in E1. destruct (r_insert (r_id i) kn m (t_keys t)) as [l|] eqn:R; [|discriminate].
        cbn in E1. inversion E1; subst t1. cbn. destruct (r_insert_new _ _ _ _ _ R) as [x [Hx [Nx _]]].
        apply r_find_present. rewrite <- Nx. apply in_map. assumption. }
      destruct Hk1 as [k1 Fk1]. rewrite Fk1 in E2.
      destruct (r_insert (r_id k1) (kn ++ [C_SELF; v]) 0 (t_certs t1)) as [l|e'] eqn:R; [discriminate|].
      apply r_insert_err in R. destruct R as [_ Hin]. apply in_map_iff in Hin. destruct Hin as [c [Nc Hc]].
      assert (Ec : t_certs t1 = t_certs t).
      { unfold sql_insert_key in E1. destruct (r_insert (r_id i) kn m (t_keys t)); [|discriminate]. cbn in E1. inversion E1. reflexivity. }
      rewrite Ec in Hc. destruct (wf_cref _ W _ Hc) as [k [Hk Ek]]. destruct (wf_cname _ W _ _ Hc Hk Ek) as [Dc _].
      rewrite Nc, drop2_app2 in Dc. apply r_find_none in Fk. apply Fk. rewrite Dc. apply in_map. assumption.
  - unfold sql_insert_key in E1. destruct (r_insert (r_id i) kn m (t_keys t)) as [l|e'] eqn:R; [discriminate|].
    apply r_insert_err in R. destruct R as [_ Hin]. destruct (r_find_present _ _ Hin) as [kr F].
    exists (abs_key t kr). apply find_key_some; assumption.
Qed.

Section DelIdent.
  Variable n : name.
  Definition finish_ident (a : skc) : skc := mkSKC (ndel (s_ids a) n) (clear_default (s_defid a) n) (s_tpm a).

  Lemma abs_delete_identity t tp :
    wf_tables t ->
    abs_tables (mkT (r_delete_name n (t_ids t)) (t_keys t) (t_certs t)) tp = finish_ident (abs_tables t tp).
  Proof.
    intros W. unfold finish_ident, abs_tables. cbn [t_ids t_keys t_certs s_ids s_defid s_tpm]. f_equal.
    - rewrite <- (scope_map_delete_name (abs_ident t)) by apply W. apply scope_map_ext. intros. apply abs_ident_same; reflexivity.
    - apply scope_defname_delete_name. apply W.
  Qed.

  Lemma del_ident_refines ks c x i :
    del_ident_out NF n ks c x -> inv c -> kc_get n (db c) = Ok i -> v_iter (r_id i) (t_keys (db c)) = ks ->
    is_ok (fst x) = true /\ abs (snd x) = finish_ident (fold_left (fun a kn => s_remove_key kn a) ks (abs c)).
  Proof.
    intros H. induction H as [c t' Ed | c HF | k ks c e c' Hout | k ks c c' x Hout Hrest IH]; intros I Gi Ei.
    - inversion Ed; subst t'. cbn [fst snd fold_left]. split; [reflexivity|]. rewrite abs_set_cache, abs_commit_db.
      apply abs_delete_identity. apply I.
    - destruct (nf HF).
    - exfalso. assert (Hin : In k (v_iter (r_id i) (t_keys (db c)))) by (rewrite Ei; left; reflexivity).
      destruct (listed_key_lookup _ _ _ _ (inv_wf _ I) Gi Hin) as [Gk [kr Gkr]].
      unfold out_del_key in Hout. rewrite Gk, Gkr in Hout.
      destruct Hout as [Hx | [[g _] | [g _]]]; [discriminate | destruct (nf g) | destruct (nf g)].
    - destruct (out_del_key_ok _ _ _ _ _ Hout) as [i0 [kr [Gk [Gkr [_ Ec']]]]].
      pose proof (inv_out_del_key _ _ _ _ I Hout) as I'. cbn [snd] in I'.
      unfold id_get in Gkr. apply v_get_ok in Gkr. destruct Gkr as [Hkr [Nkr _]].
      assert (Ea : abs c' = s_remove_key k (abs c)).
      { subst c'. unfold abs. cbn [db tpm]. apply abs_delete_key; auto. apply I. }
      cbn [fold_left]. rewrite <- Ea. apply IH; auto.
      + subst c'. cbn. exact Gi.
      + subst c'. cbn. apply v_iter_delete_head; [apply I | assumption].
  Qed.
End DelIdent.

Theorem step_refines o c : inv c -> wf_op o -> refines o c (run_op None o c).
Proof.
  intros I Wo. pose proof (run_op_outs None o c (inv_clean _ I) (inv_wf _ I)) as H. fold NF in H.
  pose proof (inv_wf _ I) as W.
  assert (Rb : do_rollback c = c) by (apply rollback_clean; apply I).
  destruct (run_op None o c) as [r c']. unfold refines. cbn [fst snd].
  destruct o; cbn [outs spec_step] in *.
  - (* new_identity *)
    unfold out_new_identity in H. rewrite s_ident_of_get. destruct (kc_contains n (db c)) eqn:Ct.
    + destruct (contains_get _ _ Ct) as [i G]. rewrite G. inversion H; subst. auto.
    + assert (G : kc_get n (db c) = Err EKey \/ exists e, kc_get n (db c) = Err e).
      { unfold kc_contains, v_contains, kc_get in *. destruct (v_get 0 n (t_ids (db c))); [discriminate | eauto]. }
      destruct G as [G | [e G]]; rewrite G;
        (destruct H as [[t1 [i [E [_ H]]]] | [g _]]; [|destruct (nf g)]); inversion H; subst; cbn [is_ok];
        (split; [reflexivity|]); rewrite abs_commit_db; apply abs_insert_identity; assumption.
  - (* touch_identity *)
    unfold out_touch in H. rewrite s_ident_of_get. destruct (kc_contains n (db c)) eqn:Ct.
    + destruct (contains_get _ _ Ct) as [i0 G0]. rewrite G0.
      destruct (scope_has_def 0 (t_ids (db c))) eqn:Hd.
      * destruct H as [i [_ H]]. inversion H; subst. split; [reflexivity|].
        unfold abs, abs_tables. cbn [s_ids s_defid s_tpm]. f_equal. unfold first_default.
        destruct (scope_defname 0 (t_ids (db c))) eqn:D; [reflexivity|]. apply scope_defname_none in D. congruence.
      * destruct H as [[t' [i [E [_ H]]]] | [g _]]; [|destruct (nf g)]. inversion H; subst. split; [reflexivity|].
        inversion E; subst t'. rewrite abs_commit_db, (abs_default_identity _ _ _ W).
        fold (abs c). rewrite s_ident_of_get, G0. unfold abs, abs_tables. cbn [s_ids s_defid s_tpm]. f_equal.
        apply scope_defname_none in Hd. rewrite Hd. reflexivity.
    + assert (G : exists e, kc_get n (db c) = Err e).
      { unfold kc_contains, v_contains, kc_get in *. destruct (v_get 0 n (t_ids (db c))); [discriminate | eauto]. }
      destruct G as [e0 G]. rewrite G.
      destruct H as [[g _] | H]; [destruct (nf g)|].
      destruct (insert_identity_absent _ _ W Ct) as [t1 E1]. rewrite E1 in H.
      destruct (insert_identity_facts _ _ _ W E1) as [_ [Ek1 [Ec1 [i [G1 [Hi1 Ni1]]]]]]. rewrite G1 in H.
      pose proof (wf_insert_identity _ _ _ W E1) as W1.
      pose proof (abs_insert_identity _ _ (tpm c) _ W Ct E1) as A1. fold (abs c) in A1.
      assert (Si1 : s_ident (s_add_identity n (abs c)) n = Some (abs_ident t1 i)).
      { rewrite <- A1, abs_ident_get, G1. reflexivity. }
      assert (Tp : s_tpm (s_add_identity n (abs c)) = tpm c) by reflexivity.
      destruct (new_key_name n 0 (KidRandom cands) (tpm c)) as [kn|e] eqn:Nn.
      2:{ inversion H; subst. erewrite s_new_key_unnamed; [auto | exact Si1 | rewrite Tp; exact Nn]. }
      erewrite s_new_key_named; [|exact Si1|rewrite Tp; exact Nn].
      destruct (KeychainInvariant.new_key_name_ok _ _ _ _ _ Nn) as [[kid En] _].
      pose proof (new_key_db_refines t1 (tpm c) i kn kid material ver W1 Hi1) as R. rewrite Ni1 in R. specialize (R En).
      rewrite A1 in R.
      destruct H as [[t3 [i' [E3 [_ H]]]] | [e [E3 H]]].
      * rewrite E3 in R. destruct R as [Sk A3]. rewrite Sk. cbn zeta in H.
        destruct H as [H | [g _]]; [|destruct (nf g)]. inversion H; subst. split; [reflexivity|]. exact A3.
      * rewrite E3 in R. destruct R as [k Sk]. rewrite Sk. inversion H; subst. auto.
  - (* new_key *)
    unfold out_new_key in H.
    destruct (kc_contains idn (db c)) eqn:Ct; cbn [negb] in H.
    2:{ inversion H; subst.
        assert (Sn : s_ident (abs c) idn = None).
        { rewrite s_ident_of_get. unfold kc_contains, v_contains, kc_get in *.
          destruct (v_get 0 idn (t_ids (db c))); [discriminate | reflexivity]. }
        unfold s_new_key. rewrite Sn. cbn [obind]. auto. }
    destruct (contains_get _ _ Ct) as [i G]. rewrite G in H. pose proof (kc_get_ok _ _ _ G) as [Hi Ni].
    assert (Si : s_ident (abs c) idn = Some (abs_ident (db c) i)) by (rewrite s_ident_of_get, G; reflexivity).
    destruct (new_key_name idn ktype ks (tpm c)) as [kn|e] eqn:Nn.
    2:{ inversion H; subst. erewrite s_new_key_unnamed; [auto | exact Si | exact Nn]. }
    erewrite s_new_key_named; [|exact Si|exact Nn].
    destruct (KeychainInvariant.new_key_name_ok _ _ _ _ _ Nn) as [[kid En] _].
    pose proof (new_key_db_refines (db c) (tpm c) i kn kid material ver W Hi) as R. rewrite Ni in R. specialize (R En).
    fold (abs c) in R.
    destruct H as [[t2 [k [E [_ H]]]] | [[e [E H]] | [g _]]]; [| |destruct (nf g)].
    + rewrite E in R. destruct R as [Sk A2]. rewrite Sk. inversion H; subst. split; [reflexivity|]. exact A2.
    + rewrite E in R. destruct R as [k Sk]. rewrite Sk. inversion H; subst. rewrite Rb. auto.
  - (* import_cert *)
    destruct H as [[t [E H]] | [[e [E H]] | [g _]]]; [| |destruct (nf g)]; inversion H; subst; clear H.
    + pose proof E as E'. apply sql_insert_cert_ok in E'. destruct E' as [k0 [l [F [R _]]]].
      unfold abs at 1 2. rewrite (find_key_some _ _ _ _ W F), (s_cert_find _ _ _ W).
      apply r_insert_ok in R. rewrite (r_find_absent _ _ (proj2 R)). cbn [option_map].
      split; [reflexivity|]. rewrite abs_commit_db. cbn in Wo. destruct Wo as [Dn Ln].
      apply (abs_insert_cert (db c) t (tpm c) kn); auto.
    + unfold sql_insert_cert in E. unfold abs at 1 2. destruct (r_find kn (t_keys (db c))) as [k0|] eqn:F.
      * rewrite (find_key_some _ _ _ _ W F), (s_cert_find _ _ _ W).
        destruct (r_insert (r_id k0) cn data (t_certs (db c))) as [l|e'] eqn:R; [discriminate|].
        apply r_insert_err in R. destruct (r_find_present _ _ (proj2 R)) as [cr Fc]. rewrite Fc. cbn. auto.
      * rewrite (find_key_none _ _ _ F). auto.
  - (* set_default_identity *)
    destruct H as [[t [E H]] | [[e [E H]] | [g _]]]; [|discriminate|destruct (nf g)]. inversion H; subst. inversion E; subst.
    split; [reflexivity|]. rewrite abs_commit_db. apply abs_default_identity. assumption.
  - (* Identity.set_default_key *)
    unfold guarded in H. rewrite s_ident_of_get. destruct (kc_get idn (db c)) as [i|e]; cbn [obind]; [|inversion H; subst; auto].
    destruct H as [[t [E H]] | [[e [E H]] | [g _]]]; [|discriminate|destruct (nf g)]. inversion H; subst. inversion E; subst.
    split; [reflexivity|]. rewrite abs_commit_db. apply abs_default_key. assumption.
  - (* Key.set_default_cert *)
    unfold guarded in H. rewrite s_ident_of_get. destruct (kc_get idn (db c)) as [i|e]; cbn [obind]; [|inversion H; subst; auto].
    rewrite abs_key_get. destruct (id_get i kn (db c)) as [k|e]; cbn [obind]; [|inversion H; subst; auto].
    destruct H as [[t [E H]] | [[e [E H]] | [g _]]]; [|discriminate|destruct (nf g)]. inversion H; subst. inversion E; subst.
    split; [reflexivity|]. rewrite abs_commit_db. apply abs_default_cert. assumption.
  - (* del_cert *)
    destruct H as [[t [E H]] | [[e [E H]] | [g _]]]; [|discriminate|destruct (nf g)]. inversion H; subst. inversion E; subst.
    split; [reflexivity|]. rewrite abs_set_cache, abs_commit_db. apply abs_delete_cert. assumption.
  - (* del_key *)
    unfold out_del_key in H. unfold abs at 1. rewrite abs_s_key.
    destruct (kc_get (drop2 kn) (db c)) as [i|e]; [|inversion H; subst; cbn [obind]; auto].
    destruct (id_get i kn (db c)) as [k|e] eqn:G; cbn [obind]; [|inversion H; subst; auto].
    destruct H as [H | [[g _] | [g _]]]; [|destruct (nf g)|destruct (nf g)]. inversion H; subst.
    unfold id_get in G. apply v_get_ok in G. destruct G as [Hk [Nk _]].
    split; [reflexivity|]. unfold abs. cbn [db tpm]. apply abs_delete_key; auto.
  - (* del_identity *)
    unfold out_del_identity in H. rewrite s_ident_of_get. destruct (kc_get n (db c)) as [i|e] eqn:G; cbn [obind]; [|inversion H; subst; auto].
    destruct (del_ident_refines n _ _ _ i H I G eq_refl) as [Hok Ha]. cbn [fst snd] in *. split; [assumption|].
    rewrite Ha. unfold s_remove_identity. rewrite s_ident_of_get, G. unfold finish_ident.
    unfold abs_ident. cbn [si_keys]. rewrite scope_map_names. reflexivity.
  - (* Identity.del_key *)
    unfold guarded in H. rewrite s_ident_of_get. destruct (kc_get idn (db c)) as [i0|e]; cbn [obind]; [|inversion H; subst; auto].
    unfold out_del_key in H. unfold abs at 1. rewrite abs_s_key.
    destruct (kc_get (drop2 kn) (db c)) as [i|e]; [|inversion H; subst; cbn [obind]; auto].
    destruct (id_get i kn (db c)) as [k|e] eqn:G; cbn [obind]; [|inversion H; subst; auto].
    destruct H as [H | [[g _] | [g _]]]; [|destruct (nf g)|destruct (nf g)]. inversion H; subst.
    unfold id_get in G. apply v_get_ok in G. destruct G as [Hk [Nk _]].
    split; [reflexivity|]. unfold abs. cbn [db tpm]. apply abs_delete_key; auto.
  - (* Key.del_cert *)
    unfold guarded in H. rewrite s_ident_of_get. destruct (kc_get idn (db c)) as [i|e]; cbn [obind]; [|inversion H; subst; auto].
    rewrite abs_key_get. destruct (id_get i kn (db c)) as [k|e]; cbn [obind]; [|inversion H; subst; auto].
    destruct H as [[t [E H]] | [[e [E H]] | [g _]]]; [|discriminate|destruct (nf g)]. inversion H; subst. inversion E; subst.
    split; [reflexivity|]. rewrite abs_set_cache, abs_commit_db. apply abs_delete_cert. assumption.
  - (* get_signer *)
    unfold out_get_signer in H. destruct (a_nosig a); [inversion H; reflexivity|]. destruct (a_digest a); [inversion H; reflexivity|].
    destruct (resolve_args a (db c)) as [kc|]; [|inversion H; reflexivity].
    destruct (al_get ckey_eqb (cache c) _); [inversion H; reflexivity|].
    destruct (al_get name_eqb (tpm c) (fst kc)); destruct H as [H | [g _]]; try destruct (nf g); inversion H; reflexivity.
  - (* reopen *)
    inversion H; subst. split; [reflexivity|]. unfold abs, do_reopen. cbn [db tpm]. rewrite (inv_clean _ I). reflexivity.
Qed.
