(* Proofs for C04: attach/detach frame lemmas, dispatch = longest attached prefix, invariants over
   arbitrary histories, refinement of the specification machine, reply decision. *)
From NDN Require Import Base.Prelude Model.Name Model.Trie Model.Dispatch Spec.DispatchSpec Proofs.TrieProofs.
Local Open Scope N_scope.

(* every stored node carries a callback: what "handlers are callables" gives, kept by every event *)
Definition all_cb (t : fib) : Prop := forall p node, t_get t p = Some node -> pn_cb node <> None.

Lemma all_cb_empty : all_cb t_empty.
Proof. intros p node H. rewrite t_get_empty in H. discriminate. Qed.

Lemma attached_none t k : all_cb t -> attached t k = None -> t_get t k = None.
Proof.
  intros A H. unfold attached in H. destruct (t_get t k) as [node|] eqn:E; [|reflexivity].
  exfalso. eapply A; eauto.
Qed.

Lemma attached_ext t t' : (forall q, t_get t' q = t_get t q) -> forall q, attached t' q = attached t q.
Proof. intros H q. unfold attached. rewrite H. reflexivity. Qed.

(* ---- attach ----------------------------------------------------------------------------------- *)
Lemma fib_attach_spec fe t k h v ex :
  match attached t k with
  | Some _ => exists t', fib_attach fe t k h v ex = (t', Err EValue) /\ forall q, t_get t' q = t_get t q
  | None => exists t', fib_attach fe t k h v ex = (t', Ok tt) /\
                       (exists node, t_get t' k = Some node /\ pn_cb node = h) /\
                       forall q, q <> k -> t_get t' q = t_get t q
  end.
Proof.
  unfold fib_attach, t_setdefault, attached.
  set (node := match t_get t k with Some x => x | None => pnode0 end).
  assert (Hn : pn_cb node = match t_get t k with Some x => pn_cb x | None => None end)
    by (unfold node; destruct (t_get t k); reflexivity).
  rewrite <- Hn. destruct (pn_cb node) eqn:Ecb.
  - eexists. split; [reflexivity|]. intros q. destruct (name_dec q k) as [->|N].
    + rewrite t_get_set_node_same. destruct (t_get t k) eqn:E; [reflexivity|].
      unfold node in Ecb. cbn in Ecb. discriminate.
    + apply t_get_set_node_other. exact N.
  - eexists. split; [reflexivity|]. split.
    + unfold t_set. rewrite t_get_set_node_same. eexists. split; [reflexivity|]. destruct fe; reflexivity.
    + intros q N. unfold t_set. rewrite !t_get_set_node_other by exact N. reflexivity.
Qed.

Lemma fib_attach_all_cb fe t k h v ex :
  all_cb t -> h <> None -> all_cb (fst (fib_attach fe t k h v ex)).
Proof.
  intros A Hh. pose proof (fib_attach_spec fe t k h v ex) as S. destruct (attached t k).
  - destruct S as (t' & -> & G). cbn. intros p node H. rewrite G in H. eapply A; eauto.
  - destruct S as (t' & -> & (node & Gk & Gc) & G). cbn. intros p nd H. destruct (name_dec p k) as [->|N].
    + rewrite Gk in H. inversion H; subst. congruence.
    + rewrite G in H by exact N. eapply A; eauto.
Qed.

Lemma fib_attach_pruned fe t k h v ex : t_pruned t = true -> t_pruned (fst (fib_attach fe t k h v ex)) = true.
Proof.
  intros P. unfold fib_attach, t_setdefault.
  destruct (pn_cb (match t_get t k with Some x => x | None => pnode0 end)); cbn.
  - apply t_pruned_set_node. exact P.
  - unfold t_set. apply t_pruned_set_node. apply t_pruned_set_node. exact P.
Qed.

(* ---- detach ----------------------------------------------------------------------------------- *)
Lemma fib_detach_spec t k :
  all_cb t ->
  match attached t k with
  | Some _ => exists t', fib_detach t k = (t', Ok tt) /\ t_get t' k = None /\
                         forall q, q <> k -> t_get t' q = t_get t q
  | None => fib_detach t k = (t, Err EKey)
  end.
Proof.
  intros A. unfold fib_detach. destruct (attached t k) eqn:E.
  - unfold attached in E. destruct (t_get t k) as [node|] eqn:G; [|discriminate].
    destruct (t_del_some _ _ _ G) as (t' & D). rewrite D. exists t'. split; [reflexivity|].
    apply t_del_ok in D. tauto.
  - rewrite (t_del_none t k) by (apply attached_none; assumption). reflexivity.
Qed.

Lemma fib_detach_all_cb t k : all_cb t -> all_cb (fst (fib_detach t k)).
Proof.
  intros A. pose proof (fib_detach_spec t k A) as S. destruct (attached t k).
  - destruct S as (t' & -> & Gk & G). cbn. intros p node H. destruct (name_dec p k) as [->|N].
    + rewrite Gk in H. discriminate.
    + rewrite G in H by exact N. eapply A; eauto.
  - rewrite S. exact A.
Qed.

Lemma fib_detach_pruned t k : t_pruned t = true -> t_pruned (fst (fib_detach t k)) = true.
Proof.
  intros P. unfold fib_detach. destruct (t_del t k) eqn:D; cbn; [|exact P]. eapply t_pruned_del; eauto.
Qed.

(* ---- dispatch --------------------------------------------------------------------------------- *)
Definition cb_of (nd : pnode) : N := match pn_cb nd with Some h => h | None => 0 end.

Lemma attached_map t : all_cb t -> forall p, attached t p = option_map cb_of (t_get t p).
Proof.
  intros A p. unfold attached, cb_of. destruct (t_get t p) as [nd|] eqn:E; [|reflexivity]. cbn.
  destruct (pn_cb nd) eqn:C; [reflexivity|]. exfalso. eapply A; eauto.
Qed.

Lemma longest_prefix_attached t n :
  all_cb t ->
  match t_longest_prefix t n with
  | Some (p, nd) => exists h, pn_cb nd = Some h /\ lp_fun (attached t) n = Some (p, h)
  | None => lp_fun (attached t) n = None
  end.
Proof.
  intros A. rewrite t_longest_prefix_lp. rewrite (lp_fun_rel (t_get t) (attached t) cb_of n (attached_map t A)).
  pose proof (lp_fun_spec (t_get t) n) as S. destruct (lp_fun (t_get t) n) as [[p nd]|]; [|reflexivity].
  destruct S as (G & _). cbn. unfold cb_of. destruct (pn_cb nd) eqn:C; [eauto|]. exfalso. eapply A; eauto.
Qed.

Lemma dispatch_lp t n : all_cb t -> dispatch t n = option_map snd (lp_fun (attached t) n).
Proof.
  intros A. pose proof (longest_prefix_attached t n A) as S. unfold dispatch, fib_lookup.
  destruct (t_longest_prefix t n) as [[p nd]|].
  - destruct S as (h & -> & ->). reflexivity.
  - rewrite S. reflexivity.
Qed.

Theorem dispatch_lpm t n h :
  all_cb t -> (dispatch t n = Some h <-> exists p, is_lpm (attached t) n p h).
Proof.
  intros A. rewrite dispatch_lp by exact A. split.
  - intros H. pose proof (lp_fun_spec (attached t) n) as S.
    destruct (lp_fun (attached t) n) as [[p h']|]; [|discriminate]. cbn in H. inversion H; subst. eauto.
  - intros [p H]. rewrite (lp_fun_complete _ _ _ _ H). reflexivity.
Qed.

Theorem dispatch_none t n :
  all_cb t -> (dispatch t n = None <-> forall p, prefix p n -> attached t p = None).
Proof.
  intros A. rewrite dispatch_lp by exact A. split.
  - intros H. pose proof (lp_fun_spec (attached t) n) as S.
    destruct (lp_fun (attached t) n) as [[p h']|]; [discriminate|exact S].
  - intros H. pose proof (lp_fun_spec (attached t) n) as S.
    destruct (lp_fun (attached t) n) as [[p h']|]; [|reflexivity].
    destruct S as (G & P & _). rewrite (H p P) in G. discriminate.
Qed.

(* ---- invariants over arbitrary histories ------------------------------------------------------- *)
Lemma step_all_cb fe s o : wf_op o -> all_cb (s_fib s) -> all_cb (s_fib (fst (step fe s o))).
Proof.
  intros W A. destruct o as [k h v ex|k|n life now| |i now running|]; cbn [step].
  - destruct h as [h|]; [|destruct W].
    pose proof (fib_attach_all_cb fe (s_fib s) k (Some h) v ex A) as F.
    destruct (fib_attach fe (s_fib s) k (Some h) v ex) as [t r]. cbn in *. apply F. discriminate.
  - pose proof (fib_detach_all_cb (s_fib s) k A) as F. destruct (fib_detach (s_fib s) k) as [t r]. exact F.
  - destruct fe.
    + destruct (fib_lookup (s_fib s) n); exact A.
    + destruct (fib_lookup (s_fib s) n); exact A.
    + destruct (t_longest_prefix (s_fib s) n) as [[p nd]|]; [|exact A]. destruct (pn_cb nd); exact A.
  - exact A.
  - destruct fe; try exact A. destruct (nth_error (s_calls s) i); exact A.
  - destruct fe; try exact A. apply all_cb_empty.
Qed.

Lemma exec_all_cb fe ops s : Forall wf_op ops -> all_cb (s_fib s) -> all_cb (s_fib (exec fe s ops)).
Proof.
  revert s. induction ops as [|o ops IH]; intros s W A; [exact A|].
  inversion W; subst. cbn. apply IH; [assumption|]. apply step_all_cb; assumption.
Qed.

Lemma step_pruned fe s o : t_pruned (s_fib s) = true -> t_pruned (s_fib (fst (step fe s o))) = true.
Proof.
  intros P. destruct o as [k h v ex|k|n life now| |i now running|]; cbn [step].
  - pose proof (fib_attach_pruned fe (s_fib s) k h v ex P) as F.
    destruct (fib_attach fe (s_fib s) k h v ex) as [t r]. exact F.
  - pose proof (fib_detach_pruned (s_fib s) k P) as F. destruct (fib_detach (s_fib s) k) as [t r]. exact F.
  - destruct fe.
    + destruct (fib_lookup (s_fib s) n); exact P.
    + destruct (fib_lookup (s_fib s) n); exact P.
    + destruct (t_longest_prefix (s_fib s) n) as [[p nd]|]; [|exact P]. destruct (pn_cb nd); exact P.
  - exact P.
  - destruct fe; try exact P. destruct (nth_error (s_calls s) i); exact P.
  - destruct fe; try exact P. reflexivity.
Qed.

Lemma exec_pruned fe ops s : t_pruned (s_fib s) = true -> t_pruned (s_fib (exec fe s ops)) = true.
Proof.
  revert s. induction ops as [|o ops IH]; intros s P; [exact P|]. cbn. apply IH. apply step_pruned. exact P.
Qed.

Lemma run_from_exec fe s ops : fst (run_from fe s ops) = exec fe s ops.
Proof.
  revert s. induction ops as [|o ops IH]; intros s; [reflexivity|]. cbn.
  destruct (step fe s o) as [s1 b] eqn:E. specialize (IH s1). destruct (run_from fe s1 ops) as [s2 bs].
  cbn in *. exact IH.
Qed.

(* ---- reply ------------------------------------------------------------------------------------ *)
Lemma reply_closure_spec d now :
  reply_closure d now true = Ok (s_reply_sent d now, if s_reply_sent d now then RTrue else RFalse).
Proof.
  unfold reply_closure, s_reply_sent. destruct (d <? now) eqn:E, (now <=? d) eqn:F; try reflexivity; lia.
Qed.

Lemma reply_closure_down d now r :
  reply_closure d now false = r -> r = Ok (false, RFalse) /\ d < now \/ r = Err E_NETWORK /\ now <= d.
Proof. unfold reply_closure. destruct (d <? now) eqn:E; intros <-; [left|right]; split; try reflexivity; lia. Qed.

(* ---- refinement of the specification machine ---------------------------------------------------- *)
Definition R (s : st) (ss : sst) : Prop :=
  (forall p, attached (s_fib s) p = ss_att ss p) /\ all_cb (s_fib s) /\
  s_pending s = ss_pending ss /\ s_calls s = ss_calls ss.

Lemma R0 : R st0 sst0.
Proof. repeat split; try reflexivity. - intros p. unfold attached. cbn. rewrite t_get_empty. reflexivity. - apply all_cb_empty. Qed.

Lemma s_lookup_attached t a n :
  (forall p, attached t p = a p) -> s_lookup a n = lp_fun (attached t) n.
Proof. intros H. unfold s_lookup. symmetry. apply lp_fun_ext. exact H. Qed.

Lemma a_upd_spec a p v q : a_upd a p v q = if name_eqb q p then v else a q.
Proof. reflexivity. Qed.

Lemma step_refines fe s ss o so :
  R s ss -> sop_of fe o = Some so ->
  R (fst (step fe s o)) (fst (sstep fe ss so)) /\ abs_obs (snd (step fe s o)) = Some (snd (sstep fe ss so)).
Proof.
  intros (Ra & Rc & Rp & Rl) Ho.
  destruct o as [k h v ex|k|n life now| |i now running|]; cbn [sop_of] in Ho.
  - (* attach *)
    destruct h as [h|]; [|discriminate]. inversion Ho; subst so. clear Ho. cbn [step sstep].
    pose proof (fib_attach_spec fe (s_fib s) k (Some h) v ex) as S.
    pose proof (fib_attach_all_cb fe (s_fib s) k (Some h) v ex Rc) as C.
    rewrite <- Ra. destruct (attached (s_fib s) k) eqn:E.
    + destruct S as (t' & Et & G). rewrite Et in C |- *. cbn in C |- *. split; [|reflexivity].
      repeat split; try assumption. * intros p. cbn. rewrite <- Ra. apply attached_ext. exact G. * apply C. discriminate.
    + destruct S as (t' & Et & (nd & Gk & Gc) & G). rewrite Et in C |- *. cbn in C |- *. split; [|reflexivity].
      repeat split; try assumption.
      * intros p. cbn. unfold a_upd. destruct (name_dec p k) as [->|N].
        -- rewrite name_eqb_refl. unfold attached. rewrite Gk. exact Gc.
        -- rewrite name_eqb_neq by exact N. rewrite <- Ra. unfold attached. rewrite G by exact N. reflexivity.
      * apply C. discriminate.
  - (* detach *)
    inversion Ho; subst so. clear Ho. cbn [step sstep].
    pose proof (fib_detach_spec (s_fib s) k Rc) as S. pose proof (fib_detach_all_cb (s_fib s) k Rc) as C.
    rewrite <- Ra. destruct (attached (s_fib s) k) eqn:E.
    + destruct S as (t' & Et & Gk & G). rewrite Et in C |- *. cbn in C |- *. split; [|reflexivity].
      repeat split; try assumption.
      intros p. cbn. unfold a_upd. destruct (name_dec p k) as [->|N].
      * rewrite name_eqb_refl. unfold attached. rewrite Gk. reflexivity.
      * rewrite name_eqb_neq by exact N. rewrite <- Ra. unfold attached. rewrite G by exact N. reflexivity.
    + rewrite S in *. cbn. split; [|reflexivity]. repeat split; assumption.
  - (* receive *)
    inversion Ho; subst so. clear Ho. cbn [step sstep].
    rewrite (s_lookup_attached (s_fib s) (ss_att ss) n Ra).
    pose proof (longest_prefix_attached (s_fib s) n Rc) as L.
    destruct fe.
    + unfold fib_lookup. destruct (t_longest_prefix (s_fib s) n) as [[p nd]|].
      * destruct L as (h & -> & ->). cbn. split; [|reflexivity]. repeat split; try assumption. cbn. rewrite Rp. reflexivity.
      * rewrite L. cbn. split; [|reflexivity]. repeat split; try assumption. cbn. rewrite app_nil_r. exact Rp.
    + unfold fib_lookup. destruct (t_longest_prefix (s_fib s) n) as [[p nd]|].
      * destruct L as (h & -> & ->). cbn. split; [|reflexivity]. repeat split; try assumption. cbn. rewrite Rp. reflexivity.
      * rewrite L. cbn. split; [|reflexivity]. repeat split; try assumption. cbn. rewrite app_nil_r. exact Rp.
    + destruct (t_longest_prefix (s_fib s) n) as [[p nd]|].
      * destruct L as (h & -> & ->). cbn. split; [|reflexivity]. repeat split; try assumption. cbn. rewrite Rl. reflexivity.
      * rewrite L. cbn. split; [|reflexivity]. repeat split; try assumption. cbn. rewrite app_nil_r. exact Rl.
  - (* settle *)
    inversion Ho; subst so. cbn. rewrite Rp, Rl. split; [|reflexivity]. repeat split; assumption.
  - (* reply *)
    destruct fe; try discriminate. inversion Ho; subst so. clear Ho.
    cbn [step sstep]. rewrite <- Rl. destruct (nth_error (s_calls s) i) as [c|].
    + destruct running.
      * rewrite reply_closure_spec. unfold s_reply_out. rewrite andb_true_r. cbn. split; [repeat split; assumption|].
        destruct (s_reply_sent (c_deadline c) now); reflexivity.
      * unfold reply_closure, s_reply_out. rewrite andb_false_r.
        destruct (c_deadline c <? now); cbn; (split; [repeat split; assumption|reflexivity]).
    + cbn. split; [repeat split; assumption|reflexivity].
  - (* disconnect *)
    inversion Ho; subst so. clear Ho. cbn [step sstep]. destruct fe; cbn; (split; [|reflexivity]).
    + repeat split; assumption.
    + repeat split; try assumption. * intros p. destruct p; reflexivity. * apply all_cb_empty.
    + repeat split; assumption.
Qed.

Theorem run_refines fe ops sops s ss :
  R s ss -> sops_of fe ops = Some sops ->
  R (fst (run_from fe s ops)) (fst (srun_from fe ss sops)) /\
  map abs_obs (snd (run_from fe s ops)) = map Some (snd (srun_from fe ss sops)).
Proof.
  revert sops s ss. induction ops as [|o ops IH]; intros sops s ss HR Hs.
  - inversion Hs; subst. cbn. auto.
  - cbn [sops_of] in Hs. destruct (sop_of fe o) as [so|] eqn:Eo; [|discriminate].
    destruct (sops_of fe ops) as [sos|] eqn:Es; [|discriminate]. inversion Hs; subst sops. clear Hs.
    destruct (step_refines fe s ss o so HR Eo) as [HR1 Hob].
    cbn [run_from srun_from]. destruct (step fe s o) as [s1 b]. destruct (sstep fe ss so) as [ss1 sb]. cbn in HR1, Hob.
    specialize (IH sos s1 ss1 HR1 eq_refl).
    destruct (run_from fe s1 ops) as [s2 bs]. destruct (srun_from fe ss1 sos) as [ss2 sbs]. cbn in *.
    destruct IH as [IH1 IH2]. split; [exact IH1|]. rewrite Hob, IH2. reflexivity.
Qed.
