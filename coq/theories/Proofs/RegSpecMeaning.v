(* C17 — what the specification automata of Spec/Registration.v say, in plain terms. *)
From NDN Require Import Base.Prelude Model.TlvVar Model.Name Model.Tlv Model.NfdMgmt Model.Registerer
  Spec.Registration Proofs.RegistererBase.
From Coq Require Import Sorting.Sorted.
Local Open Scope N_scope.

Definition sends (l : list obs) : list cmd :=
  flat_map (fun o => match o with OSend c => [c] | _ => [] end) l.

(* ---- timestamps_ok: the command timestamps, in sending order, are strictly increasing ---------------------------- *)
Lemma ts_fold_none l : fold_left ts_step l None = None.
Proof. induction l as [|o r IH]; [reflexivity|exact IH]. Qed.

Lemma ts_fold_sorted l : forall a m,
  fold_left ts_step l (Some a) = Some m ->
  (forall t, a = Some t -> Forall (fun x => t < x) (map m_ts (sends l))) /\
  StronglySorted N.lt (map m_ts (sends l)).
Proof.
  induction l as [|o r IH]; intros a m H.
  - cbn. split; [intros; constructor|constructor].
  - cbn [fold_left] in H. destruct o as [id k nm au|c|id rp oc|nm| |cl|];
      try (assert (E : ts_step (Some a) _ = Some a) by (destruct a; reflexivity); rewrite E in H || idtac).
    all: try (destruct a; cbn [ts_step] in H; exact (IH _ _ H)).
    (* OSend *)
    cbn [sends flat_map app map]. change (flat_map _ r) with (sends r).
    destruct a as [t|]; cbn [ts_step] in H.
    + destruct (t <? m_ts c) eqn:Et; [|rewrite ts_fold_none in H; discriminate].
      apply N.ltb_lt in Et. destruct (IH _ _ H) as [F S]. specialize (F _ eq_refl). split.
      * intros t' Ht'. injection Ht' as <-. constructor; [exact Et|].
        eapply Forall_impl; [|exact F]. intros x Hx. cbn beta in Hx. lia.
      * constructor; [exact S|exact F].
    + destruct (IH _ _ H) as [F S]. specialize (F _ eq_refl). split; [intros t' Ht'; discriminate|].
      constructor; [exact S|exact F].
Qed.

Theorem timestamps_ok_sorted l : timestamps_ok l = true -> StronglySorted N.lt (map m_ts (sends l)).
Proof.
  unfold timestamps_ok, check. destruct (fold_left ts_step l (Some None)) as [m|] eqn:E; [|discriminate].
  intros _. exact (proj2 (ts_fold_sorted l None m E)).
Qed.

(* ---- serial_ok: between two commands the first one has been answered (its call has returned) -------------------- *)
Lemma serial_fold_none l : fold_left serial_step l None = None.
Proof. induction l as [|o r IH]; [reflexivity|exact IH]. Qed.

Lemma serial_busy l2 : forall j c2 l3 b',
  fold_left serial_step (l2 ++ OSend c2 :: l3) (Some (Some j)) = Some b' ->
  exists r o, In (ODone j r o) l2.
Proof.
  induction l2 as [|o l2 IH]; intros j c2 l3 b' H.
  - cbn in H. rewrite serial_fold_none in H. discriminate.
  - cbn [app fold_left] in H. destruct o as [id k nm au|c|id rp oc|nm| |cl|]; cbn [serial_step] in H;
      try (destruct (IH _ _ _ _ H) as (r & o & Hin); exists r, o; right; exact Hin).
    + rewrite serial_fold_none in H. discriminate.
    + destruct (Nat.eqb id j) eqn:E; [|rewrite serial_fold_none in H; discriminate].
      apply Nat.eqb_eq in E. subst id. exists rp, oc. left. reflexivity.
Qed.

Theorem serial_ok_meaning l l1 c1 l2 c2 l3 :
  serial_ok l = true -> l = l1 ++ OSend c1 :: l2 ++ OSend c2 :: l3 ->
  exists r o, In (ODone (m_call c1) r o) l2.
Proof.
  unfold serial_ok, check. intros H ->. rewrite fold_left_app in H.
  destruct (fold_left serial_step l1 (Some None)) as [b|] eqn:E1.
  - cbn [fold_left] in H. destruct b as [j|]; cbn [serial_step] in H.
    + rewrite serial_fold_none in H. discriminate.
    + destruct (fold_left serial_step (l2 ++ OSend c2 :: l3) (Some (Some (m_call c1)))) as [b'|] eqn:E2; [|discriminate].
      exact (serial_busy _ _ _ _ _ E2).
  - rewrite serial_fold_none in H. discriminate.
Qed.

(* ---- outcomes_ok: every call returns True exactly on a 200 answer, and never raises ------------------------------ *)
Theorem outcomes_ok_meaning va l id r o :
  outcomes_ok va l = true -> In (ODone id r o) l -> o = Ret (answers_200 va r).
Proof.
  unfold outcomes_ok. intros H Hin. rewrite forallb_forall in H. specialize (H _ Hin). cbn [outcome_ok] in H.
  destruct o as [b|e]; [|discriminate]. apply Bool.eqb_prop in H. now subst b.
Qed.
