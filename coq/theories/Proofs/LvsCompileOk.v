(* compile as a whole: the only exception it raises is SemanticError; when and why it raises it. *)
From NDN Require Import Base.Prelude Base.Text Model.TlvVar Model.Name Model.LvsAst Model.LvsChecker Model.LvsCompiler
  Spec.LvsSem Spec.LvsChains Proofs.LvsMachine Proofs.LvsSanity Proofs.LvsFlatten Proofs.LvsGenTree Proofs.LvsCompileTree
  Proofs.LvsTopOrder Proofs.LvsSortRules Proofs.LvsNumbering Proofs.LvsReplicate.
Local Open Scope N_scope.

(* ---- gen_tree never runs out of fuel ----------------------------------------------------------------------- *)
Lemma max_chain_len_ge l rc : In rc l -> (length (ch_name rc) <= max_chain_len l)%nat.
Proof.
  unfold max_chain_len.
  assert (G : forall l a, (a <= fold_left (fun a c => Nat.max a (length (ch_name c))) l a)%nat /\
                          forall rc, In rc l -> (length (ch_name rc) <= fold_left (fun a c => Nat.max a (length (ch_name c))) l a)%nat).
  { induction l0 as [|c l0 IH]; intros a; cbn [fold_left]; [split; [lia | intros rc0 []]|].
    destruct (IH (Nat.max a (length (ch_name c)))) as [H1 H2]. split; [lia|].
    intros rc0 [<-|Hin]; [lia | apply H2, Hin]. }
  apply (G l O).
Qed.

Lemma lit_at_lt rc depth v : lit_at rc depth = Some v -> (depth < length (ch_name rc))%nat.
Proof. unfold lit_at. intros H. apply nth_error_Some. destruct (nth_error (ch_name rc) depth); [discriminate | discriminate]. Qed.
Lemma pat_at_lt rc depth t : pat_at rc depth = Some t -> (depth < length (ch_name rc))%nat.
Proof. unfold pat_at. intros H. apply nth_error_Some. destruct (nth_error (ch_name rc) depth); [discriminate | discriminate]. Qed.

Lemma gen_tree_ok : forall fuel depth ctx prev,
  (1 <= fuel)%nat -> (forall rc, In rc ctx -> (length (ch_name rc) < depth + fuel)%nat) ->
  exists t, gen_tree fuel depth ctx prev = Ok t.
Proof.
  induction fuel as [|f IH]; intros depth ctx prev Hf Hlen; [lia|]. cbn [gen_tree].
  destruct (rmap _ (v_moves depth (going_on depth ctx))) as [vs|e] eqn:Ev; cbn [bind].
  2:{ exfalso. apply rmap_err in Ev. destruct Ev as (v & Hv & He). cbn beta in He.
      apply (v_moves_in) in Hv. destruct Hv as (rc & Hrc & Hl).
      destruct (IH (S depth) (v_group depth (going_on depth ctx) v) prev) as (t & Et).
      - apply going_on_in in Hrc. destruct Hrc as [Hrc _]. pose proof (lit_at_lt _ _ _ Hl). specialize (Hlen rc Hrc). lia.
      - intros rc0 H0. apply v_group_in in H0. destruct H0 as [H0 _]. apply going_on_in in H0. destruct H0 as [H0 _]. specialize (Hlen rc0 H0). lia.
      - rewrite Et in He. discriminate. }
  destruct (rmap _ (p_keys (p_moves depth prev (going_on depth ctx)))) as [ps|e] eqn:Ep; cbn [bind]; [eauto|].
  exfalso. apply rmap_err in Ep. destruct Ep as (key & Hk & He). cbn beta in He.
  apply p_keys_in in Hk. destruct Hk as (pm & Hpm & Hkey).
  destruct (p_group (p_moves depth prev (going_on depth ctx)) key) as [|pm0 rest] eqn:Eg.
  { assert (In pm (p_group (p_moves depth prev (going_on depth ctx)) key)) by (apply p_group_in; auto). rewrite Eg in H. destruct H. }
  cbv zeta in He.
  destruct (IH (S depth) (map snd (pm0 :: rest)) (fst (fst (fst pm0)) :: prev)) as (t & Et).
  - apply p_moves_in in Hpm. destruct Hpm as (rc & t0 & Hrc & Hp & _).
    apply going_on_in in Hrc. destruct Hrc as [Hrc _]. pose proof (pat_at_lt _ _ _ Hp). specialize (Hlen rc Hrc). lia.
  - intros rc0 H0. apply in_map_iff in H0. destruct H0 as (pm1 & <- & H1). rewrite <- Eg in H1. apply p_group_in in H1.
    destruct H1 as [H1 _]. apply p_moves_in in H1. destruct H1 as (rc1 & t1 & Hr1 & _ & ->). cbn.
    apply going_on_in in Hr1. destruct Hr1 as [Hr1 _]. specialize (Hlen rc1 Hr1). lia.
  - rewrite Et in He. discriminate.
Qed.

(* ---- _fix_signing_references ---------------------------------------------------------------------------------- *)
Lemma sign_lookup_err rids names e : sign_lookup rids names = Err e -> e = ESemantic /\ exists k, In k names /\ al_get ident_eqb rids k = None.
Proof.
  unfold sign_lookup. generalize (@nil N). induction names as [|k names IH]; intros acc H; cbn in H; [discriminate|].
  destruct (al_get ident_eqb rids k) as [l|] eqn:E; cbn in H.
  - destruct (IH _ H) as [He (k' & Hk' & Hn)]. split; [exact He|]. exists k'. split; [right; exact Hk' | exact Hn].
  - inversion H; subst. split; [reflexivity|]. exists k. split; [left; reflexivity | exact E].
Qed.
Lemma sign_lookup_ok rids names : (forall k, In k names -> exists l, al_get ident_eqb rids k = Some l) -> exists sc, sign_lookup rids names = Ok sc.
Proof.
  unfold sign_lookup. generalize (@nil N). induction names as [|k names IH]; intros acc H; cbn; [eauto|].
  destruct (H k (or_introl eq_refl)) as (l & ->). cbn. apply IH. intros; apply H; right; assumption.
Qed.

Lemma fix_all_err rids : forall pool i e, fix_all rids i pool = Err e ->
  e = ESemantic /\ exists g k, In g pool /\ In k (g_sign g) /\ al_get ident_eqb rids k = None.
Proof.
  induction pool as [|g pool IH]; intros i e H; cbn [fix_all] in H; [discriminate|].
  unfold fix_signing in H. fold (sign_lookup rids (g_sign g)) in H.
  destruct (sign_lookup rids (g_sign g)) as [sc|e1] eqn:Es; cbn [bind] in H.
  - destruct (fix_all rids (S i) pool) as [ns|e2] eqn:Ef; cbn [bind] in H; [discriminate|]. inversion H; subst.
    destruct (IH _ _ Ef) as [He (g' & k & Hg & Hk & Hn)]. split; [exact He|]. exists g', k. split; [right; exact Hg | auto].
  - inversion H; subst. destruct (sign_lookup_err _ _ _ Es) as [He (k & Hk & Hn)]. split; [exact He|]. exists g, k. split; [left; reflexivity | auto].
Qed.
Lemma fix_all_ok rids : forall pool i, (forall g k, In g pool -> In k (g_sign g) -> exists l, al_get ident_eqb rids k = Some l) ->
  exists nodes, fix_all rids i pool = Ok nodes.
Proof.
  induction pool as [|g pool IH]; intros i H; cbn [fix_all]; [eauto|].
  unfold fix_signing. fold (sign_lookup rids (g_sign g)).
  destruct (sign_lookup_ok rids (g_sign g)) as (sc & ->); [intros k Hk; apply (H g k (or_introl eq_refl) Hk)|]. cbn [bind].
  destruct (IH (S i)) as (ns & ->); [intros g0 k Hg Hk; apply (H g0 k (or_intror Hg) Hk)|]. cbn [bind]. eauto.
Qed.

(* ---- glue: the numbered rules of a sorted schema refer backwards ------------------------------------------------ *)
Lemma comp_shape_ref c nc r : comp_shape c nc -> nc = NRef r -> c = CRef r.
Proof. destruct c, nc; cbn; intros H E; try contradiction; inversion E; subst; reflexivity. Qed.

Lemma forall2_shape_ref l nl r : Forall2 comp_shape l nl -> In (NRef r) nl -> In (CRef r) l.
Proof.
  induction 1 as [|c nc l nl Hs _ IH]; intros Hin; [destruct Hin|].
  destruct Hin as [->|Hin]; [left; eapply comp_shape_ref; eauto | right; apply IH, Hin].
Qed.

Lemma forall2_split_r {A B} (R : A -> B -> Prop) l l' : Forall2 R l l' -> forall m1 y m2, l' = m1 ++ y :: m2 ->
  exists l1 x l2, l = l1 ++ x :: l2 /\ Forall2 R l1 m1 /\ R x y /\ Forall2 R l2 m2.
Proof.
  induction 1 as [|a b l l' Hab Hrest IH]; intros m1 y m2 E; [destruct m1; discriminate|].
  destruct m1 as [|z m1]; cbn in E; injection E as E1 E2; subst.
  - exists [], a, l. split; [reflexivity|]. split; [constructor|]. split; assumption.
  - destruct (IH m1 y m2 eq_refl) as (l1 & x & l2 & -> & H1 & H2 & H3). exists (a :: l1), x, l2. split; [reflexivity|]. split; [constructor; assumption|]. split; assumption.
Qed.

Lemma refs_earlier_of named sorted nrules :
  Forall2 (nrule_rel named) sorted nrules ->
  (forall l1 r l2 c, sorted = l1 ++ r :: l2 -> In c (refs_of r) -> exists r', In r' l1 /\ r_id r' = c) ->
  refs_earlier nrules.
Proof.
  intros Hrel Hsorted m1 nr m2 r E Hr.
  destruct (forall2_split_r _ _ _ Hrel m1 nr m2 E) as (l1 & x & l2 & Es & H1 & (Hid & _ & Hshape & _) & _).
  assert (Hc : In r (refs_of x)).
  { unfold refs_of. apply in_flat_map. exists (CRef r). split; [eapply forall2_shape_ref; eauto | left; reflexivity]. }
  destruct (Hsorted l1 x l2 r Es Hc) as (r' & Hr' & Hid').
  destruct (forall2_in_l _ _ _ _ H1 Hr') as (nr' & Hnr' & (Hid'' & _)). exists nr'. split; [exact Hnr' | congruence].
Qed.

(* ---- compile raises nothing but SemanticError ---------------------------------------------------------------------- *)
Lemma in_insert_by_key {V} (y x : ident * V) : forall l, In x (insert_by_key y l) <-> y = x \/ In x l.
Proof.
  intros l. induction l as [|z l IHl]; cbn.
  - tauto.
  - match goal with |- context [if ?b then _ else _] => destruct b end; cbn [In].
    + tauto.
    + fold (insert_by_key y l). rewrite IHl. tauto.
Qed.
Lemma in_sort_by_key {V} (l : list (ident * V)) x : In x (sort_by_key l) <-> In x l.
Proof.
  unfold sort_by_key. induction l as [|y l IH]; cbn; [reflexivity|].
  rewrite in_insert_by_key, IH. tauto.
Qed.

Theorem chains_of_err S e : chains_of S = Err e -> e = ESemantic.
Proof.
  unfold chains_of. pose proof (sort_rule_references_spec S) as Hs.
  destruct (sort_rule_references S) as [[sorted order]|e1]; cbn [bind fst]; [|intros H; inversion H; congruence].
  destruct Hs as (_ & _ & _ & _ & _ & Hafter & _).
  pose proof (gen_pattern_numbers_spec sorted) as Hn. pose proof (gen_pattern_numbers_rel sorted) as Hrel.
  destruct (gen_pattern_numbers sorted) as [[nrules st]|e2]; cbn [bind]; [|intros H; destruct Hn as [Hn _]; inversion H; congruence].
  specialize (Hrel nrules st eq_refl). destruct Hn as (HI & _).
  destruct (replicate_rules_ok nrules (ns_next_temp st) (refs_earlier_of _ _ _ Hrel Hafter) (ni_temp _ HI)) as (rep & -> & _).
  cbn [bind]. discriminate.
Qed.

Theorem compile_err S e : compile S = Err e -> e = ESemantic.
Proof.
  unfold compile. destruct (chains_of S) as [[chains st]|e1] eqn:Ec; cbn [bind]; [|intros H; inversion H; subst; eapply chains_of_err; eauto].
  destruct (gen_tree_ok (Datatypes.S (max_chain_len chains)) 0 chains []) as (t & ->); [lia | |].
  { intros rc Hrc. pose proof (max_chain_len_ge _ _ Hrc). lia. }
  cbn [bind]. unfold model_of.
  destruct (fix_all _ 0 _) as [nodes|e2] eqn:Ef; cbn [bind]; [discriminate|].
  intros H; inversion H; subst. apply fix_all_err in Ef. apply Ef.
Qed.
