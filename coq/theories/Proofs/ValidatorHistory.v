(* C14 — histories: several validator instances, any order of constructions and validations.
   With the fixed default argument (every instance gets its own key storage unless one is given
   explicitly, and an explicitly given storage is not shared between validators) every verdict in
   every reachable state is characterised by Chain — which mentions schema, anchor, packet and the
   retrievable certificates only. *)
From NDN Require Import Base.Prelude Model.Validator Spec.ChainSpec Proofs.ValidatorProofs.
Local Open Scope nat_scope.

(* ---------------------------------------------------------------- heap lemmas ------------------ *)
Lemma heap_set_same (h : list cache) : forall sid c, sid < length h -> nth_error (heap_set h sid c) sid = Some c.
Proof.
  induction h as [|x h IH]; intros sid c H; cbn in H; [lia|].
  destruct sid as [|s]; [reflexivity|].
  change (heap_set (x :: h) (S s) c) with (x :: heap_set h s c). cbn. apply IH. lia.
Qed.

Lemma heap_set_other (h : list cache) : forall sid c sid',
  sid < length h -> sid' <> sid -> nth_error (heap_set h sid c) sid' = nth_error h sid'.
Proof.
  induction h as [|x h IH]; intros sid c sid' H N; cbn in H; [lia|].
  destruct sid as [|s].
  - destruct sid' as [|s']; [lia | reflexivity].
  - change (heap_set (x :: h) (S s) c) with (x :: heap_set h s c).
    destruct sid' as [|s']; [reflexivity|]. cbn. apply IH; lia.
Qed.

Lemma nth_error_snoc_old {A} (l : list A) x i a : nth_error l i = Some a -> nth_error (l ++ [x]) i = Some a.
Proof.
  intros H. rewrite nth_error_app1; auto. apply nth_error_Some. congruence.
Qed.

Lemma nth_error_snoc_inv {A} (l : list A) x i a :
  nth_error (l ++ [x]) i = Some a -> (i < length l /\ nth_error l i = Some a) \/ (i = length l /\ a = x).
Proof.
  intros H. destruct (Nat.lt_ge_cases i (length l)) as [L|G].
  - left. rewrite nth_error_app1 in H; auto.
  - right. rewrite nth_error_app2 in H; auto.
    destruct (i - length l) as [|k] eqn:E; cbn in H.
    + inversion H. split; [lia | reflexivity].
    + destruct k; discriminate.
Qed.

(* ---------------------------------------------------------------- invariant -------------------- *)
Definition sid_unused (st : state) (sid : nat) : Prop :=
  forall ins, In ins (s_insts st) -> i_sid ins <> sid.

(* an explicitly given storage object is not used by another validator *)
Definition op_allowed (st : state) (o : op) : Prop :=
  match o with
  | ONewLvs _ _ (SGiven sid) => sid_unused st sid
  | ONewCascade _ (SGiven sid) => sid_unused st sid
  | _ => True
  end.

Record state_inv (w : world) (st : state) : Prop := {
  (* "cached => validated under the same anchor and schema" for every instance's storage *)
  inv_cache : forall i ins, nth_error (s_insts st) i = Some ins ->
              exists ch, nth_error (s_heap st) (i_sid ins) = Some ch /\ cache_ok w (trust_of (i_cfg ins)) ch;
  inv_unused : forall sid ch, nth_error (s_heap st) sid = Some ch -> sid_unused st sid -> ch = [];
  inv_excl : forall i j a b, nth_error (s_insts st) i = Some a -> nth_error (s_insts st) j = Some b ->
             i_sid a = i_sid b -> i = j
}.

Lemma inv_init w : state_inv w init_state.
Proof.
  split; cbn.
  - intros i ins H. destruct i; discriminate.
  - intros sid ch H _. destruct sid as [|[|sid]]; cbn in H; try (inversion H; reflexivity). destruct sid; discriminate.
  - intros i j a b H. destruct i; discriminate.
Qed.

Lemma inv_new_storage w st :
  state_inv w st -> state_inv w {| s_heap := s_heap st ++ [[]]; s_insts := s_insts st |}.
Proof.
  intros [IC IU IE]. split; cbn.
  - intros i ins H. destruct (IC _ _ H) as (ch & Hh & Hc). exists ch. split; auto. apply nth_error_snoc_old; auto.
  - intros sid ch H U. apply nth_error_snoc_inv in H. destruct H as [[_ H]|[_ H]]; auto. eapply IU; eauto.
  - exact IE.
Qed.

Lemma inv_add_inst w st s r dflt :
  state_inv w st ->
  match s with SGiven sid => sid_unused st sid | SDefault => True end ->
  state_inv w (fst (add_inst false dflt st s r)).
Proof.
  intros Inv Al. pose proof Inv as [IC IU IE]. unfold add_inst. destruct r as [c|e]; [|exact Inv].
  destruct s as [|sid]; cbn [resolve].
  - (* fresh storage *)
    cbn [fst]. split; cbn [s_heap s_insts].
    + intros i ins H. apply nth_error_snoc_inv in H. destruct H as [[_ H]|[_ H]].
      * destruct (IC _ _ H) as (ch & Hh & Hc). exists ch. split; auto. apply nth_error_snoc_old; auto.
      * subst ins. cbn. exists []. split; [|apply cache_ok_nil].
        rewrite nth_error_app2 by lia. rewrite Nat.sub_diag. reflexivity.
    + intros sid ch H U. apply nth_error_snoc_inv in H. destruct H as [[_ H]|[E _]].
      * eapply IU; eauto. intros ins Hin. apply U. apply in_or_app. auto.
      * exfalso. subst sid. apply (U {| i_cfg := c; i_sid := length (s_heap st) |}); [|reflexivity].
        apply in_or_app. right. left. reflexivity.
    + intros i j a b Ha Hb E.
      apply nth_error_snoc_inv in Ha. apply nth_error_snoc_inv in Hb.
      destruct Ha as [[La Ha]|[Ea Ha]], Hb as [[Lb Hb]|[Eb Hb]].
      * eapply IE; eauto.
      * exfalso. subst b. cbn in E. destruct (IC _ _ Ha) as (ch & Hh & _).
        assert (i_sid a < length (s_heap st)) by (apply nth_error_Some; congruence). lia.
      * exfalso. subst a. cbn in E. destruct (IC _ _ Hb) as (ch & Hh & _).
        assert (i_sid b < length (s_heap st)) by (apply nth_error_Some; congruence). lia.
      * lia.
  - (* explicitly given, so far unused storage *)
    destruct (Nat.ltb_spec sid (length (s_heap st))) as [L|G]; [|exact Inv].
    cbn [fst]. split; cbn [s_heap s_insts].
    + intros i ins H. apply nth_error_snoc_inv in H. destruct H as [[_ H]|[_ H]]; [apply IC with i; auto|].
      subst ins. cbn. destruct (nth_error (s_heap st) sid) as [ch|] eqn:Hh.
      * exists ch. split; auto. rewrite (IU _ _ Hh Al). apply cache_ok_nil.
      * apply nth_error_None in Hh. lia.
    + intros sid' ch H U. eapply IU; eauto. intros ins Hin. apply U. apply in_or_app. auto.
    + intros i j a b Ha Hb E.
      apply nth_error_snoc_inv in Ha. apply nth_error_snoc_inv in Hb.
      destruct Ha as [[La Ha]|[Ea Ha]], Hb as [[Lb Hb]|[Eb Hb]].
      * eapply IE; eauto.
      * exfalso. subst b. cbn in E. apply (Al a); auto. eapply nth_error_In; eauto.
      * exfalso. subst a. cbn in E. apply (Al b); auto. eapply nth_error_In; eauto.
      * lia.
Qed.

Lemma inv_validate w st fuel i p :
  state_inv w st -> state_inv w (fst (step false w fuel st (OValidate i p))).
Proof.
  intros Inv. pose proof Inv as [IC IU IE]. cbn [step].
  destruct (nth_error (s_insts st) i) as [ins|] eqn:Hi; [|exact Inv].
  destruct (IC _ _ Hi) as (ch & Hh & Hc). rewrite Hh.
  destruct (validate w (i_cfg ins) fuel ch p) as [[r ch'] tr] eqn:V. cbn [fst].
  assert (L : i_sid ins < length (s_heap st)) by (apply nth_error_Some; congruence).
  pose proof (validate_keeps_cache_ok _ _ _ _ _ _ _ _ Hc V) as Hc'.
  split; cbn [s_heap s_insts].
  - intros j b Hj. destruct (Nat.eq_dec (i_sid b) (i_sid ins)) as [E|N].
    + assert (j = i) by (eapply IE; eauto). subst j. assert (b = ins) by congruence. subst b.
      exists ch'. split; auto. apply heap_set_same; auto.
    + destruct (IC _ _ Hj) as (chb & Hhb & Hcb). exists chb. split; auto.
      rewrite heap_set_other; auto.
  - intros sid c H U. assert (N : sid <> i_sid ins).
    { intros E. subst sid. apply (U ins); auto. eapply nth_error_In; eauto. }
    rewrite heap_set_other in H; auto. eapply IU; eauto.
  - exact IE.
Qed.

Lemma inv_step w st fuel o :
  state_inv w st -> op_allowed st o -> state_inv w (fst (step false w fuel st o)).
Proof.
  intros Inv Al. destruct o as [|sc a s|a s|i p].
  - cbn. apply inv_new_storage; auto.
  - cbn [step]. apply inv_add_inst; auto; destruct s; auto.
  - cbn [step]. apply inv_add_inst; auto; destruct s; auto.
  - apply inv_validate; auto.
Qed.

(* ---------------------------------------------------------------- reachable states ------------- *)
Inductive reachable (w : world) : state -> Prop :=
| R0 : reachable w init_state
| RS st o fuel : reachable w st -> op_allowed st o -> reachable w (fst (step false w fuel st o)).

Lemma reachable_inv w st : reachable w st -> state_inv w st.
Proof. induction 1; [apply inv_init | apply inv_step; auto]. Qed.

(* The verdict of instance i on packet p in ANY reachable state (after any history of constructions
   and validations by any instances) is: accept iff Chain under i's own anchor and schema. *)
Theorem history_independent w st fuel i ins p st' r tr :
  reachable w st ->
  nth_error (s_insts st) i = Some ins ->
  step false w fuel st (OValidate i p) = (st', BVal r tr) ->
  r <> Err EFuel ->
  (r = Ok true <-> Chain w (trust_of (i_cfg ins)) p).
Proof.
  intros R Hi S NF. apply reachable_inv in R. destruct R as [IC _ _].
  cbn [step] in S. rewrite Hi in S. destruct (IC _ _ Hi) as (ch & Hh & Hc). rewrite Hh in S.
  destruct (validate w (i_cfg ins) fuel ch p) as [[r0 ch'] tr0] eqn:V. inversion S; subst.
  eapply validate_iff; eauto.
Qed.

(* two validators with the same anchor and schema, at any two points of any two histories,
   give the same accept/reject verdict on the same packet (whenever both answer) *)
Corollary same_verdict w st1 st2 f1 f2 i1 i2 a b p s1 s2 r1 r2 t1 t2 :
  reachable w st1 -> reachable w st2 ->
  nth_error (s_insts st1) i1 = Some a -> nth_error (s_insts st2) i2 = Some b ->
  trust_of (i_cfg a) = trust_of (i_cfg b) ->
  step false w f1 st1 (OValidate i1 p) = (s1, BVal r1 t1) ->
  step false w f2 st2 (OValidate i2 p) = (s2, BVal r2 t2) ->
  r1 <> Err EFuel -> r2 <> Err EFuel ->
  (r1 = Ok true <-> r2 = Ok true).
Proof.
  intros R1 R2 H1 H2 E S1 S2 N1 N2.
  rewrite (history_independent _ _ _ _ _ _ _ _ _ R1 H1 S1 N1).
  rewrite (history_independent _ _ _ _ _ _ _ _ _ R2 H2 S2 N2).
  rewrite E. tauto.
Qed.

(* Instances are configured by their constructor arguments only: the cfg stored for a new instance
   is exactly what lvs_init / cascade_init computed from (schema, anchor) — nothing from the state. *)
Lemma new_lvs_cfg w fuel st sc a s st' n :
  step false w fuel st (ONewLvs sc a s) = (st', BNew (Ok n)) ->
  exists c sid, lvs_init w sc a = Ok c /\ nth_error (s_insts st') n = Some {| i_cfg := c; i_sid := sid |}.
Proof.
  cbn [step]. unfold add_inst. destruct (lvs_init w sc a) as [c|e]; [|intros H; inversion H].
  destruct (resolve false 0 (s_heap st) s) as [[sid h]|]; [|intros H; inversion H].
  intros H. inversion H; subst. exists c, sid. split; auto. cbn.
  rewrite nth_error_app2 by lia. rewrite Nat.sub_diag. reflexivity.
Qed.
