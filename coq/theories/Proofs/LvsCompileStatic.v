(* The static errors of a schema, stated on the source text, make compile raise SemanticError:
   a reference to an undefined or temporary rule, cyclic references, a constraint on / a reference to a
   pattern that occurs nowhere (a temporary one: not in the rule's own name), a temporary pattern as a
   constraint value. *)
From NDN Require Import Base.Prelude Base.Text Model.TlvVar Model.Name Model.LvsAst Model.LvsChecker Model.LvsCompiler
  Spec.LvsSem Spec.LvsChains Proofs.LvsSanity Proofs.LvsGenTree Proofs.LvsCompileTree
  Proofs.LvsTopOrder Proofs.LvsSortRules Proofs.LvsNumbering Proofs.LvsReplicate Proofs.LvsCompileOk.
Local Open Scope N_scope.

(* ---- renaming of temporary rules ------------------------------------------------------------------------------- *)
Definition same_body (d d' : rule) : Prop := r_name d' = r_name d /\ r_cons d' = r_cons d /\ r_sign d' = r_sign d.

Definition renamed (d d' : rule) : Prop :=
  same_body d d' /\
  (is_temp_rule (r_id d) = false -> r_id d' = r_id d) /\
  (is_temp_rule (r_id d) = true -> is_temp_rule (r_id d') = true).

Lemma is_temp_rule_app r s : is_temp_rule r = true -> is_temp_rule (r ++ s) = true.
Proof. destruct r as [|a [|b r]]; cbn; try discriminate. auto. Qed.

Lemma rename_fwd : forall S k d, In d S -> exists d', In d' (rename_temp_rules k S) /\ renamed d d'.
Proof.
  induction S as [|x S IH]; intros k d Hin; [destruct Hin|]. cbn [rename_temp_rules].
  destruct (is_temp_rule (r_id x)) eqn:Et.
  - destruct Hin as [<-|Hin].
    + eexists. split; [left; reflexivity|]. split; [repeat split|]. split; [congruence|]. intros _. cbn. apply is_temp_rule_app, Et.
    + destruct (IH (k + 1) d Hin) as (d' & H1 & H2). exists d'. split; [right; exact H1 | exact H2].
  - destruct Hin as [<-|Hin].
    + exists x. split; [left; reflexivity|]. split; [repeat split|]. split; [auto | congruence].
    + destruct (IH k d Hin) as (d' & H1 & H2). exists d'. split; [right; exact H1 | exact H2].
Qed.

Lemma rename_bwd : forall S k d', In d' (rename_temp_rules k S) -> exists d, In d S /\ renamed d d'.
Proof.
  induction S as [|x S IH]; intros k d' Hin; [destruct Hin|]. cbn [rename_temp_rules] in Hin.
  destruct (is_temp_rule (r_id x)) eqn:Et.
  - destruct Hin as [<-|Hin].
    + exists x. split; [left; reflexivity|]. split; [repeat split|]. split; [congruence|]. intros _. cbn. apply is_temp_rule_app, Et.
    + destruct (IH (k + 1) d' Hin) as (d & H1 & H2). exists d. split; [right; exact H1 | exact H2].
  - destruct Hin as [<-|Hin].
    + exists x. split; [left; reflexivity|]. split; [repeat split|]. split; [auto | congruence].
    + destruct (IH k d' Hin) as (d & H1 & H2). exists d. split; [right; exact H1 | exact H2].
Qed.

Lemma refs_of_rule_refs d : refs_of d = rule_refs d.
Proof. reflexivity. Qed.

(* ---- undefined / temporary rule reference ------------------------------------------------------------------------- *)
Lemma defined_spec S c : defined S c = true <-> is_temp_rule c = false /\ exists d, In d S /\ r_id d = c.
Proof.
  unfold defined. rewrite andb_true_iff, negb_true_iff, existsb_exists. split.
  - intros [H1 (d & Hd & E)]. apply ident_eqb_eq in E. eauto.
  - intros [H1 (d & Hd & E)]. split; [exact H1|]. exists d. split; [exact Hd | apply ident_eqb_eq; exact E].
Qed.

Lemma ref_ok_defined S c :
  ref_ok (dedup ident_eqb (map r_id (rename_temp_rules 1 S))) c <-> defined S c = true.
Proof.
  unfold ref_ok. rewrite defined_spec, (in_dedup _ ident_eqb_eq), in_map_iff. split.
  - intros [(d' & E & Hd') Ht]. split; [exact Ht|]. destruct (rename_bwd _ _ _ Hd') as (d & Hd & (_ & Hn & Htm)).
    destruct (is_temp_rule (r_id d)) eqn:Etd.
    + specialize (Htm eq_refl). congruence.
    + exists d. split; [exact Hd|]. rewrite <- (Hn eq_refl). exact E.
  - intros [Ht (d & Hd & E)]. split; [|exact Ht]. destruct (rename_fwd _ 1 _ Hd) as (d' & Hd' & (_ & Hn & _)).
    exists d'. split; [|exact Hd']. rewrite Hn; [exact E | congruence].
Qed.

Theorem compile_rejects_bad_reference S d c :
  In d S -> In c (rule_refs d) -> defined S c = false -> compile S = Err ESemantic.
Proof.
  intros Hd Hc Hdef.
  assert (Hs : sort_rule_references S = Err ESemantic).
  { destruct (rename_fwd _ 1 _ Hd) as (d' & Hd' & ((Hname & _) & _)).
    apply (sort_rule_references_bad_ref S d' c Hd').
    - unfold refs_of. rewrite Hname. exact Hc.
    - intros H. apply ref_ok_defined in H. congruence. }
  unfold compile, chains_of. rewrite Hs. reflexivity.
Qed.

(* ---- cyclic references ---------------------------------------------------------------------------------------------- *)
(* x refers to y, x being an ordinary (non temporary) rule *)
Definition src_edge (S : lvsfile) (x y : ident) : Prop :=
  exists d, In d S /\ r_id d = x /\ is_temp_rule x = false /\ In y (rule_refs d).

Fixpoint src_walk (S : lvsfile) (a x : ident) (l : list ident) : Prop :=
  match l with
  | [] => src_edge S x a
  | y :: l' => src_edge S x y /\ src_walk S a y l'
  end.

Lemma src_edge_ref S x y : src_edge S x y -> ref_edge S x y.
Proof.
  intros (d & Hd & Hx & Ht & Hy). destruct (rename_fwd _ 1 _ Hd) as (d' & Hd' & ((Hname & _) & Hn & _)).
  exists d'. split; [exact Hd'|]. split; [rewrite Hn; congruence|]. unfold refs_of. rewrite Hname. exact Hy.
Qed.

Theorem compile_rejects_cyclic_references S a cyc : src_walk S a a cyc -> compile S = Err ESemantic.
Proof.
  intros Hw.
  assert (Hs : sort_rule_references S = Err ESemantic).
  { apply (sort_rule_references_cycle S cyc a). revert Hw. generalize a at 2 4 as x. revert cyc.
    induction cyc as [|y l IH]; intros x H; cbn in *; [apply src_edge_ref, H|].
    destruct H as [H1 H2]. split; [apply src_edge_ref, H1 | apply IH, H2]. }
  unfold compile, chains_of. rewrite Hs. reflexivity.
Qed.

(* ---- constraints on / references to unknown patterns, temporary pattern as a value ----------------------------------- *)
Lemma imem_in p l : imem p l = true <-> In p l.
Proof. unfold imem. apply existsb_ident. Qed.

Lemma named_pats_of_in S p : In p (named_pats_of S) <-> exists d, In d S /\ In (CPat p) (r_name d) /\ is_temp_pat p = false.
Proof.
  unfold named_pats_of. rewrite filter_In, in_flat_map, negb_true_iff. split.
  - intros [(d & Hd & Hp) Ht]. exists d. split; [exact Hd|]. split; [|exact Ht].
    unfold name_pats in Hp. apply in_flat_map in Hp. destruct Hp as (c & Hc & Hp). destruct c as [v|q|r]; [destruct Hp | | destruct Hp]. destruct Hp as [<-|[]]. exact Hc.
  - intros (d & Hd & Hp & Ht). split; [|exact Ht]. exists d. split; [exact Hd|]. unfold name_pats. apply in_flat_map. exists (CPat p). split; [exact Hp | left; reflexivity].
Qed.

Lemma name_pats_in d p : In p (name_pats d) <-> In (CPat p) (r_name d).
Proof.
  unfold name_pats. rewrite in_flat_map. split.
  - intros (c & Hc & Hp). destruct c as [v|q|r]; [destruct Hp | | destruct Hp]. destruct Hp as [<-|[]]. exact Hc.
  - intros H. exists (CPat p). split; [exact H | left; reflexivity].
Qed.

(* the rule set handed to the numbering pass has the same rule bodies as the schema *)
Definition bodies_of (S : lvsfile) (rules : list rule) : Prop :=
  (forall d, In d S -> exists d', In d' rules /\ same_body d d') /\ (forall d', In d' rules -> exists d, In d S /\ same_body d d').

Lemma src_named_bodies S rules p : bodies_of S rules -> (src_named rules p <-> In p (named_pats_of S)).
Proof.
  intros [Hf Hb]. rewrite named_pats_of_in. unfold src_named. split.
  - intros (r & Hr & Hp & Ht). destruct (Hb r Hr) as (d & Hd & (Hn & _)). exists d. rewrite <- Hn. auto.
  - intros (d & Hd & Hp & Ht). destruct (Hf d Hd) as (r & Hr & (Hn & _)). exists r. rewrite Hn. auto.
Qed.

Lemma cons_ok_src S rules d d' tc : bodies_of S rules -> same_body d d' ->
  (LvsSem.cons_ok S d tc = true <-> src_cons_ok rules d' tc).
Proof.
  intros Hb (Hn & _). unfold LvsSem.cons_ok, src_cons_ok. rewrite andb_true_iff, forallb_forall.
  assert (Hl : (if is_temp_pat (tc_pat tc) then imem (tc_pat tc) (name_pats d) else imem (tc_pat tc) (named_pats_of S)) = true <->
               (if is_temp_pat (tc_pat tc) then In (CPat (tc_pat tc)) (r_name d') else src_named rules (tc_pat tc))).
  { destruct (is_temp_pat (tc_pat tc)).
    - rewrite imem_in, name_pats_in, Hn. reflexivity.
    - rewrite imem_in, (src_named_bodies S rules _ Hb). reflexivity. }
  rewrite Hl. split.
  - intros [H1 H2]. split; [exact H1|]. intros p Hp. specialize (H2 p Hp). apply andb_true_iff in H2. destruct H2 as [Ha Hc].
    apply negb_true_iff in Ha. split; [exact Ha|]. apply (src_named_bodies S rules _ Hb). apply imem_in, Hc.
  - intros [H1 H2]. split; [exact H1|]. intros p Hp. destruct (H2 p Hp) as [Ha Hc]. apply andb_true_iff. split; [apply negb_true_iff, Ha|].
    apply imem_in. apply (src_named_bodies S rules _ Hb). exact Hc.
Qed.

Lemma sorted_bodies S sorted order :
  sort_rule_references S = Ok (sorted, order) -> bodies_of S sorted.
Proof.
  intros E. pose proof (sort_rule_references_spec S) as Hs. rewrite E in Hs. destruct Hs as (_ & _ & _ & _ & Hin & _).
  split.
  - intros d Hd. destruct (rename_fwd _ 1 _ Hd) as (d' & Hd' & (Hb & _)). exists d'. split; [apply Hin, Hd' | exact Hb].
  - intros d' Hd'. apply Hin in Hd'. destruct (rename_bwd _ _ _ Hd') as (d & Hd & (Hb & _)). exists d. auto.
Qed.

Theorem compile_rejects_bad_constraint S d cs tc :
  In d S -> In cs (r_cons d) -> In tc cs -> LvsSem.cons_ok S d tc = false -> compile S = Err ESemantic.
Proof.
  intros Hd Hcs Htc Hbad.
  destruct (compile S) as [m|e] eqn:Ec; [|f_equal; eapply compile_err; eauto]. exfalso.
  unfold compile, chains_of in Ec.
  destruct (sort_rule_references S) as [[sorted order]|e1] eqn:Es; cbn [bind fst] in Ec; [|discriminate].
  pose proof (sorted_bodies _ _ _ Es) as Hb.
  pose proof (gen_pattern_numbers_spec sorted) as Hn.
  destruct (gen_pattern_numbers sorted) as [[nrules st]|e2]; cbn [bind] in Ec; [|discriminate].
  destruct Hn as (_ & _ & Hall & _).
  destruct (proj1 Hb d Hd) as (d' & Hd' & Hsame).
  destruct Hsame as (Hn' & Hc' & Hs') eqn:Esame.
  assert (Hcs' : In cs (r_cons d')) by (rewrite Hc'; exact Hcs).
  pose proof (Hall d' cs tc Hd' Hcs' Htc) as Hok.
  apply (cons_ok_src S sorted d d' tc Hb (conj Hn' (conj Hc' Hs'))) in Hok. congruence.
Qed.
