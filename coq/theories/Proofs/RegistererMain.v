(* C17 — the protocol theorems, from [frontend_ok fe] (Properties/C17.v only restates them). *)
From NDN Require Import Base.Prelude Model.TlvVar Model.Name Model.Tlv Model.NfdMgmt Model.Registerer Spec.Registration.
From NDN Require Import Proofs.RegistererBase Proofs.RegistererInv Proofs.RegistererAuto Proofs.RegSpecMeaning
  Proofs.RegSpecPercall Proofs.RegistererLive.
From Coq Require Import Sorting.Sorted.
Local Open Scope N_scope.

Section Main.
  Variable fe : kind -> proto.
  Variable clock : nat -> N.
  Hypothesis Hfe : frontend_ok fe.

  Lemma fe_all_ok k : proto_ok (fe k) = true.
  Proof. destruct Hfe as (A & B & _). destruct k; assumption. Qed.
  Lemma fe_va k : p_validates (fe k) = p_validates (fe KReg).
  Proof. destruct Hfe as (_ & _ & C). destruct k; [reflexivity|now rewrite C]. Qed.
  Let va := p_validates (fe KReg).

  Theorem main_reply_table k r : finish (fe k) r = Ret (answers_200 (p_validates (fe k)) r).
  Proof. exact (finish_ok (fe k) r (fe_all_ok k)). Qed.

  Theorem main_success_iff_200 evs id r o :
    In (ODone id r o) (log (run_events fe clock evs)) -> o = Ret (answers_200 (p_validates (fe KReg)) r).
  Proof. exact (outcomes_ok_meaning _ _ id r o (run_outcomes fe clock va fe_all_ok fe_va evs)). Qed.

  Theorem main_no_raise evs id r o :
    In (ODone id r o) (log (run_events fe clock evs)) -> exists b, o = Ret b.
  Proof. intros H. eexists. exact (main_success_iff_200 evs id r o H). Qed.

  Theorem main_one_at_a_time evs :
    serial_ok (log (run_events fe clock evs)) = true /\ (length (outst (run_events fe clock evs)) <= 1)%nat.
  Proof.
    exact (conj (run_serial fe clock va fe_all_ok fe_va evs) (run_one_outstanding fe clock va fe_all_ok fe_va evs)).
  Qed.

  Theorem main_one_at_a_time_meaning evs l1 c1 l2 c2 l3 :
    log (run_events fe clock evs) = l1 ++ OSend c1 :: l2 ++ OSend c2 :: l3 ->
    exists r o, In (ODone (m_call c1) r o) l2.
  Proof. exact (serial_ok_meaning _ l1 c1 l2 c2 l3 (run_serial fe clock va fe_all_ok fe_va evs)). Qed.

  Theorem main_timestamps evs : StronglySorted N.lt (map m_ts (sends (log (run_events fe clock evs)))).
  Proof. exact (timestamps_ok_sorted _ (run_timestamps fe clock va fe_all_ok fe_va evs)). Qed.

  Theorem main_percall evs : percall_ok (log (run_events fe clock evs)) = true.
  Proof. exact (run_percall fe clock va fe_all_ok fe_va evs). Qed.

  Theorem main_percall_meaning evs :
    let l := log (run_events fe clock evs) in
    NoDup (map m_call (sends l)) /\
    (forall c, In c (sends l) -> exists a, In (OCall (m_call c) (m_kind c) (m_prefix c) a) l) /\
    (forall l1 id r o l2, l = l1 ++ ODone id r o :: l2 -> exists c, In c (sends l1) /\ m_call c = id).
  Proof. exact (percall_ok_meaning _ (main_percall evs)). Qed.

  (* progress of the wait loop (front-ends that use it): a sleeping semaphore holder sends within l+1 ticks *)
  Theorem main_holder_sends evs l id :
    (forall k, exists n, p_ts (fe k) = TsLoop n true) ->
    status (run_events fe clock evs) id = Some (CSleep l) ->
    exists n, (n <= S l)%nat /\
              status (fold_left (step fe clock) (repeat ETick n) (run_events fe clock evs)) id = Some COut.
  Proof.
    intros Hloop. apply (holder_sends_within fe clock va fe_all_ok fe_va Hloop).
    exact (run_inv fe clock va fe_all_ok fe_va evs).
  Qed.

  Theorem main_autoreg evs : autoreg_ok (log (run_events fe clock evs)) = true.
  Proof. exact (run_autoreg fe clock fe_all_ok evs). Qed.
End Main.
