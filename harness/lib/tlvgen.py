"""Random TlvModel descriptors / classes / values, TLV tree edits (shared by C08, C07, C10 ...)."""
from ndn.encoding import tlv_model as TM
from . import gen as G
from . import tlvdesc as D

TYPE_POOL = [1, 2, 3, 4, 5, 6, 8, 9, 10, 11, 20, 21, 100, 101, 128, 129, 250, 251, 252, 253, 254, 255, 256, 257,
             1000, 1001, 65534, 65535, 65536, 65537, 0xFFFFFFFE, 0xFFFFFFFF, 0x100000000]


def pick_types(rng, n, avoid=()):
    out = []
    while len(out) < n:
        t = rng.choice(TYPE_POOL) if rng.random() < 0.8 else rng.randint(1, 1 << 32)
        if t == 7 or t in avoid:
            continue
        if t in out and rng.random() < 0.97:
            continue
        out.append(t)
    return out


def rand_leaf(rng):
    k = rng.random()
    if k < 0.35:
        return ('uint', rng.choice([None, None, None, 1, 2, 4, 8]))
    if k < 0.45:
        return ('bool',)
    if k < 0.7:
        return ('bytes', False)
    if k < 0.85:
        return ('bytes', True)
    return ('name',)


def rand_kind(rng, depth):
    k = rng.random()
    if depth <= 0 or k < 0.6:
        return rand_leaf(rng)
    if k < 0.78:
        return rand_model(rng, depth - 1)
    if k < 0.92:
        e = rand_leaf(rng) if rng.random() < 0.7 else rand_model(rng, depth - 1)
        if e[0] == 'bool':
            e = ('uint', None)
        return ('rep', e)
    kd = rng.choice([('uint', None), ('bytes', True), ('bytes', False), ('uint', 2)])
    vd = rng.choice([('bytes', False), ('uint', None), ('bytes', True)]) if rng.random() < 0.8 else rand_model(rng, depth - 1)
    return ('map', kd, None, vd)


def rand_model(rng, depth, nmax=6):
    n = rng.randint(1, nmax)
    types = pick_types(rng, n)
    fields = []
    for t in types:
        d = rand_kind(rng, depth)
        if d[0] == 'name' or (d[0] == 'rep' and d[1][0] == 'name'):
            t = 7
            if any(ft == 7 for ft, _ in fields):
                d = ('bytes', False)
                t = pick_types(rng, 1, avoid=[x for x, _ in fields])[0]
        if d[0] == 'map':
            vt = pick_types(rng, 1, avoid=types + [t])[0]
            d = ('map', d[1], vt, d[3])
        fields.append((t, d))
    return ['model', rng.random() < 0.15, fields, None]


def strip(d):
    """Descriptor without class references (for comparisons)."""
    k = d[0]
    if k == 'model':
        return ('model', bool(d[1]), tuple((t, strip(x)) for t, x in d[2]))
    if k == 'rep':
        return ('rep', strip(d[1]))
    if k == 'map':
        return ('map', strip(d[1]), d[2], strip(d[3]))
    return tuple(d)


def build_with_inheritance(rng, d):
    """Build the class for a top-level model descriptor, sometimes through a base class +
    IncludeBase (+ an override, declared after the IncludeBase, of one base field, which by the
    documented rule replaces the base field *in place*).  Returns the descriptor obtained by
    reflecting the class that was built; the caller compares it with [d] (metaclass oracle)."""
    fields = d[2]
    if len(fields) < 2 or rng.random() < 0.6:
        cls = D.build_class(list(d[:3]) + [None])
        return D.reflect_class(cls, d[1])
    a = rng.randint(0, len(fields) - 1)
    b = rng.randint(a + 1, len(fields))
    D._cnt[0] += 1
    base_attrs = {f'f{i}': D.build_field(*fields[i]) for i in range(a, b)}
    override = None
    if rng.random() < 0.4:
        override = rng.randint(a, b - 1)
        base_attrs[f'f{override}'] = TM.UintField(fields[override][0] ^ 1 or 3)
    Base = type(f'GenBase{D._cnt[0]}', (TM.TlvModel,), base_attrs)
    attrs = {}
    for i in range(0, a):
        attrs[f'f{i}'] = D.build_field(*fields[i])
    attrs['_base'] = TM.IncludeBase(Base)
    if override is not None:
        attrs[f'f{override}'] = D.build_field(*fields[override])
    for i in range(b, len(fields)):
        attrs[f'f{i}'] = D.build_field(*fields[i])
    cls = type(f'GenDerived{D._cnt[0]}', (Base,), attrs)
    return D.reflect_class(cls, d[1])


UINT_EDGES = [0, 1, 0xFF, 0x100, 0xFFFF, 0x10000, 0xFFFFFFFF, 0x100000000, (1 << 64) - 1]
TEXTS = ['', 'a', 'key1', 'ö', 'Σπυρ', '€uro', '\U0001F600x', 'a' * 253, 'ü' * 127, '\x00', 'x퟿', '']


def rand_value(rng, d, big=False):
    k = d[0]
    if k == 'uint':
        n = rng.choice(UINT_EDGES) if rng.random() < 0.6 else rng.getrandbits(rng.randint(1, 64))
        if d[1] is not None and rng.random() < 0.9:
            n %= 256 ** d[1]
        if rng.random() < 0.03:
            n = rng.choice([1 << 64, (1 << 64) + 1])
        return ('u', n)
    if k == 'bool':
        return ('t',)
    if k == 'bytes':
        if d[1]:
            s = rng.choice(TEXTS) if rng.random() < 0.7 else ''.join(chr(rng.choice([rng.randint(32, 126), rng.randint(0xA0, 0x7FF), rng.randint(0x800, 0xD7FF), rng.randint(0x10000, 0x10FFFF)])) for _ in range(rng.randint(1, 8)))
            return ('b', s.encode('utf-8'))
        n = rng.choice([0, 1, 2, 5, 30, 251, 252, 253, 254, 255, 256]) if not big else rng.choice([65535, 65536, 70000])
        return ('b', G.rand_bytes(rng, n))
    if k == 'name':
        return ('n', G.name_of_tv(G.rand_name_tv(rng, 4)))
    if k == 'model':
        return ('m', [None if rng.random() < 0.3 else rand_value(rng, fd) for t, fd in d[2]])
    if k == 'rep':
        return ('l', [rand_value(rng, d[1]) for _ in range(rng.randint(1, 4))])
    if k == 'map':
        keys, out = set(), []
        for _ in range(rng.randint(1, 4)):
            kv = rand_value(rng, d[1])
            if kv[1] in keys or (kv[0] == 'u' and kv[1] >= 1 << 64):
                continue
            keys.add(kv[1])
            out.append((kv, rand_value(rng, d[3])))
        return ('d', out) if out else None
    raise D.Unsupported(k)


# ---- TLV trees for structural edits -------------------------------------------------------------
def tlv_walk(w):
    """Strict split of w into [(t, payload)] or None."""
    out, off = [], 0
    n = len(w)
    while off < n:
        try:
            t, a = read_num(w, off)
            l, b = read_num(w, off + a)
        except Exception:
            return None
        if off + a + b + l > n:
            return None
        out.append((t, bytes(w[off + a + b: off + a + b + l])))
        off += a + b + l
    return out


def read_num(w, off):
    b = w[off]
    if b <= 0xFC:
        return b, 1
    k = {0xFD: 2, 0xFE: 4, 0xFF: 8}[b]
    if off + 1 + k > len(w):
        raise IndexError
    return int.from_bytes(w[off + 1: off + 1 + k], 'big'), 1 + k


def ser(els):
    return b''.join(G.tlv(t, p) for t, p in els)


def tree_of(d, w):
    """Element tree guided by a model descriptor: [(t, payload | subtree, desc-of-submodel|None)]."""
    els = tlv_walk(w)
    if els is None:
        return None
    out = []
    for t, p in els:
        sub = None
        for ft, fd in d[2]:
            cand = None
            if ft == t:
                cand = fd if fd[0] == 'model' else (fd[1] if fd[0] == 'rep' and fd[1][0] == 'model' else None)
            if fd[0] == 'map' and fd[2] == t and fd[3][0] == 'model':
                cand = fd[3]
            if cand is not None:
                sub = cand
                break
        if sub is not None:
            st = tree_of(sub, p)
            if st is not None:
                out.append([t, st, sub])
                continue
        out.append([t, p, None])
    return out


def ser_tree(tr):
    return b''.join(G.tlv(t, ser_tree(p) if isinstance(p, list) else p) for t, p, _ in tr)


def levels(tr, d, path=()):
    """All (path, children list, descriptor) levels of a tree."""
    yield path, tr, d
    for i, (t, p, sub) in enumerate(tr):
        if isinstance(p, list):
            yield from levels(p, sub, path + (i,))
