"""Reflection of ndn TlvModel classes into the descriptor language of Model/Tlv.v, construction of
TlvModel classes from descriptors, and conversion of values both ways.

Descriptor (python form):  ('uint', fixed|None) | ('bool',) | ('bytes', is_string) | ('name',)
 | ('model', ignore_critical, [(type_num, desc), ...], cls) | ('rep', desc) | ('map', kdesc, vtype, vdesc)
Value (python form of Model/Tlv.v [value]): None | ('u', n) | ('t',) | ('b', bytes) | ('n', [bytes])
 | ('m', [values]) | ('l', [values]) | ('d', [(k, v)])
"""
from ndn.encoding import tlv_model as TM
from ndn.encoding.name import Name


class Unsupported(Exception):
    pass


def reflect_field(f):
    """-> (type_num, desc) or None for fields without wire presence."""
    if isinstance(f, TM.ProcedureArgument):   # includes OffsetMarker
        return None
    if isinstance(f, TM.UintField):
        return (f.type_num, ('uint', f.fixed_len))
    if isinstance(f, TM.BoolField):
        return (f.type_num, ('bool',))
    if isinstance(f, TM.SignatureValueField):
        return (f.type_num, ('bytes', False))
    if isinstance(f, TM.BytesField):
        return (f.type_num, ('bytes', bool(f.is_string)))
    if isinstance(f, (TM.NameField, TM.InterestNameField)):
        return (f.type_num, ('name',))
    if isinstance(f, TM.ModelField):
        return (f.type_num, reflect_class(f.model_type, bool(f.ignore_critical)))
    if isinstance(f, TM.RepeatedField):
        t, d = reflect_field(f.element_type)
        return (f.type_num, ('rep', d))
    if isinstance(f, TM.MapField):
        kt, kd = reflect_field(f.key_type)
        vt, vd = reflect_field(f.value_type)
        return (f.type_num, ('map', kd, vt, vd))
    raise Unsupported(f'field class {type(f).__name__}')


def reflect_class(cls, ignore_critical=False):
    fields = []
    for f in cls._encoded_fields:
        r = reflect_field(f)
        if r is not None:
            fields.append(r)
    return ('model', ignore_critical, fields, cls)


def wire_fields(cls):
    """The Field objects with wire presence, in descriptor order."""
    return [f for f in cls._encoded_fields if not isinstance(f, TM.ProcedureArgument)]


# ---- descriptor -> s-expression (see Extract/ExC08.v as_kind) --------------------------------
def desc_sexp(d):
    k = d[0]
    if k == 'uint':
        return [0] if d[1] is None else [0, d[1]]
    if k == 'bool':
        return [1]
    if k == 'bytes':
        return [2, 1 if d[1] else 0]
    if k == 'name':
        return [3]
    if k == 'model':
        return [4, 1 if d[1] else 0, [[t, desc_sexp(x)] for t, x in d[2]]]
    if k == 'rep':
        return [5, desc_sexp(d[1])]
    if k == 'map':
        return [6, desc_sexp(d[1]), d[2], desc_sexp(d[3])]
    raise Unsupported(k)


def fields_sexp(d):
    assert d[0] == 'model'
    return [[t, desc_sexp(x)] for t, x in d[2]]


def val_sexp(v):
    if v is None:
        return []
    k = v[0]
    if k == 'u':
        return [1, v[1]]
    if k == 't':
        return [2]
    if k == 'b':
        return [3, bytes(v[1])]
    if k == 'n':
        return [4, [bytes(c) for c in v[1]]]
    if k == 'm':
        return [5, [val_sexp(x) for x in v[1]]]
    if k == 'l':
        return [6, [val_sexp(x) for x in v[1]]]
    if k == 'd':
        return [7, [[val_sexp(a), val_sexp(b)] for a, b in v[1]]]
    raise Unsupported(k)


def val_of_sexp(s):
    if s == []:
        return None
    k = s[0]
    if k == 1:
        return ('u', s[1])
    if k == 2:
        return ('t',)
    if k == 3:
        return ('b', s[1])
    if k == 4:
        return ('n', list(s[1]))
    if k == 5:
        return ('m', [val_of_sexp(x) for x in s[1]])
    if k == 6:
        return ('l', [val_of_sexp(x) for x in s[1]])
    if k == 7:
        return ('d', [(val_of_sexp(a), val_of_sexp(b)) for a, b in s[1]])
    raise Unsupported(repr(s))


# ---- descriptor -> class -------------------------------------------------------------------------
_cnt = [0]


def build_field(t, d):
    k = d[0]
    if k == 'uint':
        return TM.UintField(t, fixed_len=d[1])
    if k == 'bool':
        return TM.BoolField(t)
    if k == 'bytes':
        return TM.BytesField(t, is_string=d[1])
    if k == 'name':
        return TM.NameField(type_number=t)
    if k == 'model':
        return TM.ModelField(t, build_class(d), ignore_critical=d[1])
    if k == 'rep':
        return TM.RepeatedField(build_field(t, d[1]))
    if k == 'map':
        return TM.MapField(build_field(t, d[1]), build_field(d[2], d[3]))
    raise Unsupported(k)


def build_class(d):
    """Create (once) the TlvModel class for a ('model', ic, fields, cls) descriptor; stores it in d[3]."""
    if d[3] is not None:
        return d[3]
    _cnt[0] += 1
    attrs = {}
    for i, (t, fd) in enumerate(d[2]):
        attrs[f'f{i}'] = build_field(t, fd)
    cls = type(f'Gen{_cnt[0]}', (TM.TlvModel,), attrs)
    d[3] = cls
    return cls


# ---- value -> python object ---------------------------------------------------------------------
def to_py(d, v):
    if v is None:
        return None
    k = d[0]
    if k == 'uint':
        return v[1]
    if k == 'bool':
        return True
    if k == 'bytes':
        return bytes(v[1]).decode('utf-8') if d[1] else bytes(v[1])
    if k == 'name':
        return [bytes(c) for c in v[1]]
    if k == 'model':
        cls = d[3]
        obj = cls()
        for f, (t, fd), fv in zip(wire_fields(cls), d[2], v[1]):
            pv = to_py(fd, fv)
            if fd[0] in ('rep', 'map') and pv is None:
                continue
            obj.__dict__[f.name] = pv      # bypass descriptors: set exactly this value (None = omitted)
        return obj
    if k == 'rep':
        return [to_py(d[1], x) for x in v[1]]
    if k == 'map':
        return {to_py(d[1], a): to_py(d[3], b) for a, b in v[1]}
    raise Unsupported(k)


def from_py(d, o, present=True):
    """python object (as produced by TlvModel.parse) -> value."""
    k = d[0]
    if o is None:
        return None
    if k == 'uint':
        return ('u', int(o))
    if k == 'bool':
        return ('t',) if o else None
    if k == 'bytes':
        return ('b', o.encode('utf-8') if isinstance(o, str) else bytes(o))
    if k == 'name':
        if isinstance(o, str):
            return ('n', ['STR:' + o])     # never equal to a model answer: flags the default "/" leaking out
        return ('n', [bytes(c) for c in o])
    if k == 'model':
        cls = d[3]
        vals = []
        for f, (t, fd) in zip(wire_fields(cls), d[2]):
            if f.name in o.__dict__:
                vals.append(from_py(fd, o.__dict__[f.name]))
            else:
                vals.append(None)
        return ('m', vals)
    if k == 'rep':
        return ('l', [from_py(d[1], x) for x in o]) if len(o) else None
    if k == 'map':
        return ('d', [(from_py(d[1], a), from_py(d[3], b)) for a, b in o.items()]) if len(o) else None
    raise Unsupported(k)


def coq_desc(d):
    """Gallina text of a descriptor (for Generated/Schemas.v)."""
    k = d[0]
    if k == 'uint':
        return '(KUint None)' if d[1] is None else f'(KUint (Some {d[1]}))'
    if k == 'bool':
        return 'KBool'
    if k == 'bytes':
        return f'(KBytes {"true" if d[1] else "false"})'
    if k == 'name':
        return 'KName'
    if k == 'model':
        return f'(KModel {coq_fields(d)} {"true" if d[1] else "false"})'
    if k == 'rep':
        return f'(KRepeated {coq_desc(d[1])})'
    if k == 'map':
        return f'(KMap {coq_desc(d[1])} {d[2]} {coq_desc(d[3])})'
    raise Unsupported(k)


def coq_fields(d):
    return '[' + '; '.join(f'({t}, {coq_desc(x)})' for t, x in d[2]) + ']'
