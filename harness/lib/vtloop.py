"""Virtual-time asyncio loop (DESIGN.md §2.6): time() is a virtual clock; when nothing is ready the
selector does not block but jumps the clock forward by the requested timeout.  Runs are
deterministic and 10 virtual seconds cost ~0.1 s of wall time."""
import asyncio
import gc
import selectors


class VSelector(selectors.DefaultSelector):
    def __init__(self, ref):
        super().__init__()
        self.ref = ref

    def select(self, timeout=None):
        ev = super().select(0)
        if not ev and timeout:
            self.ref[0]._vt += timeout      # never block: jump the clock
        return ev


class VLoop(asyncio.SelectorEventLoop):
    def __init__(self, start=1000.0):
        self._vt = start
        ref = [None]
        super().__init__(VSelector(ref))
        ref[0] = self
        self.errors = []      # contexts passed to the loop exception handler
        self.set_exception_handler(lambda loop, ctx: self.errors.append(ctx))

    def time(self):
        return self._vt

    def now_ms(self):
        return int(round(self._vt * 1000))

    def settle(self, rounds=50):
        """Run ready callbacks at the current virtual time until quiescent (no clock advance)."""
        for _ in range(rounds):
            self.call_soon(self.stop)
            self.run_forever()
            if not self._ready:
                break

    def advance_to(self, t):
        """Advance virtual time to t (seconds), firing timers on the way in order."""
        async def sleeper():
            d = t - self._vt
            if d > 0:
                await asyncio.sleep(d)
        self.run_until_complete(sleeper())
        self.settle()

    def collect_errors(self):
        """'Task exception was never retrieved' only reaches the handler at garbage collection."""
        gc.collect()
        self.settle()
        return list(self.errors)


def new_loop(start=1000.0):
    loop = VLoop(start)
    asyncio.set_event_loop(loop)
    return loop
