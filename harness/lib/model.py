"""Client for the extracted model executable (ocaml/driver.ml).

Python value <-> s-expression:  int -> number, bytes/bytearray/memoryview -> byte string,
list/tuple -> list, bool -> 0/1, None -> ().  Numbers >= 2**62 are sent as big-endian bytes
(the Gallina side accepts either form for a number, Sexp.as_num).
"""
import subprocess


class ModelError(Exception):
    pass


def dumps(v):
    if v is None:
        return '()'
    if v is True:
        return '1'
    if v is False:
        return '0'
    if isinstance(v, int):
        if v < 0:
            raise ModelError(f'negative number {v}')
        if v >= 1 << 62:
            return 'x' + v.to_bytes((v.bit_length() + 7) // 8, 'big').hex()
        return str(v)
    if isinstance(v, (bytes, bytearray, memoryview)):
        return 'x' + bytes(v).hex()
    if isinstance(v, (list, tuple)):
        return '(' + ' '.join(dumps(x) for x in v) + ')'
    raise ModelError(f'cannot encode {type(v)}')


def loads(s):
    pos = 0
    n = len(s)
    stack = [[]]
    while pos < n:
        c = s[pos]
        if c == ' ':
            pos += 1
        elif c == '(':
            stack.append([])
            pos += 1
        elif c == ')':
            top = stack.pop()
            stack[-1].append(top)
            pos += 1
        elif c == 'x':
            e = pos + 1
            while e < n and s[e] not in ' ()':
                e += 1
            stack[-1].append(bytes.fromhex(s[pos + 1:e]))
            pos = e
        else:
            e = pos
            while e < n and s[e] not in ' ()':
                e += 1
            stack[-1].append(int(s[pos:e]))
            pos = e
    if len(stack) != 1 or len(stack[0]) != 1:
        raise ModelError(f'bad answer {s[:200]!r}')
    return stack[0][0]


class Model:
    """One model.exe subprocess; line protocol with a per-call timeout (a model that does not
    answer is a model bug or an unguarded nat blow-up, never a property verdict)."""
    TIMEOUT = 120.0

    def __init__(self, exe):
        self.exe = exe
        self.p = None
        self.calls = 0
        self._buf = b''

    def start(self):
        self.p = subprocess.Popen(['bash', '-c', f'ulimit -s unlimited 2>/dev/null; ulimit -v 16000000 2>/dev/null; exec "{self.exe}"'],
                                  stdin=subprocess.PIPE, stdout=subprocess.PIPE, bufsize=0)
        self._buf = b''

    def _readline(self, what):
        import os
        import select
        import time
        deadline = time.time() + self.TIMEOUT
        while b'\n' not in self._buf:
            left = deadline - time.time()
            if left <= 0:
                self.kill()
                raise ModelError(f'model timed out on {what[:300]}')
            r, _, _ = select.select([self.p.stdout], [], [], left)
            if not r:
                continue
            chunk = os.read(self.p.stdout.fileno(), 1 << 16)
            if not chunk:
                self.kill()
                raise ModelError(f'model died on {what[:300]}')
            self._buf += chunk
        line, self._buf = self._buf.split(b'\n', 1)
        return line.decode()

    def kill(self):
        if self.p is not None:
            try:
                self.p.kill()
                self.p.wait(timeout=5)
            except Exception:
                pass
            self.p = None

    def call(self, req):
        if self.p is None or self.p.poll() is not None:
            self.start()
        line = dumps(req)
        self.p.stdin.write((line + '\n').encode())
        ans = self._readline(line)
        self.calls += 1
        if ans.startswith('!'):
            raise ModelError(f'{ans} on {line[:300]}')
        return loads(ans)

    def call_many(self, reqs):
        return [self.call(r) for r in reqs]

    def close(self):
        if self.p is not None:
            try:
                self.p.stdin.close()
                self.p.wait(timeout=5)
            except Exception:
                self.p.kill()
            self.p = None


ERR_NAMES = {1: 'DecodeError', 2: 'IndexError', 3: 'ValueError', 4: 'struct.error', 5: 'TypeError',
             6: 'UnicodeError', 7: 'KeyError', 8: 'InvalidStateError', 9: 'AttributeError',
             10: 'OverflowError', 98: 'BAD_REQUEST', 99: 'OUT_OF_FUEL'}


def is_err(ans):
    return isinstance(ans, list) and len(ans) == 2 and ans[0] == 0 and isinstance(ans[1], int)


def err_name(ans):
    return ERR_NAMES.get(ans[1], f'Other{ans[1]}')


def exc_code(e):
    """Map a Python exception raised by the implementation to the model's error code."""
    import struct
    from ndn.encoding import DecodeError
    if isinstance(e, DecodeError):
        return 1
    if isinstance(e, IndexError):
        return 2
    if isinstance(e, UnicodeError):
        return 6
    if isinstance(e, ValueError):
        return 3
    if isinstance(e, struct.error):
        return 4
    if isinstance(e, TypeError):
        return 5
    if isinstance(e, KeyError):
        return 7
    if isinstance(e, AttributeError):
        return 9
    if isinstance(e, OverflowError):
        return 10
    try:
        import asyncio
        if isinstance(e, asyncio.InvalidStateError):
            return 8
    except Exception:
        pass
    return 1000
