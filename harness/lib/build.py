"""Build step shared by every check: regenerate Generated/*.v from /repo, (re)build the Coq
targets a property needs (full .vo, never -vos), extract and compile the model executable.

Everything is rebuilt from /repo's *current working tree*: the generators import / parse
/repo/src afresh on every call and `make` decides what has to be re-checked.
"""
import fcntl
import glob
import hashlib
import json
import os
import re
import subprocess
import sys
import time

VERIF = os.path.dirname(os.path.dirname(os.path.dirname(os.path.abspath(__file__))))
COQ = os.path.join(VERIF, 'coq')
THEORIES = os.path.join(COQ, 'theories')
OCAML_BUILD = os.path.join(VERIF, 'ocaml', 'build')
REPO = os.environ.get('VERIF_REPO', '/repo')
REPO_SRC = os.environ.get('VERIF_REPO_SRC', os.path.join(REPO, 'src'))
PY = os.environ.get('VERIF_PYTHON', '/venv/bin/python')
LOGS = os.path.join(COQ, 'logs')

COQ_TIMEOUT = int(os.environ.get('VERIF_COQ_TIMEOUT', '1500'))


class BuildResult:
    def __init__(self):
        self.ok = True
        self.stage = None          # 'generate' | 'coq' | 'ocaml'
        self.failed_file = None    # .v file that no longer checks
        self.failed_where = None   # "File ..., line ..." + message
        self.log = ''
        self.generated_changed = []
        self.wall_s = 0.0
        self.reference_model = None   # path of the reference executable used for the search, when the model of this tree could not be built

    def describe(self):
        if self.ok:
            return 'build ok'
        return f'{self.stage} failed: {self.failed_file or ""} {self.failed_where or ""}'.strip()


def _run(cmd, cwd=None, timeout=COQ_TIMEOUT, env=None):
    e = dict(os.environ)
    e.update({'PYTHONPATH': VERIF + os.pathsep + REPO_SRC, 'PYTHONHASHSEED': '0', 'LC_ALL': 'C'})
    if env:
        e.update(env)
    try:
        p = subprocess.run(cmd, cwd=cwd, env=e, stdout=subprocess.PIPE, stderr=subprocess.STDOUT,
                           timeout=timeout, text=True, errors='replace')
        return p.returncode, p.stdout
    except subprocess.TimeoutExpired as ex:
        out = ex.stdout if isinstance(ex.stdout, str) else (ex.stdout or b'').decode('utf8', 'replace')
        return 124, out + f'\n[timeout after {timeout}s]\n'


class Lock:
    def __enter__(self):
        self.f = open(os.path.join(VERIF, '.build.lock'), 'w')
        fcntl.flock(self.f, fcntl.LOCK_EX)
        return self

    def __exit__(self, *a):
        fcntl.flock(self.f, fcntl.LOCK_UN)
        self.f.close()


def write_if_changed(path, content):
    try:
        with open(path) as f:
            if f.read() == content:
                return False
    except FileNotFoundError:
        pass
    tmp = path + '.tmp'
    with open(tmp, 'w') as f:
        f.write(content)
    os.replace(tmp, path)
    return True


def generators():
    """Every tools/gen_*.py is a translator; its output file is named by a line  OUTPUT = 'X.v'."""
    out = []
    for spath in sorted(glob.glob(os.path.join(VERIF, 'tools', 'gen_*.py'))):
        m = re.search(r"^OUTPUT\s*=\s*'([A-Za-z0-9_]+\.v)'", open(spath).read(), re.M)
        if m:
            out.append((os.path.relpath(spath, VERIF), m.group(1)))
    return out


def regenerate(res):
    """Run T1/T2 translators.  A translator that aborts (fail-closed) writes a Generated file
    containing a deliberate type error naming the reason, so the dependent obligations break."""
    for script, out in generators():
        spath = os.path.join(VERIF, script)
        if not os.path.exists(spath):
            continue
        opath = os.path.join(THEORIES, 'Generated', out)
        rc, text = _run([PY, spath], cwd=VERIF, timeout=120)
        if rc != 0:
            reason = text.strip().splitlines()[-1] if text.strip() else 'no output'
            reason = re.sub(r'[^A-Za-z0-9_ .,:=<>()\[\]/-]', '?', reason)[:300]
            text = ('(* TRANSLATOR ABORTED: %s *)\n'
                    'Definition translator_aborted : False := I.\n' % reason)
            res.log += f'[generate] {script} aborted: {reason}\n'
        if write_if_changed(opath, text):
            res.generated_changed.append(out)


def coq_project():
    files = sorted(glob.glob(os.path.join(THEORIES, '**', '*.v'), recursive=True))
    rel = [os.path.relpath(f, COQ) for f in files]
    content = '-Q theories NDN\n-arg -w -arg -notation-overridden,-deprecated-hint-without-locality,' \
              '-extraction-opaque-accessed,-extraction-reserved-identifier,-deprecated-instance-without-locality\n' + '\n'.join(rel) + '\n'
    changed = write_if_changed(os.path.join(COQ, '_CoqProject'), content)
    if changed or not os.path.exists(os.path.join(COQ, 'Makefile')):
        _run(['coq_makefile', '-f', '_CoqProject', '-o', 'Makefile'], cwd=COQ, timeout=120)
    return rel


ERR_RE = re.compile(r'File "\./?(theories/[^"]+)", line (\d+), characters [\d-]+:\s*\n(?:Warning[^\n]*\n(?:[^\n]*\n)*?)?Error:?\s*((?:[^\n]*\n){0,12})')


def _parse_coq_error(out):
    # last "File ..., line" followed by "Error"
    best = None
    for m in re.finditer(r'File "\./?(theories/[^"]+)", line (\d+), characters ([\d-]+):\n(Error[^\n]*(?:\n[^\n]*){0,10})', out):
        best = (m.group(1), f'line {m.group(2)}: ' + ' '.join(m.group(4).split())[:400])
    if best is None:
        m = re.search(r'make.*\*\*\* \[[^\]]*?(theories/[^\]: ]+)\.vo', out)
        if m:
            best = (m.group(1) + '.v', 'make failed (timeout or crash)')
    return best


def make_targets(targets, res, jobs=16):
    if not targets:
        return
    os.makedirs(LOGS, exist_ok=True)
    t0 = time.time()
    rc, out = _run(['make', '-j', str(jobs), '--no-print-directory'] + targets, cwd=COQ)
    res.log += out[-20000:]
    res.wall_s += time.time() - t0
    if rc != 0:
        res.ok = False
        res.stage = 'coq'
        pe = _parse_coq_error(out)
        if pe:
            res.failed_file, res.failed_where = pe
        else:
            res.failed_where = out[-600:]


def prop_targets(prop):
    """.vo targets for one property: its Properties file and its extraction file (if present)."""
    t = []
    for rel in (f'theories/Properties/{prop}.v', f'theories/Properties/{prop}Findings.v', f'theories/Extract/Ex{prop}.v'):
        if os.path.exists(os.path.join(COQ, rel)):
            t.append(rel[:-2] + '.vo')
    return t


def all_targets():
    rel = coq_project()
    return [r[:-2] + '.vo' for r in rel]


def build_exe(prop, res):
    """ocamlfind-compile ocaml/build/<prop>/model.ml (written by Extract/Ex<prop>.v) + driver."""
    d = os.path.join(OCAML_BUILD, prop)
    ml = os.path.join(d, 'model.ml')
    if not os.path.exists(ml):
        return None
    exe = os.path.join(d, 'model.exe')
    drv = os.path.join(VERIF, 'ocaml', 'driver.ml')
    stamp = os.path.join(d, '.stamp')
    h = hashlib.sha256()
    for p in (ml, drv):
        with open(p, 'rb') as f:
            h.update(f.read())
    digest = h.hexdigest()
    if os.path.exists(exe) and os.path.exists(stamp) and open(stamp).read() == digest:
        return exe
    t0 = time.time()
    mli = os.path.join(d, 'model.mli')
    for f in glob.glob(os.path.join(d, '*.cm*')) + glob.glob(os.path.join(d, '*.o')):
        os.remove(f)
    with open(os.path.join(d, 'driver.ml'), 'w') as f:
        f.write(open(drv).read())
    srcs = (['model.mli'] if os.path.exists(mli) else []) + ['model.ml', 'driver.ml']
    rc, out = _run(['ocamlfind', 'ocamlopt', '-w', '-a', '-package', 'zarith', '-linkpkg',
                    '-o', 'model.exe'] + srcs, cwd=d, timeout=600)
    res.wall_s += time.time() - t0
    if rc != 0:
        res.ok = False
        res.stage = 'ocaml'
        res.failed_where = out[-800:]
        res.log += out[-4000:]
        return None
    with open(stamp, 'w') as f:
        f.write(digest)
    return exe


OCAML_REF = os.path.join(VERIF, 'ocaml', 'ref')


def save_reference():
    """after a build in which everything checked: keep a copy of every extracted executable"""
    import shutil
    for exe in glob.glob(os.path.join(OCAML_BUILD, '*', 'model.exe')):
        d = os.path.join(OCAML_REF, os.path.basename(os.path.dirname(exe)))
        os.makedirs(d, exist_ok=True)
        tmp = os.path.join(d, 'model.exe.tmp')
        shutil.copy2(exe, tmp)
        os.replace(tmp, os.path.join(d, 'model.exe'))


def ensure(prop=None, everything=False):
    """Regenerate + build.  Returns (BuildResult, exe path or None).
    Model/Spec/Extract never depend on Proofs/Properties, so the executable model is still
    produced when a proof obligation breaks (needed for the failing-input search)."""
    res = BuildResult()
    t0 = time.time()
    with Lock():
        os.makedirs(os.path.join(THEORIES, 'Generated'), exist_ok=True)
        for ex in glob.glob(os.path.join(THEORIES, 'Extract', 'Ex*.v')):
            os.makedirs(os.path.join(OCAML_BUILD, os.path.basename(ex)[2:-2]), exist_ok=True)
        regenerate(res)
        coq_project()
        exe = None
        if everything:
            make_targets(all_targets(), res)
            if res.ok:
                for p in sorted(glob.glob(os.path.join(THEORIES, 'Extract', 'Ex*.v'))):
                    build_exe(os.path.basename(p)[2:-2], res)
            if res.ok:
                save_reference()
        else:
            ex_t = [t for t in prop_targets(prop) if '/Extract/' in t]
            pr_t = [t for t in prop_targets(prop) if '/Properties/' in t]
            r_ex = BuildResult()
            make_targets(ex_t, r_ex)
            res.log += r_ex.log
            if r_ex.ok:
                exe = build_exe(prop, r_ex)
            make_targets(pr_t, res)
            if not r_ex.ok and res.ok:
                res.ok, res.stage, res.failed_file, res.failed_where = False, r_ex.stage, r_ex.failed_file, r_ex.failed_where
            if exe is None:
                # The model of THIS tree cannot be produced (a translator aborted, or a generated file no longer fits
                # the model).  That is reported as a broken obligation whatever happens next; for the failing-input
                # search only, use the reference model: the executable extracted by the last `./check --setup` on
                # which every theorem checked.
                ref = os.path.join(OCAML_REF, prop, 'model.exe')
                if os.path.exists(ref):
                    exe = ref
                    res.reference_model = ref
    res.wall_s = time.time() - t0
    return res, exe


# ---- obligations / assumptions -------------------------------------------------------------

REQ_RE = re.compile(r'^\s*(?:From\s+NDN\s+)?Require\s+(?:Import\s+|Export\s+)?([^.]*(?:\.[A-Za-z_][\w.]*)*)\s*\.\s*$', re.M)


def _requires(vfile):
    txt = open(vfile).read()
    txt = re.sub(r'\(\*.*?\*\)', '', txt, flags=re.S)
    mods = []
    for m in re.finditer(r'(From\s+NDN\s+)?Require\s+(?:Import\s+|Export\s+)?', txt):
        end = re.search(r'\.(\s|$)', txt[m.end():])
        if not end:
            continue
        for name in txt[m.end(): m.end() + end.start()].split():
            if name.startswith('NDN.'):
                name = name[4:]
            elif not m.group(1):
                continue
            mods.append(name)
    return mods


def dep_closure(prop_file):
    seen, todo = [], [prop_file]
    while todo:
        f = todo.pop()
        if f in seen or not os.path.exists(f):
            continue
        seen.append(f)
        for mod in _requires(f):
            todo.append(os.path.join(THEORIES, *mod.split('.')) + '.v')
    return seen


def count_obligations(prop):
    pf = os.path.join(THEORIES, 'Properties', f'{prop}.v')
    n = 0
    files = dep_closure(pf)
    for f in files:
        txt = re.sub(r'\(\*.*?\*\)', '', open(f).read(), flags=re.S)
        n += len(re.findall(r'\b(?:Qed|Defined)\s*\.', txt))
    return n, [os.path.relpath(f, COQ) for f in files]


def theorem_names(prop):
    pf = os.path.join(THEORIES, 'Properties', f'{prop}.v')
    if not os.path.exists(pf):
        return []
    txt = re.sub(r'\(\*.*?\*\)', '', open(pf).read(), flags=re.S)
    return re.findall(r'\b(?:Theorem|Corollary)\s+(\w+)', txt)


def print_assumptions(prop):
    """Ask Coq which axioms each property theorem depends on (fresh coqc run)."""
    names = theorem_names(prop)
    if not names:
        return {}
    os.makedirs(LOGS, exist_ok=True)
    tmp = os.path.join(LOGS, f'PA_{prop}.v')
    with open(tmp, 'w') as f:
        f.write(f'From NDN Require Import Properties.{prop}.\n')
        for n in names:
            f.write(f'Print Assumptions {n}.\n')
    rc, out = _run(['coqc', '-Q', 'theories', 'NDN', tmp], cwd=COQ, timeout=300)
    for ext in ('.vo', '.vok', '.vos', '.glob'):
        try:
            os.remove(tmp[:-2] + ext)
        except OSError:
            pass
    try:
        os.remove(os.path.join(LOGS, f'.PA_{prop}.aux'))
    except OSError:
        pass
    if rc != 0:
        return {'_error': out[-500:]}
    # split by answer
    chunks = re.split(r'(?=Closed under the global context|Axioms:)', out)
    chunks = [c.strip() for c in chunks if c.strip()]
    result = {}
    for n, c in zip(names, chunks):
        result[n] = 'closed' if c.startswith('Closed') else ' '.join(c.split())[:600]
    return result


FORBIDDEN = re.compile(r'\b(Admitted|admit|Axiom|Axioms|Parameter|Parameters|Conjecture|Hypothesis|Variable|'
                       r'Unset\s+Guard|bypass_check|type-in-type|impredicative-set|Admit\s+Obligations|'
                       r'Unset\s+Positivity|Unset\s+Universe)\b')


def audit_sources():
    """Textual audit: no Admitted/Axiom/... ; Variable/Hypothesis only inside a Section."""
    bad = []
    for f in sorted(glob.glob(os.path.join(THEORIES, '**', '*.v'), recursive=True)):
        txt = re.sub(r'\(\*.*?\*\)', lambda m: ' ' * len(m.group(0)), open(f).read(), flags=re.S)
        stack = []
        for ln, line in enumerate(txt.split('\n'), 1):
            if re.match(r'\s*Section\s+\w+\s*\.', line):
                stack.append('S')
            elif re.match(r'\s*Module\s+(Type\s+)?\w+[^=]*\.\s*$', line) and ':=' not in line:
                stack.append('M')
            elif re.match(r'\s*End\s+\w+\s*\.', line) and stack:
                stack.pop()
            m = FORBIDDEN.search(line)
            if m:
                w = m.group(1)
                if w in ('Hypothesis', 'Variable') and 'S' in stack:
                    continue
                bad.append(f'{os.path.relpath(f, VERIF)}:{ln}: {w}')
    return bad
