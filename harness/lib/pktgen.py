"""Building Interests/Data with the real encoders and every shipped signer, with a recording wrapper that
captures exactly what the encoder hands to the signer (C01, C02, C16)."""
from ndn.encoding import Signer, make_interest, make_data, InterestParam, MetaInfo, SignatureInfo
from ndn.encoding import ndn_format_0_3 as F
from . import gen as G
from . import tlvdesc as D

SIGINFO_DESC = None


def siginfo_desc():
    global SIGINFO_DESC
    if SIGINFO_DESC is None:
        SIGINFO_DESC = D.reflect_class(F.SignatureInfo)
    return SIGINFO_DESC


class Rec(Signer):
    """Wraps a signer; records the SignatureInfo it wrote, the blocks it was given and what it returned."""

    def __init__(self, inner):
        self.inner = inner
        self.info = None
        self.blocks = None
        self.sig = None
        self.reserved = None

    def write_signature_info(self, signature_info):
        self.inner.write_signature_info(signature_info)
        self.info_obj = signature_info
        self.info = D.from_py(siginfo_desc(), signature_info)

    def get_signature_value_size(self):
        self.reserved = self.inner.get_signature_value_size()
        return self.reserved

    def write_signature_value(self, wire, contents):
        self.blocks = [bytes(b) for b in contents]
        n = self.inner.write_signature_value(wire, contents)
        self.sig = bytes(wire[:n])
        return n


class Synthetic(Signer):
    """A signer that reserves [reserved] bytes and writes [actual] <= reserved bytes (DER-like variability)."""

    def __init__(self, reserved, actual, sig_type=3, fill=0xAB):
        self.reserved, self.actual, self.sig_type, self.fill = reserved, actual, sig_type, fill

    def write_signature_info(self, signature_info):
        signature_info.signature_type = self.sig_type
        signature_info.key_locator = None

    def get_signature_value_size(self):
        return self.reserved

    def write_signature_value(self, wire, contents):
        wire[:self.actual] = bytes([self.fill]) * self.actual
        return self.actual


class Keys:
    """Key material generated once per run (RSA generation is the slow part)."""
    _inst = None

    @classmethod
    def get(cls):
        if cls._inst is None:
            cls._inst = cls()
        return cls._inst

    def __init__(self):
        from Cryptodome.PublicKey import ECC, RSA
        self.ec = {c: ECC.generate(curve=c) for c in ('P-256', 'P-384', 'P-521')}
        self.ed = ECC.generate(curve='ed25519')
        self.rsa = RSA.generate(2048)
        # moduli whose bit length is not a multiple of 8 (signature = ceil(bits / 8) octets; 257 octets is beyond the 252 limit
        # of the shrinkable SignatureValue)
        self.rsa_odd = {bits: RSA.generate(bits) for bits in (1028, 2050)}
        self.hmac_key = b'0123456789abcdef'

    def signers(self, for_interest=False, only=None):
        """[(label, signer, verify(sig_ptrs)->bool)] for every shipped signer (only=label: just that one -- importing an
        RSA key costs milliseconds, and callers that want one fresh signer per case should not pay for all of them)."""
        from ndn.security.signer import DigestSha256Signer, HmacSha256Signer, NullSigner
        from ndn.security.signer.sha256_ecdsa_signer import Sha256WithEcdsaSigner
        from ndn.security.signer.sha256_rsa_signer import Sha256WithRsaSigner
        from ndn.security.signer.ed25519_signer import Ed25519Signer
        from ndn.security.validator import known_key_validator as KV
        kl = [G.tlv(8, b'key'), G.tlv(8, b'KEY'), G.tlv(8, b'\x01')]

        def both(fn, checker):
            """verify function of known_key_validator + the shipped checker OBJECT for the same key (made once: a
            verifier object may keep state between the packets it is shown)"""
            fn.checker = checker
            return fn
        if not hasattr(self, '_checkers'):
            self._checkers = {
                'hmac': KV.HmacChecker.from_key('/key', self.hmac_key),
                'rsa': KV.RsaChecker.from_key('/key', self.rsa.publickey().export_key('DER')),
                'ed25519': KV.Ed25519Checker.from_key('/key', self.ed.public_key().export_key(format='DER')),
            }
            for c, k in self.ec.items():
                self._checkers['ecdsa-' + c] = KV.EccChecker.from_key('/key', k.public_key().export_key(format='DER'))
            for bits, k in self.rsa_odd.items():
                self._checkers[f'rsa-{bits}'] = KV.RsaChecker.from_key('/key', k.publickey().export_key('DER'))
        ck = self._checkers
        want = (lambda lb: only is None or lb == only)
        out = []
        if want('digest'):
            out.append(('digest', DigestSha256Signer(for_interest), None))
        if want('hmac'):
            out.append(('hmac', HmacSha256Signer(kl, self.hmac_key), both(lambda p: KV.verify_hmac(self.hmac_key, p), ck['hmac'])))
        if want('null'):
            out.append(('null', NullSigner(), None))
        if want('rsa'):
            out.append(('rsa', Sha256WithRsaSigner(kl, self._der('rsa', self.rsa)),
                        both(lambda p: KV.verify_rsa(self.rsa.publickey(), p), ck['rsa'])))
        if want('ed25519'):
            out.append(('ed25519', Ed25519Signer(kl, self.ed.export_key(format='DER')),
                        both(lambda p: KV.verify_ed25519(self.ed.public_key(), p), ck['ed25519'])))
        for c, k in self.ec.items():
            if want('ecdsa-' + c):
                out.append(('ecdsa-' + c, Sha256WithEcdsaSigner(kl, k.export_key(format='DER')),
                            both(lambda p, k=k: KV.verify_ecdsa(k.public_key(), p), ck['ecdsa-' + c])))
        for bits, k in self.rsa_odd.items():
            if want(f'rsa-{bits}'):
                out.append((f'rsa-{bits}', Sha256WithRsaSigner(kl, self._der(f'rsa-{bits}', k)),
                            both(lambda p, k=k: KV.verify_rsa(k.publickey(), p), ck[f'rsa-{bits}'])))
        return out

    def _der(self, label, key):
        if not hasattr(self, '_ders'):
            self._ders = {}
        if label not in self._ders:
            self._ders[label] = key.export_key('DER')
        return self._ders[label]


def rand_interest_args(rng, big=False):
    name = G.name_of_tv([tv for tv in G.rand_name_tv(rng, 6) if tv[0] != 2])
    ip = dict(can_be_prefix=rng.random() < 0.5, must_be_fresh=rng.random() < 0.5,
              nonce=rng.choice([None, 0, 1, rng.getrandbits(32), 0xFFFFFFFF]),
              lifetime=rng.choice([None, 0, 4000, 255, 256, 65535, 65536, 1 << 32, (1 << 64) - 1]),
              hop_limit=rng.choice([None, 0, 1, 255]),
              forwarding_hint=[G.name_of_tv(G.rand_name_tv(rng, 3)) for _ in range(rng.choice([0, 0, 1, 3]))])
    app = rng.choice([None, None, b'', b'x', G.rand_bytes(rng, rng.choice([1, 10, 200, 251, 252, 253, 254, 300]))])
    if big:
        app = G.rand_bytes(rng, rng.choice([65535, 65536, 70000]))
    return name, ip, app


def interest_sexp(name, ip, app, sig):
    """interest_in request for the model; sig = None | (info value, reserved)."""
    return [list(name), ip['can_be_prefix'], ip['must_be_fresh'], [list(n) for n in ip['forwarding_hint']],
            [] if ip['nonce'] is None else [ip['nonce']], [] if ip['lifetime'] is None else [ip['lifetime']],
            [] if ip['hop_limit'] is None else [ip['hop_limit']], [] if app is None else [app],
            [] if sig is None else [D.val_sexp(sig[0]), sig[1]]]


def data_sexp(name, meta_val, content, sig):
    return [list(name), D.val_sexp(meta_val), [] if content is None else [content],
            [] if sig is None else [D.val_sexp(sig[0]), sig[1]]]


def scratch_info(signer):
    """The SignatureInfo a signer writes (for cases where the encoder fails before signing)."""
    si = SignatureInfo()
    signer.write_signature_info(si)
    return D.from_py(siginfo_desc(), si)
