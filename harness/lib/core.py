"""Run protocol shared by all properties (DESIGN.md §2.5): build -> corpus -> correspondence +
direct oracle -> evidence + exit status."""
import hashlib
import importlib
import json
import os
import random
import sys
import time
import traceback
from collections import Counter

from . import build as B
from .model import Model, ModelError

VERIF = B.VERIF
EVID = os.path.join(VERIF, 'evidence')
REPLAYS = os.path.join(EVID, 'replays')
KNOWN = os.path.join(VERIF, 'known_findings.json')


def jsonable(v):
    if isinstance(v, (bytes, bytearray, memoryview)):
        return 'hex:' + bytes(v).hex()
    if isinstance(v, dict):
        return {str(k): jsonable(x) for k, x in v.items()}
    if isinstance(v, (list, tuple, set, frozenset)):
        return [jsonable(x) for x in v]
    if isinstance(v, (int, str, float, bool)) or v is None:
        return v
    return repr(v)


def unjson(v):
    if isinstance(v, str) and v.startswith('hex:'):
        return bytes.fromhex(v[4:])
    if isinstance(v, list):
        return [unjson(x) for x in v]
    if isinstance(v, dict):
        return {k: unjson(x) for k, x in v.items()}
    return v


class Ctx:
    def __init__(self, prop, tier, seed, exe, build_res):
        self.prop = prop
        self.tier = tier
        self.seed = seed
        self.rng = random.Random(seed)
        self.exe = exe
        self.model = Model(exe) if exe else None
        self.build = build_res
        self.evaluations = 0
        self._distinct = set()
        self.samples = []
        self.stats = Counter()
        self.violations = []       # direct-oracle failures on the implementation
        self.disagreements = []    # model vs implementation
        self.notes = []
        self.rule = ''
        self.extra = {}
        self.t0 = time.time()
        self.max_samples = 6

    @property
    def thorough(self):
        return self.tier == 'thorough'

    def n(self, quick, thorough):
        return thorough if self.thorough else quick

    # -- bookkeeping -------------------------------------------------------------------------
    def case(self, key, nontrivial=True, sample=None, stratum=None):
        """Count one explored case.  [key] identifies the case (hashed for the distinct count)."""
        self.evaluations += 1
        if nontrivial:
            h = hashlib.blake2b(repr(key).encode(), digest_size=8).digest()
            self._distinct.add(h)
        if stratum:
            self.stats[stratum] += 1
        if sample is not None and len(self.samples) < self.max_samples:
            if self.evaluations in (1, 7, 50, 333, 1500, 7000) or len(self.samples) == 0:
                self.samples.append(jsonable(sample))

    def stat(self, name, k=1):
        self.stats[name] += k

    # -- failures ----------------------------------------------------------------------------
    def violation(self, site, cls, what, case):
        """The specification oracle fails on the implementation for a concrete input."""
        v = {'kind': 'oracle', 'site': site, 'class': cls, 'what': what, 'case': jsonable(case)}
        # keep one (the smallest) witness per (site, class)
        for old in self.violations:
            if old['site'] == site and old['class'] == cls:
                if len(json.dumps(v['case'])) < len(json.dumps(old['case'])):
                    old.update(v)
                old['count'] = old.get('count', 1) + 1
                return
        v['count'] = 1
        self.violations.append(v)

    def disagree(self, site, what, case, model_out=None, impl_out=None):
        """Model and implementation differ on a case (the tie no longer checks)."""
        d = {'kind': 'correspondence', 'site': site, 'what': what, 'case': jsonable(case),
             'model': jsonable(model_out), 'impl': jsonable(impl_out)}
        for old in self.disagreements:
            if old['site'] == site:
                old['count'] = old.get('count', 1) + 1
                if len(json.dumps(d['case'])) < len(json.dumps(old['case'])):
                    c = old['count']
                    old.update(d)
                    old['count'] = c
                return
        d['count'] = 1
        self.disagreements.append(d)

    def call(self, req):
        return self.model.call(req)


def load_known():
    """known_findings.json plus fragments known_findings.d/*.json (same format)."""
    import glob
    out = []
    for path in [KNOWN] + sorted(glob.glob(os.path.join(VERIF, 'known_findings.d', '*.json'))):
        try:
            with open(path) as f:
                out += json.load(f).get('findings', [])
        except FileNotFoundError:
            pass
    return out


def match_known(prop, v, known):
    for k in known:
        if k.get('property') == prop and k.get('status') == 'known' and \
                k.get('site') == v['site'] and k.get('class') == v['class']:
            return k
    return None


def write_replay(prop, name, data):
    os.makedirs(REPLAYS, exist_ok=True)
    h = hashlib.sha256(json.dumps(data, sort_keys=True).encode()).hexdigest()[:10]
    path = os.path.join(REPLAYS, f'{prop}-{name}-{h}.json')
    with open(path, 'w') as f:
        json.dump(data, f, indent=1, sort_keys=True)
    return path


def write_evidence(ctx, obligations, discharged, assumptions_out, closure, n_viol, known_hits, extra_assumptions):
    os.makedirs(EVID, exist_ok=True)
    cov = {
        'obligations': obligations,
        'discharged': discharged,
        'checker_cmd': 'cd /verif/coq && make (coqc 8.16.1, full .vo) ; coqc Print Assumptions on every theorem of '
                       f'theories/Properties/{ctx.prop}.v',
        'trusted_base': [
            'Coq 8.16.1 kernel incl. vm_compute (no native_compute)',
            'Coq extraction with ExtrOcamlBasic directives only; OCaml 4.13.1; zarith; ocaml/driver.ml',
            'tools/gen_*.py translators (T1 reflection, T2 fail-closed ast translator)',
            'Python harness (generators, adapters, canonicalisers) under harness/',
            'CPython 3.12 / asyncio / pycryptodomex / pygtrie / lark / sqlite3 as exercised by the correspondence run',
        ],
        'print_assumptions': assumptions_out,
        'proof_files': closure,
        'evaluations': ctx.evaluations,
        'distinct_nontrivial': len(ctx._distinct),
        'rule': ctx.rule,
        'samples': ctx.samples if ctx.samples else [{'note': 'no case explored (build failed before the run)'}],
        'strata': dict(sorted(ctx.stats.items())),
        'traces_validated_against_impl': ctx.evaluations,
        'disagreements_checked': ctx.evaluations,
        'model_calls': ctx.model.calls if ctx.model else 0,
        'build': ctx.build.describe(),
        'generated_changed': ctx.build.generated_changed,
        'known_findings_hit': known_hits,
    }
    cov.update(ctx.extra)
    ev = {
        'property_id': ctx.prop,
        'tier': ctx.tier,
        'seed': ctx.seed,
        'level': 'proof',
        'coverage': cov,
        'assumptions': extra_assumptions + ctx.notes,
        'wall_s': round(time.time() - ctx.t0, 2),
        'violations': n_viol,
    }
    with open(os.path.join(EVID, f'{ctx.prop}.json'), 'w') as f:
        json.dump(ev, f, indent=1, sort_keys=True)
        f.write('\n')


def run_property(prop, tier, seed, replay=None):
    t0 = time.time()
    sys.path.insert(0, B.REPO_SRC)
    os.environ.setdefault('PYTHONHASHSEED', '0')
    bres, exe = B.ensure(prop)
    ctx = Ctx(prop, tier, seed, exe, bres)
    ctx.t0 = t0
    mod = importlib.import_module(f'harness.props.{prop.lower()}')
    ctx.rule = getattr(mod, 'RULE', '')
    crash = None
    if exe is not None or getattr(mod, 'RUNS_WITHOUT_MODEL', False):
        try:
            if replay:
                with open(replay) as f:
                    data = json.load(f)
                if hasattr(mod, 'replay'):
                    mod.replay(ctx, data)
                else:
                    ctx.notes.append('replay: property module has no single-case replay; full run repeated with the same seed')
                    mod.run(ctx)
            else:
                mod.run(ctx)
        except ModelError as e:
            crash = f'model error: {e}'
        except Exception:
            crash = 'harness crashed: ' + traceback.format_exc()[-1500:]
        finally:
            if ctx.model:
                ctx.model.close()
    else:
        ctx.notes.append('model executable could not be built; correspondence not run')
    if bres.reference_model:
        ctx.notes.append('the model of this tree could not be built (reported as a broken obligation); the failing-input search '
                         'ran against the reference model extracted by the last ./check --setup on which every theorem checked')

    known = load_known()
    known_hits, new_viol = [], []
    for v in ctx.violations:
        k = match_known(prop, v, known)
        if k:
            known_hits.append(k['id'])
            print(f"KNOWN-FINDING: property={prop} {k['id']}: {k.get('what', v['what'])}")
        else:
            new_viol.append(v)

    lines = []
    for v in new_viol:
        path = write_replay(prop, 'oracle', {
            'property': prop, 'kind': 'oracle-failure', 'site': v['site'], 'class': v['class'],
            'what': v['what'], 'case': v['case'], 'occurrences': v.get('count', 1),
            'replay_cmd': f'./check {prop} --replay <this file>'})
        lines.append(f'VIOLATION property={prop} replay={path}')

    broken_tie = []
    if not bres.ok:
        broken_tie.append({'what': 'proof obligation / generated model no longer checks',
                           'file': bres.failed_file, 'where': bres.failed_where, 'stage': bres.stage,
                           'generated_changed': bres.generated_changed,
                           'search_used_reference_model': bool(bres.reference_model)})
    for d in ctx.disagreements:
        broken_tie.append({'what': 'correspondence (model vs implementation) ' + d['what'], 'site': d['site'],
                           'case': d['case'], 'model': d['model'], 'impl': d['impl'], 'occurrences': d['count']})
    if crash:
        broken_tie.append({'what': crash})
    if broken_tie and not new_viol:
        path = write_replay(prop, 'tie', {
            'property': prop, 'kind': 'no-failing-input-found',
            'explanation': 'the theorem(s) / correspondence named below no longer check against the current '
                           'source; the search found no input on which the property itself fails',
            'broken': broken_tie, 'cases_searched': ctx.evaluations})
        lines.append(f'VIOLATION property={prop} replay={path} no-failing-input-found')
    elif broken_tie and new_viol:
        # attach the broken obligations to the first replay for context
        write_replay(prop, 'tie-context', {'property': prop, 'broken': broken_tie})

    if bres.ok:
        obligations, closure = B.count_obligations(prop)
        discharged = obligations
        pa = B.print_assumptions(prop)
    else:
        obligations, closure = B.count_obligations(prop)
        discharged = 0
        pa = {'_error': bres.describe()}
    extra_assumptions = list(getattr(mod, 'ASSUMPTIONS', []))
    if not replay:
        write_evidence(ctx, obligations, discharged, pa, closure, len(lines), known_hits, extra_assumptions)

    for name, val in sorted(ctx.stats.items())[:40]:
        pass
    print(f'[{prop}] tier={tier} seed={seed} build={bres.describe()} cases={ctx.evaluations} '
          f'distinct_nontrivial={len(ctx._distinct)} disagreements={len(ctx.disagreements)} '
          f'oracle_failures={len(ctx.violations)} known={len(known_hits)} wall={time.time() - t0:.1f}s')
    if not bres.ok:
        print(bres.log[-3000:])
    for l in lines:
        print(l)
    return 1 if lines else 0
