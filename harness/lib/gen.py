"""Seeded generators shared by several properties (names, components, TLV numbers, mutations)."""
import struct

TL_BOUNDS = [0, 1, 2, 7, 8, 127, 128, 251, 252, 253, 254, 255, 256, 257, 0xFFFE, 0xFFFF, 0x10000, 0x10001,
             0xFFFFFFFE, 0xFFFFFFFF, 0x100000000, 0x100000001, (1 << 63), (1 << 64) - 2, (1 << 64) - 1]
COMP_TYPES = [8, 1, 2, 32, 50, 52, 54, 56, 58, 3, 9, 252, 253, 254, 255, 256, 1000, 65534, 65535]
CHARSET = 'ABCDEFGHIJKLMNOPQRSTUVWXYZabcdefghijklmnopqrstuvwxyz0123456789-._~=%'


def tl(v):
    if v <= 0xFC:
        return bytes([v])
    if v <= 0xFFFF:
        return b'\xfd' + struct.pack('!H', v)
    if v <= 0xFFFFFFFF:
        return b'\xfe' + struct.pack('!I', v)
    return b'\xff' + struct.pack('!Q', v)


def tlv(t, v):
    return tl(t) + tl(len(v)) + bytes(v)


def rand_bytes(rng, n):
    return bytes(rng.getrandbits(8) for _ in range(n))


def rand_value(rng):
    k = rng.random()
    if k < 0.15:
        return b''
    if k < 0.5:
        return bytes(rng.choice(b'abcxyzABC019-._~') for _ in range(rng.randint(1, 8)))
    if k < 0.8:
        return rand_bytes(rng, rng.randint(1, 12))
    if k < 0.9:
        return rand_bytes(rng, 32)
    if k < 0.97:
        return bytes(rng.choice(b'%=/ \x00\xff\x7f+') for _ in range(rng.randint(1, 5)))
    return rand_bytes(rng, rng.choice([252, 253, 254, 300]))


def rand_comp_tv(rng):
    """(type, value) of a component; types over all var-number sizes <= 65535."""
    k = rng.random()
    if k < 0.45:
        t = 8
    elif k < 0.9:
        t = rng.choice(COMP_TYPES)
    else:
        t = rng.randint(1, 65535)
    if t in (50, 52, 54, 56, 58) and rng.random() < 0.7:
        n = rng.choice(TL_BOUNDS + [rng.getrandbits(rng.randint(1, 64))])
        from_num = n.to_bytes(1 if n <= 0xFF else 2 if n <= 0xFFFF else 4 if n <= 0xFFFFFFFF else 8, 'big')
        return t, from_num
    if t in (1, 2) and rng.random() < 0.7:
        return t, rand_bytes(rng, 32)
    return t, rand_value(rng)


def rand_name_tv(rng, maxlen=8):
    n = rng.choice([0, 1, 1, 2, 2, 3, 3, 4, 5, 6, 7, 8]) if maxlen >= 8 else rng.randint(0, maxlen)
    return [rand_comp_tv(rng) for _ in range(n)]


def name_of_tv(tvs):
    return [tlv(t, v) for t, v in tvs]


def mutate_bytes(rng, b):
    """One random single-edit mutation of a byte string."""
    b = bytearray(b)
    k = rng.random()
    if not b:
        return bytes([rng.getrandbits(8)])
    i = rng.randrange(len(b))
    if k < 0.35:
        b[i] = rng.choice([0, 1, 0xfc, 0xfd, 0xfe, 0xff, (b[i] + 1) & 255, (b[i] - 1) & 255, rng.getrandbits(8)])
    elif k < 0.55:
        del b[i:]
    elif k < 0.7:
        del b[i]
    elif k < 0.85:
        b.insert(i, rng.choice([0, 1, 8, 0xfd, 0xfe, 0xff, rng.getrandbits(8)]))
    else:
        j = rng.randrange(len(b))
        b[i:i] = b[j:j + rng.randint(1, 6)]
    return bytes(b)


def rand_uri_comp(rng):
    """A URI component string: mostly valid, with the odd corner (empty, typed, %XX, numbers)."""
    k = rng.random()
    alnum = 'abcXYZ019-._~'
    if k < 0.1:
        return ''
    if k < 0.35:
        return ''.join(rng.choice(alnum) for _ in range(rng.randint(1, 8)))
    if k < 0.5:
        return ''.join(rng.choice([rng.choice(alnum), '%%%02X' % rng.getrandbits(8), '%%%02x' % rng.getrandbits(8)])
                       for _ in range(rng.randint(1, 6)))
    if k < 0.6:
        return rng.choice(['seg', 'off', 'v', 't', 'seq']) + '=' + str(rng.choice(TL_BOUNDS + [1 << 64, (1 << 64) + 5]))
    if k < 0.68:
        return rng.choice(['sha256digest', 'params-sha256']) + '=' + rand_bytes(rng, rng.choice([32, 32, 32, 0, 1, 31])).hex()
    if k < 0.8:
        return str(rng.choice([1, 2, 8, 32, 50, 252, 253, 65535, 0, 65536, 7, 300])) + '=' + \
            ''.join(rng.choice(alnum + '%') if rng.random() < 0.2 else rng.choice(alnum) for _ in range(rng.randint(0, 5)))
    if k < 0.9:
        # malformed corners: dangling %, double =, underscores / sign in numbers, non-hex
        return rng.choice(['%', 'a%', 'a%4', '%4', '%zz', '%-1', '%_1', '%1_', 'a=b=c', '=', '=a', '8=', 'seg=', 'seg=-5', 'seg=1_0',
                           'seg=_1', 'seg=1__0', 'seg=1_', 'v=00012', '1_0=a', '-8=a', '08=a', '0=a', 'sha256digest=xyz',
                           'sha256digest=abc', 'sha256digest=', 'params-sha256=AbCd', 'seg=%31', '%38=a', 'SEG=1',
                           'seg=1=2', '65536=a', '99999999999999999999=a', 'seg=18446744073709551616', '-0=a', 'seg=-0'])
    return ''.join(rng.choice(CHARSET) for _ in range(rng.randint(1, 10)))


def rand_uri(rng):
    n = rng.choice([0, 1, 1, 2, 2, 3, 4, 6, 8])
    s = '/'.join(rand_uri_comp(rng) for _ in range(n))
    k = rng.random()
    if k < 0.6:
        s = '/' + s
    if rng.random() < 0.25:
        s = s + '/'
    if rng.random() < 0.05:
        s = s + '/'
    if rng.random() < 0.1:
        # non-CHARSET characters get escaped by Name.from_str
        s = s + rng.choice([' ', ':', 'ö', 'Σ', '€', '\U0001F600', '+', '\x00', '?', '#'])
    return s
