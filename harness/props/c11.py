"""C11 — a compiled trust schema matches exactly the names its source text describes.

Per generated schema (printed to LVS text, so lark + parser.py are inside the tie):
 * correspondence: compile_lvs(text) vs Model/LvsCompiler.compile (canonical dump of the whole tree);
   Checker.match vs Model/LvsChecker.lvs_match run on the implementation's own tree, on every name up to
   a length bound over the schema's literals + 2 fresh components (+ digest-suffixed / empty names);
   the same again after Checker.load(Checker.save()).
 * direct oracle: Spec/LvsSem.sem evaluated on the source AST; the set of (rule, bindings) the
   implementation reports must be exactly that set.
A structural difference of the tree with equal behaviour is drift: the enumeration is widened for that
schema and only a behavioural difference is reported.
"""
from harness.props import lvs_common as L

RULE = ('every schema text is compiled TWICE in the process and the second model is the one judged (a compilation is a function of the text: class compile-depends-on-history); schemas: 2-6 rules + temporary rules, references (same rule up to 3x), redefinitions, temporary patterns, '
        '0-2 constraint sets with 1-3 terms of 1-3 options (literal / pattern / $eq / $eq_type / table-driven / undefined '
        'function), rule names in random alphabetical order; a reference-heavy family (one rule with alternative constraint '
        'sets reached several times, directly and through intermediate rules); a wide family (the SIZE of the schema): one flat rule of '
        'K in {9..12, 19..22} (thorough: also 13..32, 99..102, 110, 111, 120) distinct named / distinct temporary / anonymous / '
        'alternating patterns with ONE constrained position, every position in turn, and structured schemas with K named patterns + '
        '0..21 (thorough ..101) temporary occurrences spread over 1-4 referenced rules (one possibly referenced twice) with literal '
        'and earlier-pattern constraints at both levels; their names are derived from the rule TEXT: a satisfying assignment with every '
        'unconstrained pattern given a component that occurs nowhere else, the constrained position violated, the literal repeated at '
        'unconstrained positions, single-position perturbations, one component shorter / longer; a regrouping family (the SHAPE of the '
        'constraints on one pattern): 2-4 rules over one common prefix of 1-3 named patterns + 0-2 literals that continue with the same '
        'named / temporary pattern and constrain it by ONE sequence of 2-4 options (earlier patterns, literals) cut into constraints in '
        'different ways (every composition: n constraints x m options with the same flattened order), groups written as `x|y`, '
        '`$eq(x)|$eq(y)` or `$eq(x, y)`, constraints written in the rule or partly inherited from a base rule (added before inherited), '
        'same / distinct / no continuation after the pattern, with controls (sequence permuted, one option replaced, one constraint left '
        'out); the two-option case in every combination of grouping x written/inherited x named/temporary; their names are derived from '
        'the rule TEXT: every assignment of the prefix patterns over 2 fresh components + the option literals (all equal .. pairwise '
        'distinct) x the constrained pattern equal to each of them / a third fresh component (exactly one option true, several, all, none) '
        'x every continuation and a wrong one; names: exhaustive to length 3 (quick) / 4 (thorough) over '
        'literals + 2 fresh components, sampled to length 6, digest-suffixed and empty names; non-trivial = non-empty '
        'name; distinct by (schema text, name)')
ASSUMPTIONS = ['lark 1.x and grammar.py are exercised, not modelled (the AST is printed to text and parsed by the real parser)',
               'TLV encoding of LvsModel (save/load) is the real codec; its round trip is property C08']

CORPUS = [
    # †6: constraint lost on the second copy
    ([('#a', [('pat', '_x')], [[('_x', [('lit', 'a'), ('lit', 'b')])]], []),
      ('#b', [('ref', '#a'), ('ref', '#a')], [], [])], {}),
    ([('#a', [('pat', '_x')], [[('_x', [('lit', 'a')])], [('_x', [('lit', 'b')])]], []),
      ('#b', [('ref', '#a'), ('ref', '#a')], [], [])], {}),
    ([('#k', [('pat', '_x'), ('pat', '_x')], [[('_x', [('lit', 'a'), ('lit', 'b')])]], []),
      ('#a', [('ref', '#k'), ('lit', 'a')], [], []),
      ('#b', [('ref', '#k'), ('lit', 'b')], [], []),
      ('#c', [('ref', '#a'), ('ref', '#b'), ('ref', '#k')], [], [])], {}),
    # a temporary tag of one chain recurs later in another chain merged into the same path (second half of †6)
    ([('#z', [('pat', '_')], [], []),
      ('#z', [('pat', '_'), ('pat', '_y')], [[('_y', [('lit', 'v=0')])]], []),
      ('#b', [('ref', '#z'), ('pat', '_x')], [[('_x', [('lit', 'v=0')])]], [])], {}),
    ([('#z', [('pat', '_')], [], []),
      ('#z', [('pat', '_'), ('pat', '_')], [], []),
      ('#z', [('lit', 'a'), ('pat', '_'), ('pat', '_')], [], []),
      ('#b', [('ref', '#z'), ('pat', '_x'), ('ref', '#z')], [[('_x', [('lit', 'a'), ('lit', 'b')])]], []),
      ('#Ab', [('ref', '#z'), ('pat', '_x')], [[('_x', [('lit', 'b')])]], [])], {}),
    # †17: order of rule names
    ([('#b', [('lit', 'a'), ('pat', 'p')], [[('p', [('pat', 'q')])]], []),
      ('#a', [('lit', 'b'), ('pat', 'q')], [], ['#b'])], {}),
    # docs example
    ([('#site', [('lit', 'a'), ('lit', 'blog')], [], []),
      ('#root', [('ref', '#site'), ('ref', '#KEY')], [], []),
      ('#article', [('ref', '#site'), ('lit', 'article'), ('pat', 'category'), ('pat', 'year'), ('pat', 'month')], [], ['#author']),
      ('#author', [('ref', '#site'), ('pat', 'role'), ('pat', 'author'), ('ref', '#KEY')], [[('role', [('lit', 'author')])]], ['#admin']),
      ('#admin', [('ref', '#site'), ('lit', 'admin'), ('pat', 'admin'), ('ref', '#KEY')], [], ['#root']),
      ('#KEY', [('lit', 'KEY'), ('pat', '_'), ('pat', '_'), ('pat', '_')], [], [])], {}),
    # pattern equal to an earlier pattern, function arguments bound / unbound
    ([('#r', [('pat', 'a'), ('lit', 'b'), ('pat', 'c'), ('pat', 'd')], [[('c', [('pat', 'a')])]], []),
      ('#s', [('pat', 'a'), ('pat', 'c')], [[('a', [('fn', '$eq', [('pat', 'c')])])], [('c', [('fn', '$eq', [('pat', 'a'), ('lit', 'b')])])]], [])],
     {'$eq': 'eq'}),
    ([('#r', [('pat', 'a'), ('pat', 'b')], [[('a', [('fn', '$eq_type', [('pat', 'b')])])]], []),
      ('#s', [('pat', 'a'), ('pat', 'b')], [[('b', [('fn', '$eq_type', [('pat', 'a'), ('lit', 'v=0')]), ('lit', 'k')])]], [])],
     {'$eq_type': 'eq_type'}),
]


def is_pseudo(r):
    return r[:2] == b'#_' and b'#' not in r[2:]


def flat_impl(res):
    s = set()
    for rn, cx in res:
        for r in rn:
            if not is_pseudo(r):
                s.add((r, tuple((k, v) for k, v in cx)))
    return s


def flat_spec(ans):
    return set((t[0], tuple(sorted((p, v) for p, v in t[1]))) for t in ans)


def name_pool(ctx, ast, lits, maxlen, extra):
    rng = ctx.rng
    alpha = L.alphabet(L.all_lits(ast) or lits)
    if len(alpha) > 6:
        alpha = alpha[:4] + alpha[-2:]
    names = list(L.names_upto(alpha, maxlen))
    for _ in range(extra):
        names.append([rng.choice(alpha) for _ in range(rng.randint(min(maxlen + 1, 6), 6))])
    # digest-suffixed variants of some names, a lone digest
    for n in rng.sample(names, min(12, len(names))):
        names.append(list(n) + [L.DIGEST])
    names.append([L.DIGEST])
    # names ending in a ParametersSha256Digest component (what signed / parameterised Interest names end in): only a trailing
    # IMPLICIT digest is ignored, every other component counts
    for n in rng.sample(names, min(10, len(names))):
        names.append(list(n) + [L.PDIGEST])
    names.append([L.PDIGEST])
    return names


def check_schema(ctx, ast, fe, lits, tag, maxlen, extra, more_names=()):
    M = ctx.call
    rng = ctx.rng
    text = L.txt_ast(ast, rng)
    sa = L.sx_ast(ast)
    r = L.impl_compile(text)
    if L.REPEAT_DIFFS:
        for t in L.REPEAT_DIFFS:
            ctx.violation('compile_lvs', 'compile-depends-on-history',
                          'the second compilation of the same schema text in this process gives a different model (or outcome) than the first',
                          {'schema': t})
        del L.REPEAT_DIFFS[:]
    if L.too_big(r):
        ctx.stat('schemas.skipped-huge-model')
        return
    m = M([1, sa])
    case = {'schema': text}
    m2 = M([10, sa])
    if L.canon(m2) != L.canon(m):
        ctx.disagree('model-internal', 'compile (gen_tree + flatten) and compile_pool (node pool) differ', case, m, m2)
    if not L.same_outcome(m, r):
        ctx.disagree('compile_lvs', 'different outcome (ok / error class)', case, m, r[1:] if r[0] == 'err' else 'ok')
        return
    if not L.is_err(m):
        ok = M([11, sa])
        if ok != [1, 1]:
            ctx.disagree('chains_ok', 'chains_ok (a lemma of C11_match_iff / C12_check_iff, proved from static_ok + schema_wf) does not hold for this schema', case, ok, None)
        else:
            ctx.stat('chains_ok.holds')
    if r[0] == 'err':
        ctx.case((text, 'compile-error'), True, None, 'compile.' + str(r[1]))
        return
    model = r[1]
    dump = L.dump_model(model)
    drift = L.canon(m[1]) != L.canon(dump)
    fns = L.py_fns(fe)
    sfe = L.sx_fnenv(fe)
    c = L.impl_checker(model, fns)
    if c[0] == 'err':
        # signing cycle etc.: C13's business; C11 needs a checker
        ctx.case((text, 'checker-error'), True, None, 'checker.' + str(c[1]))
        return
    chk = L.with_budget(c[1])
    names = name_pool(ctx, ast, lits, min(maxlen + (1 if drift else 0), 5), extra) + L.guided_names(rng, model, L.alphabet(L.all_lits(ast) or lits), ctx.n(40, 150)) + [list(n) for n in more_names]
    impl = [L.impl_match(chk, n) for n in names]
    mod = M([13, dump, sfe, L.MODEL_FUEL, names])
    spec = M([15, sa, sfe, names])
    own = M([13, m[1], sfe, L.MODEL_FUEL, names]) if drift else None
    behav_diff = False
    for i, n in enumerate(names):
        ri, mi = impl[i], mod[i]
        cs = dict(case, name=n)
        if not L.same_outcome(mi, ri):
            ctx.disagree('Checker.match', 'different outcome (ok / error class)', cs, mi, ri[1:] if ri[0] == 'err' else ri[1])
        elif ri[0] == 'ok' and L.canon(L.model_match_result(mi[1])) != L.canon(ri[1]):
            ctx.disagree('Checker.match', 'different matches', cs, L.model_match_result(mi[1]), ri[1])
        if ri[0] == 'ok':
            got, want = flat_impl(ri[1]), flat_spec(spec[i])
            if got != want:
                extra_, missing = got - want, want - got
                cls = 'reports-unspecified-match' if extra_ else 'misses-specified-match'
                ctx.violation('Checker.match', cls,
                              f'match reports {sorted(extra_)[:2]} beyond the schema / misses {sorted(missing)[:2]}', cs)
            if own is not None and not L.is_err(own[i]) and flat_impl(L.model_match_result(own[i][1])) != got:
                behav_diff = True
                ctx.disagree('compile_lvs', 'compiled trees differ AND behave differently', cs, own[i], ri[1])
        ctx.case((text, n), len(n) > 0, {'schema': text, 'name': n} if i == 3 else None,
                 tag + ('.match' if ri[0] == 'ok' and ri[1] and any(not is_pseudo(x) for rn, _ in ri[1] for x in rn) else '.nomatch'))
    if drift and not behav_diff:
        ctx.stat('drift:tree-structure-differs-behaviour-equal')
        ctx.notes.append('drift: compiled tree differs structurally from the model for a schema; behaviour equal on the widened enumeration')
    # save / load
    try:
        from ndn.app_support.light_versec import Checker
        chk2 = Checker.load(c[1].save(), fns)
        if L.canon(L.dump_model(chk2.model)) != L.canon(dump):
            ctx.violation('Checker.load', 'save-load-changes-model', 'load(save(m)) differs structurally from m', case)
        chk2 = L.with_budget(chk2)
        for i in rng.sample(range(len(names)), min(40, len(names))):
            r2 = L.impl_match(chk2, names[i])
            if r2[0] != impl[i][0] or (r2[0] == 'ok' and L.canon(r2[1]) != L.canon(impl[i][1])):
                ctx.violation('Checker.load', 'save-load-changes-matches', 'match differs after save/load', dict(case, name=names[i]))
    except Exception as e:   # noqa
        ctx.violation('Checker.load', 'save-load-raises', f'{type(e).__name__}: {e}', case)


def diamond(rng):
    """Reference-heavy family: a short base rule with a (temporary or named) pattern under 1-3 ALTERNATIVE constraint
    sets, reached several times from one rule, directly and through intermediate rules (copies of one rule meet in
    one name, each copy free to satisfy a different alternative)."""
    lits = rng.sample(L.LIT_POOL, 2)
    t = rng.choice(['_x', '_x', '_', 'x'])
    t2 = rng.choice(['_y', 'y'])
    shape = rng.choice([0, 0, 1, 2])
    base = [('pat', t)] if shape == 0 else [('lit', lits[0]), ('pat', t)] if shape == 1 else [('pat', t), ('pat', t2)]
    nalt = rng.choice([1, 2, 2, 2, 3])
    cons = []
    for i in range(nalt):
        cs = [(t, [('lit', (lits + ['q1'])[i % 3])] + ([('lit', rng.choice(lits))] if rng.random() < 0.2 else []))]
        if shape == 2 and rng.random() < 0.5:
            cs.append((t2, [('lit', rng.choice(lits))]))
        cons.append(cs)
    ast = [('#a', base, cons, [])]
    if rng.random() < 0.3:
        ast.append(('#a', [('lit', lits[1])] + base, cons[:1], []))
    def wrap(rid, inner):
        nm = [('ref', inner)]
        for _ in range(rng.choice([0, 1, 1, 2])):
            nm.insert(rng.randint(0, len(nm)), ('lit', rng.choice(lits)) if rng.random() < 0.7 else ('pat', rng.choice(['_', 'z'])))
        return (rid, nm, [], [])
    mids = ['#a']
    ast.append(wrap('#b', '#a'))
    mids.append('#b')
    if rng.random() < 0.5:
        ast.append(wrap('#c', rng.choice(['#a', '#b'])))
        mids.append('#c')
    top = [('ref', rng.choice(mids)) for _ in range(rng.choice([2, 2, 3]))]
    if rng.random() < 0.4:
        top.insert(rng.randint(0, len(top)), ('lit', rng.choice(lits)))
    tcons = [[(t, [('lit', lits[0])])]] if (t[0] != '_' and rng.random() < 0.3) else []
    ast.append(('#d', top, tcons, []))
    rng.shuffle(ast)
    return ast, {}, lits


# ---------------------------------------------------------------------------------------------
# wide schemas: the SIZE of a schema (how many distinct named patterns / temporary-pattern occurrences the compiler
# has to tell apart) is a dimension of the property's quantifier of its own.  The exhaustive name enumeration and the
# 8-step tree walks never reach the end of a rule with 10+ components, so these schemas bring their own names,
# derived from the TEXT of the rules (never from the compiled tree).
WIDE_SIZES_QUICK = [9, 10, 11, 12, 19, 20, 21, 22]
WIDE_SIZES_MORE = [13, 15, 18, 23, 29, 30, 31, 32, 99, 100, 101, 102, 110, 111, 120]


def fresh_uri(i):
    return 'n%d' % i


def wide_flat(K, j, kind, lit='c'):
    """one rule of K patterns, ONE of them (position j, 0-based) constrained to a literal.
    kind: 'named' (K distinct named patterns) | 'temp' (K distinct temporary identifiers) | 'anon' ('_' everywhere
    but position j) | 'mixed' (alternating named / temporary)."""
    def ident(i):
        if kind == 'named':
            return 'p%d' % i
        if kind == 'temp':
            return '_t%d' % i
        if kind == 'anon':
            return '_c' if i == j else '_'
        return ('p%d' if i % 2 == 0 else '_t%d') % i
    ast = [('#w', [('pat', ident(i)) for i in range(K)], [[(ident(j), [('lit', lit)])]], [])]
    base = [fresh_uri(i) for i in range(K)]
    base[j] = lit
    names = [list(base)]                                               # satisfies the rule as written
    names.append(base[:j] + [fresh_uri(K + 1)] + base[j + 1:])         # the one constrained position violated
    names.append([lit] * K)                                            # everything equal to the literal
    for i in {0, 1, 2, K - 1, (j + 1) % K, (j * 7 + 3) % K} - {j}:     # the literal ALSO at an unconstrained position
        names.append([lit if t == i else base[t] for t in range(K)])
    names.append(base[:-1])
    names.append(base + [fresh_uri(K + 2)])
    return ast, names


def wide_expand(rng, ast, rid, counter):
    """one expansion of rule rid read off the text: ([item], [(key, opts)]); item = ('lit', uri) | ('pat', key);
    key = ident of a named pattern | (instance number, ident) of a temporary pattern of that definition instance"""
    defs = [r for r in ast if r[0] == rid]
    r = rng.choice(defs)
    counter[0] += 1
    inst = counter[0]

    def key(p):
        return (inst, p) if p[0] == '_' else p
    items, cons = [], []
    for c in r[1]:
        if c[0] == 'lit':
            items.append(c)
        elif c[0] == 'pat':
            items.append(('pat', key(c[1])))
        else:
            it, cs = wide_expand(rng, ast, c[1], counter)
            items += it
            cons += cs
    if r[2]:
        for (p, opts) in rng.choice(r[2]):
            cons.append((key(p), opts))
    return items, cons


def wide_names(rng, ast, rid, count):
    """names for rule rid derived from the text: every pattern gets, at its first occurrence, a value that satisfies
    the constraint terms written on it when one exists among the literals / bound patterns of those terms, else a
    component that occurs NOWHERE else in the name (so that a constraint enforced on the wrong pattern, or an
    equality with the wrong pattern, cannot hold by accident); then single-position perturbations of those names."""
    out = []
    for _ in range(count):
        items, cons = wide_expand(rng, ast, rid, [0])
        env, name, nfresh = {}, [], [0]

        def fresh():
            nfresh[0] += 1
            return fresh_uri(nfresh[0])
        for it in items:
            if it[0] == 'lit':
                name.append(it[1])
                continue
            k = it[1]
            if k in env and not isinstance(k, tuple):
                name.append(env[k])
                continue
            terms = [opts for (kk, opts) in cons if kk == k]
            cands = []
            for opts in terms:
                for o in opts:
                    if o[0] == 'lit':
                        cands.append(o[1])
                    elif o[0] == 'pat' and o[1] in env:
                        cands.append(env[o[1]])
            rng.shuffle(cands)

            def sat(v):
                return all(any((o[0] == 'lit' and o[1] == v) or (o[0] == 'pat' and env.get(o[1]) == v) for o in opts) for opts in terms)
            v = next((c for c in cands if sat(c)), None)
            if v is None or rng.random() < 0.04:
                v = fresh()
            env[k] = v
            name.append(v)
        out.append(name)
        if name:
            for _ in range(2):
                i = rng.randrange(len(name))
                t = rng.random()
                alt = fresh() if t < 0.5 else rng.choice(name) if t < 0.8 else rng.choice(L.all_lits(ast) or ['a'])
                out.append(name[:i] + [alt] + name[i + 1:])
    return out


def wide_schema(rng, K, T):
    """K distinct named patterns and T temporary-pattern occurrences spread over 1-4 leaf rules that a top rule
    refers to in sequence (a leaf may be referred to twice: its temporaries are renumbered for every copy);
    constraints at both levels, on named patterns (own or inherited) and on the temporaries of the rule itself;
    literal options and options naming a pattern that occurs earlier."""
    lits = rng.sample(L.LIT_POOL, 3)
    ids = rng.sample(L.RULE_NAMES, 5)
    nleaf = rng.choice([1, 2, 2, 3, 4])
    kinds = ['n'] * K + ['t'] * T
    rng.shuffle(kinds)
    cuts = sorted(rng.sample(range(1, len(kinds)), min(nleaf - 1, len(kinds) - 1))) if len(kinds) > 1 else []
    segs = [kinds[a:b] for a, b in zip([0] + cuts, cuts + [len(kinds)])]
    ast, seen_named, np_, nt = [], [], [0], [0]

    def cons_for(own_named, own_temps, inherited):
        sets = []
        for _ in range(rng.choice([0, 1, 1, 1, 2])):
            cs = []
            pool = own_named + own_temps + inherited
            if not pool:
                break
            for _ in range(rng.randint(1, 4)):
                # late patterns (those numbered last) get constrained at least as often as early ones
                p = pool[-1 - rng.randrange(min(len(pool), 12))] if rng.random() < 0.5 else rng.choice(pool)
                opts = []
                for _ in range(rng.choice([1, 1, 2])):
                    earlier = [q for q in seen_named if q != p]
                    if earlier and rng.random() < 0.25:
                        opts.append(('pat', rng.choice(earlier)))
                    else:
                        opts.append(('lit', rng.choice(lits)))
                cs.append((p, opts))
            sets.append(cs)
        return sets
    leaf_ids = []
    for si, seg in enumerate(segs):
        name, own_named, own_temps = [], [], []
        for kd in seg:
            if kd == 'n':
                np_[0] += 1
                p = 'p%d' % np_[0]
                own_named.append(p)
            else:
                nt[0] += 1
                p = rng.choice(['_', '_', '_t%d' % nt[0]])
                if p != '_':
                    own_temps.append(p)
            name.append(('pat', p))
            if rng.random() < 0.12:
                name.append(('lit', rng.choice(lits)))
            if own_named and rng.random() < 0.05:
                name.append(('pat', rng.choice(own_named)))          # a repetition: must equal the first occurrence
        ast.append((ids[si], name, cons_for(own_named, own_temps, []), []))
        seen_named += own_named
        leaf_ids.append(ids[si])
    top = [('ref', x) for x in leaf_ids]
    if rng.random() < 0.4:
        top.insert(rng.randint(0, len(top)), ('ref', rng.choice(leaf_ids)))      # one leaf a second time
    own_named, own_temps = [], []
    for _ in range(rng.choice([0, 1, 2])):
        p = rng.choice(['q%d' % rng.randint(1, 3), '_', '_s'])
        top.insert(rng.randint(0, len(top)), ('pat', p))
        (own_temps if p == '_s' else own_named if p[0] != '_' else []).append(p)
    ast.append((ids[4], top, cons_for(own_named, own_temps, list(seen_named)), []))
    rng.shuffle(ast)
    return ast, lits, ids[4], leaf_ids


def run_wide(ctx):
    rng = ctx.rng
    sizes = WIDE_SIZES_QUICK + (WIDE_SIZES_MORE if ctx.n(0, 1) else [])
    # (1) one flat rule, one constrained position: every position for the sizes around each power-of-ten boundary
    for K in sizes:
        # (the extracted model needs ~0.3 s per schema of 100+ patterns: there, the positions whose numbers share a decimal
        # prefix with others -- the first dozen and those from 99 on -- and two of the four kinds)
        js = range(K) if K <= 32 else sorted(set(list(range(0, 12)) + list(range(98, K)) + [rng.randrange(K) for _ in range(3)]))
        for j in js:
            kinds = ['named', 'temp'] if ctx.n(0, 1) == 0 else ['named', 'temp', 'anon', 'mixed']
            if ctx.n(0, 1) == 0 and K > 12 and j % 2:
                kinds = [rng.choice(['anon', 'mixed'])]
            if K > 32:
                kinds = rng.sample(kinds, 2)
            for kind in kinds:
                ast, names = wide_flat(K, j, kind, rng.choice(['c', 'v=0', 'KEY']))
                check_schema(ctx, ast, {}, L.all_lits(ast), 'wide-flat.%s.%s' % (kind, 'K<10' if K < 10 else 'K<100' if K < 100 else 'K>=100'),
                             1, 2, [[L.comp_bytes(u) for u in n] for n in names])
    # (2) structured: many patterns of both kinds spread over referenced rules
    for _ in range(ctx.n(60, 900)):
        t = rng.random()
        K = rng.choice(WIDE_SIZES_QUICK if t < 0.6 else sizes if t < 0.85 else [3, 5, 8])
        T = rng.choice([0, 2, 9, 10, 11, 12, 20, 21] + ([30, 99, 100, 101] if ctx.n(0, 1) else []))
        if K + T > 130:
            T = rng.choice([0, 10, 12])
        ast, lits, top, leaves = wide_schema(rng, K, T)
        names = wide_names(rng, ast, top, ctx.n(8, 12))
        for lf in leaves:
            names += wide_names(rng, ast, lf, 2)
        check_schema(ctx, ast, {}, lits, 'wide.%s' % ('K<10' if K < 10 else 'K<100' if K < 100 else 'K>=100'),
                     1, 2, [[L.comp_bytes(u) for u in n] for n in names])


# ---------------------------------------------------------------------------------------------
# regrouped constraints: the SHAPE of the constraints on one pattern (an AND of ORs; with `$eq(...)` an AND again inside
# an option) is a dimension of its own.  Rules that reach one tree node through the same prefix and go on with the same
# pattern must stay apart exactly when their constraints on that pattern differ -- also when they differ in NOTHING but
# the grouping of one and the same sequence of options.  Independent random rules never agree on a whole option
# sequence, so the family builds the rules of a schema from ONE sequence.
def compositions(n):
    """every way to cut a sequence of n items into consecutive non-empty groups (as lists of group lengths)"""
    if n == 0:
        return [[]]
    return [[k] + rest for k in range(1, n + 1) for rest in compositions(n - k)]


def regroup_cons(target, seq, comp, modes):
    """the constraints on `target`: seq cut into groups by comp, one constraint (AND) per group; a group is written as
    alternatives `x | y` ('or'), as alternatives `$eq(x) | $eq(y)` ('each') or as one call `$eq(x, y)` ('all': AND)"""
    out, i = [], 0
    for g, mode in zip(comp, modes):
        atoms = seq[i:i + g]
        i += g
        if mode == 'or':
            opts = list(atoms)
        elif mode == 'each':
            opts = [('fn', '$eq', [a]) for a in atoms]
        else:
            opts = [('fn', '$eq', list(atoms))]
        out.append((target, opts))
    return out


def regroup_schema(rng, nseq=None, shapes=None, delivery=None, temp=None, policy=None):
    """2-4 rules `<prefix>/<target>[/<tail>]` over ONE common prefix (1-3 named patterns, 0-2 literals) whose constraints
    on the target are regroupings of ONE option sequence: same flattened order, different cuts into constraints /
    different way of writing a group; a rule either carries its constraints itself or inherits the last groups from a
    base rule `<prefix>/<target>` and adds the first ones (the compiler puts added before inherited constraints).
    Optionally one rule with the sequence permuted, one with an option replaced, one with the first / last constraint
    left out (controls that must stay apart under any merging key).  Returns (ast, fnenv, literals, description of the rules for `regroup_names`)."""
    srcs = rng.sample(['u', 'v', 'w'], rng.choice([1, 2, 2, 2, 3]))
    plits = rng.sample(L.LIT_POOL, 4)
    prefix = [('pat', s) for s in srcs]
    for _ in range(rng.choice([0, 0, 1, 2])):
        prefix.insert(rng.randint(0, len(prefix)), ('lit', plits[0]))
    if temp is None:
        temp = rng.random() < 0.3
    atoms_pool = [('pat', s) for s in srcs] * 2 + [('lit', plits[1]), ('lit', plits[2])]
    n = nseq or rng.choice([2, 2, 2, 3, 3, 4])
    seq = [rng.choice(atoms_pool) for _ in range(n)]
    if len(set(seq)) == 1 and len(set(atoms_pool)) > 1:
        seq[-1] = rng.choice([a for a in atoms_pool if a != seq[0]])
    comps = compositions(n)
    nrules = min(len(comps), rng.choice([2, 2, 3]))
    tails = rng.sample(['one', 'two', 'three', 'four', 'five'], 5)
    same_tail = rng.random() < 0.12
    no_tail = rng.random() < 0.12
    chosen = shapes or rng.sample(comps, nrules)
    ids = rng.sample(L.RULE_NAMES, 2 * len(chosen) + 2)
    side = []
    if rng.random() < 0.25:          # a constraint on a pattern of the prefix, the same in every rule
        side = [(rng.choice(srcs), [('lit', plits[3])] + ([('lit', plits[1])] if rng.random() < 0.5 else []))]
    ast, rules, fe = [], [], {}
    # how the groups are written: all as alternatives / all as `$eq` alternatives / each group on its own
    policy = policy or rng.choice(['or', 'or', 'or', 'each', 'mixed', 'mixed'])

    def add(rid, bid, comp, sq, how, tail):
        tgt = rng.choice(['_a', '_b', '_']) if temp else 'a'
        modes = [rng.choice(['or', 'or', 'or', 'each', 'all']) if policy == 'mixed' else policy for _ in comp]
        cons = regroup_cons(tgt, sq, comp, modes)
        if any(m != 'or' for m in modes):
            fe['$eq'] = 'eq'
        tl = [('lit', tail)] if tail is not None else []

        def with_side(cs):                                      # the order of the target's constraints is kept
            cs = list(cs)
            for c in side:
                cs.insert(rng.randint(0, len(cs)), c)
            return cs
        if how == 'flat' or temp:
            cs = with_side(cons)
            ast.append((rid, prefix + [('pat', tgt)] + tl, [cs] if cs else [], []))
        else:
            k = rng.randint(0, len(cons))                       # the top rule adds the first k groups, the base has the others
            inh, added = with_side(cons[k:]), cons[:k]
            ast.append((bid, prefix + [('pat', tgt)], [inh] if inh else [], []))
            ast.append((rid, [('ref', bid)] + tl, [added] if added else [], []))
        rules.append((rid, tail))
    for i, comp in enumerate(chosen):
        how = delivery[i] if delivery else rng.choice(['flat', 'flat', 'inherit'])
        add(ids[2 * i], ids[2 * i + 1], comp, seq, how, None if no_tail else tails[0] if same_tail else tails[i])
    if delivery is None and rng.random() < 0.3:                 # control: the same groups, the sequence permuted
        sq = list(seq)
        rng.shuffle(sq)
        add(ids[-1], None, rng.choice(comps), sq, 'flat', tails[3])
    if delivery is None and rng.random() < 0.3:                 # control: one option replaced
        sq = list(seq)
        sq[rng.randrange(n)] = rng.choice(atoms_pool)
        add(ids[-2], None, rng.choice(comps), sq, 'flat', tails[4])
    if delivery is None and rng.random() < 0.3:                 # control: one constraint (the first / the last group) left out
        comp = rng.choice([c for c in comps if len(c) > 1])
        if rng.random() < 0.5:
            add(ids[-1] + 'x', None, comp[:-1], seq[:n - comp[-1]], 'flat', tails[2])
        else:
            add(ids[-1] + 'x', None, comp[1:], seq[comp[0]:], 'flat', tails[2])
    rng.shuffle(ast)
    lits = L.all_lits(ast)
    return ast, fe, lits, (prefix, srcs, rules, [plits[1], plits[2], plits[3]])


def regroup_names(rng, desc, cap):
    """names read off the rule text: every assignment of the prefix patterns over {2 components that occur nowhere in the
    schema, the literals of the options} -- so all patterns equal, pairwise distinct and every partition in between --
    times the target equal to each of them / to a third fresh component (exactly ONE option true, several true, all
    true, none true: what tells AND from OR), times every tail and a wrong one; one component shorter / longer."""
    prefix, srcs, rules, olits = desc
    vals = ['n1', 'n2'] + olits[:2]
    tails = list(dict.fromkeys([r[1] for r in rules if r[1] is not None])) + ['n9']
    envs = [[]]
    for s in srcs:
        envs = [e + [(s, v)] for e in envs for v in (vals if s != srcs[-1] or len(srcs) < 3 else vals[:3])]
    out = []
    for e in envs:
        env = dict(e)
        if olits[2] not in env.values() and rng.random() < 0.3:
            env[rng.choice(srcs)] = olits[2]                     # the literal a prefix pattern may be constrained to
        pre = [c[1] if c[0] == 'lit' else env[c[1]] for c in prefix]
        for a in dict.fromkeys(list(env.values()) + vals + ['n3']):
            out.append(pre + [a])
            for t in tails:
                out.append(pre + [a, t])
    if len(out) > cap:
        out = rng.sample(out, cap)
    out += [n[:-2] for n in out[:3]] + [n + ['n9'] for n in out[:3]]
    return out


def run_regroup(ctx):
    rng = ctx.rng

    def go(ast, fe, lits, desc, tag, cap):
        names = regroup_names(rng, desc, cap)
        check_schema(ctx, ast, fe, lits, tag, 2, 6, [[L.comp_bytes(u) for u in n] for n in names])
    # (1) two options, the two groupings (one constraint of two options / two constraints of one option), every way of
    #     carrying them, named and temporary target; rule names drawn at random, so either rule comes first
    for deliv in (['flat', 'flat'], ['flat', 'inherit'], ['inherit', 'flat'], ['inherit', 'inherit']):
        for temp in (False, True):
            for shapes in ([[1, 1], [2]], [[2], [1, 1]]):
                for _ in range(ctx.n(1, 4)):
                    ast, fe, lits, desc = regroup_schema(rng, 2, shapes, deliv, temp, rng.choice(['or', 'or', 'each']))
                    go(ast, fe, lits, desc, 'regroup.pair', ctx.n(300, 600))
    # (2) 2-4 options, 2-3 of the 2^(n-1) groupings, with controls
    for _ in range(ctx.n(45, 900)):
        ast, fe, lits, desc = regroup_schema(rng)
        go(ast, fe, lits, desc, 'regroup.gen', ctx.n(300, 600))


def run(ctx):
    rng = ctx.rng
    for ast, fe in CORPUS:
        check_schema(ctx, ast, fe, L.all_lits(ast), 'corpus', ctx.n(4, 5), 20)
    g = L.Gen(rng, signing=False)
    for _ in range(ctx.n(70, 1500)):
        ast, fe, lits = g.schema()
        check_schema(ctx, ast, fe, lits, 'gen', ctx.n(3, 4), ctx.n(25, 200))
    for _ in range(ctx.n(40, 600)):
        ast, fe, lits = diamond(rng)
        check_schema(ctx, ast, fe, lits, 'diamond', ctx.n(4, 5), ctx.n(25, 200))
    run_wide(ctx)
    # schemas with signing relations as well (sign_cons must not disturb matching)
    g2 = L.Gen(rng, signing=True)
    for _ in range(ctx.n(15, 300)):
        ast, fe, lits = g2.schema()
        check_schema(ctx, ast, fe, lits, 'gen-signed', ctx.n(3, 3), ctx.n(10, 100))
    # last, so that the families above keep their share of the PRNG stream
    run_regroup(ctx)
