"""C11 — a compiled trust schema matches exactly the names its source text describes.

Per generated schema (printed to LVS text, so lark + parser.py are inside the tie):
 * correspondence: compile_lvs(text) vs Model/LvsCompiler.compile (canonical dump of the whole tree);
   Checker.match vs Model/LvsChecker.lvs_match run on the implementation's own tree, on every name up to
   a length bound over the schema's literals + 2 fresh components (+ digest-suffixed / empty names);
   the same again after Checker.load(Checker.save()).
 * direct oracle: Spec/LvsSem.sem evaluated on the source AST; the set of (rule, bindings) the
   implementation reports must be exactly that set.
A structural difference of the tree with equal behaviour is drift: the enumeration is widened for that
schema and only a behavioural difference is reported.
"""
from harness.props import lvs_common as L

RULE = ('schemas: 2-6 rules + temporary rules, references (same rule up to 3x), redefinitions, temporary patterns, '
        '0-2 constraint sets with 1-3 terms of 1-3 options (literal / pattern / $eq / $eq_type / table-driven / undefined '
        'function), rule names in random alphabetical order; a reference-heavy family (one rule with alternative constraint '
        'sets reached several times, directly and through intermediate rules); names: exhaustive to length 3 (quick) / 4 (thorough) over '
        'literals + 2 fresh components, sampled to length 6, digest-suffixed and empty names; non-trivial = non-empty '
        'name; distinct by (schema text, name)')
ASSUMPTIONS = ['lark 1.x and grammar.py are exercised, not modelled (the AST is printed to text and parsed by the real parser)',
               'TLV encoding of LvsModel (save/load) is the real codec; its round trip is property C08']

CORPUS = [
    # †6: constraint lost on the second copy
    ([('#a', [('pat', '_x')], [[('_x', [('lit', 'a'), ('lit', 'b')])]], []),
      ('#b', [('ref', '#a'), ('ref', '#a')], [], [])], {}),
    ([('#a', [('pat', '_x')], [[('_x', [('lit', 'a')])], [('_x', [('lit', 'b')])]], []),
      ('#b', [('ref', '#a'), ('ref', '#a')], [], [])], {}),
    ([('#k', [('pat', '_x'), ('pat', '_x')], [[('_x', [('lit', 'a'), ('lit', 'b')])]], []),
      ('#a', [('ref', '#k'), ('lit', 'a')], [], []),
      ('#b', [('ref', '#k'), ('lit', 'b')], [], []),
      ('#c', [('ref', '#a'), ('ref', '#b'), ('ref', '#k')], [], [])], {}),
    # a temporary tag of one chain recurs later in another chain merged into the same path (second half of †6)
    ([('#z', [('pat', '_')], [], []),
      ('#z', [('pat', '_'), ('pat', '_y')], [[('_y', [('lit', 'v=0')])]], []),
      ('#b', [('ref', '#z'), ('pat', '_x')], [[('_x', [('lit', 'v=0')])]], [])], {}),
    ([('#z', [('pat', '_')], [], []),
      ('#z', [('pat', '_'), ('pat', '_')], [], []),
      ('#z', [('lit', 'a'), ('pat', '_'), ('pat', '_')], [], []),
      ('#b', [('ref', '#z'), ('pat', '_x'), ('ref', '#z')], [[('_x', [('lit', 'a'), ('lit', 'b')])]], []),
      ('#Ab', [('ref', '#z'), ('pat', '_x')], [[('_x', [('lit', 'b')])]], [])], {}),
    # †17: order of rule names
    ([('#b', [('lit', 'a'), ('pat', 'p')], [[('p', [('pat', 'q')])]], []),
      ('#a', [('lit', 'b'), ('pat', 'q')], [], ['#b'])], {}),
    # docs example
    ([('#site', [('lit', 'a'), ('lit', 'blog')], [], []),
      ('#root', [('ref', '#site'), ('ref', '#KEY')], [], []),
      ('#article', [('ref', '#site'), ('lit', 'article'), ('pat', 'category'), ('pat', 'year'), ('pat', 'month')], [], ['#author']),
      ('#author', [('ref', '#site'), ('pat', 'role'), ('pat', 'author'), ('ref', '#KEY')], [[('role', [('lit', 'author')])]], ['#admin']),
      ('#admin', [('ref', '#site'), ('lit', 'admin'), ('pat', 'admin'), ('ref', '#KEY')], [], ['#root']),
      ('#KEY', [('lit', 'KEY'), ('pat', '_'), ('pat', '_'), ('pat', '_')], [], [])], {}),
    # pattern equal to an earlier pattern, function arguments bound / unbound
    ([('#r', [('pat', 'a'), ('lit', 'b'), ('pat', 'c'), ('pat', 'd')], [[('c', [('pat', 'a')])]], []),
      ('#s', [('pat', 'a'), ('pat', 'c')], [[('a', [('fn', '$eq', [('pat', 'c')])])], [('c', [('fn', '$eq', [('pat', 'a'), ('lit', 'b')])])]], [])],
     {'$eq': 'eq'}),
    ([('#r', [('pat', 'a'), ('pat', 'b')], [[('a', [('fn', '$eq_type', [('pat', 'b')])])]], []),
      ('#s', [('pat', 'a'), ('pat', 'b')], [[('b', [('fn', '$eq_type', [('pat', 'a'), ('lit', 'v=0')]), ('lit', 'k')])]], [])],
     {'$eq_type': 'eq_type'}),
]


def is_pseudo(r):
    return r[:2] == b'#_' and b'#' not in r[2:]


def flat_impl(res):
    s = set()
    for rn, cx in res:
        for r in rn:
            if not is_pseudo(r):
                s.add((r, tuple((k, v) for k, v in cx)))
    return s


def flat_spec(ans):
    return set((t[0], tuple(sorted((p, v) for p, v in t[1]))) for t in ans)


def name_pool(ctx, ast, lits, maxlen, extra):
    rng = ctx.rng
    alpha = L.alphabet(L.all_lits(ast) or lits)
    if len(alpha) > 6:
        alpha = alpha[:4] + alpha[-2:]
    names = list(L.names_upto(alpha, maxlen))
    for _ in range(extra):
        names.append([rng.choice(alpha) for _ in range(rng.randint(min(maxlen + 1, 6), 6))])
    # digest-suffixed variants of some names, a lone digest
    for n in rng.sample(names, min(12, len(names))):
        names.append(list(n) + [L.DIGEST])
    names.append([L.DIGEST])
    return names


def check_schema(ctx, ast, fe, lits, tag, maxlen, extra):
    M = ctx.call
    rng = ctx.rng
    text = L.txt_ast(ast, rng)
    sa = L.sx_ast(ast)
    r = L.impl_compile(text)
    if L.too_big(r):
        ctx.stat('schemas.skipped-huge-model')
        return
    m = M([1, sa])
    case = {'schema': text}
    m2 = M([10, sa])
    if L.canon(m2) != L.canon(m):
        ctx.disagree('model-internal', 'compile (gen_tree + flatten) and compile_pool (node pool) differ', case, m, m2)
    if not L.same_outcome(m, r):
        ctx.disagree('compile_lvs', 'different outcome (ok / error class)', case, m, r[1:] if r[0] == 'err' else 'ok')
        return
    if not L.is_err(m):
        ok = M([11, sa])
        if ok != [1, 1]:
            ctx.disagree('chains_ok', 'chains_ok (a lemma of C11_match_iff / C12_check_iff, proved from static_ok + schema_wf) does not hold for this schema', case, ok, None)
        else:
            ctx.stat('chains_ok.holds')
    if r[0] == 'err':
        ctx.case((text, 'compile-error'), True, None, 'compile.' + str(r[1]))
        return
    model = r[1]
    dump = L.dump_model(model)
    drift = L.canon(m[1]) != L.canon(dump)
    fns = L.py_fns(fe)
    sfe = L.sx_fnenv(fe)
    c = L.impl_checker(model, fns)
    if c[0] == 'err':
        # signing cycle etc.: C13's business; C11 needs a checker
        ctx.case((text, 'checker-error'), True, None, 'checker.' + str(c[1]))
        return
    chk = L.with_budget(c[1])
    names = name_pool(ctx, ast, lits, min(maxlen + (1 if drift else 0), 5), extra) + L.guided_names(rng, model, L.alphabet(L.all_lits(ast) or lits), ctx.n(40, 150))
    impl = [L.impl_match(chk, n) for n in names]
    mod = M([13, dump, sfe, L.MODEL_FUEL, names])
    spec = M([15, sa, sfe, names])
    own = M([13, m[1], sfe, L.MODEL_FUEL, names]) if drift else None
    behav_diff = False
    for i, n in enumerate(names):
        ri, mi = impl[i], mod[i]
        cs = dict(case, name=n)
        if not L.same_outcome(mi, ri):
            ctx.disagree('Checker.match', 'different outcome (ok / error class)', cs, mi, ri[1:] if ri[0] == 'err' else ri[1])
        elif ri[0] == 'ok' and L.canon(L.model_match_result(mi[1])) != L.canon(ri[1]):
            ctx.disagree('Checker.match', 'different matches', cs, L.model_match_result(mi[1]), ri[1])
        if ri[0] == 'ok':
            got, want = flat_impl(ri[1]), flat_spec(spec[i])
            if got != want:
                extra_, missing = got - want, want - got
                cls = 'reports-unspecified-match' if extra_ else 'misses-specified-match'
                ctx.violation('Checker.match', cls,
                              f'match reports {sorted(extra_)[:2]} beyond the schema / misses {sorted(missing)[:2]}', cs)
            if own is not None and not L.is_err(own[i]) and flat_impl(L.model_match_result(own[i][1])) != got:
                behav_diff = True
                ctx.disagree('compile_lvs', 'compiled trees differ AND behave differently', cs, own[i], ri[1])
        ctx.case((text, n), len(n) > 0, {'schema': text, 'name': n} if i == 3 else None,
                 tag + ('.match' if ri[0] == 'ok' and ri[1] and any(not is_pseudo(x) for rn, _ in ri[1] for x in rn) else '.nomatch'))
    if drift and not behav_diff:
        ctx.stat('drift:tree-structure-differs-behaviour-equal')
        ctx.notes.append('drift: compiled tree differs structurally from the model for a schema; behaviour equal on the widened enumeration')
    # save / load
    try:
        from ndn.app_support.light_versec import Checker
        chk2 = Checker.load(c[1].save(), fns)
        if L.canon(L.dump_model(chk2.model)) != L.canon(dump):
            ctx.violation('Checker.load', 'save-load-changes-model', 'load(save(m)) differs structurally from m', case)
        chk2 = L.with_budget(chk2)
        for i in rng.sample(range(len(names)), min(40, len(names))):
            r2 = L.impl_match(chk2, names[i])
            if r2[0] != impl[i][0] or (r2[0] == 'ok' and L.canon(r2[1]) != L.canon(impl[i][1])):
                ctx.violation('Checker.load', 'save-load-changes-matches', 'match differs after save/load', dict(case, name=names[i]))
    except Exception as e:   # noqa
        ctx.violation('Checker.load', 'save-load-raises', f'{type(e).__name__}: {e}', case)


def diamond(rng):
    """Reference-heavy family: a short base rule with a (temporary or named) pattern under 1-3 ALTERNATIVE constraint
    sets, reached several times from one rule, directly and through intermediate rules (copies of one rule meet in
    one name, each copy free to satisfy a different alternative)."""
    lits = rng.sample(L.LIT_POOL, 2)
    t = rng.choice(['_x', '_x', '_', 'x'])
    t2 = rng.choice(['_y', 'y'])
    shape = rng.choice([0, 0, 1, 2])
    base = [('pat', t)] if shape == 0 else [('lit', lits[0]), ('pat', t)] if shape == 1 else [('pat', t), ('pat', t2)]
    nalt = rng.choice([1, 2, 2, 2, 3])
    cons = []
    for i in range(nalt):
        cs = [(t, [('lit', (lits + ['q1'])[i % 3])] + ([('lit', rng.choice(lits))] if rng.random() < 0.2 else []))]
        if shape == 2 and rng.random() < 0.5:
            cs.append((t2, [('lit', rng.choice(lits))]))
        cons.append(cs)
    ast = [('#a', base, cons, [])]
    if rng.random() < 0.3:
        ast.append(('#a', [('lit', lits[1])] + base, cons[:1], []))
    def wrap(rid, inner):
        nm = [('ref', inner)]
        for _ in range(rng.choice([0, 1, 1, 2])):
            nm.insert(rng.randint(0, len(nm)), ('lit', rng.choice(lits)) if rng.random() < 0.7 else ('pat', rng.choice(['_', 'z'])))
        return (rid, nm, [], [])
    mids = ['#a']
    ast.append(wrap('#b', '#a'))
    mids.append('#b')
    if rng.random() < 0.5:
        ast.append(wrap('#c', rng.choice(['#a', '#b'])))
        mids.append('#c')
    top = [('ref', rng.choice(mids)) for _ in range(rng.choice([2, 2, 3]))]
    if rng.random() < 0.4:
        top.insert(rng.randint(0, len(top)), ('lit', rng.choice(lits)))
    tcons = [[(t, [('lit', lits[0])])]] if (t[0] != '_' and rng.random() < 0.3) else []
    ast.append(('#d', top, tcons, []))
    rng.shuffle(ast)
    return ast, {}, lits


def run(ctx):
    rng = ctx.rng
    for ast, fe in CORPUS:
        check_schema(ctx, ast, fe, L.all_lits(ast), 'corpus', ctx.n(4, 5), 20)
    g = L.Gen(rng, signing=False)
    for _ in range(ctx.n(70, 1500)):
        ast, fe, lits = g.schema()
        check_schema(ctx, ast, fe, lits, 'gen', ctx.n(3, 4), ctx.n(25, 200))
    for _ in range(ctx.n(40, 600)):
        ast, fe, lits = diamond(rng)
        check_schema(ctx, ast, fe, lits, 'diamond', ctx.n(4, 5), ctx.n(25, 200))
    # schemas with signing relations as well (sign_cons must not disturb matching)
    g2 = L.Gen(rng, signing=True)
    for _ in range(ctx.n(15, 300)):
        ast, fe, lits = g2.schema()
        check_schema(ctx, ast, fe, lits, 'gen-signed', ctx.n(3, 3), ctx.n(10, 100))
