"""C19, stream H - LARGE objects: the number of segments crosses every width boundary of the segment number.

The segment component of a name carries the number as the shortest of the 1 / 2 / 4 / 8 octet big-endian forms, so an
object of more than 255 (65535) segments has names whose last component changes width at 255 -> 256 (65535 -> 65536).
The fetcher builds the name of every following segment itself (``Component.from_segment``); a producer publishes every
segment under the canonical name and answers an Interest (CanBePrefix = false) for exactly that name only.  The objects
of the other streams have at most 40 segments, so none of them ever reaches the second width.

Driver: the fake application of streams A / B / D (no NDNApp, no signatures) with its runaway limit lifted to the size
of the object: a fetch of 65537 segments costs about a second.

 * sizes 255 / 256 / 257 (thorough: 254 .. 258): the whole judge_fetch of stream A - model trace (fuel = size),
   Spec.expected, Spec.expected_asks, headline, retry discipline, names of the Interests;
 * sizes 65535 / 65536 / 65537: the extracted model and specification index segments by unary numbers (and the object by
   ``nth``) and would need ~10^9 steps, so these fetches are judged by the headline property stated in Python (every
   content once, in order, the ending), the retry discipline on the trace, the Interest parameters and the NAMES of the
   Interests (object name + canonical segment component); the canonical component itself is tied to the specification:
   ``seg(i) = Spec.seg_comp i`` and ``Component.from_segment(i) = Model.comp_from_segment i`` at every width boundary.

Cases are compact descriptors (the object is a function of the descriptor), so a failing input replays on its own.
"""
import struct

from harness.lib.model import exc_code
from harness.props import c19 as H

STREAM = 'large objects (fake application)'
# numbers around the width boundaries of a NonNegativeInteger
BOUNDARY = [0, 1, 127, 128, 252, 253, 254, 255, 256, 257, 258, 65533, 65534, 65535, 65536, 65537, 65538]
BOUNDARY_WIDE = [(1 << 32) - 2, (1 << 32) - 1, 1 << 32, (1 << 32) + 1, (1 << 63) - 1, 1 << 63, (1 << 64) - 2, (1 << 64) - 1]
FULL_JUDGE_MAX = 400          # up to here the extracted model / specification judge the fetch


def content_of(i):
    return struct.pack('!I', i) + b'\x63'


def build(desc):
    """The scenario of a descriptor: N segments, content a function of the number, FinalBlockId on the last segment only
    ('last') / the same final marker on every segment ('all') / on the last and on a sample of earlier ones ('some')."""
    N = desc['nseg']
    base = [bytes(c) for c in desc['base']]
    pm = desc['prefix_mode']
    last = H.seg(N - 1)
    if desc['markers'] == 'all':
        markers = [last] * N
    elif desc['markers'] == 'some':
        markers = [last if i % 7 == 3 else None for i in range(N)]
    else:
        markers = [None] * N
    markers[N - 1] = last
    fates = {}
    for k, n, after in desc['fates']:
        fates[None if k < 0 else k] = ([H.LOST] * n, after)
    return {'base': base, 'nseg': N, 'contents': [content_of(i) for i in range(N)], 'markers': markers,
            'prefix': base if pm == 0 else base[:-1], 'disc': ('seg', desc['disc']), 'fates': fates}


def run_desc(ctx, loop, desc, stratum):
    s = build(desc)
    N, retry, lifetime, mbf, how = desc['nseg'], desc['retry_times'], desc['timeout'], desc['must_be_fresh'], desc['call_style']
    kw = {'retry_times': retry, 'timeout': lifetime, 'must_be_fresh': mbf}
    validator = object() if how != 2 else None
    if validator is not None:
        kw['validator'] = validator
    name_arg = s['prefix']
    if how == 1:
        from ndn.encoding import Name
        name_arg = bytes(Name.to_bytes(s['prefix']))
    answer, fate = H.scenario_answer(s)
    nack_reason = desc['nack_reason']
    limit = 2 * N + 64 + sum(n for _, n, _ in desc['fates'])
    trace, ending, app = H.run_impl(loop, answer, name_arg, kw, as_view=(how == 1), nack_reason=nack_reason, limit=limit)
    case = dict(desc)
    if len(trace) > limit:
        H.runaway(ctx, case)
        return
    H.judge_fetch(ctx, s, retry, lifetime, mbf, trace, ending, case, stratum, fate=fate, kwlog=app.kwlog, validator=validator,
                  got_reason=getattr(app.caught, 'reason', None), nack_reason=nack_reason, key=repr(sorted(desc.items())),
                  fuel=N + 8, with_model=N <= FULL_JUDGE_MAX)
    ctx.stat('H.segments-requested', sum(1 for t in trace if t[0] == 'ask'))


def desc_of(N, disc, fates, retry, markers='last', pm=0, how=0, lifetime=4000, mbf=True, nack_reason=150, base=None):
    if base is None:
        base = [bytes([8, 3]) + b'big', bytes([54, 1, 7])] if pm else [bytes([8, 3]) + b'big']
    return {'stream': STREAM, 'nseg': N, 'base': base, 'prefix_mode': pm, 'disc': disc, 'markers': markers,
            'fates': [list(f) for f in fates], 'retry_times': retry, 'timeout': lifetime, 'must_be_fresh': mbf,
            'call_style': how, 'nack_reason': nack_reason}


def edge_keys(N):
    """The segments whose number sits at a width boundary, inside an object of N segments."""
    return [k for k in (254, 255, 256, 257, 65534, 65535, 65536) if k < N] or [N - 1]


def tie_encodings(ctx):
    """seg() (the harness' canonical segment component) IS Spec.seg_comp, and the library's Component.from_segment is the
    model's comp_from_segment, at every width boundary (the specification's is unary: up to 65538 only)."""
    from ndn.encoding import Component
    M = ctx.call
    for i in BOUNDARY:
        sp = bytes(M([5, i]))
        if sp != H.seg(i):
            ctx.disagree('harness.seg', f'seg({i}) differs from Spec.seg_comp', {'segment': i}, sp, H.seg(i))
    for i in BOUNDARY + BOUNDARY_WIDE:
        mo = H.norm(M([6, i]))
        try:
            io = [1, bytes(Component.from_segment(i))]
        except Exception as e:  # noqa
            io = [0, exc_code(e)]
        if mo != io:
            ctx.disagree('Component.from_segment', f'segment component of {i}: model and library differ', {'segment': i}, mo, io)
        ctx.case(('from_segment', i), True, None, 'H.encoding-tie')


def stream_h(ctx, loop):
    rng = ctx.rng
    tie_encodings(ctx)
    # --- hundreds of segments: judged by the extracted model and specification ---------------------------------------
    sizes = [255, 256, 257] if not ctx.thorough else [254, 255, 256, 257, 258, 300]
    for N in sizes:
        edges = edge_keys(N)
        for disc in sorted({0, N - 1, min(255, N - 1), 256 if N > 256 else 1}):
            for retry in (1, 3):
                att = max(1, retry)
                pats = [('none', [])]
                if retry > 1 or ctx.thorough:
                    pats += [('edges-late', [(k, att - 1, H.DELIVERED) for k in edges + [-1]]),
                             ('edge-exhausted', [(edges[-1], att, H.DELIVERED)])]
                if ctx.thorough:
                    pats += [('edge-nacked', [(edges[-1], att - 1, H.NACKED)]), ('edge-refused', [(edges[0], 0, H.INVALID)]),
                             ('last-exhausted', [(N - 1, att + 1, H.DELIVERED)])]
                for pname, fates in pats:
                    d = desc_of(N, disc, fates, retry, markers=rng.choice(['last', 'all', 'some']), pm=rng.choice([0, 1]),
                                how=rng.choice([0, 1, 2]), mbf=rng.choice([True, False]), nack_reason=rng.choice(H.NACK_REASONS))
                    run_desc(ctx, loop, d, 'H.hundreds-' + pname)
    # --- tens of thousands: 65535 / 65536 / 65537 segments, judged by the headline property and the Interest names ------
    for N in [65535, 65536, 65537]:
        edges = edge_keys(N)
        plans = [(N - 1, 2, 'edges-late', [(k, 1, H.DELIVERED) for k in edges + [-1]])]
        if N > 65535 or ctx.thorough:
            plans.append((0, 3, 'none', []))
        if N == 65537 or ctx.thorough:
            plans.append((65535 if N > 65535 else 255, 3, 'edge-exhausted', [(edges[-1], 3, H.DELIVERED)]))
        if ctx.thorough:
            plans += [(256, 1, 'none', []), (0, 0, 'none', []), (1, 3, 'edge-nacked', [(edges[-1], 2, H.NACKED)]),
                      (0, 3, 'edge-refused', [(edges[-2], 0, H.INVALID)]), (0, 4, 'edges-late', [(k, 3, H.DELIVERED) for k in edges])]
        for j, (disc, retry, pname, fates) in enumerate(plans):
            d = desc_of(N, disc, fates, retry, markers=['last', 'some', 'all'][j % 3], pm=j % 2, how=[0, 2, 1][j % 3],
                        mbf=(j % 2 == 0), nack_reason=H.NACK_REASONS[(N + j) % len(H.NACK_REASONS)])
            run_desc(ctx, loop, d, 'H.tens-of-thousands-' + pname)


def replay(ctx, case):
    import asyncio
    loop = asyncio.new_event_loop()
    try:
        run_desc(ctx, loop, case, 'H.replay')
    finally:
        loop.close()
