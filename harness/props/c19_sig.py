"""C19 stream F: segment_fetcher over a real NDNApp, the object's segments REALLY signed, the validator in force is a
SHIPPED one: the application's default Data validator (``segment_fetcher(..., validator=None)`` / no validator
argument: app.py falls back to ``NDNApp.data_validator``), ``sha256_digest_checker`` / ``union_checker(...)`` /
``HmacChecker.from_key(...)`` handed over explicitly, or a strict validator of the harness (explicitly, and installed
as ``app.data_validator``).

Every Data packet is encoded here, element by element (nothing of the library's encoder or signers is used), with a
*signature shape*: correctly signed; a digest / MAC that is wrong in one bit, of the wrong length, computed over other
bytes (tampered content / FinalBlockId / name, another key); an EMPTY SignatureValue (``17 00``); NO SignatureValue
element; no SignatureInfo at all; a signature type the validator in force is not responsible for.  Whether the
property's validator clause obliges the fetch to refuse a packet ("validation failures ... propagate instead of being
skipped") is decided on the WIRE with an own TLV walk and hashlib / hmac: a packet that claims the signature type the
validator in force verifies, and whose SignatureValue is not that function of its signed portion (Name ..
SignatureInfo), MUST be refused; one that claims it and verifies must be accepted; anything else is left to the
validator (the fate of such a packet is read off what the fetch did with it - refused or delivered, either is
consistent - and the rest of the fetch is judged on that basis).

The scenario (fates per Interest) that results is judged exactly like stream C: extracted ``Spec.expected`` (yields and
ending), model trace, retry discipline, Interests sent; plus, stated directly, `a packet that must be refused is
never yielded and ends the fetch with ValidationFailure at its position`."""
import asyncio
import hashlib
import hmac as pyhmac

from harness.lib import vtloop
from harness.lib import gen as G
from harness.props import c19 as H

SITE = 'segment_fetcher+NDNApp(signed segments)'
NET_DELAY = 0.005

HKEY = b'c19-hmac-key-0123456789abcdef'
HKEY_OTHER = b'c19-another-key-0123456789abcde'
HKEY_NAME = [bytes([8, 3]) + b'c19', bytes([8, 3]) + b'KEY', bytes([8, 2]) + b'k1']


# ---- own TLV encoding / walking -------------------------------------------------------------------------------------
def tl(t, v):
    n = len(v)
    assert t < 253
    if n < 253:
        return bytes([t, n]) + v
    if n < 65536:
        return bytes([t, 253]) + n.to_bytes(2, 'big') + v
    return bytes([t, 254]) + n.to_bytes(4, 'big') + v


def read_tl(buf, pos):
    """-> (type, value start, value end)"""
    def num(p):
        b = buf[p]
        if b < 253:
            return b, p + 1
        w = {253: 2, 254: 4, 255: 8}[b]
        return int.from_bytes(buf[p + 1:p + 1 + w], 'big'), p + 1 + w
    t, p = num(pos)
    n, p = num(p)
    return t, p, p + n


def children(buf, a, b):
    out = []
    p = a
    while p < b:
        t, va, vb = read_tl(buf, p)
        out.append((t, p, va, vb))
        p = vb
    return out


def nni(value, width):
    """NonNegativeInteger in the given width (1, 2, 4, 8 octets; every width is a legal encoding)."""
    assert width in (1, 2, 4, 8) and 0 <= value < 1 << (8 * width)
    return value.to_bytes(width, 'big')


def meta_tlv(marker, style):
    """MetaInfo.  style 0 / 1 / 2: bare / with ContentType 0 / with a FreshnessPeriod of 1000; FinalBlockId = the marker
    component.  style ['m', ct, fp, extra] (the MetaInfo family of c19_meta.py): ContentType ct and FreshnessPeriod fp, each
    None (element absent) or [value, width] (NonNegativeInteger of that value in that many octets); extra = None,
    'no-metainfo' (no MetaInfo element at all when there is nothing to put in it), 'unknown-element' (an element with an
    unassigned non-critical type number after the known ones)."""
    v = b''
    if isinstance(style, (list, tuple)):
        _, ct, fp, extra = style
        if ct is not None:
            v += tl(24, nni(ct[0], ct[1]))
        if fp is not None:
            v += tl(25, nni(fp[0], fp[1]))
        if marker is not None:
            v += tl(26, marker)
        if extra == 'unknown-element':
            v += tl(240, b'\x01\x02')
        if extra == 'no-metainfo' and not v:
            return b''
        return tl(20, v)
    if style == 1:
        v += tl(24, b'\x00')
    if style == 2:
        v += tl(25, b'\x03\xe8')
    if marker is not None:
        v += tl(26, marker)
    return tl(20, v)


def sig_info(typ, locator=None, width=1):
    v = tl(27, typ.to_bytes(width, 'big'))
    if locator is not None:
        v += tl(28, tl(7, b''.join(locator)))
    return tl(22, v)


# signature shapes: name -> family ('digest' shapes claim DigestSha256, 'hmac' shapes claim HmacWithSha256, 'none' neither)
DIGEST_GOOD = ['good', 'good-locator', 'good-type-2-octets']
DIGEST_BAD = ['flip-first', 'flip-last', 'flip-middle', 'zeros', 'of-content-only', 'of-unsigned-part', 'short-31', 'long-33',
              'one-octet', 'empty-value', 'no-value', 'tampered-content', 'tampered-final-block', 'signed-other-segment']
HMAC_GOOD = ['hmac-good', 'hmac-good-locator-longer']
HMAC_BAD = ['hmac-flip', 'hmac-other-key', 'hmac-short', 'hmac-empty-value', 'hmac-no-value', 'hmac-tampered-content',
            'hmac-is-plain-digest']
HMAC_OPEN = ['hmac-no-locator', 'hmac-foreign-locator']
UNCLAIMED = ['no-siginfo', 'value-without-siginfo', 'type-rsa-noise', 'type-ecdsa-empty', 'type-200']


def other_content(c):
    return bytes([c[0] ^ 0x80]) + c[1:] if c else b'\x00'


def build_data(name, content, marker, shape, style=0):
    """The wire of one Data packet with the given signature shape."""
    nm = tl(7, b''.join(name))
    meta = meta_tlv(marker, style)
    ct = tl(21, content)

    def pack(si, value):
        return tl(6, nm + meta + ct + si + (tl(23, value) if value is not None else b''))

    if shape in ('no-siginfo',):
        return pack(b'', None)
    if shape == 'value-without-siginfo':
        return pack(b'', hashlib.sha256(nm + meta + ct).digest())
    if shape == 'type-rsa-noise':
        return pack(sig_info(1, HKEY_NAME), hashlib.sha256(b'noise' + content).digest() * 4)
    if shape == 'type-ecdsa-empty':
        return pack(sig_info(3, HKEY_NAME), b'')
    if shape == 'type-200':
        return pack(sig_info(200), b'\x01\x02\x03')
    if shape.startswith('hmac'):
        loc = HKEY_NAME
        if shape == 'hmac-good-locator-longer':
            loc = HKEY_NAME + [bytes([8, 1, 0x63])]
        elif shape == 'hmac-no-locator':
            loc = None
        elif shape == 'hmac-foreign-locator':
            loc = [bytes([8, 5]) + b'other', bytes([8, 3]) + b'KEY']
        si = sig_info(4, loc)
        signed = nm + meta + ct + si
        mac = pyhmac.new(HKEY, signed, hashlib.sha256).digest()
        if shape == 'hmac-flip':
            mac = mac[:7] + bytes([mac[7] ^ 0x10]) + mac[8:]
        elif shape == 'hmac-other-key':
            mac = pyhmac.new(HKEY_OTHER, signed, hashlib.sha256).digest()
        elif shape == 'hmac-short':
            mac = mac[:16]
        elif shape == 'hmac-empty-value':
            mac = b''
        elif shape == 'hmac-no-value':
            mac = None
        elif shape == 'hmac-tampered-content':
            mac = pyhmac.new(HKEY, nm + meta + tl(21, other_content(content)) + si, hashlib.sha256).digest()
        elif shape == 'hmac-is-plain-digest':
            mac = hashlib.sha256(signed).digest()
        return pack(si, mac)
    # DigestSha256 shapes
    si = sig_info(0)
    if shape == 'good-locator':
        si = sig_info(0, HKEY_NAME)
    elif shape == 'good-type-2-octets':
        si = sig_info(0, None, 2)
    signed = nm + meta + ct + si
    dg = hashlib.sha256(signed).digest()
    if shape == 'flip-first':
        dg = bytes([dg[0] ^ 1]) + dg[1:]
    elif shape == 'flip-last':
        dg = dg[:-1] + bytes([dg[-1] ^ 0x80])
    elif shape == 'flip-middle':
        dg = dg[:16] + bytes([dg[16] ^ 4]) + dg[17:]
    elif shape == 'zeros':
        dg = bytes(32)
    elif shape == 'of-content-only':
        dg = hashlib.sha256(content).digest()
    elif shape == 'of-unsigned-part':
        dg = hashlib.sha256(nm + meta + ct).digest()
    elif shape == 'short-31':
        dg = dg[:31]
    elif shape == 'long-33':
        dg = dg + b'\x00'
    elif shape == 'one-octet':
        dg = dg[:1]
    elif shape == 'empty-value':
        dg = b''
    elif shape == 'no-value':
        dg = None
    elif shape == 'tampered-content':
        dg = hashlib.sha256(nm + meta + tl(21, other_content(content)) + si).digest()
    elif shape == 'tampered-final-block':
        other = None if marker is not None else H.seg(0)
        dg = hashlib.sha256(nm + meta_tlv(other, style) + ct + si).digest()
    elif shape == 'signed-other-segment':
        last = name[-1]
        alt = name[:-1] + [last[:-1] + bytes([last[-1] ^ 1]) if len(last) > 2 else bytes([8, 1, 0x7a])]
        dg = hashlib.sha256(tl(7, b''.join(alt)) + meta + ct + si).digest()
    elif shape not in DIGEST_GOOD:
        raise ValueError(shape)
    return pack(si, dg)


def wire_verdict(wire, policy):
    """'refuse' / 'accept' / 'open' for the packet [wire] under the validator policy in force, from the wire alone.
    policy 'digest': the validator verifies DigestSha256 signatures; 'hmac': it verifies HmacWithSha256 signatures made
    with HKEY by a key whose name has HKEY_NAME as a prefix; 'strict': accepts a verified DigestSha256 signature and
    nothing else."""
    t, a, b = read_tl(wire, 0)
    assert t == 6 and b == len(wire)
    ch = children(wire, a, b)
    assert ch and ch[0][0] == 7
    start = ch[0][1]
    info = [c for c in ch if c[0] == 22]
    val = [c for c in ch if c[0] == 23]
    value = bytes(wire[val[0][2]:val[0][3]]) if val else None
    styp = None
    locator = None
    signed = None
    if info:
        signed = bytes(wire[start:info[0][3]])
        for c in children(wire, info[0][2], info[0][3]):
            if c[0] == 27:
                styp = int.from_bytes(wire[c[2]:c[3]], 'big')
            if c[0] == 28:
                inner = children(wire, c[2], c[3])
                if inner and inner[0][0] == 7:
                    locator = [bytes(wire[x[1]:x[3]]) for x in children(wire, inner[0][2], inner[0][3])]
    if policy in ('digest', 'strict'):
        if styp == 0:
            ok = value is not None and hashlib.sha256(signed).digest() == value
            return 'accept' if ok else 'refuse'
        return 'refuse' if policy == 'strict' else 'open'
    if policy == 'hmac':
        if styp == 4:
            ok = value is not None and pyhmac.new(HKEY, signed, hashlib.sha256).digest() == value
            if not ok:
                return 'refuse'
            if locator is not None and locator[:len(HKEY_NAME)] == HKEY_NAME:
                return 'accept'
        return 'open'
    raise ValueError(policy)


# ---- the validator in force -----------------------------------------------------------------------------------------
# mode -> policy
MODES = {'default(no validator argument)': 'digest', 'default(validator=None)': 'digest',
         'sha256_digest_checker': 'digest', 'union_checker(digest)': 'digest', 'union_checker(digest, accept-all)': 'digest',
         'union_checker(accept-all, digest)': 'digest', 'own strict validator': 'strict',
         'own strict validator as app.data_validator': 'strict',
         'HmacChecker.from_key': 'hmac', 'union_checker(digest, HmacChecker)': 'hmac'}


def install(mode, app, face):
    """-> keyword arguments for segment_fetcher that put the validator of [mode] in force."""
    async def accept_all(name, sig):
        return True

    async def strict(name, sig):
        face.vcalls += 1
        w = face.wire_by_name.get(tuple(H.nb(name)))
        return w is not None and wire_verdict(w, 'strict') == 'accept'

    if mode == 'default(no validator argument)':
        return {}
    if mode == 'default(validator=None)':
        return {'validator': None}
    if mode == 'own strict validator':
        return {'validator': strict}
    if mode == 'own strict validator as app.data_validator':
        app.data_validator = strict
        return {'validator': None}
    from ndn.security import sha256_digest_checker, union_checker
    if mode == 'sha256_digest_checker':
        return {'validator': sha256_digest_checker}
    if mode == 'union_checker(digest)':
        return {'validator': union_checker(sha256_digest_checker)}
    if mode == 'union_checker(digest, accept-all)':
        return {'validator': union_checker(sha256_digest_checker, accept_all)}
    if mode == 'union_checker(accept-all, digest)':
        return {'validator': union_checker(accept_all, sha256_digest_checker)}
    from ndn.security.validator.known_key_validator import HmacChecker
    hm = HmacChecker.from_key(list(HKEY_NAME), HKEY)
    if mode == 'HmacChecker.from_key':
        return {'validator': hm}
    if mode == 'union_checker(digest, HmacChecker)':
        return {'validator': union_checker(sha256_digest_checker, hm)}
    raise ValueError(mode)


class SignedFace:
    """The producer: answers the Interest of a key (discovery / segment i) with the prepared wire of that key, after the
    first losses[key] Interests of the key went unanswered."""

    def __init__(self, loop, s, wires, losses, events):
        self.running = True
        self.callback = None
        self.loop = loop
        self.s = s
        self.wires = wires
        self.losses = losses
        self.events = events
        self.counts = {}
        self.names = {tuple(s['base'] + [H.seg(i)]): i for i in range(s['nseg'])}
        self.wire_by_name = {}
        self.vcalls = 0

    def send(self, wire):
        from ndn.encoding import parse_interest, parse_tl_num
        name, param, _, _ = parse_interest(bytes(wire), with_tl=True)
        q = (H.nb(name), bool(param.can_be_prefix), bool(param.must_be_fresh), param.lifetime)
        if q[1]:
            key = None if q[0] == self.s['prefix'] else 'none'
        else:
            key = self.names.get(tuple(q[0]), 'none')
        n = self.counts.get(repr(q), 0)
        self.counts[repr(q)] = n + 1
        if len(self.events) > 3000:
            raise RuntimeError('runaway fetch')
        answered = key != 'none' and n >= self.losses.get(key, 0) and self.wires.get(key) is not None
        self.events.append(['ask', q, key, n, answered, self.loop.time()])
        if not answered:
            return
        dname, pkt = self.wires[key]
        self.wire_by_name[tuple(dname)] = pkt
        typ, _ = parse_tl_num(pkt)
        self.loop.call_later(NET_DELAY, lambda: self.loop.create_task(self.callback(typ, pkt)))

    def shutdown(self):
        self.running = False


def run_signed(s, wires, losses, mode, kw):
    from ndn.app import NDNApp
    from ndn.app_support.segment_fetcher import segment_fetcher
    from ndn import types as T
    import logging
    logging.getLogger('ndn').setLevel(logging.CRITICAL)
    loop = vtloop.new_loop()
    events = []
    face = SignedFace(loop, s, wires, losses, events)
    setup_error = None
    try:
        app = NDNApp(face=face, keychain=object())
        try:
            vkw = install(mode, app, face)
        except Exception as e:  # noqa  (a shipped validator that can no longer be imported / constructed)
            setup_error = e
            return events, None, [], 0, face, setup_error

        async def main():
            try:
                async for c in segment_fetcher(app, s['prefix'], **vkw, **kw):
                    events.append(['yield', bytes(c)])
                    if len(events) > 3000:
                        return (9,)
                return (0,)
            except T.InterestTimeout:
                return (1, (0,))
            except T.InterestNack:
                return (1, (1,))
            except T.ValidationFailure:
                return (1, (2,))
            except Exception as e:  # noqa  (e.g. a validator that raises instead of giving a verdict)
                return (1, (4, H.exc_code(e)))
        ending = loop.run_until_complete(main())
        errors = loop.collect_errors()
        pending = len(app._int_tree)
    finally:
        loop.close()
        asyncio.set_event_loop(None)
    return events, ending, errors, pending, face, None


# ---- one case -------------------------------------------------------------------------------------------------------
def one_case(ctx, s, shapes, losses, mode, retry, lifetime, mbf, stratum, style=0, site=None):
    """s: scenario without fates (H.mk_scenario with fates={}); shapes: {key: signature shape} for key in 0..N-1 (the
    discovery Interest is answered with the packet of segment s['disc'][1]) or {None: shape} for an unsegmented object.
    style: the MetaInfo style of every packet (see meta_tlv), or {key: style} with one style per packet (c19_meta.py).
    site: the site violations are reported at (default: the signed-segment stream's)."""
    SITE = site or globals()['SITE']
    pre = stratum.split('.')[0]
    style_of = (lambda k: style.get(k, 0)) if isinstance(style, dict) else (lambda k: style)
    M = ctx.call
    policy = MODES[mode]
    if not s['prefix']:
        s['prefix'] = s['base']
    N = s['nseg']
    wires = {}
    if s['disc'][0] == 'whole':
        wires[None] = (s['disc'][1], build_data(s['disc'][1], s['disc'][2], s['disc'][3], shapes[None], style_of(None)))
        shape_of = {None: shapes[None]}
    else:
        shape_of = {}
        for i in range(N):
            nm = s['base'] + [H.seg(i)]
            wires[i] = (nm, build_data(nm, s['contents'][i], s['markers'][i], shapes[i], style_of(i)))
            shape_of[i] = shapes[i]
        wires[None] = wires.get(s['disc'][1])
        shape_of[None] = shapes.get(s['disc'][1])
    verdict = {k: wire_verdict(w[1], policy) for k, w in wires.items() if w is not None}
    kw = {'retry_times': retry, 'timeout': lifetime, 'must_be_fresh': mbf}
    case = {'stream': 'real NDNApp, signed segments', 'validator in force': mode, 'object': {k: s[k] for k in ('base', 'nseg', 'contents', 'markers', 'prefix', 'disc')},
            'signature shapes': {('discovery' if k is None else f'segment {k}'): v for k, v in shape_of.items()},
            'packets': {('discovery' if k is None else f'segment {k}'): w[1] for k, w in wires.items() if w is not None},
            'must': {('discovery' if k is None else f'segment {k}'): v for k, v in verdict.items()},
            'losses before the answer': {('discovery' if k is None else f'segment {k}'): v for k, v in losses.items() if v},
            'retry_times': retry, 'timeout': lifetime, 'must_be_fresh': mbf,
            'input': {'shapes': [[k, v] for k, v in shapes.items()], 'losses': [[k, v] for k, v in losses.items()], 'meta_style': [[k, v] for k, v in style.items()] if isinstance(style, dict) else style,
                      'site': SITE}}
    if isinstance(style, dict):
        case['MetaInfo (ContentType, FreshnessPeriod as [value, octets], extra)'] = {
            ('discovery / object' if k is None else f'segment {k}'): v[1:] for k, v in style.items()}
    events, ending, errors, pending, face, setup_error = run_signed(s, wires, losses, mode, kw)
    if setup_error is not None:
        ctx.disagree(SITE, f'the shipped validator of mode {mode!r} cannot be constructed: {type(setup_error).__name__}: {setup_error}',
                     {'validator in force': mode})
        return
    if len(events) > 3000:
        H.runaway(ctx, case)
        return
    # -- the validator clause, stated directly on what happened ---------------------------------------------------------
    content_of = {k: (s['disc'][2] if (k is None and s['disc'][0] == 'whole') else s['contents'][s['disc'][1] if k is None else k])
                  for k in wires if wires[k] is not None}
    refused_contents = {content_of[k] for k, v in verdict.items() if v == 'refuse'}
    accepted_contents = {content_of[k] for k, v in verdict.items() if v != 'refuse'}
    yields = [e[1] for e in events if e[0] == 'yield']
    for y in yields:
        if y in refused_contents and y not in accepted_contents:
            k = [k for k in verdict if content_of[k] == y][-1]
            ctx.violation(SITE, 'unverified-segment-yielded',
                          f'the fetch yielded the content of {"the object" if k is None else "segment " + str(k)} whose signature '
                          f'({shape_of[k]}) does not verify; validator in force: {mode}', case)
            break
    for j, e in enumerate(events):
        if e[0] == 'ask' and e[4] and verdict.get(e[2]) == 'refuse':
            if j != len(events) - 1 or ending != (1, (2,)):
                ctx.violation(SITE, 'validation-failure-not-propagated',
                              f'an Interest was answered by a packet whose signature ({shape_of[e[2]]}) does not verify; the fetch went on / '
                              f'ended with {ending} instead of ValidationFailure; validator in force: {mode}', case)
            break
    # -- the scenario the fetch met: fate of every key -------------------------------------------------------------------
    fates = {}
    keys = [None] + list(range(N))
    last = events[-1] if events else None
    for k in keys:
        v = verdict.get(k)
        if v is None:                 # nothing published under this key
            continue
        if v == 'open':
            # left to the validator: refused iff the fetch ended with ValidationFailure on the packet of this key
            hit = last is not None and last[0] == 'ask' and last[2] == k and last[4] and ending == (1, (2,))
            after = H.INVALID if hit else H.DELIVERED
            ctx.stat(pre + '.open-verdict:' + ('refused' if hit else 'delivered-or-not-reached'))
        else:
            after = H.INVALID if v == 'refuse' else H.DELIVERED
        fates[k] = ([H.LOST] * losses.get(k, 0), after)
    s = dict(s)
    s['fates'] = fates
    answer, fate = H.scenario_answer(s)
    trace = []
    sent_at = []
    for e in events:
        if e[0] == 'ask':
            trace.append(['ask', e[1], answer(e[1], e[3]), e[3]])
            sent_at.append(e[5])
        else:
            trace.append(['yield', e[1]])
    case['scenario'] = s
    att = max(1, retry)
    es = H.enc_scn(s)
    cfg = [retry, lifetime, int(mbf)]
    m = M([2, cfg, H.FUEL, es])
    mev, mend = H.norm(m[0]), H.dec_ending(m[1])
    iev = H.impl_events(trace)
    if mev != iev or mend != ending:
        ctx.disagree(SITE, 'trace / ending differ', case, [mev, mend], [iev, ending])
    exp = M([3, retry, es])
    eys, eend = H.norm(exp[0]), H.dec_ending(exp[1])
    if yields != eys:
        ctx.violation(SITE, 'contents', f'yielded {len(yields)} contents, specification demands {len(eys)}; validator in force: {mode}', case)
    elif ending != eend:
        ctx.violation(SITE, f'ending:{eend}->{ending}', f'fetch ended with {ending}, specification demands {eend}; validator in force: {mode}', case)
    h = H.headline(s, retry, fate)
    if h is not None and (yields, ending) != (h[0], h[1]):
        ctx.violation(SITE, 'headline', f'got {len(yields)} contents / {ending}; property demands {len(h[0])} / {h[1]}', case)
    H.check_discipline(ctx, trace, ending, att, case, site=SITE)
    asks = [t for t in trace if t[0] == 'ask']
    H.check_asks(ctx, M, cfg, es, asks, case, SITE)
    for j in range(1, len(asks)):
        if asks[j - 1][2][:2] == ('exc', (0,)):
            dt = sent_at[j] - sent_at[j - 1]
            if abs(dt - lifetime / 1000.0) > 0.002:
                ctx.violation(SITE, 'retry-before-lifetime', f'Interest re-expressed {dt:.3f}s after a lost one, lifetime {lifetime} ms', case)
    if policy == 'strict':
        n_answered = sum(1 for e in events if e[0] == 'ask' and e[4])
        if face.vcalls != n_answered:
            ctx.violation(SITE, 'validator-calls', f'{n_answered} packets answered Interests of the fetch, the validator in force '
                          f'({mode}) was asked {face.vcalls} times', case)
    if errors:
        ctx.violation(SITE, 'loop-exception', f'event loop handler called: {str(errors[0].get("message"))[:80]}', case)
    if pending:
        ctx.violation(SITE, 'pending-interests-left', f'{pending} entries left in the pending Interest table', case)
    ctx.case((pre, mode, repr(s), repr(sorted(shape_of.items(), key=repr)), retry, lifetime, mbf) + ((repr(style),) if isinstance(style, dict) else ()),
             any(e[0] == 'ask' and e[4] for e in events),
             {'N': N, 'validator': mode, 'shapes': [shape_of.get(k) for k in keys], 'ending': ending, 'interests': len(asks)}, stratum)
    ctx.stat(pre + '.ending:' + str(ending))
    reached = [e[2] for e in events if e[0] == 'ask' and e[4]]
    for v in {verdict.get(k) for k in reached}:
        ctx.stat(f'{pre}.answered-by:{policy}:{v}')


def shapes_for(policy):
    """(good shapes, shapes that must be refused, shapes left to the validator) under a policy"""
    if policy == 'hmac':
        return HMAC_GOOD, HMAC_BAD, HMAC_OPEN + UNCLAIMED + ['good']
    if policy == 'strict':
        return DIGEST_GOOD, DIGEST_BAD + UNCLAIMED + ['hmac-good'], []
    return DIGEST_GOOD, DIGEST_BAD, UNCLAIMED + ['hmac-good', 'hmac-empty-value']


def stream_f(ctx):
    rng = ctx.rng
    modes = list(MODES)
    # table: validator in force x signature shape of ONE segment (the others correctly signed) x its position (first,
    # middle, last) x the discovery Interest answered by that very segment / by another one; a single-segment object and
    # an unsegmented object with that shape; losses before the answer 0 or retry-1
    for mi, mode in enumerate(modes):
        policy = MODES[mode]
        good, bad, opn = shapes_for(policy)
        special = bad + opn + good[1:]
        if not ctx.thorough and mi not in (0, 1, 2, 8):
            # quick tier: the default validator and the two shipped checkers get the whole table, the others a rotating third
            special = [x for j, x in enumerate(special) if (j + mi + ctx.seed) % 3 == 0]
        for shape in special:
            for N, pos in ((3, 0), (3, 1), (3, 2), (1, 0), (0, None)):
                discs = [None] if pos is None else sorted({pos, (pos + 1) % N})
                for disc_k in discs:
                    retry = rng.choice([1, 3])
                    lost = rng.choice([0, retry - 1])
                    s = H.mk_scenario(rng, N, disc_k, rng.choice(['exact', 'all']), {}, prefix_mode=rng.choice([0, 0, 1]) if N else 0,
                                      whole_rel=rng.choice(H.WHOLE_RELS))
                    if pos is None:
                        shapes = {None: shape}
                        losses = {None: lost}
                    else:
                        shapes = {i: good[0] for i in range(N)}
                        shapes[pos] = shape
                        losses = {rng.choice([None, pos]): lost}
                    one_case(ctx, s, shapes, losses, mode, retry, rng.choice([100, 4000]), rng.choice([True, False]),
                             'F.signed-table', style=rng.randrange(3))
    # sampled: every segment draws its shape (several bad ones: the first one met decides), losses around the limit
    for _ in range(ctx.n(400, 8000)):
        mode = rng.choice(modes)
        good, bad, opn = shapes_for(MODES[mode])
        N = rng.choice([0, 1, 2, 3, 4, 6])
        disc_k = rng.choice(list(range(N))) if N else None
        retry = rng.choice([1, 2, 3])
        att = max(1, retry)
        s = H.mk_scenario(rng, N, disc_k, rng.choice(['exact', 'exact', 'all', 'absent', 'early', 'only_early']), {},
                          prefix_mode=rng.choice([0, 1]) if N else 0)
        pbad = rng.choice([0.0, 0.15, 0.4])

        def draw():
            x = rng.random()
            if x < pbad:
                return rng.choice(bad)
            if x < pbad + 0.15 and opn:
                return rng.choice(opn)
            return rng.choice(good)
        shapes = {i: draw() for i in range(N)} if N else {None: draw()}
        keys = [None] + list(range(N))
        losses = {k: rng.choice([1, att - 1, att, att + 1]) for k in keys if rng.random() < 0.2}
        one_case(ctx, s, shapes, losses, mode, retry, rng.choice([100, 500, 4000]), rng.choice([True, False]), 'F.signed-sampled',
                 style=rng.randrange(3))


def replay(ctx, case):
    """Re-run ONE case of stream F from the case stored in a replay file."""
    o = dict(case['object'])
    o['disc'] = tuple(o['disc'])
    o['fates'] = {}
    inp = case['input']
    style = inp['meta_style']
    if isinstance(style, list):            # one MetaInfo style per packet (c19_meta.py)
        style = {k: v for k, v in style}
    one_case(ctx, o, {k: v for k, v in inp['shapes']}, {k: v for k, v in inp['losses']}, case['validator in force'],
             case['retry_times'], case['timeout'], bool(case['must_be_fresh']), 'F.replay', style=style, site=inp.get('site'))
