"""What a Data / Nack looks like on the wire and how it reaches the application - the dimensions the receive path of the
library can see, but which the property (C03: every expressed Interest completes exactly once with the right outcome) says
must NOT matter.  Used by C03 (harness/props/c03.py) through harness/props/_pipeline.py.

Three harness-level events (like 'repr' / 'scrib' of _namebufs.py: invisible to the extracted model and specification, where a
Data is `Data d name hash t` and an Interest has a name, CanBePrefix, a digest and a lifetime and nothing else):

    ('pkt', d, form, t, 0)    Data id d IS the packet `form` = (meta, content, sig) - in the whole history (one id = one packet;
                              the implicit digest d is the SHA-256 of that BARE Data packet, however it is delivered)
                                meta:    one of META     (MetaInfo absent / empty / ContentType of every kind / FreshnessPeriod 0,
                                                          1, 4000, 2^32, 2^64-1 / FinalBlockId / combinations)
                                content: one of CONTENT  ('id' = b'data-<d>', 'absent' = no Content element, 'empty' = Content of
                                                          length 0, 'large' = b'data-<d>-' + 6000 octets)
                                sig:     one of SIG      (DigestSha256, no signature at all, null signature (type 200), HMAC,
                                                          ECDSA, RSA, Ed25519)
    ('via', wrap, t, 0)       the NEXT Data / Nack event is delivered through `wrap`, one of VIA: the bare packet, or an NDNLPv2
                              LpPacket whose Fragment is the packet, with the header fields a forwarder puts there (PitToken of
                              several lengths, CongestionMark, both, IncomingFaceId, CachePolicy, TxSequence + Ack,
                              NonDiscovery + PrefixAnnouncement, an unknown ignorable header 0x03BC, all of them); header fields
                              in type-number order, Fragment last.  For a Nack the Nack header sits among them and `wrap` also
                              selects the flags of the enclosed Interest (CanBePrefix / MustBeFresh / HopLimit)
    ('iopt', i, opts, t, 0)   the Express of Interest i that follows carries the Interest parameters `opts`, a tuple of names out
                              of IOPTS ('mbf' = MustBeFresh, 'hop' = HopLimit 5).  MustBeFresh restricts what a forwarder's
                              CACHE may answer with; a Data that arrives for a pending Interest completes it

The default dress (no event) is what the harness always did: ('blob', 'id', 'sha') delivered 'bare'.
"""
import hashlib

DEFAULT_FORM = ('blob', 'id', 'sha')

# ---- MetaInfo -------------------------------------------------------------------------------------------------
# name -> None (no MetaInfo element) | (content_type, freshness_period, final_block_id?)
META = {
    'none': None,
    'empty': (None, None, False),            # MetaInfo element of length 0
    'blob': (0, None, False),                # ContentType 0 spelt out (what make_data(MetaInfo()) writes)
    'fp0': (None, 0, False),                 # FreshnessPeriod = 0, explicitly encoded
    'fp0-blob': (0, 0, False),
    'fp1': (0, 1, False),
    'fp4000': (0, 4000, False),
    'fp-2^32': (0, 1 << 32, False),
    'fp-max': (None, (1 << 64) - 1, False),
    'ct-link': (1, None, False),
    'ct-key': (2, 3600000, False),
    'ct-nack': (3, None, False),             # application-level Nack: still a Data
    'ct-nack-fp0': (3, 0, False),
    'ct-manifest': (4, None, False),
    'ct-prefixann': (5, 10, False),
    'ct-kite': (6, None, False),
    'ct-flic': (1024, None, False),
    'ct-app': (9999, 0, False),
    'ct-max': ((1 << 64) - 1, None, False),
    'fbi': (None, None, True),
    'fbi-fp0': (0, 0, True),
    'all': (2, 10000, True),
}
META_NAMES = list(META)
CONTENT_NAMES = ['id', 'absent', 'empty', 'large']
SIG_NAMES = ['sha', 'none', 'null', 'hmac', 'ecdsa', 'rsa', 'ed25519']

VIA_NAMES = ['bare', 'lp', 'pit4', 'pit8', 'pit32', 'pit0', 'cm0', 'cm1', 'cm-big', 'pit+cm', 'inface', 'nocache', 'txseq+ack',
             'nondisc+pa', 'unknown', 'all']
IOPTS = ['mbf', 'hop']


def content_bytes(d, cname):
    if cname == 'id':
        return b'data-%d' % d
    if cname == 'absent':
        return None
    if cname == 'empty':
        return b''
    if cname == 'large':
        return b'data-%d-' % d + b'\xa5' * 6000
    raise ValueError(cname)


def meta_info(mname):
    from ndn.encoding import MetaInfo, Component
    m = META[mname]
    if m is None:
        return None
    ct, fp, fbi = m
    return MetaInfo(content_type=ct, freshness_period=fp, final_block_id=Component.from_segment(7) if fbi else None)


_KEYS = {}


def _key(kind):
    """One key pair per kind and process (pycryptodome, as the library's own signers use it)."""
    if kind not in _KEYS:
        if kind == 'ecdsa':
            from Cryptodome.PublicKey import ECC
            _KEYS[kind] = ECC.generate(curve='P-256').export_key(format='DER')
        elif kind == 'rsa':
            from Cryptodome.PublicKey import RSA
            _KEYS[kind] = RSA.generate(1024).export_key(format='DER')
        elif kind == 'ed25519':
            from Cryptodome.PublicKey import ECC
            _KEYS[kind] = ECC.generate(curve='ed25519').export_key(format='DER')
    return _KEYS[kind]


def signer(d, sname):
    import ndn.security as S
    if sname == 'sha':
        return S.DigestSha256Signer()
    if sname == 'none':
        return None
    if sname == 'null':
        return S.NullSigner()
    if sname == 'hmac':
        return S.HmacSha256Signer('/key/hmac/%d' % d, b'secret-%d' % d)         # one key per data id
    if sname == 'ecdsa':
        return S.Sha256WithEcdsaSigner('/key/ec', _key('ecdsa'))
    if sname == 'rsa':
        return S.Sha256WithRsaSigner('/key/rsa', _key('rsa'))
    if sname == 'ed25519':
        return S.Ed25519Signer('/key/ed', _key('ed25519'))
    raise ValueError(sname)


_WIRES = {}


def wire(d, name_comps, name_key, form):
    """The (bare) Data packet of data id d under its name, in the given form; made once per process (randomised signature
    schemes give one packet per id all the same: the digest of d is the digest of THAT packet)."""
    key = (d, name_key, tuple(form))
    w = _WIRES.get(key)
    if w is None:
        from ndn.encoding import make_data
        if len(_WIRES) > 4000:
            _WIRES.clear()
        mname, cname, sname = form
        w = bytes(make_data(name_comps, meta_info(mname), content_bytes(d, cname), signer=signer(d, sname)))
        _WIRES[key] = w
    return w


# ---- NDNLPv2 -------------------------------------------------------------------------------------------------
def _nni(v):
    for w in (1, 2, 4, 8):
        if v < 1 << (8 * w):
            return v.to_bytes(w, 'big')
    raise ValueError(v)


def lp_headers(via):
    """(header fields below the Nack header's type number, header fields above it), each in type-number order."""
    from harness.lib import gen as G
    pit = lambda n: G.tlv(0x62, bytes((7 * k + 1) & 0xFF for k in range(n)))        # noqa: E731
    cm = lambda v: G.tlv(0x0340, _nni(v))                                           # noqa: E731
    inface = G.tlv(0x032C, _nni(262))
    nocache = G.tlv(0x0334, G.tlv(0x0335, _nni(1)))
    ack = G.tlv(0x0344, (5).to_bytes(8, 'big'))
    txseq = G.tlv(0x0348, (77).to_bytes(8, 'big'))
    nondisc = G.tlv(0x034C, b'')
    pa = G.tlv(0x0350, G.tlv(0x06, G.tlv(0x07, G.tlv(0x08, b'pa')) + G.tlv(0x15, b'')))
    unknown = G.tlv(0x03BC, b'\x01\x02\x03')          # 956: in 800..959 with the two low bits 00 = ignorable
    table = {
        'lp': ([], []),
        'pit0': ([pit(0)], []),
        'pit4': ([pit(4)], []),
        'pit8': ([pit(8)], []),
        'pit32': ([pit(32)], []),
        'cm0': ([], [cm(0)]),
        'cm1': ([], [cm(1)]),
        'cm-big': ([], [cm((1 << 64) - 1)]),
        'pit+cm': ([pit(4)], [cm(1)]),
        'inface': ([], [inface]),
        'nocache': ([], [nocache]),
        'txseq+ack': ([], [ack, txseq]),
        'nondisc+pa': ([], [nondisc, pa]),
        'unknown': ([], [unknown]),
        'all': ([pit(6)], [inface, nocache, cm(3), ack, txseq, nondisc, pa, unknown]),
    }
    return table[via]


def lp_wrap(packet, via, nack_header=None):
    """The LpPacket carrying `packet` as its Fragment ('bare': the packet itself when there is no Nack header)."""
    from harness.lib import gen as G
    if via in (None, 'bare') and nack_header is None:
        return bytes(packet)
    pre, post = lp_headers('lp' if via in (None, 'bare') else via)
    mid = [nack_header] if nack_header is not None else []
    return G.tlv(0x64, b''.join(pre + mid + post) + G.tlv(0x50, bytes(packet)))


def nack_interest_flags(via):
    """Flags of the Interest inside a Nack (the application's own Interest comes back as it was sent)."""
    k = VIA_NAMES.index(via) if via in VIA_NAMES else 0
    return {'can_be_prefix': k % 2 == 1, 'must_be_fresh': k % 3 == 1, 'hop_limit': (5 if k % 4 == 2 else None)}


# ---- events / transformations ---------------------------------------------------------------------------------
HARNESS_TAGS = ('pkt', 'via', 'iopt')


def pkt(d, form, t=0):
    return [('pkt', d, tuple(form), t, 0)]


def via(wrap, t):
    return [('via', wrap, t, 0)]


def iopt(i, opts, t):
    return [('iopt', i, tuple(opts), t, 0)]


def forms_of(h):
    return {ev[1]: tuple(ev[2]) for ev in h if ev[0] == 'pkt'}


def fix_forms(h):
    """One id = one packet, and two ids = two DIFFERENT packets (the model identifies a packet with its id): where two data
    ids of the history would be the same octets - same name, same MetaInfo, no or empty Content, a signature that does not
    depend on the id - the later one gets the Content 'id'; of two unsigned ids on one name the later one gets the null
    signature (an unsigned Data can only be told apart by its name when the validator is asked about it).  Idempotent."""
    forms = forms_of(h)
    if not forms:
        return h
    names = {}
    for ev in h:
        if ev[0] == 'data':
            names.setdefault(ev[1], ev[2])
    for ev in h:
        if ev[0] == 'express' and isinstance(ev[4], int):
            names.setdefault(ev[4], ev[2])
        if ev[0] == 'nack' and isinstance(ev[2], int):
            names.setdefault(ev[2], ev[1])
    seen = set()
    unsigned = set()
    new = {}
    for d in sorted(forms):
        m, c, s = forms[d]
        nm = names.get(d)
        if s == 'none':
            if nm in unsigned:
                s = 'null'
            else:
                unsigned.add(nm)
        if c in ('absent', 'empty') and s != 'hmac':
            k = (nm, m, c, s)
            if k in seen:
                c = 'id'
            seen.add(k)
        new[d] = (m, c, s)
    if new == forms:
        return h
    return [('pkt', ev[1], new[ev[1]]) + tuple(ev[3:]) if ev[0] == 'pkt' else ev for ev in h]


def strip(h):
    return [e for e in h if e[0] not in HARNESS_TAGS]


def dressed(h, forms=None, vias=None, iopts=None):
    """Metamorphic transformation of a history: data id d is the packet forms[d], the k-th Data / Nack event is delivered
    through vias[k] (a list, cycled), Interest i carries the parameters iopts[i].  The specification gives every Interest
    the same outcome as in the original history."""
    from harness.props import _pipeline as P
    out = []
    for d, f in sorted((forms or {}).items()):
        out += pkt(d, f, 0)
    k = 0
    for ev in h:
        if ev[0] == 'express' and iopts and iopts.get(ev[1]):
            out += iopt(ev[1], iopts[ev[1]], ev[7])
        elif ev[0] in ('data', 'nack') and vias:
            w = vias[k % len(vias)]
            k += 1
            if w != 'bare':
                out += via(w, P.ev_time(ev))
        out.append(ev)
    return out


def data_ids(h):
    ids = set()
    for ev in h:
        if ev[0] == 'data':
            ids.add(ev[1])
        elif ev[0] == 'express' and isinstance(ev[4], int):
            ids.add(ev[4])
        elif ev[0] == 'nack' and isinstance(ev[2], int):
            ids.add(ev[2])
    return sorted(ids)


def form_cycle(full):
    """The (meta, content, sig) triples of the tables: every MetaInfo x every Content, the signature kinds rotating through
    them (quick) / the full cross product (thorough)."""
    if full:
        return [(m, c, s) for m in META_NAMES for c in CONTENT_NAMES for s in SIG_NAMES]
    out = []
    k = 0
    for m in META_NAMES:
        for c in CONTENT_NAMES:
            out.append((m, c, SIG_NAMES[k % len(SIG_NAMES)]))
            k += 1
    return out


def family(fe, full=False):
    """Targeted tables.
    (1) DELIVERY: every way of VIA x {a Data next to a longer-named Interest that must stay pending; right / wrong / no
        implicit digest on one name, two Data; CanBePrefix + digest under a longer Data name; MustBeFresh (alone, with
        CanBePrefix, with digest); Nack for the plain name and for the name with digest (every reason form rotating); Data
        exactly at the deadline in the three tie modes; Data during a validation and a second Interest on the name}, packet
        forms rotating.
    (2) PACKET: every (MetaInfo x Content [x signature kind]) x Interest shape {plain; CanBePrefix under a longer Data name;
        MustBeFresh; MustBeFresh + CanBePrefix; right digest; wrong digest next to a right one; MustBeFresh + right digest +
        HopLimit}, delivery rotating; a second Data (default dress) on the name for a neighbour Interest."""
    from harness.props import _pipeline as P
    A, AB = P.A, P.AB
    PASSV = P.PASS[fe]
    out = []
    ex = lambda *a, **k: P.ex(*a, fe=fe, **k)        # noqa: E731
    cyc = form_cycle(False)
    n = 0

    def add(tag, h):
        out.append(('dress-' + tag, fix_forms(h)))
    for w in VIA_NAMES:
        f0, f1 = cyc[n % len(cyc)], cyc[(3 * n + 7) % len(cyc)]
        n += 1
        reason = P.NACK_FORMS[n % len(P.NACK_FORMS)]
        w2 = VIA_NAMES[(VIA_NAMES.index(w) + 5) % len(VIA_NAMES)]
        add('via-data', pkt(0, f0) + ex(0, A, 0) + ex(1, AB, 0, life=300) + via(w, 40) + [('data', 0, A, 40, 0), ('advance', 500)])
        add('via-digest', pkt(0, f0) + pkt(1, f1) + ex(0, A, 0, dig=0) + ex(1, A, 0, dig='x') + ex(2, A, 0) + ex(3, A, 0, dig=1)
            + via(w, 30) + [('data', 0, A, 30, 0)] + via(w2, 40) + [('data', 1, A, 40, 0), ('advance', 300)])
        add('via-digest-only', pkt(0, f1) + ex(0, A, 0, dig=0, life=200) + via(w, 60) + [('data', 0, A, 60, 0), ('advance', 300)])
        add('via-cbp-digest', pkt(0, f0) + ex(0, A, 0, cbp=True) + ex(1, A, 0) + ex(2, A, 0, cbp=True, dig=0) + ex(3, A, 0, dig=0)
            + via(w, 30) + [('data', 0, AB, 30, 0), ('advance', 300)])
        add('via-mbf', pkt(0, f0) + iopt(0, ('mbf',), 0) + ex(0, A, 0) + iopt(1, ('mbf', 'hop'), 0) + ex(1, A, 0, cbp=True)
            + iopt(2, ('mbf',), 0) + ex(2, A, 0, dig=0) + ex(3, A, 0) + via(w, 30) + [('data', 0, A, 30, 0), ('advance', 300)])
        add('via-nack', pkt(0, f0) + ex(0, A, 0) + ex(1, A, 0, dig=0) + ex(2, AB, 0, life=300) + via(w, 20) + [('nack', A, None, reason, 20, 0)]
            + via(w2, 30) + [('nack', A, 0, 150, 30, 0)] + via(w, 40) + [('nack', AB, 'x', 50, 40, 0), ('advance', 500)])
        for tie in (0, 1, 2):
            add('via-tie', pkt(0, f1) + ex(0, A, 0) + ex(1, A, 0, life=200, dig=0) + via(w, 100) + [('data', 0, A, 100, tie), ('advance', 400)])
        add('via-validating', pkt(0, f0) + pkt(1, f1) + ex(0, A, 0, vm=('def',)) + via(w, 20) + [('data', 0, A, 20, 0)]
            + ex(1, A, 25, life=300, dig=1) + via(w2, 30) + [('data', 1, A, 30, 0), ('vdone', 0, PASSV, 50, 0), ('advance', 500)])
    forms = form_cycle(full)
    vias = VIA_NAMES if full else None
    k = 0
    for f in forms:
        for w in (['bare', 'pit+cm', 'all'] if full else [VIA_NAMES[k % len(VIA_NAMES)]]):
            k += 1
            tail = via(w, 30) + [('data', 0, A, 30, 0), ('data', 1, A, 40, 0), ('advance', 400)]
            taillong = via(w, 30) + [('data', 0, AB, 30, 0), ('data', 1, A, 40, 0), ('advance', 400)]
            nb = ex(9, A, 0, life=200, dig=1)            # the neighbour: served by the second Data only
            add('pkt-plain', pkt(0, f) + ex(0, A, 0) + nb + tail)
            add('pkt-cbp', pkt(0, f) + ex(0, A, 0, cbp=True) + ex(1, A, 0) + nb + taillong)
            add('pkt-mbf', pkt(0, f) + iopt(0, ('mbf',), 0) + ex(0, A, 0) + nb + tail)
            add('pkt-mbf-cbp', pkt(0, f) + iopt(0, ('mbf',), 0) + ex(0, A, 0, cbp=True) + iopt(1, ('mbf',), 0) + ex(1, AB, 0) + nb + taillong)
            add('pkt-digest', pkt(0, f) + ex(0, A, 0, dig=0) + nb + tail)
            add('pkt-digest-wrong', pkt(0, f) + ex(0, A, 0, dig='x') + ex(1, A, 0, dig=0, cbp=True) + nb + tail)
            add('pkt-mbf-digest', pkt(0, f) + iopt(0, ('mbf', 'hop'), 0) + ex(0, A, 0, dig=0) + iopt(9, ('mbf',), 0) + nb + tail)
    del vias
    return out


def transformed(fe, patterns, full=False):
    """EVERY well-formed pattern with its packets dressed: data ids get rotating forms, Data / Nack events rotating
    deliveries, Interests MustBeFresh by rotation (quick: two rotating plans per pattern; thorough: six)."""
    from harness.props import _pipeline as P
    cyc = form_cycle(False)
    out = []
    n = 0
    for tag, h in patterns:
        if not (P.is_wf(h) or P.is_wf_deferred(h, fe)):
            continue
        ids = data_ids(h)
        ints = P.expressed_ids(h)
        for r in range(6 if full else 2):
            n += 1
            forms = {d: cyc[(5 * n + 11 * j) % len(cyc)] for j, d in enumerate(ids)}
            vias = [VIA_NAMES[(n + 3 * j) % len(VIA_NAMES)] for j in range(5)]
            if r == 0:
                vias = [v if v != 'bare' else 'pit+cm' for v in vias]
            iopts = {i: (('mbf',) if (n + j) % 3 else ('mbf', 'hop')) for j, i in enumerate(ints) if (n + j) % 2 == 0 or r == 0}
            out.append(('dressed.' + tag, fix_forms(dressed(h, forms, vias, iopts))))
    return out


def randomised(rng, fe, base):
    """A random dress for a history: each data id a random form (half of them with a FreshnessPeriod 0 / absent MetaInfo /
    content-less form), each Data / Nack a random delivery (70 % inside an LpPacket), each Interest MustBeFresh with
    probability 1/2."""
    ids = data_ids(base)
    forms = {}
    for d in ids:
        if rng.random() < 0.85:
            m = rng.choice(('fp0', 'fp0-blob', 'none', 'empty', 'ct-nack-fp0', 'fbi-fp0')) if rng.random() < 0.5 else rng.choice(META_NAMES)
            forms[d] = (m, rng.choice(CONTENT_NAMES), rng.choice(SIG_NAMES))
    vias = [('bare' if rng.random() < 0.3 else rng.choice(VIA_NAMES[1:])) for _ in range(7)]
    from harness.props import _pipeline as P
    iopts = {i: rng.choice((('mbf',), ('mbf',), ('mbf', 'hop'), ('hop',))) for i in P.expressed_ids(base) if rng.random() < 0.55}
    return fix_forms(dressed(base, forms, vias, iopts))


def digest(w):
    return hashlib.sha256(w).digest()
