"""C02 — signatures and parameter digests cover the specified bytes; tampering detected.

For every signed packet (all shipped signers x Interest/Data x signatures shorter than reserved):
 * encode side: the blocks the real encoder hands to the signer == model (Model/PacketEnc.v) == the extracted
   specification (Spec/SignedPortion.v) read off the produced wire; digest component == SHA-256(spec digest portion);
 * parse side: SignaturePtrs reported by parse_interest / parse_data == the specification, on the packet and on
   every mutant that still parses;
 * the matching verifier -- the verify_* function AND the shipped KnownChecker object for the key, made once and
   shown the genuine packet before its mutants -- accepts the packet and rejects every mutant whose (signed portion,
   signature value) differs; params_sha256_checker accepts iff digest component == SHA-256(spec digest portion).
"""
import hashlib

from harness.lib import gen as G
from harness.lib import pktgen as P
from harness.lib import tlvgen as TG
from harness.lib.model import is_err
from harness.props import c01 as C01

RULE = ('signed Interests/Data with every shipped signer (digest, HMAC, RSA-2048, ECDSA P-256/384/521, Ed25519, null) and '
        'random parameters; mutants of each wire: byte substitutions at every position (3 values per position quick / all 255 '
        'thorough on a subset), every truncation, TLV-level edits (delete / duplicate / swap / insert unknown critical and '
        'non-critical element), the value of every top-level element cut short or extended with all Lengths fixed up.  Verifiers of a key: the verify function, the shipped checker object, and the compositions union_checker(digest checker, checker) / (checker, digest checker) / (checker) -- a verifier that raises has not accepted.  Interest names with an ImplicitSha256Digest component (made with one, or one inserted into the signed packet); the parameters digest component cut to a proper prefix of the right digest; ECDSA signature values re-encoded over an untouched signed portion (fixed-width r||s, padded DER integers, long-form length; the symmetry (r, n-s) of the scheme itself is a listed finding).  HMAC signer/verifier pairs with keys of 1..300 octets (every length around the 64-octet block and the 32-octet digest size), the value compared with an independent HMAC-SHA256 over the specified signed portion. non-trivial = a mutant that still parses or the original; distinct by wire hash')
ASSUMPTIONS = ['unforgeability of the signature schemes / collision resistance of SHA-256 are hypotheses (C02_tamper_rejected); '
               'the run checks them empirically against pycryptodome for the generated mutants']


_LOOP = None


def run_coro(c):
    """run a validator coroutine to completion; validators may legitimately suspend (gather, sleep(0), fetches), so a
    private event loop drives them"""
    global _LOOP
    if _LOOP is None or _LOOP.is_closed():
        import asyncio
        _LOOP = asyncio.new_event_loop()
    return _LOOP.run_until_complete(c)


def opt(ans):
    return ans[0] if ans else None


def value_of(wire):
    _, a = TG.read_num(wire, 0)
    _, b = TG.read_num(wire, a)
    return wire[a + b:]


ORDER = {'interest': [7, 0x21, 0x12, 0x1e, 0x0a, 0x0c, 0x22, 0x24, 0x2c, 0x2e], 'data': [7, 0x14, 0x15, 0x16, 0x17]}


def canonical_order(kind, v):
    """The recognised top-level elements of the packet value appear once each and in declared order (the shape
    every conforming encoder produces; outside it "ApplicationParameters of the Interest" is not well defined,
    e.g. a second, out-of-order element of Type 0x24 that the decoder ignores as unrecognised)."""
    els = TG.tlv_walk(v)
    if els is None:
        return False
    idx = [ORDER[kind].index(t) for t, _ in els if t in ORDER[kind]]
    return all(a < b for a, b in zip(idx, idx[1:]))


def check_packet(ctx, M, kind, wire, rec, verify, label, mutate=True):
    """kind: 'interest' | 'data'."""
    from ndn.encoding import parse_interest, parse_data
    from ndn.security.validator.digest_validator import sha256_digest_checker, params_sha256_checker
    rng = ctx.rng
    parse = parse_interest if kind == 'interest' else parse_data
    spec_op = 11 if kind == 'interest' else 10
    case = {'kind': kind, 'signer': label, 'wire': wire}
    v = value_of(wire)
    spec = opt(M([spec_op, v]))
    # ---- encode side
    given = b''.join(rec.blocks) if rec is not None and rec.blocks is not None else None
    if given is not None and spec != given:
        ctx.violation(f'make_{kind}', 'signed-bytes-not-spec',
                      'the bytes handed to the signer are not the specified signed portion of the packet', {**case, 'given': given, 'spec': spec})
    if kind == 'interest':
        dp = opt(M([12, v]))
        dc = opt(M([13, v]))
        if dp is None or dc is None or hashlib.sha256(dp).digest() != dc:
            ctx.violation('make_interest', 'digest-not-spec', 'digest component != SHA-256(ApplicationParameters .. end)', case)

    def parsed_state(w):
        """(ok?, signed portion as reported, sig value, digest ok as reported, ptrs)"""
        try:
            name, _, _, ptrs = parse(w)
        except Exception:   # noqa
            return None
        return name, ptrs

    def ptrs_vs_model(w, v, ptrs, c):
        """correspondence of the reported pointers with Model/PacketPtrs.v (what C02_reported_* are about)"""
        m = M([15 if kind == 'interest' else 16, v])
        impl = [b''.join(bytes(x) for x in (ptrs.signature_covered_part or [])),
                [] if ptrs.signature_value_buf is None else [bytes(ptrs.signature_value_buf)],
                b''.join(bytes(x) for x in (ptrs.digest_covered_part or [])),
                [] if ptrs.digest_value_buf is None else [bytes(ptrs.digest_value_buf)]]
        if is_err(m):
            ctx.disagree(f'parse_{kind}.ptrs', 'pointer model rejects, implementation accepts', c, m, impl)
            return
        mm = [b''.join(bytes(x) for x in m[1][0]), [bytes(x) for x in m[1][1]],
              b''.join(bytes(x) for x in m[1][2]), [bytes(x) for x in m[1][3]]]
        if mm != impl:
            ctx.disagree(f'parse_{kind}.ptrs', 'reported pointers differ from Model/PacketPtrs.v', c, mm, impl)
        ctx.stat('ptrs.model-compared')

    def verdict(name, ptrs):
        if ptrs.signature_info is None:
            return None
        if verify is not None:
            try:
                r = bool(verify(ptrs))
            except Exception:   # noqa
                r = False
            ck = getattr(verify, 'checker', None)
            if ck is None:
                return (r, r)
            # the shipped checker object for the same key is "that verifier" too; it is made once and has seen the
            # genuine packet before its mutants (a verifier that remembers what it accepted must not accept more
            # because of it).  accepted-by-any is what the tamper clause judges, accepted-by-all the genuine packet.
            try:
                r2 = bool(run_coro(ck(name, ptrs)))
            except Exception:   # noqa
                r2 = False
            if r2 and not r:
                ctx.stat('verdict.checker-accepts-what-verify-rejects')
            # ... and so is every COMPOSITION the library offers of that checker with the digest checker
            # (union_checker: all must approve; a component that raises has not approved)
            cu = getattr(ck, '_c02_union', None)
            if cu is None:
                from ndn.security.validator.digest_validator import union_checker
                cu = (union_checker(sha256_digest_checker, ck), union_checker(ck, sha256_digest_checker), union_checker(ck))
                try:
                    ck._c02_union = cu
                except Exception:   # noqa
                    pass
            r3any, r3all = False, True
            for u in cu:
                try:
                    x = bool(run_coro(u(name, ptrs)))
                except Exception:   # noqa
                    x = False
                r3any, r3all = r3any or x, r3all and x
            if r3any and not (r or r2):
                ctx.stat('verdict.union-accepts-what-its-parts-reject')
            return (r or r2 or r3any, r and r2 and r3all)
        if label.startswith('digest'):
            if ptrs.signature_info.signature_type != 0:
                return None      # not a DigestSha256 packet any more: the digest checker is not its verifier
            r = bool(run_coro(sha256_digest_checker(name, ptrs)))
            return (r, r)
        return None

    st = parsed_state(wire)
    if st is None:
        ctx.violation(f'parse_{kind}', 'signed-packet-rejected', 'the signed packet does not parse', case)
        return
    name, ptrs = st
    ptrs_vs_model(wire, v, ptrs, case)
    rep = b''.join(bytes(b) for b in ptrs.signature_covered_part)
    if rep != spec:
        ctx.violation(f'parse_{kind}', 'reported-bytes-not-spec', 'SignaturePtrs.signature_covered_part is not the specified signed portion', case)
    sig0 = bytes(ptrs.signature_value_buf) if ptrs.signature_value_buf is not None else None
    ok = verdict(name, ptrs)
    if ok is not None and not ok[1]:
        ctx.violation('verifier', 'valid-signature-rejected', f'{label}: the matching verifier rejects the signed packet', case)
    if kind == 'interest':
        if not run_coro(params_sha256_checker(name, ptrs)):
            ctx.violation('params_sha256_checker', 'valid-digest-rejected', 'the parameters digest of a library-made Interest is rejected', case)
    ctx.case((kind, wire), True, {'kind': kind, 'signer': label, 'wire_len': len(wire)}, f'{kind}.{label}.orig')
    if not mutate:
        return
    # ---- mutants
    muts = []
    positions = list(range(len(wire)))
    if len(positions) > ctx.n(60, 250):
        positions = sorted(rng.sample(positions, ctx.n(60, 250)))
    for i in positions:
        vals = {wire[i] ^ 1, wire[i] ^ 0x80, (wire[i] + 1) & 255} if not (ctx.thorough and len(wire) < 120) else set(range(256))
        for b in vals:
            if b != wire[i]:
                muts.append(('sub', wire[:i] + bytes([b]) + wire[i + 1:]))
    for i in rng.sample(range(len(wire)), min(len(wire), ctx.n(10, 60))):
        muts.append(('trunc', wire[:i]))
    # TLV-level edits inside the packet value (outer length fixed up)
    t0, a = TG.read_num(wire, 0)
    _, b = TG.read_num(wire, a)
    els = TG.tlv_walk(wire[a + b:])
    if els:
        for i in range(len(els) + 1):
            for ut in (0x80, 0x81):
                e2 = els[:i] + [(ut, b'\x01')] + els[i:]
                muts.append(('ins', G.tlv(t0, TG.ser(e2))))
        for i in range(len(els)):
            muts.append(('del', G.tlv(t0, TG.ser(els[:i] + els[i + 1:]))))
            muts.append(('dup', G.tlv(t0, TG.ser(els[:i] + [els[i]] + els[i:]))))
            if i + 1 < len(els):
                muts.append(('swap', G.tlv(t0, TG.ser(els[:i] + [els[i + 1], els[i]] + els[i + 2:]))))
            # the VALUE of one element cut short / extended, every enclosing Length fixed up (a well-formed packet
            # again: e.g. a SignatureValue that is a proper prefix / an extension of the genuine one)
            et, ev = els[i]
            cuts = {0, 1, len(ev) // 2, len(ev) - 1} if not ctx.thorough else set(range(len(ev)))
            for k in sorted(c for c in cuts if 0 <= c < len(ev)):
                muts.append(('cut', G.tlv(t0, TG.ser(els[:i] + [(et, ev[:k])] + els[i + 1:]))))
            for extra in (b'\x00', ev[:1] or b'\x01', bytes(7)):
                muts.append(('ext', G.tlv(t0, TG.ser(els[:i] + [(et, ev + extra)] + els[i + 1:]))))
    # re-encodings of an ECDSA SignatureValue (the signed portion untouched): fixed-width r||s, DER with padded integers,
    # BER long-form length, and the scheme's own symmetry (r, n-s)
    if label.startswith('ecdsa-') and els and sig0:
        try:
            from Cryptodome.Util.asn1 import DerSequence
            seq = DerSequence().decode(sig0)
            r_, s_ = int(seq[0]), int(seq[1])
            key = P.Keys.get().ec[label[len('ecdsa-'):].split('.')[0]]
            order = int(key._curve.order)
            width = (order.bit_length() + 7) // 8

            def der_int(x, pad=0):
                b = b'\x00' * pad + x.to_bytes((x.bit_length() + 8) // 8, 'big')
                return b'\x02' + bytes([len(b)]) + b
            body = der_int(r_) + der_int(s_)
            padded = der_int(r_, 1) + der_int(s_, 1)
            forms = [('sig-raw', r_.to_bytes(width, 'big') + s_.to_bytes(width, 'big')),
                     ('sig-padded', b'\x30' + (bytes([len(padded)]) if len(padded) < 128 else b'\x81' + bytes([len(padded)])) + padded),
                     ('sig-longform', b'\x30\x81' + bytes([len(body)]) + body if len(body) < 128 else None),
                     ('sig-high-s', bytes(DerSequence([r_, order - s_]).encode()))]
            si = max(i for i, (t, _) in enumerate(els) if t in (0x17, 0x2e))
            for mk, sv in forms:
                if sv is not None and sv != sig0:
                    muts.append((mk, G.tlv(t0, TG.ser(els[:si] + [(els[si][0], sv)] + els[si + 1:]))))
        except Exception as e:   # noqa
            ctx.stat('ecdsa-reencoding.skipped:' + type(e).__name__)
    if kind == 'interest' and els and els[0][0] == 7:
        comps = TG.tlv_walk(els[0][1]) or []
        for ci, (ct, cv) in enumerate(comps):
            if ct == 2 and len(cv) == 32:
                for k in (1, 4, 16, 31):
                    c2 = comps[:ci] + [(2, cv[:k])] + comps[ci + 1:]
                    muts.append(('digest-prefix', G.tlv(t0, TG.ser([(7, TG.ser(c2))] + els[1:]))))
                # an ImplicitSha256Digest component inserted into the name of the signed packet
                for pos in {0, ci, len(comps)}:
                    c3 = comps[:pos] + [(1, bytes(range(32)))] + comps[pos:]
                    muts.append(('insert-implicit-digest', G.tlv(t0, TG.ser([(7, TG.ser(c3))] + els[1:]))))
    for mk, w2 in muts:
        st2 = parsed_state(w2)
        if st2 is None:
            ctx.case((kind, w2), False, None, f'{kind}.{label}.{mk}.reject-at-decode')
            continue
        name2, ptrs2 = st2
        v2 = value_of(w2)
        spec2 = opt(M([spec_op, v2]))
        rep2 = b''.join(bytes(x) for x in ptrs2.signature_covered_part)
        sig2 = bytes(ptrs2.signature_value_buf) if ptrs2.signature_value_buf is not None else None
        c2 = {**case, 'mutant': w2, 'edit': mk}
        ptrs_vs_model(w2, v2, ptrs2, c2)
        ok2 = verdict(name2, ptrs2)
        # "differs in its signed portion or signature value": read off the mutant by the specification when the
        # mutant is strictly well-formed, otherwise (an overrunning element: C07's known finding) by what is reported
        if spec2 is not None:
            changed = (spec2, sig2) != (spec, sig0)
        else:
            changed = (rep2, sig2) != (rep, sig0)
        if ok2 is not None and ok2[0] and changed and ptrs2.signature_info is not None:
            # digest "signatures" are unkeyed: a recomputed digest is a different signed packet, not a forgery
            if not (label.startswith('digest') and spec2 is not None and sig2 == hashlib.sha256(spec2).digest()):
                if mk == 'sig-high-s':
                    # listed finding: (r, n-s) verifies whenever (r, s) does -- a symmetry of ECDSA itself
                    ctx.violation('verifier', 'ecdsa-high-s-accepted',
                                  'ECDSA: the SignatureValue re-encoded as (r, n-s) over the same signed portion verifies', {'kind': kind, 'signer': 'ecdsa'})
                else:
                    ctx.violation('verifier', 'tampered-accepted',
                                  f'{label}: a packet differing in signed portion / signature value verifies', c2)
        if ok2 is not None and not ok2[0] and not changed:
            ctx.stat('mutant.untouched-but-rejected')     # not demanded by the property: recorded only
        if kind == 'interest':
            dp2, dc2 = opt(M([12, v2])), opt(M([13, v2]))
            want = dp2 is not None and dc2 is not None and hashlib.sha256(dp2).digest() == dc2
            got = bool(run_coro(params_sha256_checker(name2, ptrs2)))
            ndig = 0
            for c in name2:          # by decoded Type (a Type may be written in a non-shortest form)
                try:
                    ndig += TG.read_num(bytes(c), 0)[0] == 2
                except Exception:    # noqa
                    ndig += 2
            # a name with several ParametersSha256 components has no well-defined "its digest component", and a
            # packet whose recognised elements are duplicated / out of order has no well-defined
            # "ApplicationParameters of the Interest": not judged
            if got != want and not (ndig <= 1 and canonical_order(kind, v2)):
                ctx.stat('mutant.digest-iff-not-judged')
            if got != want and ndig <= 1 and canonical_order(kind, v2):
                ctx.violation('params_sha256_checker', 'digest-check-not-iff',
                              f'checker says {got}, digest component == SHA-256(AppParams..end) is {want}', c2)
        ctx.case((kind, w2), True, None, f'{kind}.{label}.{mk}.{"changed" if changed else "same"}.{None if ok2 is None else ok2[0]}')


def run(ctx):
    rng = ctx.rng
    M = ctx.call
    keys = P.Keys.get()
    allsg = keys.signers()
    signers = [x for x in allsg if not x[0].startswith('rsa-')] + [('digest-interest', keys.signers(True)[0][1], None)]
    # RSA keys whose modulus is not a multiple of 8 bits: the genuine packet, without the mutant sweep
    for label, sg, verify in [x for x in allsg if x[0].startswith('rsa-')]:
        r = C01.one_data(ctx, M, [G.tlv(8, b'r')], {}, b'odd modulus', sg, label)
        if r:
            check_packet(ctx, M, 'data', r[0], r[1], verify, label, mutate=False)
        r = C01.one_interest(ctx, M, [G.tlv(8, b'r')], P.rand_interest_args(rng)[1], b'pp', sg, label)
        if r:
            check_packet(ctx, M, 'interest', r[0], r[1], verify, label, mutate=False)
    for rnd in range(ctx.n(2, 12)):
        for label, sg, verify in signers:
            name, ip, app = P.rand_interest_args(rng)
            if rng.random() < 0.35:
                # a caller-supplied ParametersSha256 placeholder that is NOT the last component (legal): the
                # components after it are still part of the signed portion
                k = rng.randint(0, len(name))
                name = name[:k] + [G.tlv(2, bytes(32))] + name[k:] + [G.tlv(8, b'after')] * rng.choice([0, 1, 2])
            if rng.random() < 0.3:
                # an ImplicitSha256Digest component somewhere in the name: part of the signed portion like any other component
                k = rng.randint(0, len(name))
                name = name[:k] + [G.tlv(1, G.rand_bytes(rng, 32))] + name[k:]
            r = C01.one_interest(ctx, M, name, ip, app if rnd % 2 else rng.choice([None, b'', b'pp']), sg, label)
            if r:
                check_packet(ctx, M, 'interest', r[0], r[1], verify, label)
            content = rng.choice([None, b'', G.rand_bytes(rng, rng.choice([1, 30, 200]))])
            r = C01.one_data(ctx, M, G.name_of_tv(G.rand_name_tv(rng, 4)),
                             rng.choice([None, {}, dict(content_type=1, freshness_period=5)]), content, sg, label)
            if r:
                check_packet(ctx, M, 'data', r[0], r[1], verify, label)
    # signatures shorter than the reserved space (post-signing repair) must not move the covered bytes
    for (res, act) in [(72, 70), (72, 71), (139, 137), (252, 250), (10, 0)]:
        sg = P.Synthetic(res, act)
        r = C01.one_data(ctx, M, [G.tlv(8, b's')], {}, G.rand_bytes(rng, 175), sg, 'synthetic')
        if r:
            check_packet(ctx, M, 'data', r[0], r[1], None, 'synthetic', mutate=False)
        r = C01.one_interest(ctx, M, [G.tlv(8, b's')], dict(can_be_prefix=False, must_be_fresh=False, nonce=1, lifetime=None,
                                                           hop_limit=None, forwarding_hint=[]), G.rand_bytes(rng, 170), sg, 'synthetic')
        if r:
            check_packet(ctx, M, 'interest', r[0], r[1], None, 'synthetic', mutate=False)
    # signer/verifier pairs over the KEY dimension: HMAC keys of every length around the SHA-256 block size (RFC 2104 treats
    # keys longer than the block differently) and the digest size; the value written must be HMAC-SHA256(key, signed portion)
    # by an independent computation, and the matching verifiers accept it
    import hmac as _hmac
    from ndn.security.signer import HmacSha256Signer
    from ndn.security.validator import known_key_validator as KV
    from ndn.encoding import parse_data, parse_interest
    kl = [G.tlv(8, b'key'), G.tlv(8, b'KEY'), G.tlv(8, b'\x01')]
    for klen in [1, 4, 16, 20, 31, 32, 33, 63, 64, 65, 100, 127, 128, 129, 131, 300]:
        key = G.rand_bytes(rng, klen)
        sg = HmacSha256Signer(kl, key)
        ck = KV.HmacChecker.from_key('/key', key)

        def verify(p, key=key):
            return KV.verify_hmac(key, p)
        verify.checker = ck
        label = f'hmac-key{klen}'
        for kind in ('data', 'interest'):
            if kind == 'data':
                r = C01.one_data(ctx, M, [G.tlv(8, b'h'), G.tlv(8, bytes([klen & 255]))], {}, G.rand_bytes(rng, 20), sg, label)
            else:
                r = C01.one_interest(ctx, M, [G.tlv(8, b'h')], dict(can_be_prefix=False, must_be_fresh=False, nonce=2, lifetime=None,
                                                                    hop_limit=None, forwarding_hint=[]), b'pp', sg, label)
            if not r:
                continue
            wire = r[0]
            spec = opt(M([10 if kind == 'data' else 11, value_of(wire)]))
            ptrs = (parse_data if kind == 'data' else parse_interest)(wire)[3]
            sv = None if ptrs.signature_value_buf is None else bytes(ptrs.signature_value_buf)
            if spec is None or sv != _hmac.new(key, spec, 'sha256').digest():
                ctx.violation(f'make_{kind}', 'hmac-value-not-spec',
                              f'{klen}-octet key: SignatureValue is not HMAC-SHA256(key, signed portion)', {'kind': kind, 'key': key, 'wire': wire})
            check_packet(ctx, M, kind, wire, r[1], verify, label, mutate=(klen in (64, 65)))
