"""C19 stream C: segment_fetcher over a real NDNApp whose face is a simulated producer + network, on the
virtual-time loop.  Everything between the fetcher and the wire is the real app.py: Interest encoding
(CanBePrefix / MustBeFresh / InterestLifetime as given by the fetcher's keyword arguments), the pending
Interest table, wait_for(lifetime) -> InterestTimeout, NetworkNack -> InterestNack, validator ->
ValidationFailure.  The requests are read back from the Interests seen on the face."""
import asyncio

from harness.lib import vtloop
from harness.props import c19 as H
from harness.props import _pipeline as P      # Nack reason forms (value + encoding) shared with C03


class ProducerFace:
    """Stands where the NFD face is: [send] receives encoded Interests, replies are injected through
    the app's receive callback in a later loop turn."""

    def __init__(self, loop, answer, trace, nack_form=150, meta_of=None):
        self.meta_of = meta_of           # Data name -> (ContentType, FreshnessPeriod or None) of its MetaInfo; None: the defaults
        self.nack_form = nack_form       # reason and encoding of the NetworkNack sent for a nacked Interest
        self.running = True
        self.callback = None
        self.loop = loop
        self.answer = answer
        self.trace = trace
        self.counts = {}
        self.invalid_next = False
        self.sent_at = []

    def meta(self, name, marker):
        from ndn.encoding import MetaInfo
        m = self.meta_of(name) if self.meta_of is not None else None
        if m is None:
            return MetaInfo(final_block_id=marker)
        return MetaInfo(content_type=m[0], freshness_period=m[1], final_block_id=marker)

    def send(self, wire):
        from ndn.encoding import parse_interest, make_data, parse_tl_num
        wire = bytes(wire)
        name, param, app_param, sig = parse_interest(wire, with_tl=True)
        q = (H.nb(name), bool(param.can_be_prefix), bool(param.must_be_fresh), param.lifetime)
        key = repr(q)
        n = self.counts.get(key, 0)
        self.counts[key] = n + 1
        if len(self.trace) > 3000:
            raise RuntimeError('runaway fetch')
        r = self.answer(q, n)
        self.trace.append(['ask', q, r, n])
        self.sent_at.append(self.loop.time())
        if r[0] == 'data':
            pkt = bytes(make_data(r[1], self.meta(r[1], r[3]), r[2], signer=None))
            self.invalid_next = False
        elif r[1] == (2,):
            i = r[2]
            pkt = bytes(make_data(i[0], self.meta(i[0], i[2]), i[1], signer=None))
            self.invalid_next = True
        elif r[1] == (1,):
            pkt = P.nack_wire(wire, self.nack_form)
        else:
            return          # lost: the Interest times out
        typ, _ = parse_tl_num(pkt)
        self.loop.call_later(0.005, lambda: self.loop.create_task(self.callback(typ, pkt)))

    def shutdown(self):
        self.running = False


def run_real(answer, prefix, kw, nack_form=150, vlat=None, meta_of=None):
    """meta_of: None or a function Data name -> (ContentType, FreshnessPeriod or None) for the MetaInfo of the answers.
    vlat: None (the validator answers at once) or a function (name components, negative verdict?) -> seconds the
    caller's validator takes before it gives its verdict (virtual time), e.g. a validator that fetches a certificate."""
    from ndn.app import NDNApp
    from ndn.app_support.segment_fetcher import segment_fetcher
    from ndn import types as T
    import logging
    logging.getLogger('ndn').setLevel(logging.CRITICAL)
    loop = vtloop.new_loop()
    trace = []
    face = ProducerFace(loop, answer, trace, nack_form, meta_of)
    face.nack_reason_got = None
    face.vlog = []                   # (name, negative verdict?) per invocation of the caller's validator
    app = NDNApp(face=face, keychain=object())

    async def validator(name, sig):
        bad = face.invalid_next
        face.invalid_next = False
        face.vlog.append((H.nb(name), bad))
        d = vlat(H.nb(name), bad) if vlat is not None else 0
        if d > 0:
            await asyncio.sleep(d)
        return not bad

    async def main():
        try:
            async for c in segment_fetcher(app, prefix, validator=validator, **kw):
                trace.append(['yield', bytes(c)])
            return (0,)
        except T.InterestTimeout:
            return (1, (0,))
        except T.InterestNack as e:
            face.nack_reason_got = e.reason
            return (1, (1,))
        except T.ValidationFailure:
            return (1, (2,))
        except Exception as e:  # noqa
            return (1, (4, H.exc_code(e)))
    try:
        t0 = loop.time()
        ending = loop.run_until_complete(main())
        elapsed = loop.time() - t0
        errors = loop.collect_errors()
        pending = len(app._int_tree)
    finally:
        loop.close()
        asyncio.set_event_loop(None)
    return trace, ending, elapsed, errors, pending, face


def stream_c(ctx):
    rng = ctx.rng
    # sampled scenarios; the Nack of a nacked Interest carries a reason / encoding drawn from the shared pool
    for it in range(ctx.n(250, 4000)):
        N = rng.choice([1, 2, 3, 4, 6])
        disc_k = rng.choice(list(range(N)) + [None])
        retry = rng.choice([1, 2, 3])
        att = max(1, retry)
        keys = [None] + list(range(N))
        losses = {k: rng.choice([0, 0, 0, 1, att - 1, att, att + 1]) if rng.random() < 0.4 else 0 for k in keys}
        faults = {rng.choice(keys): rng.choice([H.NACKED, H.INVALID])} if rng.random() < 0.3 else None
        style = rng.choice(['exact', 'exact', 'all', 'absent', 'early', 'noncanon', 'only_early'])
        s = H.mk_scenario(rng, N, disc_k, style, H.fates_from(losses, faults), prefix_mode=rng.choice([0, 1]))
        lifetime = rng.choice([4000, 500, 50])
        vspec = None
        if rng.random() < 0.4:
            # the caller's validator takes its time (relative to the lifetime of the fetch's Interests)
            vspec = (rng.choice(['all', 'all', 'negative', 'positive', 'discovery', ('seg', rng.randrange(N))]),
                     rng.choice(validator_latencies(lifetime)))
        meta = None
        if rng.random() < 0.5:
            # every Data of the object draws the rest of its MetaInfo (the library's encoder writes it)
            meta = {k: draw_meta(rng) for k in [None] + list(range(N))}
        one_case(ctx, s, N, retry, lifetime, rng.choice([True, False]), rng.choice(P.NACK_POOL), 'C.realapp', vspec=vspec, meta=meta)
    # Nack table: every reason value / encoding x the key that is nacked (discovery, first, middle, last segment)
    # x the number of losses before the Nack (0, one below the limit): the fetch ends with InterestNack(that reason)
    # after the contents of the earlier segments, and the nacked Interest is not re-expressed
    forms = P.NACK_FORMS if ctx.thorough else P.NACK_FORMS[:8] + P.NACK_FORMS[13:15]
    for form in forms:
        for key in (None, 0, 1, 2):
            for retry in (1, 3):
                N = 3
                losses = {k: 0 for k in [None] + list(range(N))}
                losses[key] = retry - 1
                disc_k = rng.choice([k for k in (0, 1, 2) if k != key])       # segment [key] is really asked for
                s = H.mk_scenario(rng, N, disc_k, 'exact', H.fates_from(losses, {key: H.NACKED}), prefix_mode=0)
                one_case(ctx, s, N, retry, 100, True, form, 'C.nack-table')


    validator_table(ctx)
    metainfo_table(ctx)
    # unsegmented table: an unsegmented object published under EXACTLY the fetched name (the answer to the CanBePrefix
    # discovery Interest has the same name), one component below it, deeper; x shape of the fetched name x discovery
    # losses (0, retry-1: delivered; retry: timeout) x retry_times; through the real pending-Interest table
    for rel in H.WHOLE_RELS:
        for base in H.unsegmented_bases():
            for retry in (1, 3):
                for lost in sorted({0, retry - 1, retry}):
                    s = H.mk_scenario(rng, rng.choice([0, 2]), None, 'exact', H.fates_from({None: lost}), prefix_mode=0,
                                      whole_rel=rel, base=base)
                    one_case(ctx, s, s['nseg'], retry, 100, rng.choice([True, False]), 150, 'C.unsegmented-' + rel)


META_CT = [0, 0, 1, 2, 3, 4, 5, 9, 9999, 1 << 32]
META_FP = [None, 0, 0, 1, 1000, 3600000, (1 << 64) - 1]


def draw_meta(rng):
    return (rng.choice(META_CT), rng.choice(META_FP))


def metainfo_table(ctx):
    """Nack / validation failure / plain delivery when every Data of the object carries the same unusual MetaInfo:
    FreshnessPeriod {absent, 0, 1, large} x ContentType {BLOB, NACK(3), KEY} x must_be_fresh x what happens to a later
    segment (delivered / nacked / refused by the validator, after retry-1 losses) x validator quick / slow.  The contents
    of the earlier segments are yielded, then the fetch completes / ends with that error - whatever the MetaInfo says."""
    rng = ctx.rng
    for fp in (None, 0, 1, 3600000):
        for ct in (0, 3, 2):
            for mbf in (True, False):
                for fault in (None, H.NACKED, H.INVALID):
                    N = 3
                    retry = rng.choice([1, 3])
                    key = rng.choice([1, 2])
                    losses = {k: 0 for k in [None] + list(range(N))}
                    losses[key] = retry - 1
                    s = H.mk_scenario(rng, N, rng.choice([k for k in range(N) if k != key]), rng.choice(['exact', 'all']),
                                      H.fates_from(losses, {key: fault} if fault is not None else None), prefix_mode=rng.choice([0, 1]))
                    lifetime = rng.choice([100, 1000])
                    vspec = ('all', lifetime // 2) if rng.random() < 0.3 else None
                    one_case(ctx, s, N, retry, lifetime, mbf, rng.choice(P.NACK_POOL), 'C.metainfo-table', vspec=vspec,
                             meta={k: (ct, fp) for k in range(N)})


def make_vlat(s, vspec):
    """vspec = (who, latency_ms): whose verdict takes latency_ms of (virtual) time - 'all' packets, only those with a
    'negative' / a 'positive' verdict, the answer to the 'discovery' Interest's name (the first packet validated), or
    ('seg', i) the i-th segment.  Every other verdict is given at once."""
    if vspec is None:
        return None
    who, ms = vspec
    first = []

    def vlat(name, bad):
        is_first = not first
        first.append(1)
        if who == 'all':
            hit = True
        elif who == 'negative':
            hit = bad
        elif who == 'positive':
            hit = not bad
        elif who == 'discovery':
            hit = is_first
        else:
            hit = name == s['base'] + [H.seg(who[1])]
        return ms / 1000.0 if hit else 0
    return vlat


# Data reaches the application NET_DELAY_MS after the Interest was sent (ProducerFace.send)
NET_DELAY_MS = 5


def validator_latencies(lifetime):
    """Latencies of the caller's validator relative to the Interest lifetime L of the fetch (ms): quick; half of L; just
    inside / exactly / just beyond what remains of L when the Data arrives; L; beyond L; around the 100 ms mark; several
    lifetimes."""
    rem = lifetime - NET_DELAY_MS
    return sorted({0, 3, lifetime // 2, rem - 1, rem, rem + 1, lifetime, lifetime + 50, 99, 101, 150, 2 * lifetime + 30,
                   10 * lifetime})


def validator_table(ctx):
    """'validation failures ... propagate instead of being skipped' and 'fails with a timeout exactly when some segment
    exhausts its attempts', whatever time the caller's validator needs for its verdict: the fate of an Interest is
    decided by the packet that answered it (the legacy front-end gives the validator no deadline - finding
    C05-v1-validator-no-deadline is about express_interest; here only what the fetch yields / raises is judged), so a
    segment that was delivered and accepted is yielded, a delivered one the validator rejects ends the fetch with
    ValidationFailure after the earlier contents, and no Interest whose answer arrived is expressed again."""
    rng = ctx.rng
    lifetimes = (50, 200, 1000) if not ctx.thorough else (50, 100, 200, 1000, 4000)
    for lifetime in lifetimes:
        for lat in validator_latencies(lifetime):
            for retry in (1, 3):
                N = 3
                keys = [None] + list(range(N))
                # (which key gets a negative verdict, whose verdict is slow)
                shapes = [(None, 'all'), (None, 'discovery'), (None, ('seg', 1)), (None, ('seg', N - 1))]
                for bad in (None, 1, N - 1):
                    shapes += [((bad,), 'all'), ((bad,), 'negative')]
                shapes += [((1,), 'positive'), ((N - 1,), ('seg', 0))]
                for bad, who in shapes:
                    losses = {k: 0 for k in keys}
                    faults = None
                    disc_k = rng.choice([0, 0, 1, 2])
                    if bad is not None:
                        faults = {bad[0]: H.INVALID}
                        # the rejected segment is really asked for, sometimes after losses just below the limit
                        if bad[0] is not None:
                            disc_k = rng.choice([k for k in range(N) if k != bad[0]])
                        losses[bad[0]] = rng.choice([0, retry - 1])
                    elif rng.random() < 0.3:
                        losses[rng.choice(keys)] = retry - 1
                    s = H.mk_scenario(rng, N, disc_k, rng.choice(['exact', 'all']), H.fates_from(losses, faults), prefix_mode=0)
                    one_case(ctx, s, N, retry, lifetime, rng.choice([True, False]), 150, 'C.validator-latency', vspec=(who, lat))
        # unsegmented object, accepted / rejected, slow validator
        for lat in validator_latencies(lifetime):
            for bad in (False, True):
                s = H.mk_scenario(rng, 0, None, 'exact', H.fates_from({None: 0}, {None: H.INVALID} if bad else None),
                                  prefix_mode=0, whole_rel=rng.choice(H.WHOLE_RELS))
                one_case(ctx, s, 0, rng.choice([1, 3]), lifetime, True, 150, 'C.validator-latency-unsegmented', vspec=('all', lat))


def one_case(ctx, s, N, retry, lifetime, mbf, nack_form, stratum, vspec=None, meta=None):
        """meta: None or {key: (ContentType, FreshnessPeriod or None)} (key = segment number, None = the unsegmented object):
        the MetaInfo the producer puts on that Data besides the FinalBlockId; the specification does not look at it."""
        M = ctx.call
        att = max(1, retry)
        if not s['prefix']:
            s['prefix'] = s['base']
        base_answer, fate = H.scenario_answer(s)

        def answer(q, n, base_answer=base_answer, s=s):
            # an Invalid fate needs the Data that fails validation: carry it along
            r = base_answer(q, n)
            if r == ('exc', (2,)):
                k = None if q[1] else [i for i in range(s['nseg']) if s['base'] + [H.seg(i)] == q[0]][0]
                if k is None and s['disc'][0] == 'whole':
                    d = (s['disc'][1], s['disc'][2], s['disc'][3])
                else:
                    i = s['disc'][1] if k is None else k
                    d = (s['base'] + [H.seg(i)], s['contents'][i], s['markers'][i])
                return ('exc', (2,), d)
            return r
        kw = {'retry_times': retry, 'timeout': lifetime, 'must_be_fresh': mbf}
        meta_of = None
        if meta is not None:
            by_name = {tuple(s['base'] + [H.seg(i)]): meta.get(i) for i in range(s['nseg'])}
            if s['disc'][0] == 'whole':
                by_name[tuple(s['disc'][1])] = meta.get(None)
            meta_of = lambda name: by_name.get(tuple(H.nb(name)))      # noqa
        trace, ending, elapsed, errors, pending, face = run_real(answer, s['prefix'], kw, nack_form, make_vlat(s, vspec), meta_of)
        for t in trace:
            if t[0] == 'ask' and len(t[2]) == 3:
                t[2] = t[2][:2]
        case = {'stream': 'real NDNApp', 'scenario': s, 'retry_times': retry, 'timeout': lifetime, 'must_be_fresh': mbf,
                'nack': nack_form}
        if vspec is not None:
            case['validator'] = {'slow_on': vspec[0], 'latency_ms': vspec[1]}
        if meta is not None:
            case['MetaInfo (ContentType, FreshnessPeriod)'] = {('object' if k is None else f'segment {k}'): list(v) for k, v in meta.items()}
            for v in meta.values():
                ctx.stat('C.freshness:' + ('absent' if v[1] is None else '0' if v[1] == 0 else 'positive') + (':must_be_fresh' if mbf else ':may_be_stale'))
        es = H.enc_scn(s)
        m = M([2, [retry, lifetime, int(mbf)], H.FUEL, es])
        mev, mend = H.norm(m[0]), H.dec_ending(m[1])
        iev = H.impl_events(trace)
        if mev != iev or mend != ending:
            ctx.disagree('segment_fetcher+NDNApp', 'trace / ending differ', case, [mev, mend], [iev, ending])
        exp = M([3, retry, es])
        eys, eend = H.norm(exp[0]), H.dec_ending(exp[1])
        ys = [t[1] for t in trace if t[0] == 'yield']
        if ys != eys:
            ctx.violation('segment_fetcher+NDNApp', 'contents', f'yielded {len(ys)} contents, specification demands {len(eys)}', case)
        elif ending != eend:
            ctx.violation('segment_fetcher+NDNApp', f'ending:{eend}->{ending}', f'fetch ended with {ending}, specification demands {eend}', case)
        H.check_discipline(ctx, trace, ending, att, case, site='segment_fetcher+NDNApp')
        H.check_nack_reason(ctx, 'segment_fetcher+NDNApp', ending, face.nack_reason_got, P.nack_reason_value(nack_form), case)
        H.check_asks(ctx, M, [retry, lifetime, int(mbf)], es, [t for t in trace if t[0] == 'ask'], case, 'segment_fetcher+NDNApp')
        # a lost Interest is re-expressed only after its lifetime has elapsed (virtual clock)
        asks = [t for t in trace if t[0] == 'ask']
        for j in range(1, len(asks)):
            if asks[j - 1][2][:2] == ('exc', (0,)):
                dt = face.sent_at[j] - face.sent_at[j - 1]
                if abs(dt - lifetime / 1000.0) > 0.002:
                    ctx.violation('segment_fetcher+NDNApp', 'retry-before-lifetime',
                                  f'Interest re-expressed {dt:.3f}s after a lost one, lifetime {lifetime} ms', case)
        # the caller's validator is asked once about every packet that answered an Interest of the fetch
        n_answered = sum(1 for t in asks if t[2][0] == 'data' or t[2][:2] == ('exc', (2,)))
        if len(face.vlog) != n_answered:
            ctx.violation('segment_fetcher+NDNApp', 'validator-calls', f'{n_answered} packets answered Interests of the fetch, '
                          f'the caller\'s validator was asked {len(face.vlog)} times', case)
        if vspec is not None:
            ctx.stat('C.validator-latency:' + ('none' if vspec[1] == 0 else 'below-lifetime' if vspec[1] < lifetime - NET_DELAY_MS
                                               else 'beyond-lifetime') + (':negative' if any(b for _, b in face.vlog) else ':positive'))
        if errors:
            ctx.violation('segment_fetcher+NDNApp', 'loop-exception', f'event loop handler called: {str(errors[0].get("message"))[:80]}', case)
        if pending:
            ctx.violation('segment_fetcher+NDNApp', 'pending-interests-left', f'{pending} entries left in the pending Interest table', case)
        ctx.case(('C', repr(s), retry, lifetime, mbf), len(asks) >= 2 and any(t[2][0] == 'data' for t in asks),
                 {'N': N, 'retry': retry, 'ending': ending, 'interests': len(asks), 'virtual_s': round(elapsed, 3)}, stratum)
        ctx.stat('C.ending:' + str(ending))
        if any(t[0] == 'ask' and t[2][:2] == ('exc', (1,)) for t in trace):
            ctx.stat('C.nack-form:' + (nack_form[0] if isinstance(nack_form, tuple) else ('0' if nack_form == 0 else 'nonzero')))
