"""C15 — keychain contents, defaults and signers stay consistent over any history.

Every case is a *history*: a sequence of keychain operations, some with a storage failure injected
at one of their effects, run against the real KeychainSqlite3 + TpmFile in a scratch directory.

 * correspondence: the same history is run by the extracted model (Model/Keychain.v); after every
   operation the result (value / exception class) and everything observable through the public API
   (the three Mapping views, defaults, key bits, certificate blobs, private-key files) are compared;
 * direct oracle on the implementation:
     - views: iteration, len, membership, lookup agree and are scoped to their owner;
     - defaults: at most one per scope; a populated scope without default must have lost it by a delete;
     - every un-faulted operation moves the observed nested-map state exactly as Spec/KeychainSpec.v
       says (this contains the delete cascades incl. private keys), refused iff the spec refuses;
     - get_signer: the signer is the one KeychainSpec.signer_of demands, its signature verifies under
       the stored public key of the selected key, and that key is listed in the keychain;
     - every self-signed certificate listed by a Key verifies under the key bits of that Key;
     - fault recovery: an operation that failed by an injected fault is repeated and must end in the
       same observable state / result as a clean run of it on a copy of the store taken before;
     - no row of table keys / certificates that no Identity / Key view lists ("valid references").
 * strata: plain histories, the name-reuse stratum, the cardinality stratum (one owner with up to 130 items, built
   and deleted in batches of quiet steps that are judged at the observation that closes the batch).
"""
import base64
import os
import shutil
import sqlite3
import tempfile
from types import SimpleNamespace

RULE = ('histories of <=25 (quick) / <=60 (thorough) operations over create/touch identity, new key (EC, RSA from a '
        'pool, unsupported type; random and explicit key ids incl. collisions), import certificate (real certificates, '
        'duplicate names; ill-named ones only in the malformed stream), set default identity/key/cert, delete '
        'cert/key/identity (keychain and Identity/Key methods), get_signer (default/identity/key/cert selection, names '
        'as str/list/bytes/object, key_locator override from a small pool), close/reopen; a storage failure at a random '
        'effect of ~25% of the operations, followed by a repeat of the operation. name-reuse stratum (60 quick / 600 '
        'thorough histories on top): key ids (random-generator candidates and explicit ids), certificate versions and '
        'identity names come from pools of 2-5 values, and a key / identity that was deleted (del_key, Identity.del_key, '
        'del_identity) is created again under the SAME name with a new key pair (new_key explicit or random id, '
        'touch_identity, new_identity + new_key; EC and RSA, same or other type, same or other certificate version), '
        'without and with close+reopen or a signer request for the dead key in between, followed by signer requests '
        'that select the re-created key by key name, certificate name, Key / Identity / Certificate object, identity '
        'and default identity (after set_default_key / set_default_identity), with and without key_locator; the signer '
        'must sign so that the signature verifies under the key bits the keychain stores for the selected key NOW, and '
        'every self-signed certificate in the views must verify under the key bits of its key. cardinality stratum (9 '
        'quick / 168 thorough histories on top): ONE identity with n keys, ONE key with n certificates, ONE keychain '
        'with n identities, n from 1, 2, 31..33, 63..66, 100, 127..130 (the round numbers an implementation may page or '
        'batch by, and their neighbours; quick: 63/64, 65/66 and one of 100..130 keys every run), a small neighbour '
        'identity whose key row lies before / amid / after; built in batches (operations executed one by one and '
        'compared with the model by result, observed and judged against the specification -- folded over the batch -- '
        'at the end of the batch; key pairs round-robin from the pool); then at that size: all views (iteration, len, '
        'membership, lookup of every listed item; foreign names probed per view), close+reopen, set default at '
        'boundary positions (first, last, 32nd, 64th, 65th, 128th ...), signers for keys / certificates at those '
        'positions; then delete cascades: single items at boundary positions, bulk subsets (first 32/64/65, last '
        '1/2/33/64/65, every second, a block, random half; del_key / Identity.del_key / del_cert / Key.del_cert / '
        'del_identity), the whole owner (del_identity, del_key, or key by key), storage failures anywhere inside a '
        'long cascade (effect 0 .. 4n+5) followed by the repeat; then the SAME signer arguments for the deleted keys '
        '(key name, certificate name, identity), close+reopen, re-creation under an old name. Oracle after every '
        'observed step as everywhere (state = specification incl. private-key files, no private key without listed '
        'key, no signer for a key that is not listed) plus: no row of table keys / certificates that no view lists. '
        'non-trivial = the '
        'history creates a key and contains a delete, a signer request or a fault; distinct by history hash')
ASSUMPTIONS = [
    'SQLite executes the triggers of INITIALIZE_SQL as modelled (exercised on every case, not verified)',
    'a storage failure is an exception raised at a step boundary (statement, commit, key-file write/delete/read), '
    'one per operation; torn writes and failures inside the rollback/cleanup path are not modelled',
    'identity names are non-empty (an empty name given as a list is falsy in get_signer and means "absent")',
    'certificates are imported under their key (certificate name = key name + issuer + version) in the histories '
    'the theorems/oracles speak about; ill-named imports are only compared model vs implementation',
]

E_FAULT, E_INTEGRITY = 101, 102


class Injected(Exception):
    pass


class FaultInjector:
    def __init__(self):
        self.remaining = None
        self.steps = 0

    def arm(self, k):
        self.remaining = k
        self.steps = 0

    def tick(self):
        self.steps += 1
        if self.remaining is None:
            return
        if self.remaining == 0:
            self.remaining = None
            raise Injected('injected storage failure')
        self.remaining -= 1


class ConnProxy:
    """sqlite3.Connection with a fault point in front of every writing statement and commit."""

    def __init__(self, conn, fi):
        self._c = conn
        self._fi = fi

    def execute(self, sql, *a):
        if sql.lstrip().upper().startswith('SELECT'):
            return self._c.execute(sql, *a)
        self._fi.tick()
        try:
            return self._c.execute(sql, *a)
        except Exception:
            self._fi.remaining = None      # one failure per operation: the cleanup is not failed again
            raise

    def commit(self):
        self._fi.tick()
        return self._c.commit()

    def rollback(self):
        return self._c.rollback()

    def close(self):
        return self._c.close()

    @property
    def in_transaction(self):
        return self._c.in_transaction

    def __enter__(self):
        return self

    def __exit__(self, et, ev, tb):          # as sqlite3.Connection.__exit__ (CPython 3.12)
        if et is None:
            try:
                self.commit()
            except BaseException:
                self._c.rollback()
                raise
        else:
            self._c.rollback()
        return False


# ---- environment shared by the patched library functions ------------------------------------------
ENV = SimpleNamespace(key=None, kids=[], version=0)
POOL = {}            # material id -> private key object
UNKNOWN = 999999     # id of material / certificate bytes the history never introduced (a number the model can read)
PUB_ID = {}          # public key DER -> material id
PRIV_ID = {}         # private key DER -> material id
N_EC, N_RSA = 70, 3
_patched = []


def setup_pool_and_patches():
    from Cryptodome.PublicKey import ECC, RSA
    import ndn.security.tpm.tpm_file as tf
    import ndn.security.tpm.tpm as tm
    import ndn.app_support.security_v2 as sv
    if not POOL:
        for m in range(1, N_EC + 1):
            k = ECC.generate(curve='P-256')
            POOL[m] = k
            PUB_ID[bytes(k.public_key().export_key(format='DER'))] = m
            PRIV_ID[bytes(k.export_key(format='DER', use_pkcs8=False))] = m
        for j in range(1, N_RSA + 1):
            k = RSA.generate(1024)
            POOL[1000 + j] = k
            PUB_ID[bytes(k.publickey().export_key(format='DER'))] = 1000 + j
            PRIV_ID[bytes(k.export_key(format='DER', pkcs=1))] = 1000 + j
    _patched.extend([(tf, 'ECC', tf.ECC), (tf, 'RSA', tf.RSA), (tm, 'get_random_bytes', tm.get_random_bytes),
                     (sv, 'timestamp', sv.timestamp)])
    tf.ECC = SimpleNamespace(generate=lambda curve=None, **kw: ENV.key)
    tf.RSA = SimpleNamespace(generate=lambda siz=None, **kw: ENV.key)

    def fake_random(n):
        if not ENV.kids:
            raise RuntimeError('harness: key id candidates exhausted')
        return ENV.kids.pop(0).to_bytes(8, 'big')
    tm.get_random_bytes = fake_random
    sv.timestamp = lambda: ENV.version


def undo_patches():
    while _patched:
        mod, attr, val = _patched.pop()
        setattr(mod, attr, val)


# ---- names ------------------------------------------------------------------------------------------
def comp_of(n):
    from ndn.encoding import Component
    from ndn.app_support.security_v2 import KEY_COMPONENT, SELF_COMPONENT
    if n == 0:
        return KEY_COMPONENT
    if n == 1:
        return SELF_COMPONENT
    if 10 <= n < 100:
        return Component.from_str(f'i{n}')
    if 100 <= n < 1000:
        return Component.from_str(f'iss{n}')
    if 2000 <= n < 3000:
        return Component.from_bytes(n.to_bytes(8, 'big'))
    if 3000 <= n < 4000:
        return Component.from_str(f'k{n}')
    if n >= 100000:
        return Component.from_version(n - 100000)
    raise ValueError(n)


def abs_comp(c):
    from ndn.encoding import Component
    t = Component.get_type(c)
    v = bytes(Component.get_value(c))
    if t == Component.TYPE_VERSION:
        return 100000 + Component.to_number(c)
    if v == b'KEY':
        return 0
    if v == b'self':
        return 1
    for pre in (b'iss', b'i', b'k'):
        if v.startswith(pre) and v[len(pre):].isdigit():
            return int(v[len(pre):])
    if len(v) == 8:
        return int.from_bytes(v, 'big')
    raise ValueError(f'unexpected component {v!r}')


def real_name(l):
    return [comp_of(c) for c in l]


def abs_name(x):
    from ndn.encoding import Name
    return [abs_comp(c) for c in Name.normalize(x)]


def formed(l, form):
    """The name in one of the NonStrictName forms."""
    from ndn.encoding import Name
    n = real_name(l)
    if form == 0:
        return n
    if form == 1:
        return Name.to_str(n)
    if form == 2:
        return Name.to_bytes(n)
    return [bytes(c) for c in n]


def exc_code(e):
    if isinstance(e, Injected):
        return E_FAULT
    if isinstance(e, sqlite3.IntegrityError):
        return E_INTEGRITY
    if isinstance(e, KeyError):
        return 7
    if isinstance(e, ValueError):
        return 3
    if isinstance(e, AttributeError):
        return 9
    if isinstance(e, TypeError):
        return 5
    return 1000


# ---- the implementation under test --------------------------------------------------------------------
LIVE = []
SELF_OK = {}         # wire of a self-signed certificate -> its signature verifies under the key bits it carries


def _scratch_root():
    """memory-backed scratch space when there is one (a commit costs no fsync there; durability against power loss
    is not part of the property), else the default temp dir"""
    d = '/dev/shm'
    try:
        if os.path.isdir(d) and os.access(d, os.W_OK | os.X_OK):
            st = os.statvfs(d)
            if st.f_bavail * st.f_frsize > (1 << 28):
                return d
    except OSError:
        pass
    return None


SCRATCH_ROOT = _scratch_root()


class Impl:
    def __init__(self, copy_of=None):
        from ndn.security.keychain.keychain_sqlite3 import KeychainSqlite3
        self.dir = tempfile.mkdtemp(prefix='c15-', dir=SCRATCH_ROOT)
        self.pib = os.path.join(self.dir, 'pib.db')
        self.tpmdir = os.path.join(self.dir, 'tpm')
        self.fi = FaultInjector()
        self.files = {}       # file name -> abstract key name
        self.data_ids = {}    # certificate wire -> blob id
        self.notes = []       # oracle failures found while observing: (site, cls, what)
        LIVE.append(self)
        if copy_of is None:
            KeychainSqlite3.initialize(self.pib, 'tpm-file', self.tpmdir)
        else:
            shutil.copy(copy_of.pib, self.pib)
            shutil.copytree(copy_of.tpmdir, self.tpmdir)
            self.files = dict(copy_of.files)
            self.data_ids = copy_of.data_ids
        self.open()

    def open(self):
        from ndn.security.keychain.keychain_sqlite3 import KeychainSqlite3
        from ndn.security.tpm.tpm_file import TpmFile
        from ndn.encoding import Name
        self.tpm = TpmFile(self.tpmdir)
        self.kc = KeychainSqlite3(self.pib, self.tpm)
        self.kc.conn = ConnProxy(self.kc.conn, self.fi)
        tpm, fi, files = self.tpm, self.fi, self.files
        o_save, o_del, o_get = tpm.save_key, tpm.delete_key, tpm.get_signer

        def save_key(key_name, key_der):
            fi.tick()
            files[TpmFile._to_file_name(Name.encode(key_name))] = abs_name(key_name)
            return o_save(key_name, key_der)

        def delete_key(key_name):
            fi.tick()
            return o_del(key_name)

        def get_signer(key_name, key_locator_name=None):
            fi.tick()
            try:
                return o_get(key_name, key_locator_name)
            except Exception:
                fi.remaining = None
                raise
        tpm.save_key, tpm.delete_key, tpm.get_signer = save_key, delete_key, get_signer

    def reopen(self):
        self.kc.shutdown()
        self.open()

    def close(self):
        try:
            if self.kc.conn is not None:
                self.kc.shutdown()
        except Exception:
            pass
        shutil.rmtree(self.dir, ignore_errors=True)

    @property
    def in_txn(self):
        return bool(self.kc.conn.in_transaction)

    # -- operations ------------------------------------------------------------------------------
    def do(self, op, variant, fault):
        self.fi.arm(fault)
        try:
            r = [1, self._do(op, variant)]
        except Exception as e:   # noqa
            r = [0, exc_code(e), type(e).__name__ + ': ' + str(e)[:80]]
        self.fi.remaining = None
        return r

    def _ident(self, r):
        return [1, abs_name(r.name), int(bool(r.is_default))]

    def _key(self, k):
        return [2, abs_name(k.name), PUB_ID.get(bytes(k.key_bits), UNKNOWN), int(bool(k.is_default))]

    def _do(self, op, v):
        from ndn.security.signer.sha256_digest_signer import DigestSha256Signer
        kc = self.kc
        c = op[0]
        f1, f2, f3 = v % 4, (v // 4) % 4, (v // 16) % 4
        route = (v // 64) % 2
        if c == 1:
            return self._ident(kc.new_identity(formed(op[1], f1)))
        if c == 2:
            ENV.kids, ENV.key, ENV.version = list(op[2]), POOL[op[3]], op[4] - 100000
            return self._ident(kc.touch_identity(formed(op[1], f1)))
        if c == 3:
            _, idn, ktype, ks, m, ver = op
            ENV.key, ENV.version = POOL[m], ver - 100000
            kw = {}
            if ks[0] == 0:
                ENV.kids = list(ks[1:])
                if route and f2 == 0:
                    kw['key_id_type'] = 'random'
            else:
                ENV.kids = []
                kw['key_id'] = f'k{ks[1]}' if (3000 <= ks[1] < 4000 and f2 < 2) else comp_of(ks[1])
            tname = {0: 'ec', 1: 'rsa'}.get(ktype, 'dsa')
            if route and not kw:
                return self._key(kc[formed(idn, f1)].new_key(tname))
            return self._key(kc.new_key(formed(idn, f1), tname, **kw))
        if c == 4:
            kn, cn, d = op[1], op[2], op[3]
            wire = self.make_cert(kn, cn, d)
            kc.import_cert(formed(kn, f1), formed(cn, f2), wire if f3 else memoryview(wire))
            return [0]
        if c == 5:
            kc.set_default_identity(formed(op[1], f1))
            return [0]
        if c == 6:
            kc[formed(op[1], f1)].set_default_key(formed(op[2], f2))
            return [0]
        if c == 7:
            kc[formed(op[1], f1)][formed(op[2], f2)].set_default_cert(formed(op[3], f3))
            return [0]
        if c == 8:
            kc.del_cert(formed(op[1], f1))
            return [0]
        if c == 9:
            kc.del_key(formed(op[1], f1))
            return [0]
        if c == 10:
            kc.del_identity(formed(op[1], f1))
            return [0]
        if c == 11:
            kc[formed(op[1], f1)].del_key(formed(op[2], f2))
            return [0]
        if c == 12:
            kc[formed(op[1], f1)][formed(op[2], f2)].del_cert(formed(op[3], f3))
            return [0]
        if c == 13:
            sa = self.sign_args(op[1], v)
            s = kc.get_signer(sa)
            self.last_signer = s
            if s is None:
                return [3, [0]]
            if isinstance(s, DigestSha256Signer):
                return [3, [1]]
            return [3, [2, PRIV_ID.get(bytes(s.key_der), UNKNOWN), abs_name(s.key_locator_name)]]
        if c == 14:
            self.reopen()
            return [0]
        raise ValueError(op)

    def sign_args(self, a, v):
        """a = [nosig, digest, cert?, key?, ident?, locator?] (model encoding) -> the dict given to get_signer.
        Objects (Identity/Key/Certificate) are fetched right before the call; when they cannot be fetched the
        name is passed instead (the call then fails the same way)."""
        from ndn.encoding import Name
        kc = self.kc
        nosig, digest, cert, key, ident, loc = a
        f1, f2, obj = v % 4, (v // 4) % 4, (v // 16) % 3 == 0
        sa = {}
        if nosig:
            sa['no_signature'] = True
        if digest:
            sa['digest_sha256'] = True
        if ident:
            val = formed(ident[0], f1)
            if obj:
                try:
                    val = kc[val]
                except KeyError:
                    pass
            sa['identity'] = val
        if key:
            val = formed(key[0], f1)
            if obj:
                try:
                    val = kc[Name.normalize(val)[:-2]][val]
                except KeyError:
                    pass
            sa['key'] = val
        if cert:
            val = formed(cert[0], f1)
            if obj:
                try:
                    n = Name.normalize(val)
                    val = kc[n[:-4]][n[:-2]][n]
                except KeyError:
                    pass
            sa['cert'] = val
        if loc:
            sa['key_locator'] = formed(loc[0], f2)
        return sa

    def make_cert(self, kn, cn, d):
        """A real certificate named cn for key kn (issued by a fixed pool key); remembered as blob d."""
        from ndn.app_support.security_v2 import derive_cert
        from ndn.security.signer.sha256_ecdsa_signer import Sha256WithEcdsaSigner
        from ndn.encoding import Name
        from datetime import datetime, UTC
        for w, i in self.data_ids.items():
            if i == d:
                return w
        signer = Sha256WithEcdsaSigner('/issuer/KEY/1', bytes(POOL[N_EC].export_key(format='DER', use_pkcs8=False)))
        pub = None
        try:
            pub = bytes(self.kc[real_name(kn[:-2])][real_name(kn)].key_bits)
        except Exception:   # noqa
            pub = bytes(POOL[N_EC].public_key().export_key(format='DER'))
        ENV.version = (cn[-1] - 100000) if cn and cn[-1] >= 100000 else 7
        issuer = comp_of(cn[-2]) if len(cn) >= 2 and 100 <= cn[-2] < 1000 else comp_of(100)
        name, wire = derive_cert(real_name(cn[:-2]) if len(cn) >= 2 else real_name(kn), issuer, pub, signer,
                                 datetime.now(UTC), 3600)
        wire = bytes(wire)                               # ECDSA signatures are randomised: blobs are distinct
        self.data_ids[wire] = d
        return wire

    # -- observation through the public API (+ the view oracle) -----------------------------------------
    def data_id(self, cert_name, data, key_bits):
        data = bytes(data)
        if data in self.data_ids:
            return self.data_ids[data]
        # must be the self-signed certificate made by new_key
        from ndn.app_support.security_v2 import parse_certificate
        try:
            c = parse_certificate(data)
            if abs_name(c.name) == cert_name and bytes(c.content) == bytes(key_bits):
                ok = SELF_OK.get(data)
                if ok is None:
                    ok = SELF_OK[data] = verify_wire(data, bytes(key_bits))[0]
                if not ok:
                    self.note('KeychainSqlite3.new_key', 'self-signed-certificate-not-by-its-key',
                              f'the self-signed certificate {cert_name} carries the key bits of its key but its '
                              f'signature does not verify under them')
                return 0
        except Exception:   # noqa
            pass
        return UNKNOWN

    def note(self, site, cls, what):
        self.notes.append((site, cls, what))

    def view_checks(self, site, view, names, others, budget=24):
        """iteration / len / membership / lookup of one Mapping agree; names of other owners are not members."""
        from ndn.encoding import Name
        if len(view) != len(names):
            self.note(site + '.__len__', 'len-differs-from-iteration',
                      f'len() = {len(view)} but iteration yields {len(names)} names')
        if len(set(map(tuple, names))) != len(names):
            self.note(site + '.__iter__', 'duplicate-names', f'{names}')
        mine = set(map(tuple, names))
        cand = [n for n in others if tuple(n) not in mine]
        capped = len(cand) > budget
        if capped:          # large stores: probe the first / last ones and some spread over the rest, forms alternating
            q = max(1, budget // 4)
            cand = cand[:q] + cand[-q:] + [cand[(j * len(cand)) // (2 * q)] for j in range(2 * q)]
        for j, n in enumerate(cand):
            rn = real_name(n)
            if capped and ((Name.to_str(rn) in view) if j % 2 else (rn in view)) or not capped and (rn in view or Name.to_str(rn) in view):
                self.note(site + '.__getitem__', 'member-not-listed',
                          f'{n} is reported as a member (in / []) but iteration does not list it')

    def observe(self):
        kc = self.kc
        self.notes = []
        all_keys, all_certs = [], []
        rows = kc.conn.execute('SELECT key_name FROM keys').fetchall()
        all_keys = [abs_name(r[0]) for r in rows]
        rows = kc.conn.execute('SELECT certificate_name FROM certificates').fetchall()
        all_certs = [abs_name(r[0]) for r in rows]
        id_names = [abs_name(n) for n in kc]
        self.view_checks('KeychainSqlite3', kc, id_names, [])
        ids = []
        incomplete = False     # a listed item could not be fetched (reported): what is beneath it is not visited
        for ipos, n in enumerate(id_names):
            try:
                ident = kc[real_name(n)]
            except KeyError:
                self.note('KeychainSqlite3.__getitem__', 'listed-not-member', f'identity {n} listed but lookup fails')
                incomplete = True
                continue
            if abs_name(ident.name) != n:
                self.note('KeychainSqlite3.__getitem__', 'wrong-item', f'lookup of {n} gives {abs_name(ident.name)}')
            key_names = [abs_name(k) for k in ident]
            self.view_checks('Identity', ident, key_names, all_keys,
                             24 if len(id_names) <= 24 or (ipos + len(id_names)) % 16 == 0 else 2)
            keys = []
            for kpos, kn in enumerate(key_names):
                try:
                    k = ident[real_name(kn)]
                except KeyError:
                    self.note('Identity.__getitem__', 'listed-not-member', f'key {kn} listed but lookup fails')
                    incomplete = True
                    continue
                if abs_name(k.name) != kn or abs_name(k.identity) != n:
                    self.note('Identity.__getitem__', 'wrong-item', f'lookup of {kn} in {n} gives {abs_name(k.name)} of {abs_name(k.identity)}')
                cert_names = [abs_name(c) for c in k]
                # in a large store every key is probed with a few foreign certificate names, every 16th with more
                self.view_checks('Key', k, cert_names, all_certs,
                                 24 if len(all_keys) <= 24 or (kpos + len(all_keys)) % 16 == 0 else 2)
                certs = []
                for cn in cert_names:
                    try:
                        c = k[real_name(cn)]
                    except KeyError:
                        self.note('Key.__getitem__', 'listed-not-member', f'certificate {cn} listed but lookup fails')
                        incomplete = True
                        continue
                    if abs_name(c.name) != cn or abs_name(c.key) != kn:
                        self.note('Key.__getitem__', 'wrong-item', f'lookup of {cn} in {kn} gives {abs_name(c.name)} of {abs_name(c.key)}')
                    certs.append([cn, self.data_id(cn, c.data, k.key_bits), int(bool(c.is_default))])
                try:
                    dc = [abs_name(k.default_cert().name)]
                except KeyError:
                    dc = []
                if k.has_default_cert() != bool(dc):
                    self.note('Key.has_default_cert', 'disagrees-with-default_cert', f'{kn}')
                keys.append([kn, PUB_ID.get(bytes(k.key_bits), UNKNOWN), int(bool(k.is_default)), len(k), sorted(certs), dc])
            try:
                dk = [abs_name(ident.default_key().name)]
            except KeyError:
                dk = []
            if ident.has_default_key() != bool(dk):
                self.note('Identity.has_default_key', 'disagrees-with-default_key', f'{n}')
            ids.append([n, int(bool(ident.is_default)), len(ident), sorted(keys), dk])
        # rows of the PIB that no view lists (a key without its identity, a certificate without its key)
        seen_k = set(tuple(k[0]) for i in ids for k in i[3])
        seen_c = set(tuple(c[0]) for i in ids for k in i[3] for c in k[4])
        orphan_k = [n for n in all_keys if tuple(n) not in seen_k]
        orphan_c = [n for n in all_certs if tuple(n) not in seen_c]
        if orphan_k and not incomplete:
            self.note('PIB.keys', 'key-row-not-listed-by-any-identity',
                      f'{len(orphan_k)} row(s) of table keys belong to no listed identity: {orphan_k[:3]}')
        if orphan_c and not incomplete:
            self.note('PIB.certificates', 'certificate-row-not-listed-by-any-key',
                      f'{len(orphan_c)} row(s) of table certificates belong to no listed key: {orphan_c[:3]}')
        try:
            di = [abs_name(kc.default_identity().name)]
        except KeyError:
            di = []
        if kc.has_default_identity() != bool(di):
            self.note('KeychainSqlite3.has_default_identity', 'disagrees-with-default_identity', '')
        tpm = []
        for fn in sorted(os.listdir(self.tpmdir)):
            with open(os.path.join(self.tpmdir, fn), 'rb') as f:
                der = base64.b64decode(f.read())
            tpm.append([self.files.get(fn, [UNKNOWN]), PRIV_ID.get(der, UNKNOWN)])
        return [len(kc), sorted(ids), di, sorted(tpm)]


# ---- canonical forms --------------------------------------------------------------------------------
def canon_model_obs(o):
    """model observation (lists in row order) -> sorted like the implementation's"""
    ln, ids, d, tpm = o
    out = []
    for n, df, l, keys, dk in ids:
        ks = []
        for kn, bits, kd, kl, certs, dc in keys:
            ks.append([kn, bits, kd, kl, sorted([list(c) for c in certs]), list(dc)])
        out.append([n, df, l, sorted(ks), list(dk)])
    return [ln, sorted(out), list(d), sorted([list(t) for t in tpm])]


def to_spec(obs):
    """observation -> Spec.skc (sexp encoding): the nested maps with their defaults and the private keys"""
    ids = []
    for n, df, l, keys, dk in obs[1]:
        ks = []
        for kn, bits, kd, kl, certs, dc in keys:
            ks.append([kn, [bits, [[c[0], c[1]] for c in certs], dc]])
        ids.append([n, [ks, dk]])
    return [ids, obs[2], obs[3]]


def canon_spec(a):
    ids = []
    for n, (ks, dk) in a[0]:
        ids.append([n, [sorted([[kn, [b, sorted(cs), dc]] for kn, (b, cs, dc) in ks]), dk]])
    return [sorted(ids), a[1], sorted(a[2])]


def flags_vs_defaults(obs):
    """is_default flags of the items agree with default_*() and there is at most one per scope"""
    bad = []
    fl = [i[0] for i in obs[1] if i[1]]
    if fl != obs[2]:
        bad.append(('KeychainSqlite3.default_identity', f'flagged default identities {fl}, default_identity() {obs[2]}'))
    for n, df, l, keys, dk in obs[1]:
        fl = [k[0] for k in keys if k[2]]
        if fl != dk:
            bad.append(('Identity.default_key', f'identity {n}: flagged default keys {fl}, default_key() {dk}'))
        for kn, bits, kd, kl, certs, dc in keys:
            fl = [c[0] for c in certs if c[2]]
            if fl != dc:
                bad.append(('Key.default_cert', f'key {kn}: flagged default certs {fl}, default_cert() {dc}'))
    return bad


def scopes(obs):
    """scope id -> (members, default)"""
    out = {('kc',): ([i[0] for i in obs[1]], obs[2])}
    for n, df, l, keys, dk in obs[1]:
        out[('id', tuple(n))] = ([k[0] for k in keys], dk)
        for kn, bits, kd, kl, certs, dc in keys:
            out[('key', tuple(kn))] = ([c[0] for c in certs], dc)
    return out


OP_SITE = {1: 'KeychainSqlite3.new_identity', 2: 'KeychainSqlite3.touch_identity', 3: 'KeychainSqlite3.new_key',
           4: 'KeychainSqlite3.import_cert', 5: 'KeychainSqlite3.set_default_identity', 6: 'Identity.set_default_key',
           7: 'Key.set_default_cert', 8: 'KeychainSqlite3.del_cert', 9: 'KeychainSqlite3.del_key',
           10: 'KeychainSqlite3.del_identity', 11: 'Identity.del_key', 12: 'Key.del_cert',
           13: 'KeychainSqlite3.get_signer', 14: 'reopen'}


# ---- history generation ---------------------------------------------------------------------------------
ID_POOL = [[10], [11], [12], [10, 13], [11, 0, 2001]]
LOC_POOL = [[90], [91], [10, 92]]
# the name-reuse stratum draws every name from a tiny pool, so that a name that existed before is given out again
KID_POOL = [2000, 2001, 2002]          # key ids the "random" generator may hand out (8 octets)
XKID_POOL = [3000, 3001]               # explicit key ids (str / Component)
VER_POOL = [100001, 100002, 100003]    # certificate versions


class Gen:
    def __init__(self, rng, malformed, reuse=False, big=None):
        self.rng = rng
        self.malformed = malformed
        self.reuse = reuse
        self.script = []        # cardinality stratum: (operation, quiet) pairs that are played first
        self.quiet = False      # the operation handed out last is part of a batch (no observation after it)
        self.nofault = False    # ... closes a batch (observed, never failed: the batch is judged by this observation)
        self.big_n = 0
        self.next_m = 1
        self.next_rsa = 1001
        self.next_kid = 2010 if reuse else 2000
        self.next_xkid = 3010 if reuse else 3000
        self.next_ver = 100010 if reuse else 100001
        self.next_data = 1
        self.ever_keys = []
        self.ever_certs = []
        self.illnamed = False
        self.todo = []          # reuse stratum: operations scheduled to follow (signer requests after a re-creation ...)
        self.was_rsa = set()    # reuse stratum: key names that were RSA keys at some time
        if big is not None:
            self.big_script(*big)

    def material(self, rsa=False):
        if rsa and self.next_rsa <= 1000 + N_RSA:
            self.next_rsa += 1
            return self.next_rsa - 1
        if self.next_m >= N_EC:
            return None
        self.next_m += 1
        return self.next_m - 1

    def pick(self, existing, fallback, p=0.8):
        rng = self.rng
        if existing and rng.random() < p:
            return list(rng.choice(existing))
        return list(fallback())

    def op(self, obs):
        self.quiet = self.nofault = False
        if self.script:
            o, q = self.script.pop(0)
            self.quiet, self.nofault = q is True, q == 'obs'
            return o
        o = self._op(obs)
        # targeted pattern (seeded regression C15): the SAME get_signer arguments before and after a delete
        if o[0] == 13:
            self.last_signer = o[1]
        elif o[0] in (8, 9, 10, 11, 12) and getattr(self, 'last_signer', None) is not None:
            self.replay_signer = self.last_signer
        return o

    def _op(self, obs):
        rng = self.rng
        if self.todo:
            o = self.todo.pop(0)
            if rng.random() < 0.85:
                return o
        if getattr(self, 'replay_signer', None) is not None:
            a, self.replay_signer = self.replay_signer, None
            if rng.random() < 0.7:
                return [13, a]
        ids = [i[0] for i in obs[1]]
        keys = [k[0] for i in obs[1] for k in i[3]]
        certs = [c[0] for i in obs[1] for k in i[3] for c in k[4]]
        tpm = [t[0] for t in obs[3]]
        if self.reuse:
            o = self._reuse_op(obs, ids, keys, certs, tpm)
            if o is not None:
                return o

        def any_id():
            return rng.choice(ID_POOL)

        def pid(p=0.8):
            return self.pick(ids, any_id, p)

        def any_key():
            if self.ever_keys and rng.random() < 0.6:
                return rng.choice(self.ever_keys)
            return pid() + [0, 2000 + rng.randrange(3)]

        def pkey(p=0.8):
            return self.pick(keys, any_key, p)

        def any_cert():
            if self.ever_certs and rng.random() < 0.6:
                return rng.choice(self.ever_certs)
            return pkey() + [1, 100000 + rng.randrange(1, 4)]

        def pcert(p=0.8):
            return self.pick(certs, any_cert, p)

        def version():
            return self.version()

        def cands(idn):
            return self.cands(idn, keys, tpm)

        w = rng.random() * 100
        if not ids and w > 30:
            w = rng.random() * 16
        if w < 10:
            m = self.material()
            if m:
                n = pid(0.3)
                return [2, n, cands(n), m, version()]
        if w < 16:
            return [1, pid(0.25)]
        if w < 30:
            idn = pid(0.92)
            t = rng.random()
            ktype = 0 if t < 0.85 else (1 if t < 0.93 else 2)
            m = self.material(rsa=(ktype == 1))
            if m:
                if m < 1000 and ktype == 1:
                    ktype = 0
                if rng.random() < 0.75:
                    ks = [0] + cands(idn)
                else:
                    mine = [k[-1] for k in (keys + tpm) if k[:-2] == idn]
                    if mine and rng.random() < 0.4:
                        ks = [1, rng.choice(mine)]
                    elif self.reuse and rng.random() < 0.8:
                        ks = [1, rng.choice(XKID_POOL + KID_POOL)]
                    else:
                        self.next_xkid += 1
                        ks = [1, self.next_xkid - 1]
                return [3, idn, ktype, ks, m, version()]
        if w < 40:
            kn = pkey(0.9)
            if certs and rng.random() < 0.12:
                cn = list(rng.choice(certs))
                if cn[:-2] != kn:
                    kn = cn[:-2]
            else:
                cn = kn + [100 + rng.randrange(3), version()]
            if self.malformed and rng.random() < 0.25:
                cn = rng.choice([pkey() + [100, version()], [12, 100 + rng.randrange(2), version()], kn + [version()]])
                if cn[:-2] != kn:
                    self.illnamed = True
            self.next_data += 1
            return [4, kn, cn, self.next_data - 1]
        if w < 45:
            return [5, pid(0.85)]
        if w < 51:
            return [6, pid(0.9), pkey(0.85)]
        if w < 57:
            kn = pkey(0.9)
            own = [c for c in certs if c[:-2] == kn]
            cn = list(rng.choice(own)) if own and rng.random() < 0.7 else pcert()
            idn = kn[:-2] if rng.random() < 0.9 else pid()
            return [7, idn, kn, cn]
        if w < 63:
            return [8, pcert(0.85)]
        if w < 69:
            return [9, pkey(0.85)]
        if w < 73:
            return [10, pid(0.9)]
        if w < 75:
            return [11, pid(0.9), pkey(0.85)]
        if w < 78:
            kn = pkey(0.9)
            own = [c for c in certs if c[:-2] == kn]
            cn = list(rng.choice(own)) if own and rng.random() < 0.7 else pcert()
            return [12, kn[:-2] if rng.random() < 0.9 else pid(), kn, cn]
        if w < 96:
            a = [0, 0, [], [], [], []]
            s = rng.random()
            if s < 0.03:
                a[0] = 1
            elif s < 0.06:
                a[1] = 1
            elif s < 0.2:
                pass
            elif s < 0.45:
                a[4] = [pid(0.85)]
            elif s < 0.7:
                a[3] = [pkey(0.85)]
            elif s < 0.95:
                a[2] = [pcert(0.8)]
            else:
                a[2], a[3], a[4] = [pcert()], [pkey()], [pid()]
                if rng.random() < 0.5:
                    a[2] = []
            if rng.random() < (0.5 if a[2] else 0.3):
                a[5] = [list(rng.choice(LOC_POOL + certs[:2]))]
            return [13, a]
        return [14]

    # -- helpers shared by the plain and the name-reuse stratum ------------------------------------------
    def version(self):
        rng = self.rng
        if self.reuse and rng.random() < 0.6:
            return rng.choice(VER_POOL)
        old = [c[-1] for c in self.ever_certs if c[-1] >= 100000]
        if old and rng.random() < 0.1:
            return rng.choice(old)
        self.next_ver += 1
        return self.next_ver - 1

    def cands(self, idn, keys, tpm, want=None):
        """candidate key ids for the random generator; the last one is free (no key, no key file of that name).
        [want]: a free id that is to be handed out."""
        rng = self.rng
        out = []
        mine = [k[-1] for k in (keys + tpm) if k[:-2] == idn and 2000 <= k[-1] < 3000]
        if mine and rng.random() < 0.3:
            out.append(rng.choice(mine))
            if rng.random() < 0.3:
                out.append(rng.choice(mine))
        if want is not None:
            return out + [want]
        if self.reuse and rng.random() < 0.75:
            free = [k for k in KID_POOL if k not in mine]
            if free:
                return out + [rng.choice(free)]
        self.next_kid += 1
        return out + [self.next_kid - 1]

    # -- the name-reuse stratum: delete, then create again under the name that existed before -----------------
    def signer_burst(self, kn, ver):
        """signer requests that select key [kn] in every form (key name, certificate name, identity, default; the
        variant of the step turns names into Key / Identity / Certificate objects), some after a close + reopen"""
        rng = self.rng
        idn = kn[:-2]
        forms = [[0, 0, [], [kn], [], []],
                 [0, 0, [kn + [1, ver]], [], [], []],
                 [0, 0, [], [kn], [], []],
                 [0, 0, [kn + [1, ver]], [], [], [rng.choice(LOC_POOL)]]]
        rng.shuffle(forms)
        out = [[13, a] for a in forms[:rng.randint(1, 3)]]
        if rng.random() < 0.5:
            out.append([6, idn, kn])
            out.append([13, [0, 0, [], [], [idn], []]])
            if rng.random() < 0.5:
                out.append([5, idn])
                out.append([13, [0, 0, [], [], [], []]])
        if rng.random() < 0.3:
            out.insert(rng.randrange(len(out) + 1), [14])
        return out

    def _reuse_op(self, obs, ids, keys, certs, tpm):
        rng = self.rng
        for i in obs[1]:
            for k in i[3]:
                if k[1] >= 1000:
                    self.was_rsa.add(tuple(k[0]))
        r = rng.random()
        dead = [k for k in self.ever_keys if k not in keys and k not in tpm]
        if dead and r < 0.30:
            # create a key again under a name that was deleted before (same or other key type, new key pair)
            kn = list(rng.choice(dead))
            idn, kid = kn[:-2], kn[-1]
            old_ver = [c[-1] for c in self.ever_certs if c[:-2] == kn and c[-2] == 1]
            ver = rng.choice(old_ver) if old_ver and rng.random() < 0.6 else self.version()
            rnd = 2000 <= kid < 3000 and rng.random() < 0.5
            if idn not in ids and rnd and rng.random() < 0.7:
                m = self.material()
                if not m:
                    return None
                self.todo = self.signer_burst(kn, ver)
                return [2, idn, self.cands(idn, keys, tpm, want=kid), m, ver]
            m = self.material(rsa=rng.random() < (0.6 if tuple(kn) in self.was_rsa else 0.25))
            if not m:
                return None
            ktype = 1 if m >= 1000 else 0
            if idn not in ids:
                self.todo = [[3, idn, ktype, [1, kid], m, ver]] + self.signer_burst(kn, ver)
                return [1, idn]
            self.todo = self.signer_burst(kn, ver)
            ks = [0] + self.cands(idn, keys, tpm, want=kid) if rnd else [1, kid]
            return [3, idn, ktype, ks, m, ver]
        if keys and r < 0.44:
            # delete a key (directly, through its identity, or with its identity); sometimes ask for its signer or
            # close + reopen before anything else happens
            kn = list(rng.choice(keys))
            t = rng.random()
            o = [9, kn] if t < 0.55 else ([11, kn[:-2], kn] if t < 0.75 else [10, kn[:-2]])
            self.todo = []
            if rng.random() < 0.3:
                self.todo.append([13, [0, 0, [], [kn], [], []]])
            if rng.random() < 0.25:
                self.todo.append([14])
            return o
        if ids and r < 0.52:
            # a key under a pooled explicit id, RSA more often than in the plain stratum
            idn = list(rng.choice(ids))
            m = self.material(rsa=rng.random() < 0.5)
            if m:
                kid = rng.choice(XKID_POOL + KID_POOL)
                ver = self.version()
                if idn + [0, kid] not in keys:
                    self.todo = self.signer_burst(idn + [0, kid], ver)[:2]
                return [3, idn, 1 if m >= 1000 else 0, [1, kid], m, ver]
        return None


    # -- the cardinality stratum: many keys / certificates / identities, then cascades ---------------------------
    def big_script(self, shape, n):
        """A scripted prefix: build [n] keys under one identity / [n] certificates under one key / [n] identities
        (batches of quiet steps: executed, not observed one by one), look at the store at that size (views,
        defaults, signers at boundary positions, close + reopen), delete parts of it and then the whole, and ask
        for signers of what was deleted.  Materials are taken round-robin from the pool (the model only needs the
        number of the key pair; two keys may share one)."""
        rng = self.rng
        self.big_n = n
        self.next_kid, self.next_xkid = 2200, 3200      # the script uses 2000+j / 3000+j (j < n) and 2900..2902
        sc = []

        def mat(j):
            return 1 + (j % (N_EC - 1))

        def batch(ops, observe_some=True):
            """all quiet but the last one (and, sometimes, one in the middle)"""
            mid = rng.randrange(len(ops)) if ops and observe_some and rng.random() < 0.3 else -1
            for j, o in enumerate(ops):
                sc.append((o, 'obs' if (j == len(ops) - 1 or j == mid) else True))

        def positions(cnt, k):
            """up to k positions of 0..cnt-1, boundary ones first (first, last, around 32 / 64 / 128)"""
            cand = [p for p in (0, cnt - 1, 63, 64, 65, 31, 32, 127, 128, 1, cnt - 2) if 0 <= p < cnt]
            cand = list(dict.fromkeys(cand))
            rng.shuffle(cand)
            return cand[:k]

        def subset(cnt):
            """positions of a bulk delete"""
            t = rng.random()
            if t < 0.25:
                return list(range(min(cnt, rng.choice([32, 64, 65]))))
            if t < 0.45:
                return list(range(0, cnt, 2))
            if t < 0.65:
                return list(range(max(0, cnt - rng.choice([1, 2, 33, 64, 65])), cnt))
            if t < 0.85:
                a = rng.randrange(cnt)
                return list(range(a, min(cnt, a + rng.choice([2, 32, 64]))))
            return [p for p in range(cnt) if rng.random() < 0.5]

        ida, idb = [list(x) for x in rng.sample(ID_POOL[:4], 2)]
        if shape == 'ids':
            names = [[40 + j // 60, 10 + j % 60] for j in range(n)]
            with_key = set(positions(n, 4)) | set(j for j in range(n) if rng.random() < 0.05)
            keyof = {}
            ops = []
            for j, nm in enumerate(names):
                if j in with_key:
                    keyof[j] = (nm + [0, 2000 + j], 100001 + j % 4)
                    ops.append([2, nm, [2000 + j], mat(j), keyof[j][1]])
                else:
                    ops.append([1, nm])
            batch(ops)
            if rng.random() < 0.4:
                sc.append(([14], False))
            for p in positions(n, 2):
                sc.append(([5, names[p]], False))
                sc.append(([13, [0, 0, [], [], [], []]], False))
            for p in list(keyof)[:3]:
                sc.append(([13, [0, 0, [], [], [names[p]], []]], False))
            dead = subset(n)
            batch([[10, names[p]] for p in dead])
            for p in [q for q in keyof if q in dead][:3]:
                kn, ver = keyof[p]
                sc.append(([13, [0, 0, rng.choice([[kn + [1, ver]], []]), [kn], [], []]], False))
                sc.append(([13, [0, 0, [kn + [1, ver]], [], [], []]], False))
            if rng.random() < 0.5:
                sc.append(([14], False))
            rest = [p for p in range(n) if p not in set(dead)]
            if rest and rng.random() < 0.6:
                batch([[10, names[p]] for p in rest])
            for p in list(keyof)[:2]:
                sc.append(([13, [0, 0, [keyof[p][0] + [1, keyof[p][1]]], [], [], []]], False))
            self.script = sc
            return

        # one identity (ida) with many keys, or one key of it with many certificates; a small neighbour (idb)
        keys = []                                   # (key name, version of the self-signed certificate)
        nk = n if shape == 'keys' else rng.choice([1, 2, 3])
        where_b = rng.choice([None, 0, nk // 2, nk])        # the neighbour's key: before / amid / after ours
        ops = []
        for j in range(nk):
            if where_b == j:
                ops.append([2, idb, [2900 + rng.randrange(3)], mat(j + 7), 100001])
            ver = 100001 + j % 5
            explicit = rng.random() < 0.3
            kid = 3000 + j if explicit else 2000 + j
            keys.append((ida + [0, kid], ver))
            if j == 0 and rng.random() < 0.5:
                ops.append([2, ida, [kid], mat(j), ver])
                keys[-1] = (ida + [0, kid], ver)
                if explicit:
                    keys[-1] = (ida + [0, 2000 + j], ver)
                    ops[-1] = [2, ida, [2000 + j], mat(j), ver]
                continue
            if j == 0:
                ops.append([1, ida])
            ops.append([3, ida, 0, [1, kid] if explicit else [0, kid], mat(j), ver])
        if where_b == nk:
            ops.append([2, idb, [2900 + rng.randrange(3)], mat(nk + 7), 100001])
        batch(ops)
        certs = []
        if shape == 'certs':
            kn, ver = keys[rng.randrange(nk)]
            certs = [kn + [1, ver]]
            ops = []
            for j in range(n - 1):
                cn = kn + [100 + j % 3, 100010 + j]
                certs.append(cn)
                ops.append([4, kn, cn, self.next_data])
                self.next_data += 1
            if ops:
                batch(ops)
        else:
            for p in positions(nk, rng.choice([0, 1, 3])):          # a few keys get more certificates
                for r in range(rng.choice([1, 2])):
                    sc.append(([4, keys[p][0], keys[p][0] + [100 + r, 100010 + p], self.next_data], False))
                    self.next_data += 1

        def signers(ps, extra=False):
            for p in ps:
                k, ver = keys[p]
                t = rng.random()
                if t < 0.4:
                    a = [0, 0, [], [k], [], []]
                elif t < 0.8:
                    a = [0, 0, [k + [1, ver]], [], [], rng.choice([[], [rng.choice(LOC_POOL)]])]
                else:
                    a = [0, 0, [k + [1, ver]], [k], [], []]
                sc.append(([13, a], False))
            if extra:
                sc.append(([13, [0, 0, [], [], [ida], []]], False))

        if rng.random() < 0.4:
            sc.append(([14], False))
        if shape == 'certs':
            for p in positions(len(certs), 2):
                sc.append(([7, ida, kn, certs[p]], False))
                sc.append(([13, [0, 0, [], [kn], [], []]], False))
            for p in positions(len(certs), 2):
                sc.append(([13, [0, 0, [certs[p]], [], [], []]], False))
            t = rng.random()
            if t < 0.4:
                for p in positions(len(certs), rng.choice([1, 2, 3])):
                    sc.append(([8, certs[p]] if rng.random() < 0.6 else [12, ida, kn, certs[p]], False))
                    certs[p] = None
            elif t < 0.7:
                dead = subset(len(certs))
                batch([[8, certs[p]] if rng.random() < 0.7 else [12, ida, kn, certs[p]] for p in dead])
                for p in dead:
                    certs[p] = None
            sc.append(([13, [0, 0, [], [kn], [], []]], False))
            if rng.random() < 0.3:
                sc.append(([14], False))
            sc.append((rng.choice([[9, kn], [11, ida, kn], [10, ida]]), False))
            sc.append(([13, [0, 0, [], [kn], [], []]], False))
            for cn in [c for c in certs if c][:2] + certs[:1]:
                if cn:
                    sc.append(([13, [0, 0, [cn], [], [], []]], False))
            if rng.random() < 0.5:
                sc.append(([14], False))
            self.script = sc
            return
        # shape 'keys'
        for p in positions(nk, 2):
            if rng.random() < 0.6:
                sc.append(([6, ida, keys[p][0]], False))
        signers(positions(nk, 2), extra=True)
        alive = list(range(nk))
        t = rng.random()                # most often the whole owner is deleted at its full size
        if t < 0.15:
            for p in positions(nk, rng.choice([1, 2, 3])):
                sc.append(([9, keys[p][0]] if rng.random() < 0.5 else [11, ida, keys[p][0]], False))
                alive.remove(p)
        elif t < 0.3:
            dead = subset(nk)
            batch([[9, keys[p][0]] if rng.random() < 0.5 else [11, ida, keys[p][0]] for p in dead])
            alive = [p for p in alive if p not in set(dead)]
            signers([p for p in positions(nk, 4) if p in dead][:2])
        if rng.random() < 0.3:
            sc.append(([14], False))
        if rng.random() < 0.9 or not alive:
            sc.append(([10, ida], False))
        else:
            batch([[11, ida, keys[p][0]] if rng.random() < 0.5 else [9, keys[p][0]] for p in alive], observe_some=False)
        signers(positions(nk, 5), extra=True)
        if rng.random() < 0.5:
            sc.append(([14], False))
            signers(positions(nk, 2))
        if rng.random() < 0.5:          # the identity again, with a key under a name that existed
            k, ver = keys[rng.choice(positions(nk, 3))]
            if 2000 <= k[-1] < 3000:
                sc.append(([2, ida, [k[-1]], mat(rng.randrange(60)), ver], False))
                sc.append(([13, [0, 0, [], [k], [], []]], False))
        self.script = sc

    def fault(self, op):
        rng = self.rng
        if self.quiet or self.nofault:      # inside a batch / the observed step that closes a batch
            return None
        if self.big_n and op[0] in (9, 10, 11):
            # a cascade over many rows: a failure anywhere in it, also late
            if rng.random() < 0.3:
                return rng.choice([rng.randrange(0, 4), rng.randrange(0, 4 * self.big_n + 6), rng.randrange(0, 4 * self.big_n + 6)])
            return None
        if op[0] == 14 or rng.random() > 0.27:
            return None
        if op[0] == 10:
            return rng.randrange(0, 14)
        return rng.randrange(0, 8)

    def remember(self, obs):
        for i in obs[1]:
            for k in i[3]:
                if k[0] not in self.ever_keys:
                    self.ever_keys.append(k[0])
                for c in k[4]:
                    if c[0] not in self.ever_certs:
                        self.ever_certs.append(c[0])


# ---- verification of a signature made by a signer ----------------------------------------------------------
def verify_with(signer, pub_der):
    from ndn.encoding import make_data, MetaInfo
    return verify_wire(make_data('/c15/probe', MetaInfo(), b'payload', signer=signer), pub_der)


def verify_wire(wire, pub_der):
    """(the signature of the Data packet verifies under the public key, abstract key locator name)"""
    from Cryptodome.PublicKey import ECC, RSA
    from Cryptodome.Hash import SHA256
    from Cryptodome.Signature import DSS, pkcs1_15
    from ndn.encoding import parse_data
    _, _, _, sig = parse_data(wire)
    h = SHA256.new()
    for blk in sig.signature_covered_part:
        h.update(blk)
    loc = abs_name(sig.signature_info.key_locator.name)
    val = bytes(sig.signature_value_buf)
    try:
        k = ECC.import_key(pub_der)
        ver = DSS.new(k, 'fips-186-3', 'der')
    except ValueError:
        k = RSA.import_key(pub_der)
        ver = pkcs1_15.new(k)
    try:
        ver.verify(h, val)
        return True, loc
    except (ValueError, TypeError):
        return False, loc


# ---- one history ---------------------------------------------------------------------------------------------
def find_key(obs, kn):
    for i in obs[1]:
        for k in i[3]:
            if k[0] == kn:
                return i, k
    return None


def run_history(ctx, seed, length, malformed, fixed=None, reuse=False, big=None):
    """Generate (or replay [fixed]) one history on the implementation, check the oracles, then compare with
    the model.  Returns the history as a replayable list."""
    import random
    rng = random.Random(seed)
    M = ctx.call
    gen = Gen(rng, malformed, reuse, big if fixed is None else None)
    if big is not None and fixed is None:
        length = len(gen.script) + rng.randint(0, 4)
    impl = Impl()
    hist, trace, record = [], [], []
    batch = []      # quiet steps since the last observation: (op, result); their oracle is evaluated at the next observation
    lost = set()
    recreated, since_open, ever_ids = set(), set(), []   # counters of the name-reuse stratum (evidence only)
    flagsum = {'key': False, 'del': False, 'sign': False, 'fault': False}
    spec_ok = True          # the spec oracles apply (no ill-named certificate imported so far)

    def case():
        return {'seed': seed, 'malformed': malformed, 'reuse': reuse, 'big': list(big) if big else None, 'history': record}

    def viol(site, cls, what):
        ctx.violation(site, cls, what, case())

    def after_step(prev, op, fault, res, obs, faulted):
        """oracles for one executed operation (prev/obs: implementation observations before/after)"""
        site = OP_SITE[op[0]]
        for s, c, w in impl.notes:
            viol(s, c, w)
        for s, w in flags_vs_defaults(obs):
            viol(s, 'default-flags-inconsistent', w)
        # defaults: a populated scope without default must have lost its default by a delete
        before, after = scopes(prev), scopes(obs)
        for sc, (members, d) in after.items():
            if sc in before:
                bm, bd = before[sc]
                if bd and bd[0] not in members:
                    lost.add(sc)
            if d:
                lost.discard(sc)
            if members and not d and sc not in lost:
                viol(site, 'populated-scope-without-default',
                     f'scope {sc} has members {members} but no default, and its default was never deleted')
        for sc in list(lost):
            if sc not in after:
                lost.discard(sc)
        if not spec_ok:
            return
        if M([4, to_spec(obs)]) != 1:
            viol(site, 'default-not-a-member', f'a default names an item that is not in its scope: {to_spec(obs)}')
        # private keys without a key record (also right after an injected failure)
        listed = [k[0] for i in obs[1] for k in i[3]]
        for kn, m in obs[3]:
            if kn not in listed:
                viol(site, 'private-key-without-key', f'private key file of {kn} exists but the key is not in the keychain')
        if faulted:
            return
        # the operations of the batch since the last observation, one by one through the specification
        st = to_spec(prev)
        for bop, bres in batch:
            e = M([2, st, bop])
            if bres[0] == 1 and not e:
                viol(OP_SITE[bop[0]], 'accepted-but-spec-refuses', f'{bop} succeeded; the specification refuses it in this state')
            elif bres[0] == 0 and e:
                viol(OP_SITE[bop[0]], 'refused-but-spec-accepts', f'{bop} raised {bres[2]}; the specification accepts it')
            if e:
                st = e[0]
        del batch[:]
        exp = M([2, st, op])
        if op[0] == 13:
            want = M([3, st, op[1]])
            if res[0] == 1:
                got = res[1][1]
                if not want:
                    viol(site, 'signer-for-unresolvable-args', f'args {op[1]}: a signer {got} is returned but the spec finds no key/certificate/private key')
                elif want[0] != got:
                    viol(site, 'wrong-signer', f'args {op[1]}: signer (material, locator) {got}, spec demands {want[0]}')
                if got[0] == 2:
                    check_signature(prev, op[1], got, site)
            elif res[1] != E_FAULT and want:
                viol(site, 'no-signer', f'args {op[1]}: raises {res[2]} but the spec selects {want[0]}')
        if op[0] == 13:
            pass
        elif res[0] == 1 and not exp:
            viol(site, 'accepted-but-spec-refuses', f'{op} succeeded; the specification refuses it in this state')
        elif res[0] == 0 and exp:
            viol(site, 'refused-but-spec-accepts', f'{op} raised {res[2]}; the specification accepts it')
        want_state = canon_spec(exp[0]) if exp else canon_spec(st)
        if canon_spec(to_spec(obs)) != want_state:
            viol(site, 'state-differs-from-spec',
                 f'{op} (result {res[:2]}): state {canon_spec(to_spec(obs))}, specification {want_state}')

    def check_signature(prev, a, got, site):
        sel = M([5, to_spec(prev), a])
        if not sel:
            return
        kn = sel[0][0]
        if tuple(kn) in recreated:
            ctx.stat('reuse:signer-for-re-created-key')
        fk = find_key(prev, kn)
        if fk is None:
            viol(site, 'signer-for-key-not-in-keychain', f'args {a}: signer for key {kn} which is not (no longer) in the keychain')
            return
        pub = [d for d, m in PUB_ID.items() if m == fk[1][1]]
        if not pub:
            return
        ok, loc = verify_with(impl.last_signer, pub[0])
        if not ok:
            viol(site, 'signature-not-by-selected-key', f'args {a}: signature does not verify under the stored key bits of {kn}')
        if loc != got[2]:
            viol(site, 'locator-mismatch', f'args {a}: packet names {loc}, signer says {got[2]}')

    try:
        prev = impl.observe()
        queue = list(fixed) if fixed is not None else None
        pending = None      # (op, variant, fault, clone): the previous operation failed by injection -> repeat it
        i = 0
        while True:
            if queue is not None:
                if not queue:
                    break
                item = queue.pop(0)
                fault, op, variant = item[:3]
                fault = fault[0] if fault else None
                quiet = len(item) > 3 and bool(item[3])
            elif pending is not None:
                op, variant, fault, quiet = pending[0], pending[1], None, False
            else:
                if i >= length:
                    break
                op = gen.op(prev)
                fault = gen.fault(op)
                quiet = gen.quiet and fault is None and op[0] in (1, 2, 3, 4, 8, 9, 10, 11, 12)
                variant = rng.randrange(0, 128)
                i += 1
            if op[0] == 4 and op[2][:-2] != op[1]:
                spec_ok = False
            clone = None
            if fault is not None and not impl.in_txn and spec_ok:
                clone = Impl(copy_of=impl)
            res = impl.do(op, variant, fault)
            if quiet and fault is None and pending is None:
                # part of a batch: executed, compared with the model by its result, observed with the next operation
                hist.append([[], op])
                record.append([[], op, variant, 1])
                trace.append((res, None, impl.in_txn))
                batch.append((op, res))
                flagsum['key'] |= op[0] in (2, 3) and res[0] == 1
                flagsum['del'] |= op[0] in (8, 9, 10, 11, 12) and res[0] == 1
                ctx.stat(f'op:{OP_SITE[op[0]].split(".")[-1]}:{"ok" if res[0] == 1 else "err"}')
                ctx.stat('big:quiet-step')
                continue
            assert not (batch and op[0] == 13), 'harness: signer request inside a batch'
            obs = impl.observe()
            faulted = res[0] == 0 and res[1] == E_FAULT
            hist.append([[fault] if fault is not None else [], op])
            record.append([[fault] if fault is not None else [], op, variant])
            trace.append((res, obs, impl.in_txn))
            after_step(prev, op, fault, res, obs, faulted)
            if op[0] in (1, 2, 3, 4) and res[0] == 1:
                was = [k[0] for i in prev[1] for k in i[3]]
                for i_ in obs[1]:
                    if i_[0] not in [j[0] for j in prev[1]] and i_[0] in ever_ids:
                        ctx.stat('reuse:identity-name-re-created')
                    for k in i_[3]:
                        if k[0] not in was and k[0] in gen.ever_keys:
                            recreated.add(tuple(k[0]))
                            ctx.stat('reuse:key-name-re-created' + (':rsa' if k[1] >= 1000 else ':ec')
                                     + (':same-open' if tuple(k[0]) in since_open else ':reopened-in-between'))
                        for c in k[4]:
                            if c[0] in gen.ever_certs and not any(c[0] == c2[0] for i2 in prev[1] for k2 in i2[3] for c2 in k2[4]):
                                ctx.stat('reuse:certificate-name-re-created')
            if op[0] == 14:
                since_open.clear()
            since_open.update(tuple(k[0]) for i_ in obs[1] for k in i_[3])
            ever_ids.extend(i_[0] for i_ in obs[1] if i_[0] not in ever_ids)
            flagsum['key'] |= op[0] in (2, 3) and res[0] == 1
            flagsum['del'] |= op[0] in (8, 9, 10, 11, 12) and res[0] == 1
            flagsum['sign'] |= op[0] == 13 and res[0] == 1
            flagsum['fault'] |= faulted
            ctx.stat(f'op:{OP_SITE[op[0]].split(".")[-1]}:{"ok" if res[0] == 1 else ("fault" if faulted else "err")}')
            if pending is not None:
                # this was the repeat of a failed operation: compare with a clean run on the copy taken before it
                pop, pvar, pfault, pclone = pending
                pending = None
                if pclone is not None:
                    try:
                        if pop == op and fault is None:
                            resc = pclone.do(op, variant, None)
                            obsc = pclone.observe()
                            if res[:2] != resc[:2] or obs != obsc:
                                viol(OP_SITE[op[0]], 'repeat-after-failure-differs-from-clean-run',
                                     f'{op} failed at effect {pfault}; repeating it gives {res[:2]} / {canon_spec(to_spec(obs))}, '
                                     f'a clean run gives {resc[:2]} / {canon_spec(to_spec(obsc))}')
                            ctx.stat('recovery-checked')
                    finally:
                        pclone.close()
            if faulted:
                pending = (op, variant, fault, clone)
            elif clone is not None:
                clone.close()
            prev = obs
            gen.remember(prev)
        if pending is not None and pending[3] is not None:
            pending[3].close()
        # ---- correspondence with the model ----
        mt = M([1, hist])
        if not isinstance(mt, list) or len(mt) != len(trace):
            ctx.disagree('history', 'model answer malformed', case(), mt, None)
        else:
            for j, (mstep, (res, obs, in_txn)) in enumerate(zip(mt, trace)):
                mres, mobs, mclean = mstep
                site = OP_SITE[hist[j][1][0]]
                what = None
                if mres[0] != res[0]:
                    what = 'one side raises, the other returns'
                elif res[0] == 0 and mres[1] != res[1]:
                    what = 'different exception class'
                elif res[0] == 1 and mres[1] != res[1]:
                    what = 'different result'
                elif obs is not None and canon_model_obs(mobs) != obs:
                    what = 'different observable state'
                elif not mclean and not in_txn:
                    what = 'model has an open transaction, implementation has none'
                if what:
                    ctx.disagree(site, f'{what} at step {j}', {'seed': seed, 'malformed': malformed, 'history': record[:j + 1]},
                                 [mres, canon_model_obs(mobs) if obs is not None else None], [res, obs])
                    break
                if in_txn:
                    ctx.stat('open-transaction-after-op')
    finally:
        while LIVE:
            LIVE.pop().close()
        SELF_OK.clear()
    nontrivial = flagsum['key'] and (flagsum['del'] or flagsum['sign'] or flagsum['fault'])
    ctx.case(('h', seed, malformed, repr(hist)), nontrivial,
             {'history': record[:6], 'len': len(record)}, 'malformed' if malformed else ('reuse' if reuse else ('big' if big else 'valid')))
    return record


BIG_SIZES = [1, 2, 31, 32, 33, 63, 64, 65, 66, 100, 127, 128, 129, 130]


def big_plan(rng, thorough):
    """(shape, n) of the histories of the cardinality stratum.  Quick: one identity each with 63/64, 65/66, 100..130,
    <= 33 and 65..130 keys, two keys with many certificates (63..66 / another size), two keychains with many identities
    (63..66 / another size); thorough: every size in every shape, four times."""
    if thorough:
        plan = [(sh, n) for sh in ('keys', 'certs', 'ids') for n in BIG_SIZES] * 4
        rng.shuffle(plan)
        return plan
    plan = [('keys', rng.choice([63, 64])), ('keys', rng.choice([65, 66])), ('keys', rng.choice([100, 127, 128, 129, 130])),
            ('keys', rng.choice([1, 2, 31, 32, 33])), ('keys', rng.choice([65, 66, 100, 127, 128, 129, 130])),
            ('certs', rng.choice([63, 64, 65, 66])), ('certs', rng.choice([2, 31, 32, 33, 100, 127, 128, 129, 130])),
            ('ids', rng.choice([63, 64, 65, 66])), ('ids', rng.choice([31, 32, 33, 100, 127, 128, 129, 130]))]
    return plan


def run(ctx):
    setup_pool_and_patches()
    try:
        rng = ctx.rng
        n_hist = ctx.n(260, 3000)
        max_len = ctx.n(25, 60)
        for h in range(n_hist):
            seed = rng.getrandbits(48)
            malformed = (h % 5 == 4)
            length = rng.randint(4, max_len)
            run_history(ctx, seed, length, malformed)
        # the name-reuse stratum (drawn after the plain histories, which it leaves as they were)
        for h in range(ctx.n(60, 600)):
            seed = rng.getrandbits(48)
            length = rng.randint(8, max_len)
            run_history(ctx, seed, length, False, reuse=True)
        # the cardinality stratum (drawn after the others, which it leaves as they were)
        for shape, n in big_plan(rng, ctx.n(0, 1)):
            run_history(ctx, rng.getrandbits(48), 0, False, big=(shape, n))
            ctx.stat(f'big:{shape}:{n}')
    finally:
        undo_patches()


def replay(ctx, data):
    """./check C15 --replay file: re-run the recorded history (same operations, faults and name forms)."""
    from harness.lib.core import unjson
    case = unjson(data.get('case') or data['broken'][0]['case'])
    setup_pool_and_patches()
    try:
        big = case.get('big')
        run_history(ctx, case['seed'], 0, case['malformed'], fixed=case['history'], reuse=case.get('reuse', False),
                    big=tuple(big) if big else None)
    finally:
        undo_patches()
