"""Caller-owned name buffers for the Interest pipeline (C03; used through harness/props/_pipeline.py).

The property fixes the outcome of an Interest by the name that was EXPRESSED.  express() / express_interest() accept a
NonStrictName: a URI string, an encoded name (bytes / bytearray / memoryview) or a sequence of components (str / bytes /
bytearray / memoryview, mixed).  Several of these stay writable for the caller after the call returned - a receive buffer
the name was decoded from without a copy is re-used for the next packet.  Whatever the caller later writes into its
buffers, the Interest that went out is the one whose name was in them at express time.

Two harness-level events carry this (neither is an event of the model or of the specification, where names are values):
    ('repr', i, kind, t, 0)     the Express of Interest i that follows hands its name over in representation `kind`
                                (KINDS below; without this event: a list of component byte strings, as before)
    ('scrib', mode, t, 0)       the caller overwrites every buffer it handed to express so far (MODES below) at time t
The specification sees the history without them (a scrib only advances the clock to t).
"""
import os

# representation kinds ------------------------------------------------------------------------------------------
# values (nothing the caller could change afterwards)
K_URI, K_BYTES_LIST, K_STR_LIST, K_WIRE_BYTES, K_VIEW_OF_BYTES_WIRE, K_VIEWS_OF_BYTES, K_DECODED_FROM_BYTES = range(7)
# caller-owned, writable for the caller after express returned
(K_WIRE_BYTEARRAY, K_BYTEARRAY_LIST, K_MIXED_LIST, K_WVIEWS_TUPLE, K_WVIEW_WIRE, K_WVIEW_REGION, K_WVIEWS_ONE_BUF,
 K_ROVIEW_WIRE, K_ROVIEW_REGION, K_ROVIEWS_ONE_BUF, K_DECODED_FROM_ROVIEW, K_ROVIEWS_OF_WVIEWS,
 K_SHARED_RX_DECODED, K_SHARED_RX_WVIEW) = range(7, 21)
N_KINDS = 21
KIND_NAMES = [
    'URI string', 'list of bytes', 'list of str components', 'encoded name as bytes',
    'memoryview of the encoded name (bytes)', 'list of memoryviews of bytes',
    'Name.from_bytes(memoryview(bytes)): views of a view of immutable bytes',
    'encoded name as caller-owned bytearray', 'list of caller-owned bytearrays',
    'mixed list: bytearray / memoryview(bytes) / str', 'tuple of writable memoryviews, one bytearray per component',
    'writable memoryview of the caller-owned encoded name', 'writable memoryview of a region of a larger caller-owned buffer',
    'list of writable memoryviews into ONE caller-owned buffer',
    'READ-ONLY memoryview (toreadonly) of the caller-owned encoded name',
    'read-only memoryview of a region of a larger caller-owned buffer',
    'list of read-only memoryviews into ONE caller-owned buffer',
    'Name.from_bytes(memoryview(bytearray).toreadonly()): read-only views of a view of a caller-owned buffer',
    'list of read-only views made from writable views (memoryview(b)[i:j].toreadonly()), one bytearray per component',
    'ONE receive buffer shared by all such Interests, rewritten in place for each: read-only decoded components',
    'ONE receive buffer shared by all such Interests, rewritten in place for each: writable view of the encoded name',
]
VALUE_KINDS = list(range(0, 7))
OWNED_KINDS = list(range(7, N_KINDS))
READONLY_OWNED_KINDS = [K_ROVIEW_WIRE, K_ROVIEW_REGION, K_ROVIEWS_ONE_BUF, K_DECODED_FROM_ROVIEW, K_ROVIEWS_OF_WVIEWS,
                        K_SHARED_RX_DECODED]

# scribble modes: 0 zeros, 1 0xFF, 2 the same layout spelling ANOTHER name of the lattice (every component respelt:
# a<->x, b<->c; digests inverted), 3 only the last component respelt, 4 only the first component respelt
N_MODES = 5
MODE_NAMES = ['zeros', '0xFF', 'every component respelt (another valid name)', 'last component respelt',
              'first component respelt']
_SWAP = {ord('a'): ord('x'), ord('x'): ord('a'), ord('b'): ord('c'), ord('c'): ord('b')}

# Shapes that expose the two aliasing defects of the UNCHANGED library found by this family (docs/C03.md, 'Caller-owned
# name buffers'): not judged until the integrator decided (fix or known finding).  VERIF_C03_JUDGE_OPEN=1 judges them.
JUDGE_OPEN_SHAPES = os.environ.get('VERIF_C03_JUDGE_OPEN', '1') == '1'   # judged since the library fix 2146f96 (set to 0 to see the pre-fix split)


def _tl_len(c):
    from ndn.encoding import Component
    return len(c) - len(Component.get_value(c))


def respell(c):
    """Another component of the same type and length."""
    c = bytes(c)
    o = _tl_len(c)
    v = c[o:]
    if len(v) == 1 and v[0] in _SWAP:
        return c[:o] + bytes([_SWAP[v[0]]])
    return c[:o] + bytes(x ^ 0x5A for x in v)


def swapped_name(name):
    """The lattice name (tuple of small ints, see _pipeline.comp) that scribble mode 2 spells over `name`."""
    m = {0: 23, 23: 0, 1: 2, 2: 1}
    return tuple(m.get(k, k) for k in name)


def images(pre, hdr, comps, post):
    n = len(pre) + len(hdr) + sum(len(c) for c in comps) + len(post)
    every = [respell(c) for c in comps]
    last = list(comps[:-1]) + [respell(c) for c in comps[-1:]]
    first = [respell(c) for c in comps[:1]] + list(comps[1:])
    return [bytes(n), b'\xff' * n] + [pre + hdr + b''.join(x) + post for x in (every, last, first)]


class Buffers:
    """What the caller of one run owns: the buffers it handed to express (with the images the scribble modes write) and,
    per Interest, where the components it expressed live in them."""
    RX_SIZE = 128
    RX_OFF = 5

    def __init__(self):
        self.bufs = []        # (bytearray, images)
        self.tracks = {}      # i -> [(bytearray, offset, original component bytes, is_digest)]
        self.changed = {}     # i -> [event index of the first rewrite that changed a component, name changed, digest changed]
        self.rx = None        # the shared receive buffer (kinds 19, 20)

    # -- building a representation ----------------------------------------------------------------------
    def represent(self, i, name, kind, has_digest):
        """`name`: list of component byte strings (the last one an implicit digest when has_digest).  Returns the
        argument for express()."""
        from ndn.encoding import Name, Component
        name = [bytes(c) for c in name]
        tr = self.tracks.setdefault(i, [])

        def is_dig(j):
            return has_digest and j == len(name) - 1

        def own(j):
            b = bytearray(name[j])
            self.bufs.append((b, images(b'', b'', [name[j]], b'')))
            tr.append((b, 0, name[j], is_dig(j)))
            return b

        def own_wire(pre=b'', post=b''):
            enc = bytes(Name.to_bytes(name))
            hdr = enc[:len(enc) - sum(len(c) for c in name)]
            b = bytearray(pre + enc + post)
            self.bufs.append((b, images(pre, hdr, name, post)))
            o = len(pre) + len(hdr)
            for j, c in enumerate(name):
                tr.append((b, o, c, is_dig(j)))
                o += len(c)
            return b

        def one_buf():
            b = bytearray(b''.join(name))
            self.bufs.append((b, images(b'', b'', name, b'')))
            o, spans = 0, []
            for j, c in enumerate(name):
                tr.append((b, o, c, is_dig(j)))
                spans.append((o, o + len(c)))
                o += len(c)
            return b, spans

        PRE, POST = b'\x07\x03\x08', b'\x08\x01a\x00\x00'
        if kind == K_URI:
            return Name.to_str(name)
        if kind == K_BYTES_LIST:
            return list(name)
        if kind == K_STR_LIST:
            return [Component.to_str(c) for c in name]
        if kind == K_WIRE_BYTES:
            return bytes(Name.to_bytes(name))
        if kind == K_VIEW_OF_BYTES_WIRE:
            return memoryview(bytes(Name.to_bytes(name)))
        if kind == K_VIEWS_OF_BYTES:
            return [memoryview(c) for c in name]
        if kind == K_DECODED_FROM_BYTES:
            return Name.from_bytes(memoryview(bytes(Name.to_bytes(name))))
        if kind == K_WIRE_BYTEARRAY:
            return own_wire()
        if kind == K_BYTEARRAY_LIST:
            return [own(j) for j in range(len(name))]
        if kind == K_MIXED_LIST:
            return [own(j) if j % 3 == 0 else memoryview(c) if j % 3 == 1 else Component.to_str(c) for j, c in enumerate(name)]
        if kind == K_WVIEWS_TUPLE:
            return tuple(memoryview(own(j)) for j in range(len(name)))
        if kind == K_WVIEW_WIRE:
            return memoryview(own_wire())
        if kind == K_WVIEW_REGION:
            b = own_wire(PRE, POST)
            return memoryview(b)[len(PRE):len(b) - len(POST)]
        if kind == K_WVIEWS_ONE_BUF:
            b, spans = one_buf()
            mv = memoryview(b)
            return [mv[p:q] for p, q in spans]
        if kind == K_ROVIEW_WIRE:
            return memoryview(own_wire()).toreadonly()
        if kind == K_ROVIEW_REGION:
            b = own_wire(PRE, POST)
            return memoryview(b).toreadonly()[len(PRE):len(b) - len(POST)]
        if kind == K_ROVIEWS_ONE_BUF:
            b, spans = one_buf()
            mv = memoryview(b).toreadonly()
            return [mv[p:q] for p, q in spans]
        if kind == K_DECODED_FROM_ROVIEW:
            return Name.from_bytes(memoryview(own_wire()).toreadonly())
        if kind == K_ROVIEWS_OF_WVIEWS:
            return [memoryview(own(j))[:].toreadonly() for j in range(len(name))]
        if kind in (K_SHARED_RX_DECODED, K_SHARED_RX_WVIEW):
            # the next packet is written into the receive buffer over the previous one
            if self.rx is None:
                self.rx = bytearray(self.RX_SIZE)
            enc = bytes(Name.to_bytes(name))
            hdr = enc[:len(enc) - sum(len(c) for c in name)]
            o = self.RX_OFF
            self.rx[o:o + len(enc)] = enc
            pre, post = bytes(self.rx[:o]), bytes(self.rx[o + len(enc):])
            # one entry per use of the buffer: a later scribble writes the image of the LAST packet put into it
            self.bufs = [(b, im) for b, im in self.bufs if b is not self.rx]
            self.bufs.append((self.rx, images(pre, hdr, name, post)))
            p = o + len(hdr)
            for j, c in enumerate(name):
                tr.append((self.rx, p, c, is_dig(j)))
                p += len(c)
            if kind == K_SHARED_RX_DECODED:
                return Name.from_bytes(memoryview(self.rx).toreadonly()[o:o + len(enc)])
            return memoryview(self.rx)[o:o + len(enc)]
        raise ValueError(kind)

    # -- rewriting ----------------------------------------------------------------------------------------
    def scribble(self, mode):
        for b, im in self.bufs:
            b[:] = im[mode]          # same length: allowed while views are exported

    def note_changes(self, k):
        """After event k (a scribble, or an express that re-used the shared receive buffer): which Interests no longer
        find the components they expressed in the caller's buffers."""
        for i, tr in self.tracks.items():
            nc = any(bytes(b[o:o + len(c)]) != c for b, o, c, d in tr if not d)
            dc = any(bytes(b[o:o + len(c)]) != c for b, o, c, d in tr if d)
            if nc or dc:
                cur = self.changed.setdefault(i, [k, False, False])
                cur[1] = cur[1] or nc
                cur[2] = cur[2] or dc

    def report(self):
        return sorted((i, k, nc, dc) for i, (k, nc, dc) in self.changed.items())


# =================================================================================================================
# generators (histories in the vocabulary of _pipeline)
# =================================================================================================================
def rep(i, kind, t):
    return [('repr', i, kind, t, 0)]


def strip(h):
    """The history the model and the specification see."""
    return [e for e in h if e[0] not in ('repr', 'scrib')]


def with_buffers(h, kinds, scrib_after, mode):
    """Metamorphic transformation of a history: Interest i is expressed through representation kinds[i] and the caller
    rewrites its buffers (scribble `mode`) behind the events whose indices are in `scrib_after` (at the time of that
    event).  The specification gives every Interest the same outcome as in the original history."""
    from harness.props import _pipeline as P
    # an immediately awaited Express stays immediately awaited: a rewrite 'behind the Express' comes behind its Await
    pts = set()
    for k in scrib_after:
        ev = h[k]
        if ev[0] == 'express' and k + 1 < len(h) and h[k + 1][0] == 'await' and h[k + 1][1] == ev[1] and h[k + 1][2] == ev[7]:
            k += 1
        pts.add(k)
    out = []
    for k, ev in enumerate(h):
        if ev[0] == 'express' and ev[1] in kinds:
            out += rep(ev[1], kinds[ev[1]], ev[7])
        out.append(ev)
        if k in pts:
            out.append(('scrib', mode, P.ev_time(ev), 0))
    return out


def family(fe, full=False):
    """Targeted table: representation kind x scribble mode x what ends the Interest after the caller rewrote its buffers."""
    from harness.props import _pipeline as P
    A, AB, ABC, X = P.A, P.AB, P.ABC, P.X
    PASS = P.PASS[fe]
    out = []
    n = 0
    for kind in range(N_KINDS):
        modes = range(N_MODES) if full else ((kind + 1) % N_MODES, (kind + 3) % N_MODES)
        for mode in modes:
            def add(tag, h):
                out.append((f'buffers-{tag}', h))

            def ex(i, name, t, k=kind, **kw):
                return rep(i, k, t) + P.ex(i, name, t, fe=fe, **kw)
            sc = [('scrib', mode, 20, 0)]
            n += 1
            tie = n % 3
            for name in ((AB,) if not full else (A, AB, ABC)):
                other = swapped_name(name)
                # rewritten while pending, then the Data / the Nack for the name that went out; a neighbour expressed as a
                # value on the name the rewritten buffer now spells must not be touched by that packet, and gets its own
                add('data', ex(0, name, 0) + P.ex(1, other, 0, life=300, fe=fe) + sc
                    + [('data', 0, name, 40, tie), ('data', 1, other, 60, 0), ('advance', 500)])
                add('nack', ex(0, name, 0) + P.ex(1, other, 0, life=300, fe=fe) + sc
                    + [('nack', name, None, 150, 40, tie), ('nack', other, None, 50, 60, 0), ('advance', 500)])
                # rewritten twice, between and after: Data at the very end of the lifetime
                add('data-late', ex(0, name, 0) + sc + [('scrib', (mode + 1) % N_MODES, 60, 0), ('data', 0, name, 99, tie), ('advance', 500)])
                # CanBePrefix: Data below the expressed name
                add('data-prefix', ex(0, name, 0, cbp=True) + sc + [('data', 0, name + (5,), 40, tie), ('advance', 500)])
                # the face shuts down / nothing arrives / the caller gives up
                add('shutdown', ex(0, name, 0) + ex(1, A if name != A else AB, 0, life=300) + sc + [('shutdown', 40, tie), ('advance', 500)])
                add('timeout', ex(0, name, 0) + sc + [('advance', 500)])
                add('cancel', ex(0, name, 0) + sc + [('cancel', 0, 40, tie), ('data', 0, name, 60, 0), ('advance', 500)])
                # implicit digest handed over in the caller's buffer too
                add('digest', ex(0, name, 0, dig=0) + ex(1, name, 0, dig='x', life=300) + sc + [('data', 0, name, 40, tie), ('advance', 500)])
                add('digest-nack', ex(0, name, 0, dig=0) + ex(1, name, 0, life=300) + sc
                    + [('nack', name, 0, 100, 40, tie), ('data', 1, name, 60, 0), ('advance', 500)])
                # two Interests on the name: the one with the caller-owned buffer creates the table node / finds it there
                add('two-first', ex(0, name, 0) + P.ex(1, name, 0, life=300, fe=fe) + sc + [('data', 0, name, 40, tie), ('advance', 500)])
                add('two-second', P.ex(1, name, 0, life=300, fe=fe) + ex(0, name, 0) + sc + [('data', 0, name, 40, tie), ('advance', 500)])
                # served while the buffer is intact, re-expressed through the SAME kind, rewritten, served again
                add('again', ex(0, name, 0) + [('data', 0, name, 10, 0)] + sc + ex(1, name, 30)
                    + [('scrib', (mode + 2) % N_MODES, 50, 0), ('data', 1, name, 70, tie), ('advance', 500)])
                # rewritten while the validator is at work / before the result is first awaited
                add('validating', ex(0, name, 0, vm=('def',)) + [('data', 0, name, 10, 0)] + sc + [('vdone', 0, PASS, 40, tie), ('advance', 500)])
                add('deferred-await', rep(0, kind, 0) + [('express', 0, name, False, None, 100, ('imm', PASS), 0, 0)] + sc
                    + [('await', 0, 30, 0), ('data', 0, name, 40, tie), ('advance', 500)])
                # rewritten in the very loop turn of the express and of the packet
                add('same-turn', ex(0, name, 0) + [('scrib', mode, 0, 0), ('data', 0, name, 40, 0), ('scrib', mode, 40, 0), ('advance', 500)])
            # the whole lattice pending through this kind (nested names share buffers' spelling), rewritten, then one Data
            # per name bottom-up and top-down
            for order in ((A, AB, ABC, X), (ABC, AB, A, X)):
                h = []
                for j, nm in enumerate((A, AB, ABC, X)):
                    h += ex(j, nm, 0, life=300)
                h += sc
                for j, nm in enumerate(order):
                    h += [('data', (A, AB, ABC, X).index(nm), nm, 40 + 10 * j, tie if j == 0 else 0)]
                add('lattice', h + [('advance', 500)])
            # one buffer after the other: every Interest of the lattice expressed in turn, each express preceded by a
            # rewrite of everything handed over before (the receive-buffer idiom); then the answers
            h = []
            for j, nm in enumerate((A, X, AB, A)):
                h += ex(j, nm, 10 * j, life=300, cbp=(j == 3)) + [('scrib', (mode + j) % N_MODES, 10 * j + 5, 0)]
            h += [('data', 1, X, 60, tie), ('nack', AB, None, 0, 70, 0), ('data', 0, A, 80, 0), ('advance', 500)]
            add('in-turn', h)
    return out


def transformed(fe, patterns, full=False):
    """EVERY well-formed targeted pattern of the pipeline with its names handed over in caller-owned buffers and the
    caller rewriting them at a later point of the history (every point in thorough, two rotating points in quick)."""
    from harness.props import _pipeline as P
    out = []
    n = 0
    for tag, h in patterns:
        if not P.is_wf(h):
            continue
        ids = P.expressed_ids(h)
        if not ids:
            continue
        points = [k for k, ev in enumerate(h) if ev[0] != 'express' and k + 1 < len(h)]
        n += 1
        if full:
            plans = [(OWNED_KINDS[(n + j) % len(OWNED_KINDS)], (k,), (n + j) % N_MODES) for j, k in enumerate(points)]
        else:
            plans = [(OWNED_KINDS[(n + j) % len(OWNED_KINDS)], (points[(n * (j + 1)) % len(points)],), (n + j) % N_MODES)
                     for j in range(2 if points else 0)]
        if len(points) > 1:
            plans.append((READONLY_OWNED_KINDS[n % len(READONLY_OWNED_KINDS)], tuple(points), n % N_MODES))
        seen = set()
        for kind, pts, mode in plans:
            # every Interest through the chosen kind except every third one (value neighbours stay in the table)
            kinds = {i: kind for j, i in enumerate(ids) if (j + n) % 3 != 2 or len(ids) == 1}
            g = with_buffers(h, kinds, set(pts), mode)
            key = repr(g)
            if key not in seen:
                seen.add(key)
                out.append(('buffers.' + tag, g))
    return out


def randomised(rng, fe, base):
    """A random well-formed (or deferred-await) history `base` with a random representation per Interest (owned kinds
    twice as often as values) and rewrites at random later points."""
    h = base
    ids = [ev[1] for ev in h if ev[0] == 'express']
    kinds = {}
    for i in ids:
        r = rng.random()
        if r < 0.55:
            kinds[i] = rng.choice(OWNED_KINDS)
        elif r < 0.7:
            kinds[i] = rng.choice(READONLY_OWNED_KINDS)
        elif r < 0.9:
            kinds[i] = rng.choice(VALUE_KINDS)
    pts = set()
    cand = [k for k, ev in enumerate(h) if ev[0] not in ('advance',)]
    for _ in range(rng.choice((1, 1, 2, 3))):
        if cand:
            pts.add(rng.choice(cand))
    return with_buffers(h, kinds, pts, rng.randrange(N_MODES))
