"""C19 — segmented fetch yields every segment once, in order, tolerating bounded loss.

The real ``ndn.app_support.segment_fetcher.segment_fetcher`` is driven with a fake ``app`` whose
``express_interest`` is a simulated producer + network (raising the real InterestTimeout / InterestNack /
ValidationFailure).  Three streams:

 A. scenarios (Spec/SegFetchSpec.v): an object of N segments, a discovery answer, a fate for every
    Interest of every key.  Compared: implementation trace vs extracted model trace (``ctx.disagree``);
    implementation (yields, ending) vs the extracted specification ``expected`` and vs a Python
    statement of the headline property (``ctx.violation``); every producer answer vs the extracted
    ``oracle_of`` (so the Python producer IS the specification's producer).
 B. adversarial producers: lazily generated answers with wrong / empty / non-canonical names and
    markers and arbitrary exceptions; the recorded (request, n) -> answer table is replayed through
    the model (correspondence) and the retry discipline is checked on the implementation trace.
 C. the same fetcher over a real NDNApp with a recording dummy face on the virtual-time loop: ties
    the keyword arguments to what app.express_interest actually sends (CanBePrefix, MustBeFresh,
    lifetime) and the real timeout / nack / validation paths of app.py.
 D/E. (c19_conc.py) several fetches at once over one fake / one real application.
 F. (c19_sig.py) really signed segments (own encoder, 33 signature shapes) with the application's default validator and
    the shipped checkers in force; "must be refused" recomputed on the wire.
 G. (c19_meta.py) the MetaInfo of the answers varies per packet (FreshnessPeriod / ContentType forms, MetaInfo element absent /
    empty / with an unknown element, FinalBlockId placement) x must_be_fresh x losses, over the real NDNApp.
 H. (c19_big.py) large objects: 255 / 256 / 257 and 65535 / 65536 / 65537 segments (the segment number changes width inside
    the object), over the fake application; yields / ending and the NAMES of the Interests (canonical segment component).
"""
import asyncio
import itertools
import struct

from harness.lib import gen as G
from harness.lib.model import exc_code

RULE = ('A: objects of N=0..12 segments x every discovery answer (segment k<N, unsegmented) x retry_times 0..4 x '
        'loss/nack/validation-failure patterns around the retry limit (exhaustive over {0,r-1,r,r+1} losses per key for N<=3 '
        'in quick, N<=4 thorough; sampled above) x FinalBlockId markers (exact, absent, early self-designation, designating '
        'another segment, non-canonical encoding, only on early segments) x must_be_fresh x lifetime; B: adversarial producers '
        '(wrong/empty/non-canonical names, malformed components, arbitrary exceptions); C: real NDNApp + dummy face, the '
        'NetworkNack of a nacked Interest drawn from every reason value / encoding (NackReason 0, Nack header without NackReason, '
        '1, 50/100/150, width boundaries up to 2^64-1, non-shortest encodings), the CALLER\'S VALIDATOR WITH A LATENCY (virtual time before '
        'its verdict): table lifetime {50, 200, 1000} x latency {0, 3 ms, L/2, 1 ms inside / exactly / 1 ms beyond what remains of the '
        'lifetime when the Data arrives, L, L+50, 99/101/150 ms, 2L+30, 10L} x retry_times {1, 3} x {all accepted: every / first / a '
        'middle / the last packet slow; discovery answer / middle / last segment rejected: every verdict slow, only the negative one '
        'slow; only the positive ones slow; another segment slow} + unsegmented accepted / rejected, and 40% of the sampled scenarios '
        'with a drawn (who is slow, latency) - judged on yields / ending / Interests sent (the fate of an Interest is decided by the '
        'packet that answered it, whatever time the verdict takes) and validator asked once per answered Interest; '
        'plus a table reason form x nacked key '
        '(discovery, first, middle, last segment) x losses before the Nack (0, retry-1); A/B: the InterestNack raised by the '
        'simulated network carries reasons from the same value set and the fetch must end with that reason. '
        'unsegmented objects (A and C): the name of the object relative to the fetched name - EQUAL (the CanBePrefix discovery '
        'Interest is answered by a Data with exactly its name), one component below, two or more below - in every sampled '
        'scenario with an unsegmented discovery answer and as a table relation x 9 shapes of the fetched name (1/3 generic '
        'components, trailing version / sequence / byte-offset / timestamp / keyword / empty component, long component) x '
        'discovery losses {0, r-1, r, r+1} x retry_times {1, 3} (A: x prefix mode; C: through the real pending-Interest table). '
        'CONCURRENT FETCHES (each fetch judged by Spec.expected on the scenario as that fetch met it): D: 2-3 fetchers over ONE fake '
        'application on the virtual-time loop, own fates / discovery answer / prefix form / retry_times / lifetime / MustBeFresh / start '
        'time each, answers take a round trip, slow segments only exist from an absolute time on, all receivers of one Data (same name, '
        'same arrival time) get the SAME (name, meta, content) objects - table N 2..4 x slow segment x FinalBlockId placement x stagger '
        '{0, 100, 450} x availability {300, 700} x discovery answer, plus sampled schedules; E: 2-3 fetchers over ONE real ndn.app.NDNApp '
        'whose face is a scheduled network (per name the answers to the first Interests it sees: Data after a delay - fast, slow, slower '
        'than a lifetime -, nothing, Nack with any reason form, Data failing validation; with / without forwarder-like aggregation); the '
        'face logs every Interest (with the fetch whose task sent it) and every packet handed to the application, and the scenario a '
        'fetch met is read off this log with the words of the property: its n-th Interest for a key is Delivered / Invalid / Nacked when '
        'a matching Data / Nack reached the application after it was sent and strictly before its lifetime ran out, else Lost (a packet '
        'within 0.1 ms of a deadline it could decide: case not judged, counted); one Data so answers Interests of several fetches '
        'expressed at different times with different deadlines - table over two fetches of a 3-segment object: lifetime {400, 1000} x '
        'stagger {100, L/2} x delay of ONE slow segment {inside the first lifetime: one Data answers both; between the deadline of the '
        'earlier and of the later Interest; after both} x slow segment {0, 1, 2} x FinalBlockId on every / the last segment x retry '
        'limits {(3,1), (1,3), (2,2)} x aggregation x later fetch with the same / half the lifetime, plus sampled schedules (one object '
        'or two below one parent, fetched by its own name or by the parent, different lifetimes, starts up to after a lifetime); besides '
        'the per-fetch oracles: re-expression only after the lifetime, no loop exception, pending-Interest table empty when all fetches '
        'ended. SIGNED SEGMENTS, SHIPPED VALIDATORS IN FORCE (F, c19_sig.py): one fetch over the real v1 NDNApp whose producer answers with '
        'Data packets encoded by the harness itself, element by element, each with a signature shape - DigestSha256 correct (plain / with '
        'KeyLocator / 2-octet SignatureType), digest wrong in the first / a middle / the last bit, all zeros, computed over the content only '
        '/ over the packet without SignatureInfo / over tampered content / tampered FinalBlockId / the name of another segment, 31 / 33 / 1 '
        'octets long, EMPTY SignatureValue (17 00), NO SignatureValue element; HmacWithSha256 correct / one bit wrong / other key / truncated / '
        'empty / no SignatureValue / tampered content / plain digest instead of the MAC / no or foreign KeyLocator; no SignatureInfo, '
        'SignatureValue without SignatureInfo, signature types nobody verifies - x the validator in force: the application DEFAULT '
        '(segment_fetcher called without validator / with validator=None), sha256_digest_checker, union_checker(digest), union_checker(digest, '
        'accept-all), union_checker(accept-all, digest), HmacChecker.from_key, union_checker(digest, HmacChecker), a strict validator of the '
        'harness passed explicitly / installed as app.data_validator - x position of the shaped segment (first, middle, last of 3; the only '
        'segment; an unsegmented object) x discovery answered by that very segment / by another one x losses before the answer {0, retry-1} '
        '(table), plus sampled objects of 0..6 segments where every segment draws its shape (several bad ones: the first one met decides) with '
        'losses around the limit.  Whether a packet MUST be refused is recomputed on the wire (own TLV walk, hashlib / hmac over Name .. '
        'SignatureInfo): it claims the signature type the validator in force verifies and its SignatureValue is not that function of the signed '
        'portion (or is absent) => refuse; claims it and verifies => accept; otherwise the verdict is left to the validator and read off '
        'what the fetch did.  Oracles: a packet that must be refused is never yielded (unverified-segment-yielded) and ends the fetch with '
        'ValidationFailure at its position (validation-failure-not-propagated), the scenario so obtained goes through Spec.expected / headline '
        '/ retry discipline / model trace like stream C, strict validator asked once per packet. '
        'METAINFO OF THE ANSWERS (G, c19_meta.py; also drawn in C): one fetch over the real v1 NDNApp, packets encoded by the harness itself '
        '(correctly signed; default validator / sha256_digest_checker / union_checker / strict validator in force), the MetaInfo of every packet '
        'chosen per packet: FreshnessPeriod absent / 0 / 1 / 2 / 255 / 256 / 1000 / 4000 / 65536 / 3600000 / 2^32 / 2^64-1 as NonNegativeInteger '
        'of every legal width (0 in 1, 2, 4, 8 octets); ContentType absent / BLOB written out / LINK / KEY / NACK(3) / Manifest / PrefixAnn / '
        'KiteAck / unassigned (9, 255) / application range (1024, 9999) / 65536 / 2^32 / 2^64-1, several widths; no MetaInfo element / an empty '
        'one / one with an unassigned non-critical element; FinalBlockId on no / the last / every / an early self-designating / a wrong '
        'earlier / only the first segment / non-canonical - tables: FreshnessPeriod form of ONE packet x position (first, middle, last of 3; '
        'the only segment; an unsegmented object) x discovery answered by that very packet / another one x must_be_fresh {True, False}; '
        'ContentType kind of ONE packet x position x discovery; marker style x one (FreshnessPeriod in {absent, 0, 1, large}, ContentType in '
        '{absent, LINK, KEY, NACK}) on EVERY segment x must_be_fresh with losses {0, att-1, att} on one key; MetaInfo element absent / empty / '
        'unknown element x FreshnessPeriod x must_be_fresh; sampled objects of 0..6 segments where every packet draws its MetaInfo (up to 60% '
        'FreshnessPeriod 0), losses around the limit, retry_times 0..3, 10% with one segment whose signature does not verify.  In stream C half '
        'of the sampled scenarios draw (ContentType, FreshnessPeriod) per Data (library encoder) - crossed with Nack forms, validation failure '
        'and validator latency - plus a table FreshnessPeriod {absent, 0, 1, large} x ContentType {BLOB, NACK, KEY} x must_be_fresh x later '
        'segment delivered / nacked / refused after retry-1 losses.  Oracle unchanged (the specification does not look at ContentType / '
        'FreshnessPeriod: a Data that reached the application inside the lifetime of a matching pending Interest was delivered): Spec.expected, '
        'headline, retry discipline (timeout-without-exhaustion), validator asked once per packet, site segment_fetcher+NDNApp(MetaInfo shapes). '
        'LARGE OBJECTS (H, c19_big.py): the number of segments crosses every width boundary of the segment number - objects of 255 / 256 / '
        '257 segments (thorough: 254..258, 300) and of 65535 / 65536 / 65537 segments, FinalBlockId on the last segment (alone / on every '
        'segment / on a sample of earlier ones), the producer publishes segment i under <object name>/<type 50, i as the SHORTEST of the '
        '1/2/4/8-octet forms> and answers a follow-up Interest for exactly such a name only, fetched through the fake application of '
        'streams A/B with the runaway limit lifted to the object size (about 1 s per 65537-segment fetch) - x discovery answered by '
        'segment 0 / the last / a segment at a boundary (255, 256, 65535) x retry_times {1, 3} (big: {2, 3}; thorough 0, 1, 4) x losses: none / '
        'retry-1 losses of every boundary segment (254..257, 65534..65536) and of the discovery Interest / a boundary segment exhausted '
        '(thorough: nacked, refused, last segment exhausted) x prefix form x call style x must_be_fresh.  Hundreds of segments: the whole '
        'stream-A judgement (model trace with fuel = size, Spec.expected, Spec.expected_asks, headline, discipline); tens of thousands '
        '(the extracted specification counts segments in unary): the headline property stated in Python - every content once, in order, '
        'Completed / the ending of the first exhausted key -, retry discipline, Interest parameters.  NAMES OF THE INTERESTS (every stream '
        'that goes through judge_fetch): each follow-up Interest is <object name> + one segment component in canonical shortest form (own '
        'TLV walk; classes segment-interest-name, segment-number-not-shortest-form); the canonical form is tied both ways at 0, 1, 127, 128, '
        '252..258, 65533..65538 (harness seg() = Spec.seg_comp) and additionally 2^32-2..2^32+1, 2^63-1, 2^63, 2^64-2, 2^64-1 '
        '(Component.from_segment = Model.comp_from_segment). '
        'non-trivial = at least one Interest answered with Data and at least two Interests sent; distinct by case hash')
ASSUMPTIONS = ['one fetch awaits one coroutine at a time (sequential by construction); SEVERAL fetches over one application are '
               'interleaved by asyncio - streams D and E run them on the virtual-time loop and judge each fetch against the scenario it '
               'met (read off the face log: which Data / Nack reached the application inside the lifetime of which Interest)',
               'Name.normalize of the name argument is C09; the model starts from the normalised name',
               'content None (Data without Content) is not generated; contents are bytes']

FUEL = 64


class Other(Exception):
    def __init__(self, n):
        super().__init__(n)
        self.n = n


def seg(i):
    """Component.from_segment, independently: type 50, shortest 1/2/4/8-byte big-endian number."""
    if i < 1 << 8:
        v = struct.pack('!B', i)
    elif i < 1 << 16:
        v = struct.pack('!H', i)
    elif i < 1 << 32:
        v = struct.pack('!I', i)
    else:
        v = struct.pack('!Q', i)
    return bytes([50, len(v)]) + v


def nb(name):
    return [bytes(c) for c in name]


# ---- encoding for the model ----------------------------------------------------------------------
def enc_exc(x):
    return list(x)


def enc_resp(r):
    if r[0] == 'data':
        return [1, r[1], r[2], [] if r[3] is None else [r[3]]]
    return [0, list(r[1])]


def enc_req(q):
    return [q[0], int(q[1]), int(q[2]), q[3]]


def enc_scn(s):
    ob = [s['base'], s['nseg'], s['contents'], [[] if m is None else [m] for m in s['markers']]]
    d = [0, s['disc'][1]] if s['disc'][0] == 'seg' else [1, s['disc'][1], s['disc'][2], [] if s['disc'][3] is None else [s['disc'][3]]]
    fs = [[[] if k is None else [k], l, df] for k, (l, df) in s['fates'].items()]
    return [ob, s['prefix'], d, fs]


def dec_ending(e):
    return tuple([e[0]] + ([tuple(e[1])] if len(e) > 1 else []))


def norm(x):
    if isinstance(x, (list, tuple)):
        return [norm(y) for y in x]
    if isinstance(x, bool):
        return int(x)
    if isinstance(x, (bytes, bytearray, memoryview)):
        return bytes(x)
    return x


LOST, NACKED, INVALID, DELIVERED = 0, 1, 2, 3


# ---- the fake application -------------------------------------------------------------------------
class FakeApp:
    """express_interest(name, validator=…, **kwargs) -> coroutine, like NDNApp; [answer] decides."""

    def __init__(self, answer, trace, as_view, nack_reason=150, limit=3000):
        self.limit = limit                 # events after which a fetch counts as runaway
        self.answer = answer
        self.trace = trace
        self.kwlog = []
        self.as_view = as_view
        self.counts = {}
        self.params = {}
        self.nack_reason = nack_reason     # what the InterestNack of a nacked Interest carries
        self.caught = None                 # the exception the fetch ended with

    def express_interest(self, name, app_param=None, validator=None, need_raw_packet=False, **kwargs):
        from ndn.encoding import Name, MetaInfo, InterestParam
        from ndn import types as T
        # the same keyword handling as NDNApp.express_interest: unknown keywords are ignored there too,
        # so go through the real InterestParam to read what would be sent
        try:
            ck = tuple(sorted(kwargs.items()))
            par = self.params.get(ck)
        except TypeError:
            ck = par = None
        if par is None:
            ip = InterestParam.from_dict(dict(kwargs))
            par = (bool(ip.can_be_prefix), bool(ip.must_be_fresh), ip.lifetime)
            if ck is not None:
                self.params[ck] = par       # a pure function of the keywords: read once per distinct keyword set of a fetch
        self.kwlog.append((validator, app_param, need_raw_packet, sorted(kwargs)))
        q = (nb(Name.normalize(name)),) + par
        key = (tuple(q[0]),) + par
        n = self.counts.get(key, 0)
        self.counts[key] = n + 1
        if len(self.trace) > self.limit:   # a mutated fetcher that never gives up must not hang the check
            raise RuntimeError(f'runaway fetch: more than {self.limit} events')
        r = self.answer(q, n)
        self.trace.append(['ask', q, r, n])

        async def co():
            if r[0] == 'data':
                wrap = (lambda b: memoryview(b)) if self.as_view else (lambda b: b)
                return ([wrap(c) for c in r[1]], MetaInfo(final_block_id=None if r[3] is None else wrap(r[3])), wrap(r[2]))
            x = r[1]
            if x[0] == 0:
                raise T.InterestTimeout()
            if x[0] == 1:
                raise T.InterestNack(self.nack_reason)
            if x[0] == 2:
                raise T.ValidationFailure(q[0], MetaInfo(), b'', None)
            raise Other(x[1])
        return co()


# reasons a Nack may carry (0 = None is legal and falsy; the rest: what forwarders send and the width boundaries)
NACK_REASONS = [150, 0, 50, 100, 0, 1, 255, 256, 65536, 1 << 32, (1 << 64) - 1]


def run_impl(loop, answer, name_arg, kw, as_view=False, max_yield=10 ** 6, nack_reason=150, limit=3000):
    from ndn.app_support.segment_fetcher import segment_fetcher
    from ndn import types as T
    trace = []
    app = FakeApp(answer, trace, as_view, nack_reason, limit)

    async def main():
        try:
            async for c in segment_fetcher(app, name_arg, **kw):
                trace.append(['yield', bytes(c)])
                if len(trace) > limit + 1000:
                    return (9,)
            return (0,)
        except T.InterestTimeout:
            return (1, (0,))
        except T.InterestNack as e:
            app.caught = e
            return (1, (1,))
        except T.ValidationFailure:
            return (1, (2,))
        except Other as e:
            return (1, (3, e.n))
        except Exception as e:  # noqa
            return (1, (4, exc_code(e)))
    ending = loop.run_until_complete(main())
    return trace, ending, app


def impl_events(trace):
    ev = []
    for t in trace:
        if t[0] == 'ask':
            ev.append([0, enc_req(t[1]), enc_resp(t[2])])
        else:
            ev.append([1, t[1]])
    return norm(ev)


# ---- the specification's producer, in Python -------------------------------------------------------
def scenario_answer(s):
    names = {tuple(s['base'] + [seg(i)]): i for i in range(s['nseg'])}

    def fate(k, n):
        l, df = s['fates'].get(k, ([], DELIVERED))
        return l[n] if n < len(l) else df

    def answer(q, n):
        name, cbp = q[0], q[1]
        if cbp:
            k = None if name == s['prefix'] else 'none'
        else:
            k = names.get(tuple(name), 'none')
        if k == 'none':
            return ('exc', (0,))
        f = fate(k, n)
        if f == LOST:
            return ('exc', (0,))
        if f == NACKED:
            return ('exc', (1,))
        if f == INVALID:
            return ('exc', (2,))
        if k is None and s['disc'][0] == 'whole':
            return ('data', s['disc'][1], s['disc'][2], s['disc'][3])
        i = s['disc'][1] if k is None else k
        return ('data', s['base'] + [seg(i)], s['contents'][i], s['markers'][i])
    return answer, fate


def headline(s, retry, fate):
    """The property, stated directly (independent of the Coq spec): returns (yields, ending) or None
    when the scenario is outside the headline's hypotheses (markers not 'exactly the last')."""
    att = max(1, retry)

    def result(k):
        for n in range(att):
            f = fate(k, n)
            if f == DELIVERED:
                return 'ok'
            if f == NACKED:
                return (1,)
            if f == INVALID:
                return (2,)
        return (0,)
    r = result(None)
    if r != 'ok':
        return [], (1, r)
    if s['disc'][0] == 'whole':
        return [s['disc'][2]], (0,)
    N = s['nseg']
    finals = [i for i in range(N) if s['markers'][i] == seg(i)]
    if finals != [N - 1]:
        return None
    out = []
    for i in range(N):
        if not (i == 0 and s['disc'][1] == 0):
            r = result(i)
            if r != 'ok':
                return out, (1, r)
        out.append(s['contents'][i])
    return out, (0,)


def check_discipline(ctx, trace, ending, att, case, site='segment_fetcher.retry', tag=''):
    """Retry discipline on the implementation's own trace (Proofs/SegFetchAny.v [disciplined])."""
    events = trace
    pos = 0
    while pos < len(events):
        t = events[pos]
        if t[0] == 'yield':
            pos += 1
            continue
        q = t[1]
        k = 0
        while pos < len(events) and events[pos][0] == 'ask' and events[pos][1] == q and events[pos][2] == ('exc', (0,)) and k < att:
            k += 1
            pos += 1
        if k == att:
            if pos != len(events) or ending != (1, (0,)):
                ctx.violation(site, tag + 'timeout-not-raised-after-attempts',
                              f'{att} consecutive timeouts for one Interest but the fetch went on / ended with {ending}', case)
            return
        if pos >= len(events) or events[pos][0] != 'ask' or events[pos][1] != q:
            ctx.violation(site, tag + 'timeout-not-retried',
                          f'a timed-out Interest was not re-expressed (after {k} of {att} attempts)', case)
            return
        r = events[pos][2]
        pos += 1
        if r[0] == 'exc':
            if pos != len(events) or ending != (1, tuple(r[1])):
                ctx.violation(site, tag + 'exception-not-propagated',
                              f'the awaited Interest raised {r[1]} but the fetch went on / ended with {ending}', case)
            return
    if ending == (1, (0,)):
        ctx.violation(site, tag + 'timeout-without-exhaustion', 'InterestTimeout raised before the attempts were used up', case)


def check_nack_reason(ctx, site, ending, got_reason, sent_reason, case, tag=''):
    """'Nacks propagate': the InterestNack the fetch ends with carries the reason of the Nack that was received."""
    if ending == (1, (1,)) and got_reason != sent_reason:
        ctx.violation(site, tag + 'nack-reason-changed',
                      f'the fetch ended with InterestNack(reason={got_reason!r}), the Nack received carried {sent_reason!r}', case)


def seg_number(comp):
    """Own TLV walk of one name component: the number of a segment component (type 50 in any type / length form, value 1..8
    octets big-endian), None for anything else."""
    def var(b, p):
        if p >= len(b):
            return None, p
        x = b[p]
        w = {253: 2, 254: 4, 255: 8}.get(x, 0)
        if w == 0:
            return x, p + 1
        if p + 1 + w > len(b):
            return None, p
        return int.from_bytes(b[p + 1:p + 1 + w], 'big'), p + 1 + w
    b = bytes(comp)
    t, p = var(b, 0)
    if t != 50:
        return None
    ln, p = var(b, p)
    if ln is None or ln != len(b) - p or not 1 <= ln <= 8:
        return None
    return int.from_bytes(b[p:], 'big')


def check_interest_names(ctx, s, asks, case, site, tag=''):
    """Every follow-up Interest (CanBePrefix = false) names ONE segment of the object by the name a producer publishes it
    under: the object's name (the received name minus its segment component) plus the segment component in canonical form -
    type 50, the number as the SHORTEST of the 1 / 2 / 4 / 8 octet big-endian forms (seg(), cross-checked against
    Spec.seg_comp at the width boundaries by stream H).  A segment asked for under any other spelling of its number matches
    no published packet: the fetch then times out although nothing was lost."""
    for t in asks:
        q = t[1]
        if q[1]:
            continue
        nm = q[0]
        i = seg_number(nm[-1]) if nm else None
        if i is None or nm[:-1] != s['base']:
            ctx.violation(site, tag + 'segment-interest-name',
                          f'follow-up Interest {[c.hex() for c in nm[-2:]]} is not <object name>/<segment component>', case)
            return
        if nm[-1] != seg(i):
            ctx.violation(site, tag + 'segment-number-not-shortest-form',
                          f'the Interest for segment {i} names it {nm[-1].hex()}; published (canonical) component is {seg(i).hex()}', case)
            return


def check_asks(ctx, M, cfg, es, asks, case, site):
    """The Interests the producer saw are exactly Spec.expected_asks (C19_interests_observed).  This is a
    statement about the model's fetch strategy, finer than the property (a fetcher that, say, reused the
    discovery answer for segment k would send fewer Interests and still satisfy C19), so a difference is
    reported as a broken tie, not as a property violation; the property-level claims about Interests are
    check_discipline and the parameter checks."""
    ea = norm(M([7, cfg, es]))
    ia = norm([enc_req(t[1]) for t in asks])
    if ia != ea:
        ctx.disagree(site + '.interests', f'producer saw {len(ia)} Interests, Spec.expected_asks lists {len(ea)}', case, ea, ia)


# ---- generators ----------------------------------------------------------------------------------------
def loss_patterns(r):
    att = max(1, r)
    return sorted({0, max(0, att - 1), att, att + 1})


def noncanon_seg(rng, i):
    return rng.choice([bytes([50, 2, 0, i & 255]), bytes([253, 0, 50, 1, i & 255]), bytes([50, 4, 0, 0, 0, i & 255]),
                       bytes([8, 1, i & 255]), bytes([50, 0]), bytes([52, 1, i & 255])])


def gen_markers(rng, N, style):
    if N == 0:
        return []
    if style == 'exact':
        m = [rng.choice([None, seg(N - 1)]) for _ in range(N)]
        m[N - 1] = seg(N - 1)
    elif style == 'all':
        m = [seg(N - 1)] * N
    elif style == 'absent':
        m = [None] * N
    elif style == 'early':           # an earlier segment designates itself final
        j = rng.randrange(N)
        m = [None] * N
        m[j] = seg(j)
        m[N - 1] = seg(N - 1)
    elif style == 'other':           # markers designating other segments, the last one exact
        m = [rng.choice([None, seg(rng.randrange(N + 2))]) for _ in range(N)]
        m = [None if (x == seg(i) and i != N - 1) else x for i, x in enumerate(m)]
        m[N - 1] = seg(N - 1)
    elif style == 'noncanon':        # the last segment carries a non-canonical / foreign marker
        m = [None] * N
        m[N - 1] = noncanon_seg(rng, N - 1)
    elif style == 'only_early':      # the end is announced on segment 0 only
        m = [None] * N
        m[0] = seg(N - 1)
    else:
        raise ValueError(style)
    return m


STYLES = ['exact', 'all', 'absent', 'early', 'other', 'noncanon', 'only_early']


def gen_base(rng):
    tvs = G.rand_name_tv(rng, 3)
    tvs = [tv for tv in tvs if tv[0] != 50 and tv[0] not in (1, 2)] or [(8, b'obj')]
    return nb(G.name_of_tv(tvs))


WHOLE_RELS = ['equal', 'child', 'deeper']
WHOLE_LAST = [bytes([8, 1, 0x78]), bytes([8, 0]), bytes([54, 1, 3]), bytes([52, 1, 0]), bytes([253, 0, 51, 1, 0])]


def whole_name(rng, base, prefix, rel):
    """Name of an unsegmented object relative to the fetched name: 'equal' = published under exactly the name that
    is fetched (the discovery Interest is CanBePrefix and its answer has the SAME name); 'child' / 'deeper' = one /
    two or more components below it.  The last component is never a segment (Spec wf_scenario)."""
    if rel == 'equal' and prefix:
        return list(prefix)
    if rel == 'deeper':
        return base + [rng.choice([bytes([8, 1, 0x6d]), bytes([54, 1, 9]), bytes([8, 0])]), rng.choice(WHOLE_LAST)]
    return base + [rng.choice(WHOLE_LAST)]


def mk_scenario(rng, N, disc_k, style, fates, prefix_mode=0, whole_rel=None, base=None):
    if base is None:
        base = gen_base(rng)
        if rng.random() < 0.4:
            base = base + [bytes([54, 1, rng.randrange(256)])]       # a version component
    prefix = base if prefix_mode == 0 else base[:max(0, len(base) - 1)]
    contents = [bytes([i, 0x63]) + G.rand_bytes(rng, rng.randint(0, 3)) for i in range(N)]
    if disc_k is None:
        nm = whole_name(rng, base, prefix, whole_rel or rng.choice(['equal', 'equal', 'child', 'child', 'deeper']))
        last = nm[-1]
        disc = ('whole', nm, b'whole' + G.rand_bytes(rng, 2), rng.choice([None, last, seg(0)]))
    else:
        disc = ('seg', disc_k)
    return {'base': base, 'nseg': N, 'contents': contents, 'markers': gen_markers(rng, N, style),
            'prefix': prefix, 'disc': disc, 'fates': fates}


def unsegmented_bases():
    """Shapes of the name an unsegmented object is fetched by: one generic component, several, a trailing version /
    sequence-number / byte-offset / timestamp / keyword-like typed component, an empty component, a long component."""
    g = lambda t: bytes([8, len(t)]) + t      # noqa
    return [[g(b'obj')], [g(b'a'), g(b'b'), g(b'c')], [g(b'obj'), bytes([54, 1, 7])], [g(b'obj'), bytes([58, 2, 1, 0])],
            [g(b'obj'), bytes([52, 1, 0])], [g(b'obj'), bytes([56, 1, 200])], [g(b'd'), bytes([8, 0])],
            [g(b'n'), bytes([32, 1, 0x41])], [g(b'x' * 40), g(b'y')]]


def fates_from(losses, faults=None):
    """losses: {key: number of initial losses}; afterwards delivered (or the given fault)."""
    f = {}
    for k, n in losses.items():
        after = DELIVERED if not faults or k not in faults else faults[k]
        f[k] = ([LOST] * n, after)
    return f


class Runaway(Exception):
    pass


def runaway(ctx, case):
    ctx.violation('segment_fetcher.retry', 'runaway', 'more than 3000 Interests/contents for one fetch: the fetcher does not give up', case)
    ctx.case(repr(case), True, None, 'runaway')
    ctx.stat('runaway')
    if ctx.stats['runaway'] >= 10:
        raise Runaway()


# ---- stream A -------------------------------------------------------------------------------------------
def run_scenario(ctx, loop, s, retry, lifetime, mbf, how, stratum):
    kw = {}
    name_arg = s['prefix']
    if how == 1:
        # string form of the name argument, when the URI round trip applies (C09: typed-number components
        # must be canonically encoded); otherwise the wire form
        from ndn.encoding import Name
        try:
            u = Name.to_str(s['prefix'])
            ok = nb(Name.normalize(u)) == s['prefix']
        except Exception:  # noqa
            ok = False
        name_arg = u if ok else bytes(Name.to_bytes(s['prefix']))
    if not (retry == 3 and how == 2):
        kw['retry_times'] = retry
    if not (lifetime == 4000 and how == 2):
        kw['timeout'] = lifetime
    if not (mbf is True and how == 2):
        kw['must_be_fresh'] = mbf
    validator = object() if how != 2 else None
    if validator is not None:
        kw['validator'] = validator
    answer, fate = scenario_answer(s)
    nack_reason = NACK_REASONS[(len(repr(s)) + retry + how) % len(NACK_REASONS)]
    trace, ending, app = run_impl(loop, answer, name_arg, kw, as_view=(how == 1), nack_reason=nack_reason)
    case = {'scenario': s, 'retry_times': retry, 'timeout': lifetime, 'must_be_fresh': mbf, 'call_style': how,
            'nack_reason': nack_reason}
    if len(trace) > 3000:
        runaway(ctx, case)
        return
    judge_fetch(ctx, s, retry, lifetime, mbf, trace, ending, case, stratum, fate=fate, kwlog=app.kwlog, validator=validator,
                got_reason=getattr(app.caught, 'reason', None), nack_reason=nack_reason, key=(repr(s), retry, lifetime, mbf, how))


def judge_fetch(ctx, s, retry, lifetime, mbf, trace, ending, case, stratum, fate=None, kwlog=None, validator=None,
                got_reason=None, nack_reason=None, key=None, site='segment_fetcher', tag='', fuel=None, with_model=True):
    """ONE fetch against the model and the specification: [trace] is what this fetch did (its Interests with the answers
    the scenario [s] gives them, and its yields, in order), [ending] how it ended.  Used for the sequential streams and,
    per fetch, for the concurrent ones (there [s] is the scenario as THIS fetch met it).  [fuel]: the model spends one
    unit per segment (default FUEL; objects of hundreds of segments pass their own).  [with_model=False] (objects of tens of
    thousands of segments, stream H: the extracted model indexes segments by unary numbers): the model / Spec.expected calls
    are left out and the expected (yields, ending) is the headline property's, which must then be applicable."""
    M = ctx.call
    if fate is None:
        fate = scenario_answer(s)[1]
    cfg = [retry, lifetime, int(mbf)]
    ys = [t[1] for t in trace if t[0] == 'yield']
    h = headline(s, retry, fate)
    if with_model:
        es = enc_scn(s)
        # the Python producer is the specification's producer
        # (objects of hundreds of segments: the first / last Interests, every Interest not answered with Data, every
        # re-expressed one, the segments 250..260 and every 16th - each such call ships the whole object to the model)
        nask = sum(1 for t in trace if t[0] == 'ask')
        j = -1
        for t in trace:
            if t[0] == 'ask':
                j += 1
                if nask > 100 and not (j < 4 or j >= nask - 4 or t[2][0] != 'data' or t[3] > 0 or j % 16 == 0 or 250 <= j <= 260):
                    continue
                mo = M([4, es, enc_req(t[1]), t[3]])
                if norm(mo) != norm(enc_resp(t[2])):
                    ctx.disagree('harness.producer', 'Python producer differs from Spec.oracle_of', case, mo, enc_resp(t[2]))
        # correspondence: model trace
        m = M([2, cfg, FUEL if fuel is None else fuel, es])
        mev, mend = norm(m[0]), dec_ending(m[1])
        iev = impl_events(trace)
        if mev != iev or mend != ending:
            ctx.disagree(site, 'trace / ending differ', case, [mev, mend], [iev, ending])
        # direct oracle 1: the extracted specification
        exp = M([3, retry, es])
        eys, eend = norm(exp[0]), dec_ending(exp[1])
    else:
        if h is None:
            raise ValueError('judge_fetch(with_model=False) needs a scenario inside the headline property')
        eys, eend = h
    if ys != eys:
        have = set(ys)
        missing = [c for c in eys if c not in have]
        dup = len(ys) != len(set(ys))
        cls = 'segment-missing' if missing else ('segment-duplicated' if dup else ('segments-out-of-order' if sorted(ys) == sorted(eys) else 'extra-content'))
        first = next((j for j, (a, b) in enumerate(zip(ys, eys)) if a != b), min(len(ys), len(eys)))
        ctx.violation(site, tag + cls, f'yielded {len(ys)} contents {[y.hex() for y in ys][:6]}, specification demands {len(eys)}: {[y.hex() for y in eys][:6]}'
                      + (f' (first difference at position {first})' if first >= 6 else ''), case)
    elif ending != eend:
        ctx.violation(site, tag + f'ending:{eend}->{ending}', f'fetch ended with {ending}, specification demands {eend}', case)
    # direct oracle 2: the headline property stated in Python
    if h is not None:
        ctx.stat('headline_applicable')
        if (ys, ending) != (h[0], h[1]):
            ctx.violation(site, tag + 'headline', f'got {len(ys)} contents / {ending}; property demands {len(h[0])} / {h[1]}', case)
    # direct oracle 3: what the producer saw
    att = max(1, retry)
    check_discipline(ctx, trace, ending, att, case, site=site + '.retry', tag=tag)
    check_nack_reason(ctx, site + '.retry', ending, got_reason, nack_reason, case, tag=tag)
    asks = [t for t in trace if t[0] == 'ask']
    for j, t in enumerate(asks):
        q = t[1]
        if q[2] != mbf or q[3] != lifetime:
            ctx.violation(site + '.express', tag + 'interest-parameters', f'Interest sent with must_be_fresh={q[2]} lifetime={q[3]}', case)
    for v in (kwlog or []):
        if v[0] is not validator or v[1] is not None or v[2]:
            ctx.violation(site + '.express', tag + 'validator-not-passed', 'express_interest called without the caller\'s validator', case)
    if with_model:
        check_asks(ctx, M, cfg, es, asks, case, site + '.express')
    check_interest_names(ctx, s, asks, case, site + '.express', tag)
    if asks and (asks[0][1][0] != s['prefix'] or not asks[0][1][1]):
        ctx.violation(site + '.express', tag + 'discovery-interest', 'first Interest is not the CanBePrefix Interest for the given name', case)
    nd = sum(1 for t in asks if t[1][1])
    if any(t[1][1] for t in asks[nd:]) or any(not t[1][1] for t in asks[:nd]):
        ctx.violation(site + '.express', tag + 'can-be-prefix-later', 'a follow-up Interest carries CanBePrefix', case)
    answered = sum(1 for t in asks if t[2][0] == 'data')
    ctx.case(key if key is not None else (repr(s), retry, lifetime, mbf), answered >= 1 and len(asks) >= 2,
             {'N': s['nseg'], 'disc': s['disc'][:2] if s['disc'][0] == 'seg' else 'whole', 'retry': retry,
              'yields': len(ys), 'ending': ending, 'interests': len(asks)}, stratum)
    ctx.stat(('' if site == 'segment_fetcher' else stratum.split('.')[0] + '.') + 'ending:' + str(ending))
    return ys, (eys, eend)


def stream_a(ctx, loop):
    rng = ctx.rng
    # exhaustive small scope: N <= 3 (4), every discovery, every loss pattern around the limit
    nmax = ctx.n(3, 4)
    for N in range(0, nmax + 1):
        for disc_k in list(range(N)) + [None]:
            for retry in ([1, 3] if not ctx.thorough else [0, 1, 2, 3]):
                keys = [None] + list(range(N))
                pats = loss_patterns(retry)
                for combo in itertools.product(pats, repeat=len(keys)):
                    losses = dict(zip(keys, combo))
                    s = mk_scenario(rng, N, disc_k, 'exact', fates_from(losses))
                    run_scenario(ctx, loop, s, retry, 4000, True, rng.choice([0, 0, 1, 2]), 'A.exhaustive')
    # unsegmented objects: name relation to the fetched name (equal / one below / deeper) x shape of the fetched name
    # x discovery losses around the limit x retry_times x call style; the single content is yielded once, then Completed
    for rel in WHOLE_RELS:
        for base in unsegmented_bases():
            for retry in (1, 3):
                for lost in loss_patterns(retry):
                    for pm in (0, 1):
                        s = mk_scenario(rng, rng.choice([0, 1, 3]), None, 'exact', fates_from({None: lost}), prefix_mode=pm,
                                        whole_rel=rel, base=base)
                        run_scenario(ctx, loop, s, retry, 4000, True, rng.choice([0, 1, 2]), 'A.unsegmented-' + rel)
    # N = 0: nothing published
    for retry in range(0, 5):
        s = mk_scenario(rng, 0, 0, 'exact', {None: ([], LOST)})
        run_scenario(ctx, loop, s, retry, 1000, False, 0, 'A.empty')
    # sampled: N up to 12, all marker styles, faults
    for _ in range(ctx.n(2500, 60000)):
        N = rng.choice([1, 1, 2, 3, 4, 5, 6, 8, 12]) if rng.random() < 0.9 else rng.randint(13, 40)
        disc_k = rng.choice(list(range(N)) + [None, 0, N - 1])
        retry = rng.choice([0, 1, 2, 3, 3, 4])
        att = max(1, retry)
        style = rng.choice(STYLES)
        keys = [None] + list(range(N))
        losses = {k: rng.choice([0, 0, 0, 1, att - 1, att - 1, att, att + 1]) if rng.random() < 0.5 else 0 for k in keys}
        mode = rng.random()
        faults = None
        fates = fates_from(losses)
        if mode < 0.25:
            k = rng.choice(keys)
            faults = {k: rng.choice([NACKED, INVALID])}
            fates = fates_from(losses, faults)
        elif mode < 0.4:
            # irregular patterns: lost, delivered, lost … (only the first window matters)
            for k in keys:
                fates[k] = ([rng.choice([LOST, LOST, DELIVERED, NACKED, INVALID]) if rng.random() < 0.3 else rng.choice([LOST, DELIVERED])
                             for _ in range(att + 2)], DELIVERED)
        s = mk_scenario(rng, N, disc_k, style, fates, prefix_mode=rng.choice([0, 0, 1]))
        run_scenario(ctx, loop, s, retry, rng.choice([4000, 4000, 1, 100, 60000]), rng.choice([True, True, False]),
                     rng.choice([0, 1, 2]), 'A.' + style)


# ---- stream B -------------------------------------------------------------------------------------------
def adversarial_answer(rng, budget):
    pool_exc = [('exc', (0,)), ('exc', (0,)), ('exc', (1,)), ('exc', (2,)), ('exc', (3, 7))]
    memo = {}
    total = [0]

    def answer(q, n):
        key = (repr(q), n)
        if key in memo:
            return memo[key]
        total[0] += 1
        name = q[0]
        if total[0] > budget:
            r = ('exc', (0,))
        else:
            c = rng.random()
            if c < 0.25:
                r = rng.choice(pool_exc)
            else:
                kind = rng.random()
                i = rng.randrange(0, 4)
                if kind < 0.45:
                    nm = (name if not q[1] else name + [seg(i)])
                elif kind < 0.6:
                    nm = name + [rng.choice([seg(i), noncanon_seg(rng, i)])]
                elif kind < 0.7:
                    nm = name[:-1] + [noncanon_seg(rng, i)] if name else [seg(i)]
                elif kind < 0.78:
                    nm = []
                elif kind < 0.86:
                    nm = name + [rng.choice([b'', bytes([253]), bytes([50]), bytes([50, 253, 0]), bytes([254, 0, 0])])]
                else:
                    nm = [bytes([8, 1, 0x7a])] + [seg(i)]
                last = nm[-1] if nm else None
                fb = rng.choice([None, None, last, seg(i), seg(i + 1), noncanon_seg(rng, i)])
                r = ('data', nm, bytes([total[0] & 255]) + G.rand_bytes(rng, 1), fb)
        memo[key] = r
        return r
    return answer, memo


def stream_b(ctx, loop):
    rng = ctx.rng
    M = ctx.call
    for _ in range(ctx.n(2500, 60000)):
        retry = rng.choice([0, 1, 2, 3])
        lifetime = rng.choice([4000, 50])
        mbf = rng.choice([True, False])
        prefix = gen_base(rng) if rng.random() < 0.9 else []
        answer, memo = adversarial_answer(rng, rng.choice([3, 8, 20]))
        nack_reason = rng.choice(NACK_REASONS)
        trace, ending, app = run_impl(loop, answer, prefix, {'retry_times': retry, 'timeout': lifetime, 'must_be_fresh': mbf},
                                      as_view=rng.random() < 0.5, nack_reason=nack_reason)
        # the table the implementation saw: per request the answers in the order given
        table = {}
        for t in trace:
            if t[0] == 'ask':
                table.setdefault(repr(t[1]), [t[1], []])[1].append(t[2])
        tb = [[enc_req(q), [enc_resp(r) for r in rs], [0, [0]]] for q, rs in table.values()]
        case = {'prefix': prefix, 'retry_times': retry, 'timeout': lifetime, 'must_be_fresh': mbf, 'table': tb,
                'nack_reason': nack_reason}
        if len(trace) > 3000:
            case['table'] = 'omitted'
            runaway(ctx, case)
            continue
        m = M([1, [retry, lifetime, int(mbf)], FUEL, prefix, tb])
        mev, mend = norm(m[0]), dec_ending(m[1])
        iev = impl_events(trace)
        if mev != iev or mend != ending:
            ctx.disagree('segment_fetcher(adversarial)', 'trace / ending differ', case, [mev, mend], [iev, ending])
        check_discipline(ctx, trace, ending, max(1, retry), case)
        check_nack_reason(ctx, 'segment_fetcher.retry', ending, getattr(app.caught, 'reason', None), nack_reason, case)
        asks = [t for t in trace if t[0] == 'ask']
        ctx.case(repr(case), any(t[2][0] == 'data' for t in asks) and len(asks) >= 2,
                 {'prefix': prefix, 'retry': retry, 'interests': len(asks), 'ending': ending}, 'B.adversarial')
        ctx.stat('B.ending:' + str(ending[:1] + ((ending[1][0],) if len(ending) > 1 else ())))


def run(ctx):
    loop = asyncio.new_event_loop()
    try:
        stream_a(ctx, loop)
        stream_b(ctx, loop)
        # objects whose segment count crosses the width boundaries of the segment number (255/256/257, 65535/65536/65537)
        from harness.props import c19_big
        c19_big.stream_h(ctx, loop)
    except Runaway:
        ctx.notes.append('stopped early: the fetcher under test does not terminate on lost Interests')
        return
    finally:
        loop.close()
    from harness.props import c19_app, c19_conc
    c19_app.stream_c(ctx)
    # several fetches at once over one application object (fake, real): each judged by the specification on its own
    try:
        c19_conc.stream_d(ctx)
        c19_conc.stream_e(ctx)
        # really signed segments, the shipped validators in force (the application's default, the shipped checkers)
        from harness.props import c19_sig
        c19_sig.stream_f(ctx)
        # the MetaInfo of the answers varies (FreshnessPeriod / ContentType forms, FinalBlockId placement) x must_be_fresh
        from harness.props import c19_meta
        c19_meta.stream_g(ctx)
    except Runaway:
        ctx.notes.append('stopped early: the fetcher under test does not terminate on lost Interests')


def replay(ctx, data):
    """Single-case replay for the concurrent streams (D, E) and the signed-segment stream (F); the sequential streams are
    re-run as a whole."""
    from harness.lib.core import unjson
    case = unjson(data.get('case') or (data.get('broken') or [{}])[0].get('case') or {})
    if isinstance(case, dict) and str(case.get('stream', '')).startswith('concurrent'):
        from harness.props import c19_conc
        c19_conc.replay(ctx, case)
    elif isinstance(case, dict) and str(case.get('stream', '')).startswith('large objects'):
        from harness.props import c19_big
        c19_big.replay(ctx, case)
    elif isinstance(case, dict) and case.get('stream') == 'real NDNApp, signed segments':
        from harness.props import c19_sig
        c19_sig.replay(ctx, case)
    else:
        ctx.notes.append('replay: no single-case replay for this stream; full run repeated with the same seed')
        run(ctx)
